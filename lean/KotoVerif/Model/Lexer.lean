/-
Model of `crates/lexer/src/lexer.rs` (`TokenLexer`): the whole token lexer, scanner by scanner,
mirroring the code's own counters (bytes vs widths vs line resets), not a tidy re-implementation.

Unicode facts (display width, XID_Start / XID_Continue, grapheme lengths) are *inputs*: each
character of the source arrives as a `Ch` record filled in by the harness from the same crates the
implementation uses. Keyword and symbol tables come from `Gen/LexTables.lean`, regenerated from the
Rust source on every run.
-/
import KotoVerif.Gen.LexTables

namespace KotoVerif.Lexer
open KotoVerif.Gen

/-- One source character with the external Unicode facts the lexer consults. -/
structure Ch where
  cp : Nat            -- code point
  width : Nat         -- `UnicodeWidthChar::width(c).unwrap_or(0)`
  idStart : Bool      -- XID_Start
  idCont : Bool       -- XID_Continue
  g1 : Nat            -- byte length of the first grapheme cluster of the suffix starting here
  g2 : Nat            -- byte length of the second grapheme cluster of that suffix (0 if none)
  deriving Repr, DecidableEq, Inhabited

def utf8Len (cp : Nat) : Nat :=
  if cp < 0x80 then 1 else if cp < 0x800 then 2 else if cp < 0x10000 then 3 else 4

def Ch.len (c : Ch) : Nat := utf8Len c.cp

structure Pos where
  line : Nat
  col : Nat
  deriving Repr, DecidableEq, Inhabited

structure Span where
  start : Pos
  stop : Pos
  deriving Repr, DecidableEq, Inhabited

inductive Quote | dq | sq
  deriving Repr, DecidableEq, Inhabited

inductive Token where
  | error | whitespace | newLine | commentSingle | commentMulti | number | id
  | stringStartNormal (q : Quote)
  | stringStartRaw (q : Quote) (hashes : Nat)
  | stringEnd | stringLiteral | underscore
  | else_ | elseIf
  | sym (s : Sym)
  deriving Repr, DecidableEq, Inhabited

inductive Mode where
  | literal (q : Quote)
  | templateExpr
  | templateInlineMap
  | templateFormat
  | rawStart (q : Quote) (hashes : Nat)
  | rawEnd (q : Quote) (hashes : Nat)
  deriving Repr, DecidableEq, Inhabited

structure St where
  cur : Nat := 0               -- current_byte
  prev : Nat := 0              -- previous_byte
  prevTok : Option Token := none
  span : Span := ⟨⟨0, 0⟩, ⟨0, 0⟩⟩
  indent : Nat := 0
  modes : List Mode := []      -- string_mode_stack, top first
  deriving Repr, DecidableEq, Inhabited

/-! ### character classes (ASCII predicates are written on code points) -/

def cpNL := 10
def cpCR := 13
def cpSpace := 32
def cpTab := 9
def cpHash := 35
def cpMinus := 45
def cpDQ := 34
def cpSQ := 39
def cpLBrace := 123
def cpRBrace := 125
def cpBackslash := 92
def cpUnderscore := 95
def cp_u := 117
def cp_r := 114
def cp_e := 101
def cp_b := 98
def cp_o := 111
def cp_x := 120
def cpDot := 46
def cpPlus := 43
def cp0 := 48

def quoteOf (cp : Nat) : Option Quote :=
  if cp = cpDQ then some .dq else if cp = cpSQ then some .sq else none

def isQuote (q : Quote) (cp : Nat) : Bool := quoteOf cp == some q

def isAsciiDigit (cp : Nat) : Bool := 48 ≤ cp && cp ≤ 57
def isDecimalDigit (cp : Nat) : Bool := isAsciiDigit cp || cp == cpUnderscore
def isBinaryDigit (cp : Nat) : Bool := cp == 48 || cp == 49 || cp == cpUnderscore
def isOctalDigit (cp : Nat) : Bool := (48 ≤ cp && cp ≤ 55) || cp == cpUnderscore
def isHexDigit (cp : Nat) : Bool :=
  isAsciiDigit cp || (65 ≤ cp && cp ≤ 70) || (97 ≤ cp && cp ≤ 102) || cp == cpUnderscore
def isWhitespace (cp : Nat) : Bool := cp == cpSpace || cp == cpTab

/-! ### source access -/

/-- `source.get(n..)`: the characters from byte offset `n`, or `none` when `n` is not a character
boundary (or beyond the end). -/
def dropBytes (n : Nat) : List Ch → Option (List Ch)
  | [] => if n = 0 then some [] else none
  | c :: cs =>
    if n = 0 then some (c :: cs)
    else if c.len ≤ n then dropBytes (n - c.len) cs else none

def byteLen (cs : List Ch) : Nat := (cs.map Ch.len).sum

/-- does `cs` start with the code points `pat`? (`str::starts_with`) -/
def startsWith : List Nat → List Ch → Bool
  | [], _ => true
  | _ :: _, [] => false
  | p :: ps, c :: cs => c.cp == p && startsWith ps cs

/-! ### `consume_and_count`, `consume_and_count_utf8` -/

/-- number of leading characters satisfying `p` (each counted as one byte, as the code does) -/
def countWhile (p : Nat → Bool) : List Ch → Nat
  | [] => 0
  | c :: cs => if p c.cp then 1 + countWhile p cs else 0

/-- (bytes, summed widths) of the leading characters satisfying `p` -/
def countWhileUtf8 (p : Ch → Bool) : List Ch → Nat × Nat
  | [] => (0, 0)
  | c :: cs =>
    if p c then
      let (b, w) := countWhileUtf8 p cs
      (c.len + b, c.width + w)
    else (0, 0)

/-! ### scanner results -/

/-- What a scanner does to the cursor. `stay` = returns without calling any `advance_*`. -/
inductive Move where
  | stay
  | adv (bytes : Nat) (stop : Pos)
  deriving Repr, DecidableEq, Inhabited

/-- `advance_line(n)` from end position `p` -/
def advLine (p : Pos) (n : Nat) : Move := .adv n ⟨p.line, p.col + n⟩
/-- `advance_line_utf8(bytes, count)` -/
def advLineUtf8 (p : Pos) (bytes count : Nat) : Move := .adv bytes ⟨p.line, p.col + count⟩

def peekIs (cs : List Ch) (cp : Nat) : Bool :=
  match cs with
  | c :: _ => c.cp == cp
  | [] => false

def peekSat (cs : List Ch) (p : Nat → Bool) : Bool :=
  match cs with
  | c :: _ => p c.cp
  | [] => false

/-! ### the generic scanning loop

All three `while let Some(c) = chars.next()` loops of the lexer (multi-line comment, string literal,
raw string contents) are instances of one combinator: per iteration the scanner looks at the current
character `c` and (read-only) at what follows, and either stops with a result or consumes `c` plus
`extra` following characters, having updated its byte counter and position. -/

inductive Act (ρ : Type) where
  | stop (r : ρ)
  | next (extra : Nat) (bytes : Nat) (pos : Pos)

def scan {ρ : Type} (act : Ch → List Ch → Nat → Pos → Act ρ) (eof : Nat → Pos → ρ) :
    Nat → List Ch → Nat → Pos → ρ
  | _, [], b, p => eof b p
  | skip + 1, _ :: cs, b, p => scan act eof skip cs b p
  | 0, c :: cs, b, p =>
    match act c cs b p with
    | .stop r => r
    | .next extra b' p' => scan act eof extra cs b' p'

/-! ### consume_newline -/
def consumeNewline (p : Pos) (cs : List Ch) : Token × Move :=
  -- cs starts with '\r' or '\n'
  let (consumed, cs) :=
    match cs with
    | c :: rest => if c.cp = cpCR then (2, rest) else (1, c :: rest)
    | [] => (1, [])
  match cs with
  | c :: _ => if c.cp = cpNL then (.newLine, .adv consumed ⟨p.line + 1, 0⟩) else (.error, .stay)
  | [] => (.error, .stay)

/-! ### consume_comment -/

/-- result of the multi-line comment loop: `none` = early `return Error` (CR not followed by LF),
else (bytes, position, end_found) -/
abbrev MultiRes := Option (Nat × Pos × Bool)

/-- one iteration of the `while let Some(c) = chars.next()` loop of the multi-line comment scanner -/
def multiCommentAct (c : Ch) (cs : List Ch) (bytes : Nat) (pos : Pos) : Act MultiRes :=
  let bytes := bytes + c.len
  let pos : Pos := ⟨pos.line, pos.col + c.width⟩
  if c.cp = cpHash then
    if peekIs cs cpMinus then .next 1 (bytes + 1) ⟨pos.line, pos.col + 1⟩ else .next 0 bytes pos
  else if c.cp = cpMinus then
    if peekIs cs cpHash then .stop (some (bytes + 1, ⟨pos.line, pos.col + 1⟩, true)) else .next 0 bytes pos
  else if c.cp = cpCR then
    if peekIs cs cpNL then .next 1 (bytes + 1) ⟨pos.line + 1, 0⟩ else .stop none
  else if c.cp = cpNL then .next 0 bytes ⟨pos.line + 1, 0⟩
  else .next 0 bytes pos

def multiCommentLoop (cs : List Ch) (bytes : Nat) (pos : Pos) : MultiRes :=
  scan multiCommentAct (fun b p => some (b, p, false)) 0 cs bytes pos

def notLineEnd (c : Ch) : Bool := !(c.cp == cpCR || c.cp == cpNL)

def consumeComment (p : Pos) (cs : List Ch) : Token × Move :=
  -- cs starts with '#'
  match cs with
  | [] => (.error, .stay)
  | _ :: rest =>
    if peekIs rest cpMinus then
      match multiCommentLoop rest 1 ⟨p.line, p.col + 1⟩ with
      | none => (.error, .stay)
      | some (bytes, pos, found) => (if found then .commentMulti else .error, .adv bytes pos)
    else
      let (b, w) := countWhileUtf8 notLineEnd rest
      (.commentSingle, advLineUtf8 p (b + 1) (w + 1))

/-! ### consume_string_literal -/

def stringLiteralAct (q : Quote) (c : Ch) (cs : List Ch) (bytes : Nat) (pos : Pos) : Act (Token × Move) :=
  if isQuote q c.cp then .stop (.stringLiteral, .adv bytes pos)
  else if c.cp = cpLBrace then .stop (.stringLiteral, .adv bytes pos)
  else if c.cp = cpBackslash then
    let bytes := bytes + 1
    let pos : Pos := ⟨pos.line, pos.col + 1⟩
    if peekIs cs cp_u then
      -- consume 'u'; skip the next char when it is '{'
      if peekIs (cs.drop 1) cpLBrace then .next 2 (bytes + 2) ⟨pos.line, pos.col + 2⟩
      else .next 1 (bytes + 1) ⟨pos.line, pos.col + 1⟩
    else if peekIs cs cpLBrace || peekIs cs cpBackslash || peekSat cs (isQuote q) then
      .next 1 (bytes + 1) ⟨pos.line, pos.col + 1⟩
    else .next 0 bytes pos
  else if c.cp = cpCR then
    if peekIs cs cpNL then .next 1 (bytes + 2) ⟨pos.line + 1, 0⟩ else .stop (.error, .stay)
  else if c.cp = cpNL then .next 0 (bytes + 1) ⟨pos.line + 1, 0⟩
  else .next 0 (bytes + c.len) ⟨pos.line, pos.col + c.width⟩

def stringLiteralLoop (q : Quote) (cs : List Ch) (bytes : Nat) (pos : Pos) : Token × Move :=
  scan (stringLiteralAct q) (fun _ _ => (.error, .stay)) 0 cs bytes pos

/-! ### raw strings -/

/-- `parse_raw_string_start`: `cs` is what follows the `r`. Returns (quote, hash_count). -/
def rawStringStart : List Ch → Nat → Option (Quote × Nat)
  | [], _ => none
  | c :: cs, hashes =>
    if c.cp = cpHash then
      if hashes + 1 = 256 then none else rawStringStart cs (hashes + 1)
    else match quoteOf c.cp with
      | some q => some (q, hashes)
      | none => none

/-- the `for i in 0..hash_count` look-ahead: number of leading '#' (at most `n`) -/
def matchHashes : Nat → List Ch → Nat
  | 0, _ => 0
  | _ + 1, [] => 0
  | n + 1, c :: cs => if c.cp = cpHash then matchHashes n cs + 1 else 0

def rawContentsAct (q : Quote) (hashes : Nat) (c : Ch) (cs : List Ch) (bytes : Nat) (pos : Pos) :
    Act (Option (Nat × Pos)) :=
  if isQuote q c.cp then
    let k := matchHashes hashes cs
    if k = hashes then .stop (some (bytes, pos))
    else
      -- quote + k hashes were consumed while looking for the end delimiter
      let n := 1 + k
      .next k (bytes + n) ⟨pos.line, pos.col + n⟩
  else if c.cp = cpCR then
    if peekIs cs cpNL then .next 1 (bytes + 2) ⟨pos.line + 1, 0⟩ else .stop none
  else if c.cp = cpNL then .next 0 (bytes + 1) ⟨pos.line + 1, 0⟩
  else .next 0 (bytes + c.len) ⟨pos.line, pos.col + c.width⟩

def rawContentsLoop (q : Quote) (hashes : Nat) (cs : List Ch) (bytes : Nat) (pos : Pos) : Option (Nat × Pos) :=
  scan (rawContentsAct q hashes) (fun _ _ => none) 0 cs bytes pos

/-! ### consume_format_options -/

/-- byte offset of the first '}' (`str::find('}')`) -/
def findRBrace : List Ch → Option Nat
  | [] => none
  | c :: cs => if c.cp = cpRBrace then some 0 else (findRBrace cs).map (· + c.len)

def isAlignChar (cp : Nat) : Bool := cp == 60 || cp == 94 || cp == 62   -- < ^ >

/-- `skip_bytes`: `fill.len() + 1` when the second grapheme is exactly one of `<`, `^`, `>` -/
def formatSkip (cs : List Ch) : Nat :=
  match cs with
  | [] => 0
  | c :: _ =>
    if c.g2 = 1 then
      match dropBytes c.g1 cs with
      | some (d :: _) => if isAlignChar d.cp then c.g1 + 1 else 0
      | _ => 0
    else 0

/-- the prefix of `cs` that is exactly `n` bytes long (`&input[..n]`); `none` when `n` is not a
character boundary of `cs` -/
def prefixAt (n : Nat) : List Ch → Option (List Ch)
  | [] => if n = 0 then some [] else none
  | c :: cs =>
    if n = 0 then some []
    else if c.len ≤ n then (prefixAt (n - c.len) cs).map (c :: ·) else none

/-- the position after the given characters: a line feed starts a new line at column 0, any other
character advances the column by its display width -/
def posAfter (p : Pos) : List Ch → Pos
  | [] => p
  | c :: cs => posAfter (if c.cp = cpNL then ⟨p.line + 1, 0⟩ else ⟨p.line, p.col + c.width⟩) cs

def consumeFormatOptions (p : Pos) (cs : List Ch) : Token × Move :=
  let skip := formatSkip cs
  match dropBytes skip cs with
  | none => (.error, .stay)
  | some rest =>
    match findRBrace rest with
    | none => (.error, .stay)
    | some e =>
      -- the options may contain line breaks and multi-byte characters: the position is tracked
      -- per character of the consumed text
      match prefixAt (e + skip) cs with
      | some consumed => (.stringLiteral, .adv (e + skip) (posAfter p consumed))
      | none => (.error, .stay)

/-! ### consume_number -/

/-- the optional exponent part: `e`, an optional sign, decimal digits -/
def numberExponent (bytes : Nat) (cs : List Ch) : Nat :=
  if peekIs cs cp_e then
    let cs1 := cs.drop 1
    if peekIs cs1 cpPlus || peekIs cs1 cpMinus then bytes + 2 + countWhile isDecimalDigit (cs1.drop 1)
    else bytes + 1 + countWhile isDecimalDigit cs1
  else bytes

/-- returns the number of bytes of the number token -/
def numberBytes (cs : List Ch) : Nat :=
  let leadingZero := peekIs cs cp0
  -- first char is an ASCII digit
  let n0 := if peekSat cs isAsciiDigit then 1 + countWhile isDecimalDigit (cs.drop 1) else 0
  let cs1 := cs.drop n0
  if peekIs cs1 cp_b && leadingZero && n0 == 1 then
    n0 + 1 + countWhile isBinaryDigit (cs1.drop 1)
  else if peekIs cs1 cp_o && leadingZero && n0 == 1 then
    n0 + 1 + countWhile isOctalDigit (cs1.drop 1)
  else if peekIs cs1 cp_x && leadingZero && n0 == 1 then
    n0 + 1 + countWhile isHexDigit (cs1.drop 1)
  else if peekIs cs1 cpDot then
    let cs2 := cs1.drop 1
    let continueFraction :=
      if peekSat cs2 isAsciiDigit then true
      else if peekIs cs2 cp_e then
        let la := cs2.drop 1
        peekSat la isDecimalDigit || peekIs la cpPlus || peekIs la cpMinus
      else false
    if continueFraction then
      let k := countWhile isDecimalDigit cs2
      numberExponent (n0 + 1 + k) (cs2.drop k)
    else n0
  else numberExponent n0 cs1

/-! ### identifiers, keywords, symbols -/

def lookupKeyword (idCps : List Nat) : List (List Nat × Sym) → Option (Nat × Sym)
  | [] => none
  | (k, t) :: rest => if idCps == k then some (k.length, t) else lookupKeyword idCps rest

def lookupSymbol (cs : List Ch) : List (List Nat × Sym) → Option (Nat × Sym)
  | [] => none
  | (k, t) :: rest => if startsWith k cs then some (k.length, t) else lookupSymbol cs rest

def elseCps : List Nat := [101, 108, 115, 101]
def elseIfCps : List Nat := [101, 108, 115, 101, 32, 105, 102]

/-- what `consume_id_or_keyword` decides -/
inductive IdRes where
  | tok (t : Token) (m : Move)
  | raw (q : Quote) (hashes : Nat) (m : Move)
  deriving Repr, Inhabited

/-- the identifier's characters: first char plus the XID_Continue run -/
def takeIdChars : List Ch → List Ch
  | [] => []
  | c :: cs => c :: cs.takeWhile (·.idCont)

/-- the character after `else if` (if any) does not continue an identifier -/
def elseIfBoundary (cs : List Ch) : Bool :=
  match (cs.drop 7).head? with
  | some c => !c.idCont
  | none => true

def consumeIdOrKeyword (p : Pos) (prevTok : Option Token) (cs : List Ch) : IdRes :=
  match cs with
  | [] => .tok .error .stay
  | c :: rest =>
    let (b, w) := countWhileUtf8 (·.idCont) rest
    let bytes := c.len + b
    let count := 1 + w
    let idCps := (takeIdChars cs).map (·.cp)
    if idCps == elseCps then
      -- `else if` needs a word boundary after `if` (`else iffy` is `else` followed by an id)
      if startsWith elseIfCps cs && elseIfBoundary cs then .tok .elseIf (advLine p 7)
      else .tok .else_ (advLine p 4)
    else
      let rawRes := if idCps == [cp_r] then rawStringStart rest 0 else none
      match rawRes with
      | some (q, h) => .raw q h (advLine p (2 + h))
      | none =>
        let kw := if prevTok == some (.sym .Dot) then none else lookupKeyword idCps keywordTable
        match kw with
        | some (n, t) => .tok (.sym t) (advLine p n)
        | none => .tok .id (advLineUtf8 p bytes count)

def consumeIgnored (p : Pos) (cs : List Ch) : Token × Move :=
  match cs with
  | [] => (.error, .stay)
  | c :: rest =>
    let (b, w) := countWhileUtf8 (·.idCont) rest
    (.underscore, advLineUtf8 p (c.len + b) (1 + w))

/-! ### get_next_token -/

def applyMove (s : St) (m : Move) : St :=
  match m with
  | .stay => s
  | .adv bytes stop => { s with prev := s.cur, cur := s.cur + bytes, span := ⟨s.span.stop, stop⟩ }

def popMode (ms : List Mode) : List Mode := ms.drop 1

/-- What one call of `get_next_token` decides, before it is applied to the cursor:
the token, the cursor move, the new mode stack, and (for leading whitespace) the new indent. -/
structure Decision where
  tok : Token
  move : Move
  modes : List Mode
  setIndent : Option Nat := none
  /-- produced by `consume_format_options` (used to state which tokens F-C09-1 concerns) -/
  fromFormat : Bool := false
  deriving Repr, Inhabited

/-- the `_ => match next_char` arm (no string mode, or inside a template expression) -/
def decideDefault (p : Pos) (prevTok : Option Token) (modes : List Mode) (c : Ch) (rest : List Ch) : Decision :=
  let cs := c :: rest
  let mode := modes.head?
  if isWhitespace c.cp then
    let count := countWhile isWhitespace cs
    { tok := .whitespace, move := advLine p count, modes := modes,
      setIndent := if prevTok == some .newLine || prevTok == none then some count else none }
  else if c.cp = cpCR || c.cp = cpNL then
    let r := consumeNewline p cs
    { tok := r.1, move := r.2, modes := modes }
  else if c.cp = cpHash then
    let r := consumeComment p cs
    { tok := r.1, move := r.2, modes := modes }
  else if c.cp = cpDQ then
    { tok := .stringStartNormal .dq, move := advLine p 1, modes := .literal .dq :: modes }
  else if c.cp = cpSQ then
    { tok := .stringStartNormal .sq, move := advLine p 1, modes := .literal .sq :: modes }
  else if isAsciiDigit c.cp then
    { tok := .number, move := advLine p (numberBytes cs), modes := modes }
  else if c.idStart then
    match consumeIdOrKeyword p prevTok cs with
    | .tok t m => { tok := t, move := m, modes := modes }
    | .raw q h m => { tok := .stringStartRaw q h, move := m, modes := .rawStart q h :: modes }
  else if c.cp = cpUnderscore then
    let r := consumeIgnored p cs
    { tok := r.1, move := r.2, modes := modes }
  else
    match lookupSymbol cs symbolTable with
    | none => { tok := .error, move := advLineUtf8 p c.len 1, modes := modes }
    | some (n, sy) =>
      let modes' :=
        if sy = .CurlyOpen ∧ mode = some .templateExpr then .templateInlineMap :: modes
        else if sy = .Colon ∧ mode = some .templateExpr then .templateFormat :: modes
        else if sy = .CurlyClose ∧ (mode = some .templateExpr ∨ mode = some .templateInlineMap) then
          popMode modes
        else modes
      { tok := .sym sy, move := advLine p n, modes := modes' }

/-- `get_next_token`'s dispatch on the string mode and the next character -/
def decideTok (p : Pos) (prevTok : Option Token) (modes : List Mode) (c : Ch) (rest : List Ch) : Decision :=
  let cs := c :: rest
  match modes.head? with
  | some (.literal q) =>
    if isQuote q c.cp then { tok := .stringEnd, move := advLine p 1, modes := popMode modes }
    else if c.cp = cpLBrace then { tok := .sym .CurlyOpen, move := advLine p 1, modes := .templateExpr :: modes }
    else
      let r := stringLiteralLoop q cs 0 p
      { tok := r.1, move := r.2, modes := modes }
  | some (.rawStart q h) =>
    match rawContentsLoop q h cs 0 p with
    | none => { tok := .error, move := .stay, modes := modes }
    | some (bytes, pos) => { tok := .stringLiteral, move := .adv bytes pos, modes := .rawEnd q h :: popMode modes }
  | some (.rawEnd _ h) => { tok := .stringEnd, move := advLine p (1 + h), modes := popMode modes }
  | some .templateFormat =>
    let r := consumeFormatOptions p cs
    -- the mode is popped only on success (after `advance_line`)
    { tok := r.1, move := r.2, modes := if r.1 = .stringLiteral then popMode modes else modes, fromFormat := true }
  | _ => decideDefault p prevTok modes c rest

/-- indent reset after a newline (start of `get_next_token`) -/
def resetIndent (s : St) : St :=
  if s.prevTok = some .newLine then { s with indent := 0 } else s

def applyDecision (s : St) (d : Decision) : St :=
  let s' := applyMove s d.move
  { s' with modes := d.modes, indent := d.setIndent.getD s'.indent, prevTok := some d.tok }

/-- One call of `get_next_token` together with its decision record. `none` = end of stream. -/
def stepD (src : List Ch) (s : St) : Option (Decision × St) :=
  match dropBytes s.cur src with
  | some (c :: rest) =>
    let s0 := resetIndent s
    let d := decideTok s0.span.stop s0.prevTok s0.modes c rest
    some (d, applyDecision s0 d)
  | _ => none

/-- One call of `get_next_token`. `none` = end of stream. -/
def step (src : List Ch) (s : St) : Option (Token × St) :=
  (stepD src s).map (fun (d, s') => (d.tok, s'))

/-- A lexed token as reported by `KotoLexer::next_token` (`fromFormat` is model-only bookkeeping). -/
structure Lexed where
  tok : Token
  startByte : Nat
  endByte : Nat
  span : Span
  indent : Nat
  fromFormat : Bool := false
  deriving Repr, DecidableEq, Inhabited

def lexedOf (d : Decision) (s : St) : Lexed := ⟨d.tok, s.prev, s.cur, s.span, s.indent, d.fromFormat⟩

/-- Tokens up to and including the first `Error` token (the real iterator may go on returning
`Error` forever without advancing; nothing after the first error is part of the property).
`fuel` bounds the number of tokens; `lexAll` supplies enough fuel for any input. -/
def lexFuel (src : List Ch) : Nat → St → List Lexed
  | 0, _ => []
  | fuel + 1, s =>
    match stepD src s with
    | none => []
    | some (d, s') =>
      let l := lexedOf d s'
      if d.tok = .error then [l] else l :: lexFuel src fuel s'

/-- Every non-error token advances the cursor, except at most one zero-length `StringLiteral`
token in a row (empty raw string contents, empty format spec), which changes the mode;
`3 * bytes + 3` tokens therefore always suffice (`Props/C09.lean`, `lexAll_complete`). -/
def lexAll (src : List Ch) : List Lexed := lexFuel src (3 * byteLen src + 3) {}

end KotoVerif.Lexer
