/-
C01 layer 3 — reference semantics of the modelled core of Koto: a fuel-indexed big-step evaluator

    eval F : (fuel : Nat) → Expr → St → Res Val × St

This is the *formalised language guide* (docs/language_guide.md). Where the guide is explicit the
evaluator follows the guide; where it is silent it follows the implementation and the decision is
listed below. `F : FloatOps` supplies float arithmetic (theorems are parametric in it).

State `St` = local variable environment (association list, numbered variables) + output trace
(`emit`/`print` events, appended in evaluation order). Control signals `Res`: `ok v`, `err e`,
`brk v` (a `break` travelling to the innermost loop; `break` without value carries `null`), `cont`,
`nofuel` (fuel exhausted — never a language outcome; "more fuel never changes a finished result" is
`Props/C01.fuel_monotone`).

**Representation of containers (documented choice).** Values are the immediate trees of
`Model/Value.lean`: a list *value* is its element sequence, `x[i] = v` rebinds `x` to the updated
sequence. Koto lists are shared by reference; sharing is observable only when one list object is
reachable twice and then mutated (aliasing — property C14, `Model/Heap`). The C01 generator stays
inside the alias-free envelope (a list variable that is index-assigned is never copied by
reference, and is not read as a bare operand while a later sibling mutates it), inside which the
immediate representation and the reference representation are observationally equal.

**Guide-prescribed semantics (explicit in the guide).**
* strict left-to-right evaluation of operands; `and`/`or` short-circuit and yield the *operand value*
  that decided (`null or 42` is `42`);
* only `null` and `false` are falsy;
* integer `+ - *` wrap (i64), `/` always yields a float, mixed int/float promotes to float;
* `x op= e` is `x = x op e` (so `x` is read *before* `e` is evaluated);
* the value of an assignment is the assigned value; `if` without `else` whose condition fails is
  `null`; a loop's value is the `break` value.

**Decisions where the guide is silent (follow the implementation).**
* comparison chains `a < b <= c`: every operand is evaluated once, left to right; the chain stops at
  the first false comparison (later operands are not evaluated) and its value is that of the last
  comparison performed. (A chain is what the parser builds for comparison operators without
  parentheses — they are right-associative in the table and the compiler chains a comparison whose
  right operand is an unparenthesised comparison; `==`/`!=` chain too.)
* ordering `< <= > >=` is defined on two numbers (total order of `impl Ord for KNumber`, NaN greatest)
  and on two strings (bytewise); anything else is a type error. `==`/`!=` never fail: values of
  different kinds are unequal; `1 == 1.0`; lists/tuples compare elementwise, maps by key lookup
  (order-insensitive), ranges structurally.
* `+` also joins two strings / lists / tuples / maps; the other arithmetic operators and all compound
  assignments accept numbers only (`s += 'x'` is a type error in Koto).
* `^` on two ints with a non-negative exponent wraps like `+ - *` (the power modulo 2⁶⁴, for every
  exponent — finding F-C01-5, exponents ≥ 2³² were truncated, is fixed in /repo 1b7bdc2); a negative exponent gives a float (`powf`); `%` with an
  *integer* zero divisor is NaN; float `%` / `powf` are outside the model (`unmodelled`).
* value of a loop that ends without `break`: the value of the last evaluation of its body, `null`
  when it never ran or when that evaluation ended in `continue`; `break` without value gives `null`.
* `switch` without a matching arm is `null`.
* `x[i] = e` evaluates `e`, then `i`, then reads `x`; its value is the value of `e`. A number index
  must satisfy `0 ≤ i < len` (floats truncate); a range index assigns every position of the clamped
  range. On a map, `m[i] = (key, value)` replaces the entry at position `i` in place (all positions kept);
  a key already used by another entry is an error (class `index`); other targets are type errors.
* `e[i]`: number index (no negatives; floats truncate) on list / tuple / string (one byte; strings
  with non-ASCII bytes are `unmodelled`) / map (→ `(key, value)`) / range with a start; range index =
  slice with both ends clamped (`KRange::indices`).
* ranges take the integer part of float bounds; `size` is defined for list/tuple/string(bytes)/map/
  bounded range; `for` iterates list, tuple, map (as `(key, value)` tuples) and bounded ranges
  (a descending range is empty); other iterables are `unmodelled`.
* interpolation / `print` render `null`, booleans, integers and strings; other kinds are `unmodelled`
  (float text is never compared, DESIGN §4).
* the loop variable of `for` is `null` after the loop ran to exhaustion (also when it never ran, also
  when the variable held something before); after `break` it keeps the item of that round.
* `not e` takes a whole expression (`not true and false` is `not (true and false)`), unary minus one
  term (`-2 ^ 2` is `(-2) ^ 2 = 4`), `^` is left-associative (`2 ^ 3 ^ 2 = 64`) — see `Model/Prec.lean`.
-/
import KotoVerif.Model.Value
import KotoVerif.Model.NumOps
import KotoVerif.Model.CoreSyntax

namespace KotoVerif.Core
open KotoVerif

/-- error classes (the harness maps runtime error messages to the same classes) -/
inductive Err where
  | type        -- wrong operand kind
  | index       -- index out of range / negative
  | unbound     -- read of a variable that was never assigned (never generated)
  | unmodelled  -- outside the modelled envelope (float `%`/`^`, float text, …): case is skipped
  deriving DecidableEq, Repr, Inhabited

/-- output events -/
inductive Ev where
  | emit (v : Val)
  | print (bytes : List Nat)
  deriving Repr, Inhabited

structure St where
  env : List (Nat × Val) := []
  out : List Ev := []
  deriving Inhabited

inductive Res (α : Type) where
  | ok (v : α)
  | err (e : Err)
  | brk (v : Val)
  | cont
  | nofuel
  deriving Inhabited

/-! ### environment -/

def lookup (x : Nat) : List (Nat × Val) → Option Val
  | [] => none
  | (y, v) :: rest => if x = y then some v else lookup x rest

def update (x : Nat) (v : Val) : List (Nat × Val) → List (Nat × Val)
  | [] => [(x, v)]
  | (y, w) :: rest => if x = y then (x, v) :: rest else (y, w) :: update x v rest

def St.set (s : St) (x : Nat) (v : Val) : St := { s with env := update x v s.env }
def St.push (s : St) (e : Ev) : St := { s with out := s.out ++ [e] }

/-! ### pure value operations -/

def lookupKey (k : List Nat) : List (Val × Val) → Option Val
  | [] => none
  | (.str k', v) :: rest => if k = k' then some v else lookupKey k rest
  | _ :: rest => lookupKey k rest

/-- `IndexMap::insert`: replace the value of an existing key in place, otherwise append -/
def insertKey (k : List Nat) (v : Val) : List (Val × Val) → List (Val × Val)
  | [] => [(.str k, v)]
  | (.str k', w) :: rest =>
    if k = k' then (.str k', v) :: rest else (.str k', w) :: insertKey k v rest
  | e :: rest => e :: insertKey k v rest

mutual
/-- `vm.rs run_equal` on immediate values -/
def veq (F : FloatOps) : Val → Val → Bool
  | .null, .null => true
  | .num a, .num b => Num.eq F a b
  | .bool a, .bool b => a == b
  | .str a, .str b => a == b
  | .range a b, .range c d => a == c && b == d
  | .list xs, .list ys => veqList F xs ys
  | .tuple xs, .tuple ys => veqList F xs ys
  | .map es, .map fs => es.length == fs.length && veqEntries F es fs
  | _, _ => false
/-- `compare_value_ranges` -/
def veqList (F : FloatOps) : List Val → List Val → Bool
  | [], [] => true
  | x :: xs, y :: ys => veq F x y && veqList F xs ys
  | _, _ => false
/-- `compare_value_maps`: every entry of the left map is found by key in the right map -/
def veqEntries (F : FloatOps) : List (Val × Val) → List (Val × Val) → Bool
  | [], _ => true
  | (.str k, v) :: es, fs =>
    (match lookupKey k fs with
     | some w => veq F v w
     | none => false) && veqEntries F es fs
  | _ :: _, _ => false
end

def bytesLt : List Nat → List Nat → Bool
  | [], [] => false
  | [], _ :: _ => true
  | _ :: _, [] => false
  | a :: as, b :: bs => if a < b then true else if b < a then false else bytesLt as bs

def negV (F : FloatOps) : Val → Except Err Val
  | .num n => .ok (.num (Num.neg F n))
  | _ => .error .type

/-- numbers only (`run_arithmetic_op!`, `run_compound_assign_op!`) -/
def arithNum (F : FloatOps) (op : ArithOp) (a b : Num) : Except Err Val :=
  match op with
  | .add => .ok (.num (Num.add F a b))
  | .sub => .ok (.num (Num.sub F a b))
  | .mul => .ok (.num (Num.mul F a b))
  | .div => .ok (.num (Num.div F a b))
  | .rem => if Num.remUsesFloat a b then .error .unmodelled else .ok (.num (Num.rem F a b))
  | .pow => if Num.powUsesFloat a b then .error .unmodelled else .ok (.num (Num.pow F a b))

/-- `Map + Map`: `data.extend(other)` -/
def mapExtend (es : List (Val × Val)) : List (Val × Val) → List (Val × Val)
  | [] => es
  | (.str k, v) :: rest => mapExtend (insertKey k v es) rest
  | _ :: rest => mapExtend es rest

/-- `run_add`, `run_subtract`, … -/
def arithV (F : FloatOps) (op : ArithOp) (a b : Val) : Except Err Val :=
  match op, a, b with
  | op, .num x, .num y => arithNum F op x y
  | .add, .str x, .str y => .ok (.str (x ++ y))
  | .add, .list x, .list y => .ok (.list (x ++ y))
  | .add, .tuple x, .tuple y => .ok (.tuple (x ++ y))
  | .add, .map x, .map y => .ok (.map (mapExtend x y))
  | _, _, _ => .error .type

/-- compound assignment: numbers only -/
def opAssignV (F : FloatOps) (op : ArithOp) (a b : Val) : Except Err Val :=
  match a, b with
  | .num x, .num y => arithNum F op x y
  | _, _ => .error .type

/-- `run_less` … `run_not_equal` -/
def cmpV (F : FloatOps) (op : CmpOp) (a b : Val) : Except Err Bool :=
  match op with
  | .eq => .ok (veq F a b)
  | .ne => .ok (!veq F a b)
  | .lt =>
    match a, b with
    | .num x, .num y => .ok (Num.lt' F x y)
    | .str x, .str y => .ok (bytesLt x y)
    | _, _ => .error .type
  | .le =>
    match a, b with
    | .num x, .num y => .ok (Num.le' F x y)
    | .str x, .str y => .ok (!bytesLt y x)
    | _, _ => .error .type
  | .gt =>
    match a, b with
    | .num x, .num y => .ok (Num.gt' F x y)
    | .str x, .str y => .ok (bytesLt y x)
    | _, _ => .error .type
  | .ge =>
    match a, b with
    | .num x, .num y => .ok (Num.ge' F x y)
    | .str x, .str y => .ok (!bytesLt x y)
    | _, _ => .error .type

def clampInt (x lo hi : Int) : Int := if x < lo then lo else if hi < x then hi else x

/-- `KRange::indices(len)`: start clamped to `0..=len`, end (exclusive) clamped to `start..=len` -/
def rangeIndices (start : Option Int64) (stop : Option (Int64 × Bool)) (len : Nat) : Nat × Nat :=
  let n : Int := len
  let s : Int := match start with
    | none => 0
    | some a => clampInt a.toInt 0 n
  let e0 : Int := match stop with
    | none => n
    | some (b, incl) =>
      let e := b.toInt + (if incl then 1 else 0)
      match start with
      | none => e
      | some a => if e < a.toInt then a.toInt else e
  let e := clampInt e0 s n
  (s.toNat, e.toNat)

/-- `KRange::size()` for a bounded range -/
def rangeSize (a : Int64) (b : Int64) (incl : Bool) : Nat :=
  let e := b.toInt + (if incl then 1 else 0)
  (e - a.toInt).toNat

def slice (xs : List α) (se : Nat × Nat) : List α := (xs.drop se.1).take (se.2 - se.1)

def isAscii (bs : List Nat) : Bool := bs.all (· < 128)

/-- `validate_index`: negative → error; `usize::from(n) >= size` → error -/
def validIndex (F : FloatOps) (n : Num) (size : Option Nat) : Except Err Nat :=
  if Num.isNegative F n then .error .index
  else
    let i := (Num.toI64 F n).toInt.toNat
    match size with
    | some sz => if i < sz then .ok i else .error .index
    | none => .ok i

/-- `run_index` -/
def indexV (F : FloatOps) (v i : Val) : Except Err Val :=
  match v, i with
  | .list xs, .num n => do
    let k ← validIndex F n (some xs.length)
    match xs[k]? with
    | some x => .ok x
    | none => .error .index
  | .list xs, .range a b => .ok (.list (slice xs (rangeIndices a b xs.length)))
  | .tuple xs, .num n => do
    let k ← validIndex F n (some xs.length)
    match xs[k]? with
    | some x => .ok x
    | none => .error .index
  | .tuple xs, .range a b => .ok (.tuple (slice xs (rangeIndices a b xs.length)))
  | .str bs, .num n =>
    if !isAscii bs then .error .unmodelled
    else do
      let k ← validIndex F n (some bs.length)
      match bs[k]? with
      | some x => .ok (.str [x])
      | none => .error .index
  | .str bs, .range a b =>
    if !isAscii bs then .error .unmodelled
    else .ok (.str (slice bs (rangeIndices a b bs.length)))
  | .map es, .num n => do
    let k ← validIndex F n (some es.length)
    match es[k]? with
    | some (key, x) => .ok (.tuple [key, x])
    | none => .error .index
  | .range (some a) stop, .num n =>
    let size := match stop with
      | some (b, incl) => some (rangeSize a b incl)
      | none => none
    do
      let k ← validIndex F n size
      .ok (.num (.i (a + Int64.ofNat k)))
  | _, _ => .error .type

def setAt : List Val → Nat → Val → List Val
  | [], _, _ => []
  | _ :: xs, 0, v => v :: xs
  | x :: xs, k + 1, v => x :: setAt xs k v

def fillRange : List Val → Nat → Nat → Nat → Val → List Val
  | [], _, _, _, _ => []
  | x :: xs, pos, s, e, v =>
    (if s ≤ pos ∧ pos < e then v else x) :: fillRange xs (pos + 1) s e v

def setEntryAt : List (Val × Val) → Nat → Val × Val → List (Val × Val)
  | [], _, _ => []
  | _ :: es, 0, e => e :: es
  | x :: es, k + 1, e => x :: setEntryAt es k e

/-- position of the entry with key `k` (`IndexMap::get_index_of`) -/
def keyIndex (k : List Nat) : List (Val × Val) → Nat → Option Nat
  | [], _ => none
  | (.str k', _) :: rest, pos => if k = k' then some pos else keyIndex k rest (pos + 1)
  | _ :: rest, pos => keyIndex k rest (pos + 1)

/-- `run_index_assign`: on a list (number or range index), on a map by position (`m[i] = (key,
value)` replaces the entry at position `i`; the order of all entries is kept; a key that another
entry already uses is an error, classed with the index errors) -/
def indexAssignV (F : FloatOps) (c i v : Val) : Except Err Val :=
  match c, i with
  | .list xs, .num n =>
    let k := (Num.toI64 F n).toInt.toNat
    if Num.nonNegative F n && k < xs.length then .ok (.list (setAt xs k v)) else .error .index
  | .list xs, .range a b =>
    let se := rangeIndices a b xs.length
    .ok (.list (fillRange xs 0 se.1 se.2 v))
  | .list _, _ => .error .type
  | .map es, .num n =>
    -- replace the entry at position `k` by `(key, value)`, keeping every position
    let k := (Num.toI64 F n).toInt.toNat
    if Num.nonNegative F n && k < es.length then
      match v with
      | .tuple [.str key, val] =>
        match keyIndex key es 0 with
        | some j => if j = k then .ok (.map (setEntryAt es k (.str key, val))) else .error .index
        | none => .ok (.map (setEntryAt es k (.str key, val)))
      | .tuple [_, _] => .error .unmodelled      -- non-string keys are outside the model
      | _ => .error .type                        -- "expected Tuple with 2 elements"
    else .error .index
  | .map _, _ => .error .type
  | _, _ => .error .type

/-- `run_size` / `koto.size` -/
def sizeV : Val → Except Err Val
  | .list xs => .ok (Val.int xs.length)
  | .tuple xs => .ok (Val.int xs.length)
  | .str bs => .ok (Val.int bs.length)
  | .map es => .ok (Val.int es.length)
  | .range (some a) (some (b, incl)) => .ok (Val.int (rangeSize a b incl))
  | _ => .error .type

/-- `run_make_range` -/
def mkRange (F : FloatOps) (a b : Option Val) (incl : Bool) : Except Err Val :=
  match a, b with
  | some (.num x), some (.num y) => .ok (.range (some (Num.toI64 F x)) (some (Num.toI64 F y, incl)))
  | some (.num x), none => .ok (.range (some (Num.toI64 F x)) none)
  | none, some (.num y) => .ok (.range none (some (Num.toI64 F y, incl)))
  | none, none => .ok (.range none none)
  | _, _ => .error .type

/-- text of a value inside an interpolated string / `print` (modelled kinds only) -/
def display : Val → Except Err (List Nat)
  | .null => .ok [110, 117, 108, 108]
  | .bool true => .ok [116, 114, 117, 101]
  | .bool false => .ok [102, 97, 108, 115, 101]
  | .num (.i n) => .ok (Num.intDigits n)
  | .str bs => .ok bs
  | _ => .error .unmodelled

def displayAll : List Val → Except Err (List Nat)
  | [] => .ok []
  | v :: vs => do
    let a ← display v
    let b ← displayAll vs
    .ok (a ++ b)

/-- items a `for` loop visits -/
def iterItems : Val → Except Err (List Val)
  | .list xs => .ok xs
  | .tuple xs => .ok xs
  | .map es => .ok (es.map (fun (k, v) => Val.tuple [k, v]))
  | .range (some a) (some (b, incl)) =>
    let n := rangeSize a b incl
    if n > 100000 then .error .unmodelled
    else .ok ((List.range n).map (fun k => Val.num (.i (a + Int64.ofNat k))))
  | .range _ _ => .error .type        -- "unbounded ranges can't be used as iterators"
  | _ => .error .unmodelled

def accessV (v : Val) (k : List Nat) : Except Err Val :=
  match v with
  | .map es =>
    match lookupKey k es with
    | some x => .ok x
    | none => .error .unmodelled      -- falls back to the core library's `map` module
  | _ => .error .unmodelled

/-! ### sequencing -/

/-- run `k` on a normal result, propagate every other signal -/
def seq {α β : Type} (r : Res α × St) (k : α → St → Res β × St) : Res β × St :=
  match r with
  | (.ok v, s) => k v s
  | (.err e, s) => (.err e, s)
  | (.brk v, s) => (.brk v, s)
  | (.cont, s) => (.cont, s)
  | (.nofuel, s) => (.nofuel, s)

def lift {α : Type} (x : Except Err α) (s : St) : Res α × St :=
  match x with
  | .ok v => (.ok v, s)
  | .error e => (.err e, s)

/-- what one evaluation of a loop body means for the loop: `ok v` → next round with `v` as the
value so far, `cont` → next round with `null`, `brk v` → the loop ends with `v` -/
def loopStep (r : Res Val × St) (again : Val → St → Res Val × St) : Res Val × St :=
  match r with
  | (.ok v, s) => again v s
  | (.cont, s) => again .null s
  | (.brk v, s) => (.ok v, s)
  | (.err e, s) => (.err e, s)
  | (.nofuel, s) => (.nofuel, s)

/-! ### the evaluator -/

mutual
def eval (F : FloatOps) : Nat → Expr → St → Res Val × St
  | 0, _, s => (.nofuel, s)
  | n + 1, e, s =>
    match e with
    | .lit v => (.ok v, s)
    | .var x =>
      match lookup x s.env with
      | some v => (.ok v, s)
      | none => (.err .unbound, s)
    | .neg a => seq (eval F n a s) fun v s => lift (negV F v) s
    | .not a => seq (eval F n a s) fun v s => (.ok (.bool (!v.truthy)), s)
    | .arith op a b =>
      seq (eval F n a s) fun va s => seq (eval F n b s) fun vb s => lift (arithV F op va vb) s
    | .cmp a rest => seq (eval F n a s) fun va s => evalChain F n va rest s
    | .and a b => seq (eval F n a s) fun va s => if va.truthy then eval F n b s else (.ok va, s)
    | .or a b => seq (eval F n a s) fun va s => if va.truthy then (.ok va, s) else eval F n b s
    | .assign x a => seq (eval F n a s) fun v s => (.ok v, s.set x v)
    | .opAssign op x a =>
      match lookup x s.env with
      | none => (.err .unbound, s)
      | some v0 =>
        seq (eval F n a s) fun v1 s =>
          match opAssignV F op v0 v1 with
          | .ok r => (.ok r, s.set x r)
          | .error e => (.err e, s)
    | .list es => seq (evalList F n es s) fun vs s => (.ok (.list vs), s)
    | .tuple es => seq (evalList F n es s) fun vs s => (.ok (.tuple vs), s)
    | .map entries => seq (evalEntries F n entries [] s) fun es s => (.ok (.map es), s)
    | .range a b incl =>
      seq (eval F n a s) fun va s => seq (eval F n b s) fun vb s =>
        lift (mkRange F (some va) (some vb) incl) s
    | .rangeFrom a => seq (eval F n a s) fun va s => lift (mkRange F (some va) none false) s
    | .rangeTo b incl => seq (eval F n b s) fun vb s => lift (mkRange F none (some vb) incl) s
    | .rangeFull => (.ok (.range none none), s)
    | .index a i =>
      seq (eval F n a s) fun va s => seq (eval F n i s) fun vi s => lift (indexV F va vi) s
    | .indexAssign x i a =>
      seq (eval F n a s) fun v s => seq (eval F n i s) fun vi s =>
        match lookup x s.env with
        | none => (.err .unbound, s)
        | some c =>
          match indexAssignV F c vi v with
          | .ok c' => (.ok v, s.set x c')
          | .error e => (.err e, s)
    | .access a k => seq (eval F n a s) fun va s => lift (accessV va k) s
    | .size a => seq (eval F n a s) fun va s => lift (sizeV va) s
    | .interp parts =>
      seq (evalList F n parts s) fun vs s =>
        match displayAll vs with
        | .ok bs => (.ok (.str bs), s)
        | .error e => (.err e, s)
    | .emit a => seq (eval F n a s) fun v s => (.ok v, s.push (.emit v))
    | .print a =>
      seq (eval F n a s) fun v s =>
        match display v with
        | .ok bs => (.ok .null, s.push (.print bs))
        | .error e => (.err e, s)
    | .block es => evalBlock F n es .null s
    | .ifThen c t => seq (eval F n c s) fun vc s => if vc.truthy then eval F n t s else (.ok .null, s)
    | .ifElse c t e => seq (eval F n c s) fun vc s => if vc.truthy then eval F n t s else eval F n e s
    | .switch arms => evalArms F n arms s
    | .while c b => evalLoop F n (some (c, false)) b .null s
    | .until c b => evalLoop F n (some (c, true)) b .null s
    | .loop b => evalLoop F n none b .null s
    | .for x it b =>
      seq (eval F n it s) fun vi s =>
        match iterItems vi with
        | .ok items => evalFor F n x items b .null s
        | .error e => (.err e, s)
    | .brk => (.brk .null, s)
    | .brkVal a => seq (eval F n a s) fun v s => (.brk v, s)
    | .cont => (.cont, s)
/-- operands left to right -/
def evalList (F : FloatOps) : Nat → Exprs → St → Res (List Val) × St
  | 0, _, s => (.nofuel, s)
  | n + 1, es, s =>
    match es with
    | .nil => (.ok [], s)
    | .cons e rest =>
      seq (eval F n e s) fun v s => seq (evalList F n rest s) fun vs s => (.ok (v :: vs), s)
/-- `prev op e rest…`: evaluate `e` once, compare; stop at the first false comparison -/
def evalChain (F : FloatOps) : Nat → Val → Chain → St → Res Val × St
  | 0, _, _, s => (.nofuel, s)
  | n + 1, prev, ch, s =>
    match ch with
    | .nil => (.ok (.bool true), s)
    | .cons op e rest =>
      seq (eval F n e s) fun v s =>
        match cmpV F op prev v with
        | .error err => (.err err, s)
        | .ok false => (.ok (.bool false), s)
        | .ok true =>
          match rest with
          | .nil => (.ok (.bool true), s)
          | .cons _ _ _ => evalChain F n v rest s
/-- map literal: entries in order, a repeated key replaces the earlier value in place -/
def evalEntries (F : FloatOps) : Nat → Entries → List (Val × Val) → St → Res (List (Val × Val)) × St
  | 0, _, _, s => (.nofuel, s)
  | n + 1, es, acc, s =>
    match es with
    | .nil => (.ok acc, s)
    | .cons k e rest => seq (eval F n e s) fun v s => evalEntries F n rest (insertKey k v acc) s
/-- first arm whose condition is truthy; no arm → `null` -/
def evalArms (F : FloatOps) : Nat → Arms → St → Res Val × St
  | 0, _, s => (.nofuel, s)
  | n + 1, arms, s =>
    match arms with
    | .nil => (.ok .null, s)
    | .els e => eval F n e s
    | .cons c e rest =>
      seq (eval F n c s) fun vc s => if vc.truthy then eval F n e s else evalArms F n rest s
/-- expressions in order; the value is that of the last one (`last` so far) -/
def evalBlock (F : FloatOps) : Nat → Exprs → Val → St → Res Val × St
  | 0, _, _, s => (.nofuel, s)
  | n + 1, es, last, s =>
    match es with
    | .nil => (.ok last, s)
    | .cons e rest => seq (eval F n e s) fun v s => evalBlock F n rest v s
/-- `while` (`neg = false`), `until` (`neg = true`), `loop` (`cond = none`); `acc` = value so far -/
def evalLoop (F : FloatOps) : Nat → Option (Expr × Bool) → Expr → Val → St → Res Val × St
  | 0, _, _, _, s => (.nofuel, s)
  | n + 1, cond, body, acc, s =>
    match cond with
    | none => loopStep (eval F n body s) fun v s => evalLoop F n cond body v s
    | some (c, neg) =>
      seq (eval F n c s) fun vc s =>
        if vc.truthy != neg then
          loopStep (eval F n body s) fun v s => evalLoop F n cond body v s
        else (.ok acc, s)
def evalFor (F : FloatOps) : Nat → Nat → List Val → Expr → Val → St → Res Val × St
  | 0, _, _, _, _, s => (.nofuel, s)
  | n + 1, x, items, body, acc, s =>
    match items with
    | [] => (.ok acc, s.set x .null)
    | item :: rest =>
      loopStep (eval F n body (s.set x item)) fun v s => evalFor F n x rest body v s
end

/-- run a whole program from the empty state -/
def run (F : FloatOps) (fuel : Nat) (e : Expr) : Res Val × St := eval F fuel e {}

end KotoVerif.Core
