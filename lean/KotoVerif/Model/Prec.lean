/-
C01 layer 1 — operator precedence: the precedence-climbing core of `koto_parser::Parser`.

Mirrors (crates/parser/src/parser.rs):
* `operator_precedence()` / `MIN_PRECEDENCE_AFTER_PIPE`  → `Gen/PrecTable.lean` (generated on every run)
* `parse_expression_start(previous, min_precedence, ctx)` → `parseStart fuel m ts`
  (parse one term, then continue)
* `parse_expression_continued(lhs, …, min_precedence, ctx)` → `parseCont fuel m lhs ts`
  - first `parse_assign_expression`: when the next token is `=`, the expression parsed *so far at this
    level* (`lhs`) is the target (must be an id, otherwise `ExpectedAssignmentTarget`); the right-hand
    side is a whole expression (`parse_expressions`) and the `Assign` node is returned *without*
    looping again;
  - otherwise, when the next token is an operator with `left_priority >= min_precedence`: consume it,
    parse the right operand with `parse_expression_start(&[], right_priority, …)`, build
    `BinaryOp{op, lhs, rhs}` and loop with the *same* `min_precedence`;
  - otherwise return `lhs`.
* `parse_term` (the arms that matter for operators)       → `parseTerm fuel ts`
  - `Number`, `Id`                    → operand
  - `(` expression `)`                → the nested expression (`Node::Nested` is dropped: the model's
                                        tree has no parenthesis node; the harness drops `Nested` too)
  - `-` directly followed by `Number` → a *negative literal* (`consume_number(negate = true)`), so
                                        `-2 ^ 2` is `(-2) ^ 2`
  - `-` followed by anything else     → `UnaryOp{Negate, parse_term()}`: the operand is one *term*,
                                        so `-x ^ 2` is `(-x) ^ 2`
  - `not`                             → `UnaryOp{Not, parse_expression()}`: the operand is a whole
                                        expression with minimum precedence 0, so `not a and b` is
                                        `not (a and b)`

Token lists are whitespace-free: the harness renders every binary operator with a space on both
sides and unary minus without a following space, which is the layout under which the real lexer /
parser take exactly these paths (layout sensitivity proper is C10's subject).

Recursion is structural on a fuel argument (all three functions are mutually recursive over the
*remaining token list*, which is not a structural argument); `parse` supplies enough fuel for every
token list (`Lemmas/C01Prec.lean` proves that for rendered trees; more fuel never changes a result).
-/
import KotoVerif.Gen.PrecTable

namespace KotoVerif.Prec
open KotoVerif.Gen

/-- operands: number literal, negative number literal (`-` directly before a number), identifier -/
inductive Atom where
  | num (n : Nat)
  | negNum (n : Nat)
  | id (x : Nat)
  deriving DecidableEq, Repr, Inhabited

inductive Tok where
  | num (n : Nat)
  | id (x : Nat)
  | op (o : OpTok)      -- includes `Subtract`, which is also the unary minus token
  | assign              -- `=`
  | not
  | lparen
  | rparen
  deriving DecidableEq, Repr, Inhabited

/-- AST shape of an operator expression (`Node::Nested` dropped). -/
inductive OpTree where
  | atom (a : Atom)
  | neg (e : OpTree)                    -- UnaryOp{Negate}
  | not (e : OpTree)                    -- UnaryOp{Not}
  | bin (o : OpTok) (l r : OpTree)      -- BinaryOp
  | assign (x : Nat) (e : OpTree)       -- Assign{target: Id x}
  deriving DecidableEq, Repr, Inhabited

/-- left priority of `operator_precedence()` -/
def lp (o : OpTok) : Nat := o.prec.1
/-- right priority of `operator_precedence()` -/
def rp (o : OpTok) : Nat := o.prec.2

abbrev PResult := Option (OpTree × List Tok)

/-! The three parser functions, written as *step functionals* over the functions they call (open
recursion): the bodies below are the code of `parse_term`, `parse_expression_start` and
`parse_expression_continued`; the recursive knot is tied by the fuel argument further down. -/

/-- `parse_term`; `pT` = `parse_term` (recursive call for the operand of unary minus),
`pS m` = `parse_expression_start` with minimum precedence `m` -/
def termStep (pT : List Tok → PResult) (pS : Nat → List Tok → PResult) : List Tok → PResult
  | .num n :: rest => some (.atom (.num n), rest)
  | .id x :: rest => some (.atom (.id x), rest)
  | .op .Subtract :: .num n :: rest => some (.atom (.negNum n), rest)
  | .op .Subtract :: rest =>
    match pT rest with
    | some (t, rest') => some (.neg t, rest')
    | none => none
  | .not :: rest =>
    match pS 0 rest with
    | some (e, rest') => some (.not e, rest')
    | none => none
  | .lparen :: rest =>
    match pS 0 rest with
    | some (e, .rparen :: rest') => some (e, rest')
    | _ => none
  | _ => none

/-- `parse_expression_start` with `min_precedence = m` -/
def startStep (pT : List Tok → PResult) (pC : Nat → OpTree → List Tok → PResult)
    (m : Nat) (ts : List Tok) : PResult :=
  match pT ts with
  | some (t, rest) => pC m t rest
  | none => none

/-- `parse_expression_continued` with `min_precedence = m` and the expression so far `lhs` -/
def contStep (pS : Nat → List Tok → PResult) (pC : Nat → OpTree → List Tok → PResult)
    (m : Nat) (lhs : OpTree) (ts : List Tok) : PResult :=
  match ts with
  | .assign :: rest =>
    match lhs with
    | .atom (.id x) =>
      match pS 0 rest with
      | some (e, rest') => some (.assign x e, rest')
      | none => none
    | _ => none
  | .op o :: rest =>
    if m ≤ lp o then
      match pS (rp o) rest with
      | some (rhs, rest') => pC m (.bin o lhs rhs) rest'
      | none => none
    else some (lhs, ts)
  | _ => some (lhs, ts)

mutual
def parseTerm : Nat → List Tok → PResult
  | 0, _ => none
  | fuel + 1, ts => termStep (parseTerm fuel) (parseStart fuel) ts
def parseStart : Nat → Nat → List Tok → PResult
  | 0, _, _ => none
  | fuel + 1, m, ts => startStep (parseTerm fuel) (parseCont fuel) m ts
def parseCont : Nat → Nat → OpTree → List Tok → PResult
  | 0, _, _, _ => none
  | fuel + 1, m, lhs, ts => contStep (parseStart fuel) (parseCont fuel) m lhs ts
end

/-- fuel that suffices for every token list produced by `tokens` (and far more than the recursion
depth of any successful parse: each level of recursion consumes a token at least every other call) -/
def parseFuel (ts : List Tok) : Nat := 6 * ts.length + 6

/-- `parse_expression` on a complete token list: `some tree` iff the whole list is one expression. -/
def parse (ts : List Tok) : Option OpTree :=
  match parseStart (parseFuel ts) 0 ts with
  | some (e, []) => some e
  | _ => none

/-! ### rendering with the fewest parentheses the table allows -/

/--
`render m f e`: tokens for `e` at a place where the parser is running with minimum precedence `m`
and where the token that follows is either no operator (`f = 0`) or an operator whose left priority
is at most `f`.

* `bin o l r` stands unparenthesised iff the loop at this level will take `o` (`m ≤ lp o`) and the
  parse of the right operand (minimum `rp o`) will stop at the following operator (`f < rp o`);
  the left operand is rendered at the same minimum with `o` following, the right operand at minimum
  `rp o` with the same follower.
* `not e` and `x = e` extend as far right as possible, so they stand unparenthesised only when no
  operator follows (`f = 0`).
* the operand of unary minus is a term that must not start with a number: an identifier stands as it
  is, everything else is parenthesised.
-/
def render : Nat → Nat → OpTree → List Tok
  | _, _, .atom (.num n) => [.num n]
  | _, _, .atom (.negNum n) => [.op .Subtract, .num n]
  | _, _, .atom (.id x) => [.id x]
  | _, _, .neg (.atom (.id x)) => [.op .Subtract, .id x]
  | _, _, .neg e => [.op .Subtract, .lparen] ++ render 0 0 e ++ [.rparen]
  | _, f, .not e =>
    if f = 0 then .not :: render 0 0 e else [.lparen, .not] ++ render 0 0 e ++ [.rparen]
  | _, f, .assign x e =>
    if f = 0 then [.id x, .assign] ++ render 0 0 e
    else [.lparen, .id x, .assign] ++ render 0 0 e ++ [.rparen]
  | m, f, .bin o l r =>
    if m ≤ lp o ∧ f < rp o then render m (lp o) l ++ [.op o] ++ render (rp o) f r
    else [.lparen] ++ (render 0 (lp o) l ++ [.op o] ++ render (rp o) 0 r) ++ [.rparen]

/-- tokens of a whole expression -/
def tokens (e : OpTree) : List Tok := render 0 0 e

/-! ### text (used by the driver and the harness; not part of any theorem) -/

def OpTok.text : OpTok → String
  | .Arrow => "->" | .AddAssign => "+=" | .SubtractAssign => "-=" | .MultiplyAssign => "*="
  | .DivideAssign => "/=" | .RemainderAssign => "%=" | .PowerAssign => "^="
  | .Or => "or" | .And => "and" | .Equal => "==" | .NotEqual => "!="
  | .Greater => ">" | .GreaterOrEqual => ">=" | .Less => "<" | .LessOrEqual => "<="
  | .Add => "+" | .Subtract => "-" | .Multiply => "*" | .Divide => "/" | .Remainder => "%"
  | .Power => "^"

/-- identifier names `a b c …` (`x<n>` beyond 26) -/
def idName (x : Nat) : String :=
  if x < 26 then String.singleton (Char.ofNat (97 + x)) else s!"x{x}"

/-- Koto source text of a token list: binary operators with a space on both sides, unary minus
(a `Subtract` token in term position) attached to its operand. `term = true` when the next token
is in term position. -/
def textAux : Bool → List Tok → String
  | _, [] => ""
  | t, .num n :: rest => (if t then "" else " ") ++ toString n ++ textAux false rest
  | t, .id x :: rest => (if t then "" else " ") ++ idName x ++ textAux false rest
  | true, .op .Subtract :: rest => "-" ++ textAux true rest
  | _, .op o :: rest => " " ++ OpTok.text o ++ " " ++ textAux true rest
  | _, .assign :: rest => " = " ++ textAux true rest
  | t, .not :: rest => (if t then "" else " ") ++ "not " ++ textAux true rest
  | t, .lparen :: rest => (if t then "" else " ") ++ "(" ++ textAux true rest
  | _, .rparen :: rest => ")" ++ textAux false rest

def text (ts : List Tok) : String := textAux true ts

end KotoVerif.Prec
