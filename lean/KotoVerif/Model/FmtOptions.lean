/-
Model of `StringFormatOptions::parse` (crates/parser/src/string_format_options.rs) and of
`render_format_options` (crates/format/src/format.rs), the two ends of the formatter's
re-rendering of `{expr:options}` placeholders.

Text is a list of code points. The only Unicode fact `parse` uses — the length of the first
grapheme cluster of the format string (`format_string.graphemes(true).next()`) — is an input
(`g1`, in code points, supplied by the harness from `unicode-segmentation`).

(C15 has its own model of the run-time application of these options; this file is independent.)
-/
namespace KotoVerif.FmtOptions

inductive Align where
  | default | left | center | right
  deriving Repr, DecidableEq, Inhabited

inductive Repr' where
  | debug | hexLower | hexUpper | binary | octal | expLower | expUpper
  deriving Repr, DecidableEq, Inhabited

/-- `StringFormatOptions` (the fill character is the string constant it points to). -/
structure Opts where
  align : Align := .default
  minWidth : Option Nat := none
  precision : Option Nat := none
  fill : Option (List Nat) := none
  repr : Option Repr' := none
  deriving Repr, DecidableEq, Inhabited

/-- `FormatParsePosition` -/
inductive PPos where
  | start | alignment | minWidth | precision | type | «end»
  deriving Repr, DecidableEq, Inhabited

/-- `StringFormatError` (`InternalError` = constant pool overflow, not modelled) -/
inductive Err where
  | expectedNumber (c : Nat)
  | tooLarge
  | unexpected (c : Nat)
  | fuel
  deriving Repr, DecidableEq, Inhabited

deriving instance DecidableEq for Except

def u32Max : Nat := 4294967295

def isAlignCh (c : Nat) : Bool := c == 60 || c == 94 || c == 62 -- '<' '^' '>'

/-- `char_to_alignment` (only called on `<`, `^`, `>`) -/
def alignOf (c : Nat) : Align :=
  if c == 60 then .left else if c == 94 then .center else .right

def isDigit (c : Nat) : Bool := 48 ≤ c && c ≤ 57

def reprOf (c : Nat) : Option Repr' :=
  if c == 63 then some .debug           -- '?'
  else if c == 98 then some .binary     -- 'b'
  else if c == 111 then some .octal     -- 'o'
  else if c == 120 then some .hexLower  -- 'x'
  else if c == 88 then some .hexUpper   -- 'X'
  else if c == 101 then some .expLower  -- 'e'
  else if c == 69 then some .expUpper   -- 'E'
  else none

/-- The loop of `consume_u32` after its first digit: `n` so far, remaining characters.
`none` = `FormatNumberIsTooLarge`. -/
def consumeDigits : Nat → List Nat → Option (Nat × List Nat)
  | n, [] => some (n, [])
  | n, c :: cs =>
    if isDigit c then
      let n' := n * 10 + (c - 48)
      if n' > u32Max then none else consumeDigits n' cs
    else some (n, c :: cs)

def posIn (p : PPos) (ps : List PPos) : Bool := ps.contains p

/-- `chars.peek()` satisfies `p` -/
def headIs (p : Nat → Bool) : List Nat → Bool
  | c :: _ => p c
  | [] => false

/-- One iteration of `while let Some(next) = chars.next() { match (next, chars.peek(), position) … }`.
`s`/`g1`: the whole format string and the length of its first grapheme cluster (used by the
fall-back arm at `Start`). Returns the new position, options and remaining characters. -/
def step (s : List Nat) (g1 : Nat) (next : Nat) (rest : List Nat) (pos : PPos) (o : Opts) :
    Except Err (PPos × Opts × List Nat) :=
  let peekAlign := headIs isAlignCh rest
  let peekDigit := headIs isDigit rest
  -- (_, Some('<' | '^' | '>'), Start): single-character fill followed by an alignment
  if pos == .start && peekAlign then
    match rest with
    | p :: rest' => .ok (.minWidth, { o with fill := some [next], align := alignOf p }, rest')
    | [] => .error .fuel
  -- ('<' | '^' | '>', _, Start | Alignment)
  else if isAlignCh next && posIn pos [.start, .alignment] then
    .ok (.minWidth, { o with align := alignOf next }, rest)
  -- ('0', Some('0'..='9'), Start | MinWidth): zero fill
  else if next == 48 && peekDigit && posIn pos [.start, .minWidth] then
    .ok (.minWidth, { o with fill := some [48] }, rest)
  -- ('0'..='9', _, Start | MinWidth)
  else if isDigit next && posIn pos [.start, .minWidth] then
    match consumeDigits (next - 48) rest with
    | none => .error .tooLarge
    | some (n, rest') => .ok (.precision, { o with minWidth := some n }, rest')
  -- ('.', Some(_), Start | MinWidth | Precision)
  else if next == 46 && !rest.isEmpty && posIn pos [.start, .minWidth, .precision] then
    match rest with
    | d :: rest' =>
      if isDigit d then
        match consumeDigits (d - 48) rest' with
        | none => .error .tooLarge
        | some (n, rest'') => .ok (.type, { o with precision := some n }, rest'')
      else .error (.expectedNumber d)
    | [] => .error .fuel
  -- ('?' | 'b' | 'o' | 'x' | 'X' | 'e' | 'E', _, Start | MinWidth | Precision | Type)
  else if (reprOf next).isSome && posIn pos [.start, .minWidth, .precision, .type] then
    .ok (.end, { o with repr := reprOf next }, rest)
  -- (_, _, Start): the first grapheme cluster is the fill
  else if pos == .start then
    .ok (.alignment, { o with fill := some (s.take (max g1 1)) }, s.drop (max g1 1))
  else .error (.unexpected next)

/-- The `while` loop. Every iteration consumes at least one character, so `fuel = length` suffices. -/
def loop (s : List Nat) (g1 : Nat) : Nat → PPos → Opts → List Nat → Except Err Opts
  | _, _, o, [] => .ok o
  | 0, _, _, _ :: _ => .error .fuel
  | fuel + 1, pos, o, next :: rest =>
    match step s g1 next rest pos o with
    | .error e => .error e
    | .ok (pos', o', rest') => loop s g1 fuel pos' o' rest'

/-- The check in front of the loop (since /repo 60c7e2a): a first grapheme cluster (`g1` code points)
that is directly followed by a grapheme cluster consisting of exactly one alignment character
(`g2` = length of the second cluster) is the fill, whatever it starts with. Returns the pre-filled
options and the remaining characters. -/
def preCheck (s : List Nat) (g1 g2 : Nat) : Option (Opts × List Nat) :=
  if g1 ≥ 1 && g2 == 1 then
    match s[g1]? with
    | some a => if isAlignCh a then some ({ fill := some (s.take g1), align := alignOf a }, s.drop (g1 + 1)) else none
    | none => none
  else none

/-- `StringFormatOptions::parse(format_string)`; `g1`, `g2`: the lengths (in code points) of the first
two grapheme clusters of the format string. -/
def parse (s : List Nat) (g1 g2 : Nat) : Except Err Opts :=
  match preCheck s g1 g2 with
  | some (o, rest) => loop s g1 s.length .minWidth o rest
  | none => loop s g1 s.length .start {} s

/-- Decimal digits of `n`, most significant first, in front of `acc` (`fuel > n` suffices). -/
def digitsAux : Nat → Nat → List Nat → List Nat
  | 0, _, acc => acc
  | f + 1, n, acc =>
    if n < 10 then (48 + n) :: acc else digitsAux f (n / 10) ((48 + n % 10) :: acc)

/-- `n.to_string()` -/
def digits (n : Nat) : List Nat := digitsAux (n + 1) n []

def alignStr : Align → List Nat
  | .default => []
  | .left => [60]
  | .center => [94]
  | .right => [62]

def optStr (o : Option (List Nat)) : List Nat :=
  match o with
  | some x => x
  | none => []

/-- the letter `render_format_options` emits for a representation (the one `parse` reads) -/
def reprText : Option Repr' → List Nat
  | none => []
  | some .debug => [63]
  | some .binary => [98]
  | some .octal => [111]
  | some .hexLower => [120]
  | some .hexUpper => [88]
  | some .expLower => [101]
  | some .expUpper => [69]

/-- `render_format_options`: fill, alignment, min width, `.precision`, representation letter
(the last since /repo 7549768; before that commit the representation was dropped). -/
def render (o : Opts) : List Nat :=
  optStr o.fill ++ alignStr o.align ++ optStr (o.minWidth.map digits)
    ++ optStr (o.precision.map (fun p => 46 :: digits p)) ++ reprText o.repr

/-! ### Which option sets `parse` can produce -/

/-- A first character that none of the specific arms of `parse` claims at `Start`. -/
def plainStart (c : Nat) : Bool := !isAlignCh c && !isDigit c && (reprOf c).isNone

def wf (o : Opts) : Bool :=
  (match o.minWidth with | some w => decide (w ≤ u32Max) | none => true)
  && (match o.precision with | some p => decide (p ≤ u32Max) | none => true)
  && (match o.fill with
      | none => true
      | some [] => false
      | some [c] =>
        if o.align != .default then true
        else if c == 48 then o.minWidth.isSome          -- `08`: zero fill needs a width after it
        else plainStart c && o.minWidth.isNone && o.precision.isNone && o.repr.isNone -- `{x:_}`: a lone fill
      | some (c :: d :: _) =>                           -- a cluster of several code points
        if o.align != .default then true                -- (any cluster in front of an alignment: 60c7e2a)
        else plainStart c && c != 46 && !isAlignCh d    -- a lone cluster goes through the per-character arms
          && o.minWidth.isNone && o.precision.isNone && o.repr.isNone)

/-- Well-formed options: the shapes `parse` can produce. -/
def WF (o : Opts) : Prop := wf o = true

instance (o : Opts) : Decidable (WF o) := inferInstanceAs (Decidable (wf o = true))

def graphemeOk (o : Opts) (g1 g2 : Nat) : Bool :=
  match o.fill with
  | some (c :: d :: t) => g1 == (c :: d :: t).length && (o.align == .default || g2 == 1)
  | _ => true

/-- The grapheme segmenter, run on the rendered string, reports the (multi-code-point) fill
cluster as the first cluster and — when an alignment follows — the alignment character as a
cluster of its own. (For fills of at most one code point nothing is assumed.) -/
def GraphemeOk (o : Opts) (g1 g2 : Nat) : Prop := graphemeOk o g1 g2 = true

instance (o : Opts) (g1 g2 : Nat) : Decidable (GraphemeOk o g1 g2) :=
  inferInstanceAs (Decidable (graphemeOk o g1 g2 = true))

end KotoVerif.FmtOptions
