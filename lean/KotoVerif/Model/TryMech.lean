/-
C04 — the *mechanism* as the implementation does it.

A small frame machine that mirrors what `crates/runtime/src/vm.rs` and
`compile_try_expression` (crates/bytecode/src/compiler.rs) do for error handling:

  * every frame has its own catch stack of `(register, catch ip)` (`Frame::catch_stack`),
    pushed by `TryStart`, popped by `TryEnd`;
  * the code layout of `try b catch … finally f` is

        TryStart reg → catch        (1)
        <b>
        TryEnd                      (2)  only reached when `b` falls through
        Jump → fin
      catch:
        TryEnd                      (3)  de-register before the catch blocks run
        [CheckType reg T → next] Copy x reg; <catch block>; Jump → fin     (typed blocks)
        Copy x reg; <last catch block>
      fin:
        <f>                         (4)  compiled once, reached only by fall-through / the jumps

    so `return`, `break`, `continue` (plain jumps / frame pops) and an error leaving a catch block
    never pass through (4). `break`/`continue` out of `<b>` also skip (2); since /repo 0e9e81b the
    compiler emits one `TryEnd` per try block open in the loop body right before their jump, so
    the catch entries of the blocks they leave are removed (before that commit they stayed
    registered: finding F-C04-5);
  * an error (`Throw`, or any failing instruction) runs `pop_call_stack_on_error`: frames are popped
    until one has a catch entry (`allow_catch`), execution resumes there with the error value in
    the entry's register — the entry is *not* removed by the unwinder; a frame entered from native
    code (`execution_barrier`) stops the inner interpreter loop, the native caller pops that frame
    and returns the error to the instruction that called it, where the outer loop unwinds further.

Loops are counted loops with a per-frame record stack (the implementation keeps an iterator in a
register instead); `break`/`continue` are jumps that do not touch the catch stack, as in the
implementation. What the machine does after it resumed at a *stale* catch entry is faithful only
up to the end of that catch block (the implementation then runs on with clobbered registers).
-/
import KotoVerif.Model.TrySyntax

namespace KotoVerif.Mech

open KotoVerif.Try

inductive Ins where
  | emit (tag : Nat)
  | tryStart (reg : Nat) (off : Nat)        -- catch ip = ip + 1 + off
  | tryEnd
  | jumpFwd (off : Nat)                     -- ip := ip + 1 + off
  | checkType (reg : Nat) (ty : Ty) (off : Nat)  -- type matches: fall through; else ip + 1 + off
  | copy (dst src : Nat)
  | throw (v : Val)
  | rethrow (reg : Nat)                     -- `Throw catch_register` after a failed last map pattern
  | call (f : Nat)                          -- Koto call: new frame, no barrier
  | callNative (f : Nat)                    -- native adaptor calling back: new frame with barrier
  | ret
  | loopEnter (n : Nat) (bodyLen : Nat)     -- body at ip+1 … ip+bodyLen, `loopNext` at ip+1+bodyLen
  | loopNext
  | brk
  | cont
  deriving DecidableEq, Repr, Inhabited

structure LoopRec where
  remaining : Nat
  head : Nat
  next : Nat
  exit : Nat
  deriving DecidableEq, Repr, Inhabited

structure Frame where
  fn : Nat
  ip : Nat := 0
  catchStack : List (Nat × Nat × Nat) := []   -- (register, catch ip, loop depth at TryStart)
  barrier : Bool := false
  loops : List LoopRec := []
  regs : List (Nat × Val) := []
  deriving DecidableEq, Repr, Inhabited

inductive Result where
  | running
  | done
  | uncaught (v : Val)
  | stuck
  | oof
  deriving DecidableEq, Repr, Inhabited

structure VM where
  frames : List Frame := []
  out : List Nat := []
  result : Result := .running
  deriving DecidableEq, Repr, Inhabited

abbrev Code := List (List Ins)

def regGet (regs : List (Nat × Val)) (r : Nat) : Val :=
  match regs.find? (fun p => p.1 == r) with
  | some p => p.2
  | none => .null

/-- `pop_call_stack_on_error` with `allow_catch = true`, followed through native boundaries:
the first frame from the top that has a catch entry resumes at that entry (which stays on the
catch stack); frames without one are popped — a barrier frame by the native caller that received
the error, the others by the unwinder itself. `none`: no frame catches. -/
def unwind (v : Val) : List Frame → Option (List Frame)
  | [] => none
  | f :: rest =>
    match f.catchStack with
    | (reg, ip, depth) :: _ =>
      some ({ f with ip := ip, regs := (reg, v) :: f.regs,
                     loops := f.loops.drop (f.loops.length - depth) } :: rest)
    | [] => if f.barrier then unwind v rest else unwind v rest

def raise (v : Val) (s : VM) : VM :=
  match unwind v s.frames with
  | some fs => { s with frames := fs }
  | none => { s with frames := [], result := .uncaught v }

def setTop (s : VM) (f : Frame) (rest : List Frame) : VM := { s with frames := f :: rest }

def fnCode (code : Code) (fn : Nat) : List Ins := code.getD fn []

def fetchAt (code : Code) (fn ip : Nat) : Option Ins := (fnCode code fn)[ip]?

/-- one instruction (the `Err` arm of `execute_instructions` is `raise`) -/
def step (code : Code) (s : VM) : VM :=
  match s.result, s.frames with
  | .running, f :: rest =>
    match fetchAt code f.fn f.ip with
    | none =>
      -- end of the function's code: return
      match rest with
      | [] => { s with frames := [], result := .done }
      | _ => { s with frames := rest }
    | some ins =>
      let f1 := { f with ip := f.ip + 1 }
      match ins with
      | .emit t => { setTop s f1 rest with out := s.out ++ [t] }
      | .tryStart reg off =>
        setTop s { f1 with catchStack := (reg, f.ip + 1 + off, f.loops.length) :: f.catchStack } rest
      | .tryEnd => setTop s { f1 with catchStack := f.catchStack.drop 1 } rest
      | .jumpFwd off => setTop s { f with ip := f.ip + 1 + off } rest
      | .checkType reg ty off =>
        if accepts (some ty) (regGet f.regs reg) then setTop s f1 rest
        else setTop s { f with ip := f.ip + 1 + off } rest
      | .copy dst src => setTop s { f1 with regs := (dst, regGet f.regs src) :: f.regs } rest
      | .throw v => raise v s
      | .rethrow reg => raise (regGet f.regs reg) s
      | .call g => { s with frames := { fn := g } :: f1 :: rest }
      | .callNative g => { s with frames := { fn := g, barrier := true } :: f1 :: rest }
      | .ret =>
        match rest with
        | [] => { s with frames := [], result := .done }
        | _ => { s with frames := rest }
      | .loopEnter n bodyLen =>
        match n with
        | 0 => setTop s { f with ip := f.ip + 1 + bodyLen + 1 } rest
        | n + 1 =>
          setTop s { f1 with loops :=
            { remaining := n, head := f.ip + 1, next := f.ip + 1 + bodyLen, exit := f.ip + 1 + bodyLen + 1 }
              :: f.loops } rest
      | .loopNext =>
        match f.loops with
        | [] => setTop s f1 rest
        | l :: ls =>
          match l.remaining with
          | 0 => setTop s { f1 with loops := ls } rest
          | k + 1 => setTop s { f with ip := l.head, loops := { l with remaining := k } :: ls } rest
      | .brk =>
        match f.loops with
        | [] => { s with result := .stuck }
        | l :: ls => setTop s { f with ip := l.exit, loops := ls } rest
      | .cont =>
        match f.loops with
        | [] => { s with result := .stuck }
        | l :: _ => setTop s { f with ip := l.next } rest
  | .running, [] => { s with result := .done }
  | _, _ => s

def steps (code : Code) : Nat → VM → VM
  | 0, s => s
  | n + 1, s => steps code n (step code s)

def initVM : VM := { frames := [{ fn := 0 }] }

structure Outcome where
  out : List Nat
  result : Result
  deriving DecidableEq, Repr, Inhabited

def exec (code : Code) (fuel : Nat) : Outcome :=
  let s := steps code fuel initVM
  { out := s.out, result := if s.result = .running then .oof else s.result }

-- ------------------------------------------------------------------ compiler (the layout above)

/-- typed* catch chain, then the last block; `comp` compiles a block -/
def compileCatches (comp : E → Option (List Ins)) (reg : Nat) : List Catch → Option (List Ins)
  | [] => some []
  | [(ty, x, body)] => do
    let b ← comp body
    match ty with
    | some (.keys ks) =>
      -- a map pattern in the last catch block may not match: the error is thrown again
      -- (/repo eaf69a5; before, the failed-unpack jump landed after the block: finding F-C04-9)
      pure (.checkType reg (.keys ks) (b.length + 2) :: .copy x reg :: b ++ [.jumpFwd 1, .rethrow reg])
    | _ => pure (.copy x reg :: b)
  | (ty, x, body) :: c :: rest => do
    let b ← comp body
    let r ← compileCatches comp reg (c :: rest)
    let blk := .copy x reg :: b ++ [.jumpFwd r.length]
    match ty with
    | some t => pure (.checkType reg t blk.length :: blk ++ r)
    | none => pure (blk ++ r)

def concatOpt : List (Option (List Ins)) → Option (List Ins)
  | [] => some []
  | none :: _ => none
  | some a :: rest => (concatOpt rest).map (a ++ ·)

/-- `compile_try_expression`'s layout; the catch register is `100 + nesting depth`.
`op` = number of try *blocks* open in the body of the innermost enclosing loop
(`Loop::open_try_blocks`, /repo 0e9e81b): `break`/`continue` emit one `TryEnd` for each of them
before they jump, so the catch points of the try blocks they leave are cleared. A new loop starts
at 0; the catch blocks and the `finally` block are compiled after the try block's count is popped
(the catch code begins with its own `TryEnd`). -/
def compile : Nat → Nat → Nat → E → Option (List Ins)
  | 0, _, _, _ => none
  | fuel + 1, depth, op, e =>
    match e with
    | .emit t _ => some [.emit t]                 -- the shown value is not modelled here
    | .lit _ => some []
    | .assign _ e => compile fuel depth op e
    | .throw (.lit v) => some [.throw v]
    | .seq es => concatOpt (es.map (compile fuel depth op))
    | .call f args =>                             -- code 0 is the main chunk, definition f is code f+1
      if args.all (fun a => match a with | .lit _ => true | _ => false) then some [.call (f + 1)] else none
    | .native .each f (.mkList items) => some (items.map (fun _ => Ins.callNative (f + 1)))
    | .ret (.lit _) => some [.ret]
    | .brk => some (List.replicate op Ins.tryEnd ++ [.brk])
    | .brkV e => do
      -- the value's code comes first: it still runs under the try blocks the break then leaves
      let c ← compile fuel depth op e
      pure (c ++ List.replicate op Ins.tryEnd ++ [.brk])
    | .cont => some (List.replicate op Ins.tryEnd ++ [.cont])
    | .forList _ (.mkList items) body => do
      let b ← compile fuel depth 0 body
      pure (.loopEnter items.length b.length :: b ++ [.loopNext])
    | .try_ b cs fin => do
      let reg := 100 + depth
      let bc ← compile fuel (depth + 1) (op + 1) b
      let cc ← compileCatches (compile fuel (depth + 1) op) reg cs
      let fc ← match fin with
        | some f => compile fuel depth op f
        | none => some []
      -- TryStart; b; TryEnd; Jump fin; [catch:] TryEnd; catches; [fin:] f
      pure (.tryStart reg (bc.length + 2) :: bc ++ [.tryEnd, .jumpFwd (1 + cc.length)] ++ [.tryEnd] ++ cc ++ fc)
    | _ => none

def compileProg (P : Prog) : Option Code :=
  let bodies := P.main :: P.defs.map (·.body)
  let rec go : List E → Option Code
    | [] => some []
    | b :: rest => do
      let c ← compile 64 0 0 b
      let r ← go rest
      pure (c :: r)
  go bodies

end KotoVerif.Mech
