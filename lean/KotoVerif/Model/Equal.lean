/-
C14 — equality, ordering and map keys on immediate value trees (`Val`, see `Model/Value.lean`).

Mirrors (file → definition):
* `vm.rs run_equal / compare_value_ranges / compare_value_maps`      → `veq / veqList / veqMap`
* `vm.rs run_not_equal`                                               → `vne` (written out arm by arm; `Props/C14.ne_is_not_eq` proves it is the negation)
* `vm.rs run_less / run_greater / run_less_or_equal / run_greater_or_equal` (Number, Str arms) → `vlt vgt vle vge`
* `value_key.rs impl PartialEq / Hash / PartialOrd for ValueKey`      → `keyEq / hashStream / keyCmp`
* `number.rs impl PartialEq / Ord / Hash for KNumber`                 → `Num.eq / numCmp / numHashWord`
* `value_sort.rs compare_values`                                      → `compareValues`
* the `IndexMap` operations koto uses (`get_index_of`, `insert_full`, `shift_remove`,
  `swap_remove_index`, `swap_indices`, `extend`, `sort_by`)           → namespace `OMap`
  (an insertion-ordered association list; the contract of the crate is *modelled*, not proved).

Two levels for key lookup:
* spec level — a key addresses an entry iff `keyEq`;
* mechanism level — `IndexMap` hashes first: `get_index_of`/`shift_remove` compare directly only
  when the map has ≤ 1 entry, `insert_full` always hashes.  A hash is modelled by the *stream of
  words written to the hasher* (`hashStream`); equal streams ⇒ equal hashes, and the model takes
  different streams to be different hashes (perfect hashing — an idealisation that only matters
  for keys that are `keyEq` with different streams; since fix 7e76332 (F-C14-1) there are none:
  `Lemmas/C14Hash.keyEq_hashEq`).
-/
import KotoVerif.Model.Value

namespace KotoVerif
namespace Equal

/-! ### numbers -/

def numIsNaN (F : FloatOps) : Num → Bool
  | .i _ => false
  | .f b => F.isNaN b

/-- the word `impl Hash for KNumber` writes (since fix 7e76332): the number's `f64` value, written
as an integer when it is integral — `let f = f64::from(n); let i = f as i64;
if i as f64 == f { i as u64 } else { f.to_bits() }` — so that numbers that are `==` hash equally -/
def floatHashWord (F : FloatOps) (f : UInt64) : UInt64 :=
  if F.eq (F.ofInt (F.toInt f)) f then (F.toInt f).toUInt64 else f

def numHashWord (F : FloatOps) (n : Num) : UInt64 := floatHashWord F (n.toF F)

/-- `impl Ord for KNumber` (`partial_cmp` on the promoted operands, NaN ordered last) -/
def numCmp (F : FloatOps) (a b : Num) : Ordering :=
  if Num.lt F a b then .lt
  else if Num.lt F b a then .gt
  else if Num.eq F a b then .eq
  else match numIsNaN F a, numIsNaN F b with
    | false, true => .lt
    | true, false => .gt
    | _, _ => .eq

/-- `a < b` etc. on `KNumber` go through `PartialOrd::partial_cmp = Some(Ord::cmp)`, so a NaN is
*greater* than every other number and equal to itself for the four ordering operators
(while `==` stays IEEE) -/
def numLt (F : FloatOps) (a b : Num) : Bool := numCmp F a b == .lt
def numGt (F : FloatOps) (a b : Num) : Bool := numCmp F a b == .gt
def numLe (F : FloatOps) (a b : Num) : Bool := numCmp F a b != .gt
def numGe (F : FloatOps) (a b : Num) : Bool := numCmp F a b != .lt

/-! ### strings: `str` comparison is bytewise lexicographic -/

def bytesLt : List Nat → List Nat → Bool
  | [], [] => false
  | [], _ :: _ => true
  | _ :: _, [] => false
  | a :: as, b :: bs => if a < b then true else if b < a then false else bytesLt as bs

def bytesCmp (a b : List Nat) : Ordering :=
  if bytesLt a b then .lt else if bytesLt b a then .gt else .eq

/-! ### ValueKey -/

mutual
/-- `KValue::is_hashable` -/
def hashable : Val → Bool
  | .null | .bool _ | .num _ | .str _ | .range _ _ => true
  | .tuple xs => hashableList xs
  | _ => false
def hashableList : List Val → Bool
  | [] => true
  | x :: xs => hashable x && hashableList xs
end

mutual
/-- `impl PartialEq for ValueKey` -/
def keyEq (F : FloatOps) : Val → Val → Bool
  | .num a, .num b => Num.eq F a b
  | .bool a, .bool b => a == b
  | .str a, .str b => a == b
  | .range a b, .range c d => a == c && b == d
  | .null, .null => true
  | .tuple xs, .tuple ys => keyEqList F xs ys
  | _, _ => false
def keyEqList (F : FloatOps) : List Val → List Val → Bool
  | [], [] => true
  | x :: xs, y :: ys => keyEq F x y && keyEqList F xs ys
  | _, _ => false
end

mutual
/-- words written to the hasher by `impl Hash for ValueKey` (no length prefix for tuples, nothing
for null; a string writes its bytes and the 0xff terminator; a range its derived-`Hash` fields).
Words are tagged by the `Hasher` method used (0 = write_u64/u8 word, 1 = str byte, 2 = i32 field …)
only as far as needed to keep different shapes apart. -/
def hashStream (F : FloatOps) : Val → List UInt64
  | .null => []
  | .bool b => [if b then 1 else 0]
  | .num n => [numHashWord F n]
  | .str bs => bs.map UInt64.ofNat ++ [0xff]
  | .range a b =>
    (match a with | none => [0] | some x => [1, x.toUInt64]) ++
    (match b with | none => [0] | some (x, incl) => [1, x.toUInt64, if incl then 1 else 0])
  | .tuple xs => hashStreamList F xs
  | _ => []
def hashStreamList (F : FloatOps) : List Val → List UInt64
  | [] => []
  | x :: xs => hashStream F x ++ hashStreamList F xs
end

def hashEq (F : FloatOps) (a b : Val) : Bool := hashStream F a == hashStream F b

/-- what a hashed `IndexMap` probe accepts: same hash and `Equivalent` -/
def keyEqH (F : FloatOps) (a b : Val) : Bool := hashEq F a b && keyEq F a b

/-- three-way comparison of integers -/
def intCmp (x y : Int) : Ordering := if x < y then .lt else if y < x then .gt else .eq

/-- `type_rank` of `ValueKey::partial_cmp` (fix abae06d): keys of different kinds are ordered by kind -/
def kindRank : Val → Int
  | .null => 0
  | .bool _ => 1
  | .num _ => 2
  | .str _ => 3
  | .range _ _ => 4
  | .tuple _ => 5
  | _ => 6

/-- `(a.start(), a.end()).partial_cmp(..)` on `(Option<i64>, Option<(i64, bool)>)` is lexicographic
with `None` first and `false < true`. All components are bounded, so the lexicographic order is the
order of this single integer: start (none = -2^64) · 2^70 + end (none = -2^64) · 2 + inclusive. -/
def rangeCode (a : Option Int64) (b : Option (Int64 × Bool)) : Int :=
  let s : Int := match a with | none => -18446744073709551616 | some x => x.toInt
  let e : Int := match b with | none => -18446744073709551616 | some (x, _) => x.toInt
  let i : Int := match b with | some (_, true) => 1 | _ => 0
  (s + 18446744073709551616) * 1180591620717411303424 + (e + 18446744073709551616) * 2 + i

mutual
/-- `impl PartialOrd for ValueKey` (the comparator of `map.sort()` without arguments), since fix
abae06d a total order: null first, then by kind, and within a kind by value -/
def keyCmp (F : FloatOps) : Val → Val → Ordering
  | .null, .null => .eq
  | .null, _ => .lt
  | _, .null => .gt
  | .bool a, .bool b => intCmp a.toNat b.toNat
  | .num a, .num b => numCmp F a b
  | .str a, .str b => bytesCmp a b
  | .range a b, .range c d => intCmp (rangeCode a b) (rangeCode c d)
  | .tuple xs, .tuple ys =>
    if xs.length < ys.length then .lt
    else if ys.length < xs.length then .gt
    else keyCmpList F xs ys
  | a, b => intCmp (kindRank a) (kindRank b)
def keyCmpList (F : FloatOps) : List Val → List Val → Ordering
  | x :: xs, y :: ys =>
    match keyCmp F x y with
    | .eq => keyCmpList F xs ys
    | o => o
  | _, _ => .eq
end

/-! ### `==`, `!=` -/

def lookupBy {β : Type} (m : Val → Val → Bool) (k : Val) : List (Val × β) → Option β
  | [] => none
  | (k', v) :: rest => if m k k' then some v else lookupBy m k rest

/-- the key matcher `IndexMap::get_index_of` uses on a map with `n` entries -/
def getMatch (F : FloatOps) (n : Nat) : Val → Val → Bool :=
  if n ≤ 1 then keyEq F else keyEqH F

mutual
/-- `run_equal` restricted to plain data (no metamaps, objects, functions).
`mech = true`: map entries are found the way `KMap::get` finds them (hash first);
`mech = false`: spec level, by `keyEq` only. -/
def veq (F : FloatOps) (mech : Bool) : Val → Val → Bool
  | .null, .null => true
  | .null, _ => false
  | _, .null => false
  | .num a, .num b => Num.eq F a b
  | .bool a, .bool b => a == b
  | .str a, .str b => a == b
  | .range a b, .range c d => a == c && b == d
  | .list xs, .list ys => veqList F mech xs ys
  | .tuple xs, .tuple ys => veqList F mech xs ys
  | .map as, .map bs => as.length == bs.length && veqMap F mech as bs
  | _, _ => false
/-- `compare_value_ranges` (lengths are compared first; the zip then ends with both) -/
def veqList (F : FloatOps) (mech : Bool) : List Val → List Val → Bool
  | [], [] => true
  | x :: xs, y :: ys => veq F mech x y && veqList F mech xs ys
  | _, _ => false
/-- `compare_value_maps`: every entry of the left map is looked up in the right map -/
def veqMap (F : FloatOps) (mech : Bool) : List (Val × Val) → List (Val × Val) → Bool
  | [], _ => true
  | (k, v) :: rest, bs =>
    (match lookupBy (if mech then getMatch F bs.length else keyEq F) k bs with
     | some v' => veq F mech v v'
     | none => false) && veqMap F mech rest bs
end

/-- `run_not_equal`, arm by arm -/
def vne (F : FloatOps) (mech : Bool) : Val → Val → Bool
  | .null, .null => false
  | .null, _ => true
  | _, .null => true
  | .num a, .num b => !(Num.eq F a b)
  | .bool a, .bool b => a != b
  | .str a, .str b => a != b
  | .range a b, .range c d => !(a == c && b == d)
  | .list xs, .list ys => !(veqList F mech xs ys)
  | .tuple xs, .tuple ys => !(veqList F mech xs ys)
  | .map as, .map bs => !(as.length == bs.length && veqMap F mech as bs)
  | _, _ => true

/-! ### `<`, `>`, `<=`, `>=` (Number and Str arms; anything else is a type error = `none`) -/

def vlt (F : FloatOps) : Val → Val → Option Bool
  | .num a, .num b => some (numLt F a b)
  | .str a, .str b => some (bytesLt a b)
  | _, _ => none

def vgt (F : FloatOps) : Val → Val → Option Bool
  | .num a, .num b => some (numGt F a b)
  | .str a, .str b => some (bytesLt b a)
  | _, _ => none

def vle (F : FloatOps) : Val → Val → Option Bool
  | .num a, .num b => some (numLe F a b)
  | .str a, .str b => some (!(bytesLt b a))
  | _, _ => none

def vge (F : FloatOps) : Val → Val → Option Bool
  | .num a, .num b => some (numGe F a b)
  | .str a, .str b => some (!(bytesLt a b))
  | _, _ => none

/-- `value_sort.rs compare_values`: `<` first, then `>`, otherwise Equal -/
def compareValues (F : FloatOps) (a b : Val) : Option Ordering :=
  match vlt F a b with
  | some true => some .lt
  | some false =>
    (match vgt F a b with
     | some true => some .gt
     | some false => some .eq
     | none => none)
  | none => none

/-! ### order-preserving map: the `IndexMap` operations koto uses -/

namespace OMap
variable {β : Type}

def keys (es : List (Val × β)) : List Val := es.map Prod.fst

def findIdx (m : Val → Val → Bool) (k : Val) : List (Val × β) → Option Nat
  | [] => none
  | (k', _) :: rest => if m k k' then some 0 else (findIdx m k rest).map (· + 1)

/-- `insert_full`: an existing entry keeps its position *and its key*, the value is replaced and
the old value returned; a new key is appended -/
def insert (m : Val → Val → Bool) (k : Val) (v : β) : List (Val × β) → List (Val × β) × Option β
  | [] => ([(k, v)], none)
  | (k', v') :: rest =>
    if m k k' then ((k', v) :: rest, some v')
    else
      let r := insert m k v rest
      ((k', v') :: r.1, r.2)

/-- `shift_remove`: the entry is removed, everything behind it moves up -/
def remove (m : Val → Val → Bool) (k : Val) : List (Val × β) → List (Val × β) × Option β
  | [] => ([], none)
  | (k', v') :: rest =>
    if m k k' then (rest, some v')
    else
      let r := remove m k rest
      ((k', v') :: r.1, r.2)

/-- `extend`: insert every entry of `other`, in order -/
def extend (m : Val → Val → Bool) (es : List (Val × β)) : List (Val × β) → List (Val × β)
  | [] => es
  | (k, v) :: rest => extend m (insert m k v es).1 rest

/-- `swap_remove_index i`: the last entry takes the place of entry `i` -/
def swapRemoveIndex (i : Nat) (es : List (Val × β)) : List (Val × β) :=
  if i < es.length then
    match es.getLast? with
    | some last => if i + 1 = es.length then es.dropLast else (es.set i last).dropLast
    | none => es
  else es

/-- `swap_indices a b`; `none` = the panic (`entries[a]` / `entries[b]` out of bounds) -/
def swapIndices (a b : Nat) (es : List (Val × β)) : Option (List (Val × β)) :=
  match es[a]?, es[b]? with
  | some x, some y => some ((es.set a y).set b x)
  | _, _ => none

/-- the three IndexMap calls of `run_index_assign` (Map arm) for a valid index `i` and a 2-tuple
`(k, v)`: `swap_remove_index(i); insert(k, v); swap_indices(i, len - 1)`; `none` = `swap_indices`
panics (reachable only when `k` is present at another index — excluded by the check below) -/
def indexAssign (m : Val → Val → Bool) (i : Nat) (k : Val) (v : β) (es : List (Val × β)) :
    Option (List (Val × β)) :=
  swapIndices i (es.length - 1) (insert m k v (swapRemoveIndex i es)).1

inductive IndexAssignResult (β : Type) where
  | replaced (es : List (Val × β))
  | keyInUse (j : Nat)
  | panic

/-- `run_index_assign`, Map arm, since fix 6a9dccd: `get_index_of(&key)` first; a key in use at
another index is a runtime error, otherwise the three calls above run. `mg` is the matcher of
`get_index_of`, `mi` the one of `insert`. -/
def indexAssignChecked (mg mi : Val → Val → Bool) (i : Nat) (k : Val) (v : β) (es : List (Val × β)) :
    IndexAssignResult β :=
  match findIdx mg k es with
  | some j =>
    if j = i then
      (match indexAssign mi i k v es with
       | some es' => .replaced es'
       | none => .panic)
    else .keyInUse j
  | none =>
    match indexAssign mi i k v es with
    | some es' => .replaced es'
    | none => .panic

/-- the documented effect of `m[i] = (k, v)`: entry `i` is replaced in place -/
def replaceAt (i : Nat) (k : Val) (v : β) (es : List (Val × β)) : List (Val × β) := es.set i (k, v)

end OMap

end Equal
end KotoVerif
