/-
Model of the *token cursor layer* of `crates/parser/src/parser.rs` (section "Lexer getters") and of
the token queue of `KotoLexer` (`crates/lexer/src/lexer.rs`, `peek` / `next`).

This layer is the only interface through which the ~60 parse functions observe tokens. Every
primitive is a pure function of the parser's cursor — `current_token` plus the list of tokens that
have not been consumed yet — and, for the `*_with_context` family, of the expression context.
The token list is the output of `Model/Lexer.lean` (`lexAll`).

Mirrors the code line by line, quirks included:
* `peek_token_with_context` clears `same_line` only on a `NewLine` *token* (a multi-line comment
  that contains a line break does not clear it);
* `consume_token_with_context` compares the *end* line of the consumed token with the start line,
  `consume_until_token_with_context` the *start* line of the peeked token;
* after `consume_until_token_with_context` the current token is the last *trivia* token that was
  skipped, so `current_indent()` / `current_line()` are then read from a trivia token;
* `KotoLexer::peek(n)` fills the queue up to `n + 1` tokens (`saturating_sub`, /repo b5b4493).
-/
import KotoVerif.Model.Lexer

namespace KotoVerif.Cursor
open KotoVerif.Lexer

/-! ### `enum Indentation`, `struct ExpressionContext` -/

inductive Indentation where
  | flexible
  | equal (n : Nat)
  | greater
  | greaterThan (n : Nat)
  | greaterOrEqual (n : Nat)
  deriving Repr, DecidableEq, Inhabited

structure Ctx where
  allowSpaceSeparatedCall : Bool
  allowLinebreaks : Bool
  allowMapBlock : Bool
  insideBraces : Bool
  expected : Indentation
  exportMapEntries : Bool
  deriving Repr, DecidableEq, Inhabited

def Ctx.restricted : Ctx := ⟨false, false, false, false, .greater, false⟩
def Ctx.permissive : Ctx := { Ctx.restricted with allowSpaceSeparatedCall := true, allowLinebreaks := true }
def Ctx.inline : Ctx := { Ctx.restricted with allowSpaceSeparatedCall := true }
def Ctx.braces : Ctx := { Ctx.permissive with expected := .flexible, insideBraces := true }

/-- `ExpressionContext::chain_start` -/
def Ctx.chainStart (c : Ctx) : Ctx :=
  { c with
    allowMapBlock := false
    exportMapEntries := false
    expected := match c.expected with
      | .flexible | .equal _ => .greater
      | other => other }

/-! ### token classes (`Token::is_whitespace`, `Token::is_whitespace_including_newline`) -/

def isWhitespace (t : Token) : Bool :=
  t = .whitespace ∨ t = .commentMulti ∨ t = .commentSingle

def isTrivia (t : Token) : Bool :=
  isWhitespace t ∨ t = .newLine

/-! ### the cursor -/

/-- `LexedToken::default()` — the parser's `current_token` before anything was consumed. -/
def defaultTok : Lexed :=
  { tok := .error, startByte := 0, endByte := 0, span := ⟨⟨0, 0⟩, ⟨0, 0⟩⟩, indent := 0 }

/-- The parser's view of the token stream: `current_token` and the tokens not consumed yet
(`lexer.token_queue` followed by what the `TokenLexer` will still produce). -/
structure Cur where
  cur : Lexed
  rest : List Lexed
  deriving Repr, DecidableEq, Inhabited

def Cur.init (ts : List Lexed) : Cur := ⟨defaultTok, ts⟩

/-- The cursor after `p` tokens of `ts` were consumed. -/
def Cur.atPos (ts : List Lexed) (p : Nat) : Cur :=
  ⟨match p with
    | 0 => defaultTok
    | q + 1 => ts.getD q defaultTok,
   ts.drop p⟩

/-! ### raw primitives -/

/-- `consume_token` -/
def consumeToken (c : Cur) : Option Token × Cur :=
  match c.rest with
  | [] => (none, c)
  | t :: r => (some t.tok, ⟨t, r⟩)

/-- `peek_token_n` (queue transparent: see `queuePeek` below for `KotoLexer::peek` itself) -/
def peekTokenN (n : Nat) (c : Cur) : Option Token := (c.rest[n]?).map (·.tok)

/-- `peek_token` -/
def peekToken (c : Cur) : Option Token := peekTokenN 0 c

/-- `current_line` = `current_token.span.end.line` -/
def currentLine (c : Cur) : Nat := c.cur.span.stop.line

/-- `current_indent` -/
def currentIndent (c : Cur) : Nat := c.cur.indent

/-- `peek_span` -/
def peekSpan (c : Cur) : Option Span := c.rest.head?.map (·.span)

/-- `current_span` -/
def currentSpan (c : Cur) : Span := c.cur.span

/-! ### `peek_token_with_context` -/

/-- The `match context.expected_indentation` of `peek_token_with_context`: does a token with
indentation `indent` on a *following* line continue the expression, when the current token has
indentation `startIndent`? -/
def indentAccepts : Indentation → (indent startIndent : Nat) → Bool
  | .greaterThan e, i, _ => decide (i > e)
  | .greaterOrEqual e, i, _ => decide (i ≥ e)
  | .equal e, i, _ => decide (i = e)
  | .greater, i, s => decide (i > s)
  | .flexible, _, _ => true

/-- `PeekInfo` -/
structure PeekInfo where
  tok : Token
  peekCount : Nat
  info : Lexed
  deriving Repr, DecidableEq, Inhabited

/-- the decision taken when the first non-trivia token `t` is found -/
def peekDecide (ctx : Ctx) (startIndent : Nat) (t : Lexed) (n : Nat) (sameLine : Bool) : Option PeekInfo :=
  if sameLine then some ⟨t.tok, n, t⟩
  else if ctx.allowLinebreaks then
    if indentAccepts ctx.expected t.indent startIndent then some ⟨t.tok, n, t⟩ else none
  else none

/-- the `while let Some(peeked) = self.lexer.peek(peek_count)` loop -/
def peekLoop (ctx : Ctx) (startIndent : Nat) : List Lexed → Nat → Bool → Option PeekInfo
  | [], _, _ => none
  | t :: r, n, sameLine =>
    if t.tok = .newLine then peekLoop ctx startIndent r (n + 1) false
    else if isWhitespace t.tok then peekLoop ctx startIndent r (n + 1) sameLine
    else peekDecide ctx startIndent t n sameLine

def peekTokenWithContext (ctx : Ctx) (c : Cur) : Option PeekInfo :=
  peekLoop ctx c.cur.indent c.rest 0 true

/-! ### `consume_token_with_context`, `consume_until_token_with_context` -/

/-- the context returned by both functions -/
def newContext (ctx : Ctx) (lineAdvanced : Bool) (indent startIndent : Nat) : Ctx :=
  if lineAdvanced ∧ indent > startIndent ∧ ctx.allowLinebreaks = true ∧ ctx.expected = .greater then
    { ctx with expected := .equal indent, allowMapBlock := true }
  else ctx

def consumeCtxLoop (ctx : Ctx) (startLine startIndent : Nat) : Lexed → List Lexed → Option (Token × Ctx) × Cur
  | cur, [] => (none, ⟨cur, []⟩)
  | _, t :: r =>
    if isTrivia t.tok then consumeCtxLoop ctx startLine startIndent t r
    else
      -- `self.current_line() > start_line && self.current_indent() > start_indent`, read from `t`
      (some (t.tok, newContext ctx (decide (t.span.stop.line > startLine)) t.indent startIndent), ⟨t, r⟩)

def consumeTokenWithContext (ctx : Ctx) (c : Cur) : Option (Token × Ctx) × Cur :=
  consumeCtxLoop ctx (currentLine c) (currentIndent c) c.cur c.rest

def consumeUntilCtxLoop (ctx : Ctx) (startLine startIndent : Nat) : Lexed → List Lexed → Option Ctx × Cur
  | cur, [] => (none, ⟨cur, []⟩)
  | cur, t :: r =>
    if isTrivia t.tok then consumeUntilCtxLoop ctx startLine startIndent t r
    else
      -- `peeked.span.start.line > start_line && peeked.indent > start_indent`
      (some (newContext ctx (decide (t.span.start.line > startLine)) t.indent startIndent), ⟨cur, t :: r⟩)

def consumeUntilTokenWithContext (ctx : Ctx) (c : Cur) : Option Ctx × Cur :=
  consumeUntilCtxLoop ctx (currentLine c) (currentIndent c) c.cur c.rest

/-! ### the `*_on_same_line` family (skips `is_whitespace()` tokens only: a `NewLine` is *returned*) -/

def sameLineLoop : List Lexed → Nat → Option (Lexed × Nat)
  | [], _ => none
  | t :: r, n => if isWhitespace t.tok then sameLineLoop r (n + 1) else some (t, n)

def peekNextTokenOnSameLine (c : Cur) : Option Token := (sameLineLoop c.rest 0).map (·.1.tok)

def peekNextTokenOnSameLineWithSpan (c : Cur) : Option (Token × Span) :=
  (sameLineLoop c.rest 0).map (fun x => (x.1.tok, x.1.span))

def consumeUntilSameLineLoop : Lexed → List Lexed → Cur
  | cur, [] => ⟨cur, []⟩
  | cur, t :: r => if isWhitespace t.tok then consumeUntilSameLineLoop t r else ⟨cur, t :: r⟩

def consumeUntilNextTokenOnSameLine (c : Cur) : Cur := consumeUntilSameLineLoop c.cur c.rest

def consumeSameLineLoop : Lexed → List Lexed → Option Token × Cur
  | cur, [] => (none, ⟨cur, []⟩)
  | _, t :: r => if isWhitespace t.tok then consumeSameLineLoop t r else (some t.tok, ⟨t, r⟩)

def consumeNextTokenOnSameLine (c : Cur) : Option Token × Cur := consumeSameLineLoop c.cur c.rest

/-! ### `KotoLexer::peek` / `next`: the token queue

`rest` = the tokens the lexer has not handed out yet, `queued` = `token_queue.len()` (the first
`queued` tokens of `rest` sit in the queue). Mirrors /repo b5b4493:
`tokens_to_add = (n + 1).saturating_sub(token_queue.len())` (before that commit the count was
`token_queue_len + 1 - n.max(token_queue_len)`: a `usize` underflow for `n > len + 1`, `None` for
`n = len + 1`, and one token read too many for `n < len`). -/

/-- `KotoLexer::peek(n)`: the token returned and the new queue length -/
def queuePeek (rest : List Lexed) (queued n : Nat) : Option Lexed × Nat :=
  let tokensToAdd := (n + 1) - queued                       -- saturating_sub
  let queued' := min (queued + tokensToAdd) rest.length     -- the loop breaks when the lexer ends
  (if n < queued' then rest[n]? else none, queued')         -- token_queue.get(n)

/-- `KotoLexer::next`: pops the queue, else lexes the next token -/
def queueNext (rest : List Lexed) (queued : Nat) : Option Lexed × List Lexed × Nat :=
  match rest with
  | [] => (none, [], 0)
  | t :: r => (some t, r, queued - 1)

end KotoVerif.Cursor
