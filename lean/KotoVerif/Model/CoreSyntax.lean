/-
C01 layer 3 — abstract syntax of the modelled core of Koto (reference semantics: `Model/CoreEval.lean`).

One mutual inductive family; sequences are explicit (`Exprs`, `Chain`, `Entries`, `Arms`) rather
than `List`-nested so that later layers (the compiler model) can recurse structurally.

Variables are numbered (`var n`); the harness renders them as identifiers. Map keys and strings are
UTF-8 byte lists. Literals carry a `Val` (only `null`, `bool`, `num`, `str` are used as literals).

Concrete syntax each constructor stands for (rendered by `harness/src/bin/c01_gen`):

| constructor                | Koto                                                          |
|----------------------------|---------------------------------------------------------------|
| `lit v`                    | `null` `true` `42` `-7` `2.5` `'text'`                        |
| `var x`                    | `x`                                                           |
| `neg e`, `not e`           | `-(e)`, `not e`                                               |
| `arith op a b`             | `a + b`, `- * / % ^`                                          |
| `cmp a (op₁ b (op₂ c …))`  | `a op₁ b op₂ c …` — a comparison *chain* (one or more ops)    |
| `and a b`, `or a b`        | `a and b`, `a or b`                                           |
| `assign x e`               | `x = e`                                                       |
| `opAssign op x e`          | `x += e`, `-= *= /= %= ^=`                                    |
| `list es` `tuple es`       | `[a, b]`, `(a, b)` (`(a,)` for one element)                   |
| `map entries`              | `{k1: a, k2: b}`                                              |
| `range a b incl`           | `a..b`, `a..=b`;  `rangeFrom a` = `a..`, `rangeTo b incl` = `..b` / `..=b`, `rangeFull` = `..` |
| `index e i`                | `e[i]`                                                        |
| `indexAssign x i e`        | `x[i] = e`                                                    |
| `access e k`               | `e.k`                                                         |
| `size e`                   | `size e`                                                      |
| `interp parts`             | `'lit{e}lit…'` (a `lit (str _)` part is literal text)         |
| `emit e`                   | `emit(e)` — harness-provided native: records the canonical form of its argument on the output trace and returns it |
| `print e`                  | `print(e)`                                                    |
| `block es`                 | consecutive lines / `;`-separated expressions                 |
| `ifThen c t`, `ifElse c t e` | `if c then t`, `if c then t else e` (inline or block form; an `ifElse`/`ifThen` directly in else position may be rendered `else if`) |
| `switch arms`              | `switch` + one line per arm `c then e` (+ `else e`)           |
| `while c b` `until c b` `loop b` `for x it b` | loops                                      |
| `brk` `brkVal e` `cont`    | `break`, `break e`, `continue`                                |
-/
import KotoVerif.Model.Value

namespace KotoVerif.Core

inductive ArithOp where
  | add | sub | mul | div | rem | pow
  deriving DecidableEq, Repr, Inhabited

inductive CmpOp where
  | lt | le | gt | ge | eq | ne
  deriving DecidableEq, Repr, Inhabited

mutual
inductive Expr where
  | lit (v : Val)
  | var (x : Nat)
  | neg (e : Expr)
  | not (e : Expr)
  | arith (op : ArithOp) (a b : Expr)
  | cmp (first : Expr) (rest : Chain)
  | and (a b : Expr)
  | or (a b : Expr)
  | assign (x : Nat) (e : Expr)
  | opAssign (op : ArithOp) (x : Nat) (e : Expr)
  | list (es : Exprs)
  | tuple (es : Exprs)
  | map (entries : Entries)
  | range (a b : Expr) (incl : Bool)
  | rangeFrom (a : Expr)
  | rangeTo (b : Expr) (incl : Bool)
  | rangeFull
  | index (e i : Expr)
  | indexAssign (x : Nat) (i e : Expr)
  | access (e : Expr) (key : List Nat)
  | size (e : Expr)
  | interp (parts : Exprs)
  | emit (e : Expr)
  | print (e : Expr)
  | block (es : Exprs)
  | ifThen (c t : Expr)
  | ifElse (c t e : Expr)
  | switch (arms : Arms)
  | while (c body : Expr)
  | until (c body : Expr)
  | loop (body : Expr)
  | for (x : Nat) (iter body : Expr)
  | brk
  | brkVal (e : Expr)
  | cont
inductive Exprs where
  | nil
  | cons (e : Expr) (es : Exprs)
/-- the tail of a comparison chain: `op e` pairs -/
inductive Chain where
  | nil
  | cons (op : CmpOp) (e : Expr) (rest : Chain)
inductive Entries where
  | nil
  | cons (key : List Nat) (e : Expr) (rest : Entries)
/-- switch arms: `cons c e rest` = `c then e`, `els e` = `else e` (always last) -/
inductive Arms where
  | nil
  | els (e : Expr)
  | cons (c e : Expr) (rest : Arms)
end

instance : Inhabited Expr := ⟨.lit .null⟩

def Exprs.ofList : List Expr → Exprs
  | [] => .nil
  | e :: es => .cons e (Exprs.ofList es)

def Exprs.toList : Exprs → List Expr
  | .nil => []
  | .cons e es => e :: es.toList

def Chain.ofList : List (CmpOp × Expr) → Chain
  | [] => .nil
  | (o, e) :: r => .cons o e (Chain.ofList r)

def Entries.ofList : List (List Nat × Expr) → Entries
  | [] => .nil
  | (k, e) :: r => .cons k e (Entries.ofList r)

end KotoVerif.Core
