/-
C02 — runtime argument binding, mirrored from `crates/runtime/src/vm.rs`
(`call_callable`, `unpack_packed_arguments`, `call_koto_function`, `call_generator`,
`apply_optional_arguments`, `apply_variadic_arguments`, `apply_captures`, `run_temp_index`,
`run_slice`, `run_check_size_*`, `run_access`), the call sequence of
`crates/bytecode/src/compiler.rs` (`compile_call`, `compile_piped_call`), and the compile-time
register layout of `crates/bytecode/src/frame.rs` (`Frame::new`) / `compiler.rs`
(`collect_args`, `compile_arg`, `compile_unpack_nested_args_of_tuple`,
`compile_unpack_nested_arg_of_map`).

Everything works on an abstract register file `Regs = List Val` that starts at the call's frame
base: register 0 is `self`, call arguments start at register 1.
-/
import KotoVerif.Model.Value

namespace KotoVerif.Bind
open KotoVerif

abbrev Name := Nat
abbrev Regs := List Val

/-- error classes (the harness maps the runtime's messages onto the same names) -/
inductive Err where
  | insufficient   -- ErrorKind::InsufficientArguments
  | tooMany        -- ErrorKind::TooManyArguments
  | unexpected     -- ErrorKind::UnexpectedError
  | size           -- CheckSizeEqual / CheckSizeMin failed
  | type           -- unexpected_type (not indexable / no size / no '.' access / not a Number)
  | notfound       -- key not found by `.` access
  | iter           -- packed argument is not iterable
  | limit          -- "Call argument limit reached during unpacking"
  | panic          -- the Rust code would index out of bounds here
  | unsupported    -- outside the modelled envelope (never generated)
  deriving DecidableEq, Repr, Inhabited

def Err.name : Err → String
  | .insufficient => "E:args-few" | .tooMany => "E:args-many" | .unexpected => "E:unexpected"
  | .size => "E:size" | .type => "E:type" | .notfound => "E:notfound" | .iter => "E:iter"
  | .limit => "E:limit" | .panic => "E:panic" | .unsupported => "E:unsupported"

/-! ## Register file -/

def getReg (rs : Regs) (i : Nat) : Val := rs.getD i .null

/-- `set_register` after `NewFrame` has made room: writes inside the file, pads with null otherwise -/
def setReg (rs : Regs) (i : Nat) (v : Val) : Regs :=
  if i < rs.length then rs.set i v else rs ++ List.replicate (i - rs.length) .null ++ [v]

/-- `Vec::resize(n, Null)` -/
def resize (rs : Regs) (n : Nat) : Regs :=
  if n ≤ rs.length then rs.take n else rs ++ List.replicate (n - rs.length) .null

/-! ## The function value (`KFunction` + `FunctionContext::captures`) -/

structure FnVal where
  argCount : Nat            -- number of declared arguments, the variadic one included
  optCount : Nat            -- number of arguments with a default value
  variadic : Bool
  /-- the captures list: first the `optCount` default values, then the captured variables -/
  captures : List Val
  deriving Inhabited

/-- `KFunction::expected_arg_count` -/
def FnVal.expected (f : FnVal) : Nat := if f.variadic then f.argCount - 1 else f.argCount

/-- number of arguments without default (and not variadic) -/
def FnVal.required (f : FnVal) : Nat := f.expected - f.optCount

/-- `apply_optional_arguments` -/
def applyOptional (rs : Regs) (f : FnVal) (callArgs expected : Nat) : Except Err Regs :=
  if callArgs < expected then
    let toApply := expected - callArgs
    if toApply > f.optCount then .error .insufficient
    else if f.captures.length < toApply then .error .unexpected
    else
      let toSkip := f.optCount - toApply
      .ok (rs ++ (f.captures.drop toSkip).take toApply)
  else .ok rs

/-- `apply_variadic_arguments`; `base` = index of the first call argument -/
def applyVariadic (rs : Regs) (base callArgs : Nat) (f : FnVal) (expected : Nat) : Except Err Regs :=
  if f.variadic then
    let n := callArgs - expected
    let start := base + expected
    if callArgs ≥ expected ∧ start + n > rs.length then .error .panic   -- slice out of range
    else
      let varargs := if callArgs ≥ expected then (rs.drop start).take n else []
      .ok (resize rs start ++ [.tuple varargs])
  else if callArgs > expected then .error .tooMany
  else .ok rs

/-- `apply_captures` -/
def applyCaptures (rs : Regs) (f : FnVal) : Regs := rs ++ f.captures.drop f.optCount

/-- `call_koto_function`: `rs` is the register file from the frame base (self at 0, `callArgs`
arguments from 1, possibly temporaries after them). Result: the callee's initial registers. -/
def callKoto (rs : Regs) (callArgs : Nat) (f : FnVal) : Except Err Regs := do
  let rs := rs.take (1 + callArgs)
  let rs ← applyOptional rs f callArgs f.expected
  let rs ← applyVariadic rs 1 callArgs f f.expected
  pure (applyCaptures rs f)

/-- `call_generator`: the same steps written differently (arguments are copied into a new VM). -/
def callGenerator (rs : Regs) (callArgs : Nat) (f : FnVal) : Except Err Regs := do
  let inst := getReg rs 0
  let g : Regs := [inst]
  let g := g ++ (rs.drop 1).take (min f.expected callArgs)
  let g ← applyOptional g f callArgs f.expected
  let g := g ++ (rs.drop (1 + f.expected)).take (callArgs - f.expected)
  let g ← applyVariadic g 1 callArgs f f.expected
  pure (applyCaptures g f)

/-! ## Packed call arguments (`unpack_packed_arguments`) -/

def asIndex : Val → Except Err Nat
  | .num (.i n) => .ok n.toInt.toNat
  | .num (.f _) => .error .unsupported
  | _ => .error .type

/-- one round of the loop: unpack the argument whose *original* index is `idx` -/
def unpackOne (iter : Val → Option (List Val)) (orig : Nat) (st : Regs × Nat) (idx : Nat) :
    Except Err (Regs × Nat) :=
  let (rs, argCount) := st
  -- arg_offset = arg_count - original_arg_count (may be negative)
  let unpackIndex := ((1 + idx : Int) + ((argCount : Int) - (orig : Int))).toNat
  if unpackIndex ≥ rs.length then .error .panic
  else
    -- push(Null); swap_remove(unpack_index): the slot now holds Null, the value is taken out
    let iterable := getReg rs unpackIndex
    let rs := rs.set unpackIndex .null
    match iter iterable with
    | none => .error .iter
    | some vs =>
      -- max_unpacked_args = u8::MAX - arg_count - 1
      if vs.length > 254 - argCount then .error .limit
      else
        let argCount := argCount - 1 + vs.length
        .ok (rs.take unpackIndex ++ vs ++ rs.drop (unpackIndex + 1), argCount)

def unpackLoop (iter : Val → Option (List Val)) (orig : Nat) :
    List Nat → Regs × Nat → Except Err (Regs × Nat)
  | [], st => .ok st
  | i :: is, st =>
    match unpackOne iter orig st i with
    | .error e => .error e
    | .ok st' => unpackLoop iter orig is st'

def mapExcept {α β ε} (f : α → Except ε β) : List α → Except ε (List β)
  | [] => .ok []
  | x :: xs =>
    match f x with
    | .error e => .error e
    | .ok y => match mapExcept f xs with
      | .error e => .error e
      | .ok ys => .ok (y :: ys)

/-- `unpack_packed_arguments`: returns the new register file and the new argument count -/
def unpackPacked (iter : Val → Option (List Val)) (rs : Regs) (argCount packedCount : Nat) :
    Except Err (Regs × Nat) :=
  if packedCount = 0 then .ok (rs, argCount)
  else
    let firstPacked := 1 + argCount
    match mapExcept asIndex ((rs.drop firstPacked).take packedCount) with
    | .error e => .error e
    | .ok idxs =>
      -- drain(first_packed..last_packed)
      let rs := rs.take firstPacked ++ rs.drop (firstPacked + packedCount)
      unpackLoop iter argCount idxs (rs, argCount)

/-! ## The call sequence emitted by `compile_call` and executed by `call_callable` -/

/-- a call argument: value, and whether it is written `arg...` -/
abbrev CallArg := Val × Bool

/-- indices of the packed arguments, shifted by `off` (1 when a piped value is inserted first) -/
def packedIdxs : Nat → List CallArg → List Nat
  | _, [] => []
  | off, (_, true) :: as => off :: packedIdxs (off + 1) as
  | off, (_, false) :: as => packedIdxs (off + 1) as

/-- registers prepared by `compile_call`: frame base, [piped value], arguments, packed indices.
Returns (register file from the frame base, arg_count, packed_arg_count). -/
def compileCall (base : Val) (piped : Option Val) (args : List CallArg) : Regs × Nat × Nat :=
  let pre := match piped with | some v => [v] | none => []
  let idxs := packedIdxs pre.length args
  (base :: (pre ++ args.map (·.1) ++ idxs.map (fun i => Val.int (i : Nat))), pre.length + args.length, idxs.length)

/-- `call_callable` for a Koto function: frame base := instance or null, packed arguments,
then `call_koto_function` / `call_generator`. `rs` = registers from the frame base on. -/
def callCallable (iter : Val → Option (List Val)) (rs : Regs) (instance_ : Option Val)
    (argCount packedCount : Nat) (f : FnVal) (generator : Bool := false) : Except Err Regs := do
  let rs := setReg rs 0 (instance_.getD .null)
  let (rs, argCount) ← unpackPacked iter rs argCount packedCount
  if generator then callGenerator rs argCount f else callKoto rs argCount f

/-- the four call forms of the guide; `f(a, b)` and `f a, b` produce the same call instruction -/
def callPlain (iter : Val → Option (List Val)) (f : FnVal) (args : List CallArg) (generator := false) : Except Err Regs :=
  let (rs, n, p) := compileCall .null none args
  callCallable iter rs none n p f generator

/-- `lhs -> f args` -/
def callPiped (iter : Val → Option (List Val)) (f : FnVal) (lhs : Val) (args : List CallArg) (generator := false) : Except Err Regs :=
  let (rs, n, p) := compileCall .null (some lhs) args
  callCallable iter rs none n p f generator

/-- `m.f(args)` : `CallInstance`, the container is copied into the frame base -/
def callInstance (iter : Val → Option (List Val)) (f : FnVal) (inst : Val) (args : List CallArg) (generator := false) : Except Err Regs :=
  let (rs, n, p) := compileCall .null none args
  callCallable iter rs (some inst) n p f generator

/-- `lhs -> m.f args` (also through a longer chain `a.b.m.f`): the piped value is inserted as the
first argument *and* the parent container of the chain's last access is the call's instance -/
def callPipedInstance (iter : Val → Option (List Val)) (f : FnVal) (inst lhs : Val) (args : List CallArg)
    (generator := false) : Except Err Regs :=
  let (rs, n, p) := compileCall .null (some lhs) args
  callCallable iter rs (some inst) n p f generator

/-! ## Creation of the captures list (`run_make_function`, `compile_function`, `run_capture_value`)

`Function` creates a list of `optional_arg_count + capture_count` nulls. `Capture function, slot, value`
ops then fill it: default `i` goes to slot `i`; capture `j` goes to slot `optional_arg_count + j` —
immediately when the captured variable is assigned, and *deferred* until the enclosing assignment
is committed when it is the function's own (still reserved) name. -/

/-- where a captured value comes from -/
inductive CapSrc where
  | val (v : Val)      -- an assigned variable of the enclosing frame: captured now
  | self               -- the function's own assignment target: captured on commit
  deriving Inhabited

def setSlot (slots : List Val) (i : Nat) (v : Val) : List Val := slots.set i v

/-- `Capture f, i, default_i` for the defaults, in order -/
def applyDefaultCaps : List Val → Nat → List Val → List Val
  | slots, _, [] => slots
  | slots, i, v :: vs => applyDefaultCaps (setSlot slots i v) (i + 1) vs

/-- the capture loop of `compile_function`: immediate captures are written, deferred ones are
remembered as `(slot)` and written after the commit. `opt` = `optional_arg_count`. -/
def applyCaptureOps (opt : Nat) : List Val → Nat → List CapSrc → List Val × List Nat
  | slots, _, [] => (slots, [])
  | slots, j, .val v :: cs => applyCaptureOps opt (setSlot slots (opt + j) v) (j + 1) cs
  | slots, j, .self :: cs =>
    let (slots', deferred) := applyCaptureOps opt slots (j + 1) cs
    (slots', (opt + j) :: deferred)

def applyDeferred (fnVal : Val) : List Val → List Nat → List Val
  | slots, [] => slots
  | slots, i :: is => applyDeferred fnVal (setSlot slots i fnVal) is

/-- the captures list of a function after its creation and the commit of its assignment;
`fnVal` stands for the function value itself -/
def createCaptures (defaults : List Val) (caps : List CapSrc) (fnVal : Val) : List Val :=
  let slots := List.replicate (defaults.length + caps.length) Val.null
  let slots := applyDefaultCaps slots 0 defaults
  let (slots, deferred) := applyCaptureOps defaults.length slots 0 caps
  applyDeferred fnVal slots deferred

/-- the documented content of the list -/
def CapSrc.value (fnVal : Val) : CapSrc → Val
  | .val v => v
  | .self => fnVal

/-! ## Iteration of packed arguments (`make_iterator`) for the value kinds the harness generates -/

def rangeElems (a : Int) : Nat → List Val
  | 0 => []
  | n + 1 => Val.int a :: rangeElems (a + 1) n

/-- tuples, lists, ascending bounded ranges, ASCII strings (one character per byte), maps
(entries as `(key, value)` tuples); numbers/null/bool are not iterable -/
def elems : Val → Option (List Val)
  | .tuple xs => some xs
  | .list xs => some xs
  | .map es => some (es.map (fun (k, v) => .tuple [k, v]))
  | .str bs => some (bs.map (fun b => .str [b]))
  | .range (some a) (some (b, incl)) =>
    let hi := if incl then b.toInt + 1 else b.toInt
    some (rangeElems a.toInt (hi - a.toInt).toNat)
  | _ => none

/-! ## Argument patterns and the compile-time register layout -/

/-- an entry of a map pattern: key (UTF-8 bytes of the identifier), and the bound name
(`none` = `key as _`); for `{key}` the harness binds the identifier itself -/
abbrev MapEntry := List Nat × Option Name

/-- nested pattern inside `( … )` -/
inductive Pat where
  | id (n : Name)
  | ignored
  | packed (n : Option Name)        -- `rest...` / `...`
  | tuple (ps : List Pat)
  | map (es : List MapEntry)
  deriving Repr, Inhabited

/-- top-level parameter -/
inductive Param where
  | id (n : Name)
  | ignored
  | tuple (ps : List Pat)
  | map (es : List MapEntry)
  deriving Repr, Inhabited

structure FnDef where
  params : List Param
  optCount : Nat
  variadic : Bool
  /-- captured variables in capture-list order (`captures_for_nested_frame`) -/
  captures : List Name
  /-- locals assigned in the body that are not parameters (part of `local_count`) -/
  bodyLocals : Nat := 0
  /-- ids read by the body that are neither locals nor captures when the function is created
  (e.g. exported later): the rest of `accessed_non_locals`, resolved when the function runs -/
  lates : List Name := []
  deriving Repr, Inhabited

def mapEntryNames : List MapEntry → List Name
  | [] => []
  | (_, some n) :: es => n :: mapEntryNames es
  | (_, none) :: es => mapEntryNames es

mutual
/-- `collect_nested_args` for one nested pattern -/
def patNames : Pat → List Name
  | .id n => [n]
  | .ignored => []
  | .packed (some n) => [n]
  | .packed none => []
  | .tuple ps => patsNames ps
  | .map es => mapEntryNames es
def patsNames : List Pat → List Name
  | [] => []
  | p :: ps => patNames p ++ patsNames ps
end

/-- what `Frame::new` puts into `local_registers` for each slot -/
inductive Slot where
  | alloc                -- self, `_`, unpacked container
  | assigned (n : Name)
  deriving DecidableEq, Repr, Inhabited

def topSlot : Param → Slot
  | .id n => .assigned n
  | _ => .alloc

def nestedOfParam : Param → List Name
  | .tuple ps => patsNames ps
  | .map es => mapEntryNames es
  | _ => []

def nestedNames : List Param → List Name
  | [] => []
  | p :: ps => nestedOfParam p ++ nestedNames ps

/-- `Frame::new`: self, top-level arguments (placeholders for `_` and unpacked containers),
captures, then the names unpacked from containers -/
def frameSlots (d : FnDef) : List Slot :=
  .alloc :: d.params.map topSlot ++ d.captures.map Slot.assigned ++ (nestedNames d.params).map Slot.assigned

/-- `get_local_assigned_register`: first slot assigned to the name -/
def findSlot (n : Name) : List Slot → Nat → Option Nat
  | [], _ => none
  | s :: ss, i => if s = .assigned n then some i else findSlot n ss (i + 1)

def regOf (d : FnDef) (n : Name) : Option Nat := findSlot n (frameSlots d) 0

def dedup : List Name → List Name
  | [] => []
  | x :: xs => if xs.contains x then dedup xs else x :: dedup xs

def topNames : List Param → List Name
  | [] => []
  | .id n :: ps => n :: topNames ps
  | _ :: ps => topNames ps

def placeholders : List Param → Nat
  | [] => 0
  | .id _ :: ps => placeholders ps
  | _ :: ps => placeholders ps + 1

/-- pairwise distinct -/
def nodupB : List Name → Bool
  | [] => true
  | x :: xs => !xs.contains x && nodupB xs

/-- all argument names of a definition, top level and unpacked -/
def FnDef.paramNames (d : FnDef) : List Name := topNames d.params ++ nestedNames d.params

/-- well-formedness of a parameter list (/repo 7adfc01, `SyntaxError::DuplicateArgumentName`): an
argument name is used at most once, whatever the positions (top level, nested tuple, `rest...`, map
entry or `as` rebind, variadic); `_`/`_name` are not names. The parser rejects anything else, because
`local_count` counts distinct ids while `Frame::new` gives every occurrence its own register. -/
def FnDef.wellFormed (d : FnDef) : Bool := nodupB d.paramNames

/-- `temporary_base` of `Frame::new` (the parser's `local_count` = distinct assigned ids) -/
def tempBase (d : FnDef) : Nat :=
  1 + ((dedup (topNames d.params ++ nestedNames d.params)).length + d.bodyLocals)
    + d.captures.length + placeholders d.params

/-! ## The unpacking instructions emitted by `compile_arg` -/

inductive UInstr where
  | checkSizeEqual (r n : Nat)
  | checkSizeMin (r n : Nat)
  | tempIndex (dst src : Nat) (idx : Int)
  | sliceFrom (dst src : Nat) (idx : Int)
  | sliceTo (dst src : Nat) (idx : Int)
  | access (dst src : Nat) (key : List Nat)
  | compileError                      -- InvalidPositionForArgWithEllipses / unknown name
  deriving DecidableEq, Repr, Inhabited

def hasPacked : List Pat → Bool
  | [] => false
  | .packed _ :: _ => true
  | _ :: ps => hasPacked ps

/-- `args_size_op` -/
def sizeOp (r : Nat) (ps : List Pat) : UInstr :=
  if hasPacked ps then .checkSizeMin r (ps.length - 1) else .checkSizeEqual r ps.length

def regOr (d : FnDef) (n : Name) (k : Nat → List UInstr) : List UInstr :=
  match regOf d n with
  | some r => k r
  | none => [.compileError]

/-- `compile_unpack_nested_arg_of_map` for each entry; `tmp` = next temporary register -/
def compileMapEntries (d : FnDef) (container tmp : Nat) : List MapEntry → List UInstr
  | [] => []
  | (key, some n) :: es => regOr d n (fun r => [.access r container key]) ++ compileMapEntries d container tmp es
  | (key, none) :: es => .access tmp container key :: compileMapEntries d container tmp es

/-- index operand of `TempIndex`/`SliceFrom`: from the end after a leading ellipsis -/
def elemIdx (len i : Nat) (fromEnd : Bool) : Int :=
  if fromEnd then -((len - i : Nat) : Int) else (i : Int)

mutual
/-- one non-ellipsis element of a tuple pattern, read from `container` at index `idx` -/
def compilePatAt (d : FnDef) : (container tmp : Nat) → (idx : Int) → Pat → List UInstr
  | c, _, idx, .id n => regOr d n (fun r => [.tempIndex r c idx])
  | _, _, _, .ignored => []
  | _, _, _, .packed _ => []
  | c, tmp, idx, .tuple qs =>
    .tempIndex tmp c idx :: sizeOp tmp qs :: compileTupleElems d tmp (tmp + 1) qs.length 0 false qs
  | c, tmp, idx, .map es => .tempIndex tmp c idx :: compileMapEntries d tmp (tmp + 1) es
/-- `compile_unpack_nested_args_of_tuple`: `len` = number of patterns, `i` = position of the head
of the remaining list, `fromEnd` = a leading ellipsis was seen, `tmp` = next temporary register -/
def compileTupleElems (d : FnDef) : (container tmp len i : Nat) → (fromEnd : Bool) → List Pat → List UInstr
  | _, _, _, _, _, [] => []
  | c, tmp, len, i, fe, .packed on :: ps =>
    if i == 0 then
      (match on with
        | some n =>
          -- a sole `xs...` takes the whole container (SliceFrom 0); otherwise everything but the
          -- last `len - 1` elements (SliceTo -(len-1); for len = 1 that index would be 0 = nothing)
          if len == 1 then regOr d n (fun r => [.sliceFrom r c 0])
          else regOr d n (fun r => [.sliceTo r c (-((len - 1 : Nat) : Int))])
        | none => []) ++ compileTupleElems d c tmp len (i + 1) true ps
    else if ps.isEmpty then
      (match on with
        | some n => regOr d n (fun r => [.sliceFrom r c (elemIdx len i fe)])
        | none => [])
    else [.compileError]
  | c, tmp, len, i, fe, p :: ps =>
    compilePatAt d c tmp (elemIdx len i fe) p ++ compileTupleElems d c tmp len (i + 1) fe ps
end

/-- `compile_arg` for a top-level parameter in register `r` -/
def compileParam (d : FnDef) (r : Nat) : Param → List UInstr
  | .id _ => []
  | .ignored => []
  | .tuple ps => sizeOp r ps :: compileTupleElems d r (tempBase d) ps.length 0 false ps
  | .map es => compileMapEntries d r (tempBase d) es

def compileParams (d : FnDef) : Nat → List Param → List UInstr
  | _, [] => []
  | r, p :: ps => compileParam d r p ++ compileParams d (r + 1) ps

/-- the prologue of the function's frame (`compile_frame` before the body) -/
def prologue (d : FnDef) : List UInstr := compileParams d 1 d.params

/-! ## Executing the prologue -/

/-- `signed_index_to_unsigned` -/
def signedIndex (idx : Int) (size : Nat) : Nat :=
  if idx < 0 then size - min idx.natAbs size else idx.toNat

/-- `run_size` for the generated value kinds -/
def sizeOf : Val → Except Err Nat
  | .list xs => .ok xs.length
  | .tuple xs => .ok xs.length
  | .str bs => .ok bs.length
  | .map es => .ok es.length
  | .range _ _ => .error .unsupported
  | _ => .error .type

/-- `run_temp_index` -/
def tempIndex (v : Val) (idx : Int) : Except Err Val :=
  match v with
  | .list xs => .ok (xs.getD (signedIndex idx xs.length) .null)
  | .tuple xs => .ok (xs.getD (signedIndex idx xs.length) .null)
  | .map es =>
    .ok (match es[signedIndex idx es.length]? with
      | some (k, x) => .tuple [k, x]
      | none => .null)
  | .str bs =>
    -- `s.with_bounds(index..index + 1)` (ASCII strings only: one byte per character)
    .ok (match bs[signedIndex idx bs.length]? with
      | some b => .str [b]
      | none => .null)
  | .range _ _ => .error .unsupported
  | _ => .error .type

/-- `run_slice` -/
def slice (v : Val) (idx : Int) (isTo : Bool) : Except Err Val :=
  match v with
  | .list xs =>
    let i := signedIndex idx xs.length
    .ok (if i ≤ xs.length then .list (if isTo then xs.take i else xs.drop i) else .null)
  | .tuple xs =>
    let i := signedIndex idx xs.length
    .ok (if i ≤ xs.length then .tuple (if isTo then xs.take i else xs.drop i) else .null)
  | .map es =>
    let i := signedIndex idx es.length
    .ok (if i ≤ es.length then .map (if isTo then es.take i else es.drop i) else .null)
  | .str bs =>
    let i := signedIndex idx bs.length
    .ok (if i ≤ bs.length then .str (if isTo then bs.take i else bs.drop i) else .null)
  | .range _ _ => .error .unsupported
  | _ => .error .type

def keyEq : Val → List Nat → Bool
  | .str bs, key => bs == key
  | _, _ => false

def lookupKey (key : List Nat) : List (Val × Val) → Option Val
  | [] => none
  | (k, v) :: es => if keyEq k key then some v else lookupKey key es

/-- `run_access` with `error_if_not_found` (keys are never names of core-library functions) -/
def access (v : Val) (key : List Nat) : Except Err Val :=
  match v with
  | .map es => match lookupKey key es with
    | some x => .ok x
    | none => .error .notfound
  | .list _ => .error .notfound
  | .tuple _ => .error .notfound
  | .str _ => .error .notfound
  | .num _ => .error .notfound
  | .range _ _ => .error .notfound
  | _ => .error .type

def execU (rs : Regs) : UInstr → Except Err Regs
  | .checkSizeEqual r n => do
    let s ← sizeOf (getReg rs r)
    if s = n then pure rs else .error .size
  | .checkSizeMin r n => do
    let s ← sizeOf (getReg rs r)
    if s ≥ n then pure rs else .error .size
  | .tempIndex dst src idx => do
    let v ← tempIndex (getReg rs src) idx
    pure (setReg rs dst v)
  | .sliceFrom dst src idx => do
    let v ← slice (getReg rs src) idx false
    pure (setReg rs dst v)
  | .sliceTo dst src idx => do
    let v ← slice (getReg rs src) idx true
    pure (setReg rs dst v)
  | .access dst src key => do
    let v ← access (getReg rs src) key
    pure (setReg rs dst v)
  | .compileError => .error .unsupported

def execUs : Regs → List UInstr → Except Err Regs
  | rs, [] => .ok rs
  | rs, i :: is =>
    match execU rs i with
    | .error e => .error e
    | .ok rs' => execUs rs' is

/-! ## Whole call: bind, run the prologue, read the named variables -/

/-- runtime function value of a definition, given the values of its defaults and captures at
creation time -/
def FnDef.toVal (d : FnDef) (defaults captured : List Val) : FnVal :=
  { argCount := d.params.length, optCount := d.optCount, variadic := d.variadic,
    captures := defaults ++ captured }

/-- all named variables of the function in declaration order: top-level, nested, captures -/
def FnDef.names (d : FnDef) : List Name := topNames d.params ++ nestedNames d.params ++ d.captures

/-- value of a named variable after binding (what the body sees) -/
def readName (d : FnDef) (rs : Regs) (n : Name) : Val :=
  match regOf d n with
  | some r => getReg rs r
  | none => .null

/-- the NON_LOCAL_ACCESS flag of `compile_function`: `accessed_non_locals.len() > captures.len()`
with `accessed_non_locals` = captured ids ++ late-bound ids. The default values, although they share
the capture list, do not count. A function without the flag has no access to the module's exports. -/
def FnDef.nonLocalAccess (d : FnDef) : Bool := d.captures.length + d.lates.length > d.captures.length

def lookupName (n : Name) : List (Name × Val) → Option Val
  | [] => none
  | (m, v) :: r => if n == m then some v else lookupName n r

/-- value of a late-bound id when the body runs: a register if the compiler assigned one, otherwise
the export of that name at call time (`exports`), provided the function was created with access to
the non-locals -/
def readLate (d : FnDef) (rs : Regs) (exports : List (Name × Val)) (n : Name) : Except Err Val :=
  match regOf d n with
  | some r => .ok (getReg rs r)
  | none =>
    if d.nonLocalAccess then
      match lookupName n exports with
      | some v => .ok v
      | none => .error .notfound
    else .error .notfound

/-- bind + prologue; result: `self` and the values of all named variables -/
def enter (d : FnDef) (bound : Except Err Regs) : Except Err (Val × List Val) := do
  let rs ← bound
  let rs ← execUs rs (prologue d)
  pure (getReg rs 0, d.names.map (readName d rs))

end KotoVerif.Bind
