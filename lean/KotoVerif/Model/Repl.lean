/-
# Model/Repl.lean — the REPL's line-continuation state (crates/cli/src/repl.rs, `Repl::on_line`)

The REPL keeps one `Koto` instance alive and, besides it, two fields of its own: `continued_lines`
(the lines of an entry that is not complete yet) and `indent`. What the compiler and the runtime say
about an input is not modelled: it is the universally quantified `Verdict` of each line. What
`on_line` does with the verdict is mirrored as written:

* a line is *evaluated* when the buffer is empty or the line is blank: the input is the buffered
  lines (plus the line, unless it is blank);
  - it compiles: it is run, the result or the error is printed, **the buffer is cleared whether the
    run succeeded or failed**;
  - it does not compile with an indentation error *and the buffer is empty*: the line starts a
    continued entry (it is pushed, the next line is indented);
  - any other compile error (or a help request): the error is printed, the buffer is cleared;
* otherwise the line is pushed onto the buffer;
* `indent` is 0 when the buffer is empty, else the indent of the last buffered line (+2 when the
  buffered input ends in an indentation error).

Only core Lean is imported; everything is computable.
-/
namespace KotoVerif.Repl

/-- what the compiler / runtime say about the input that a line completes -/
inductive Verdict where
  /-- the input compiles and the run succeeds -/
  | runOk
  /-- the input compiles and the run ends in an error (thrown value, runtime error, failed type
      check, failed test, timeout, failing import) -/
  | runErr
  /-- the input does not compile: indentation error ("expected an indented block", …) -/
  | indentErr
  /-- the input does not compile: any other error; or it is a help request -/
  | otherErr
  deriving DecidableEq, Repr, Inhabited

/-- one typed line: `blank`, the indent of the line as typed (the REPL pre-fills it), the verdict
on the input it completes (used only when the line is evaluated), and whether the buffered input
would end in an indentation error after pushing it (used only when the line is pushed) -/
structure Line where
  blank : Bool
  indent : Nat := 0
  verdict : Verdict := .runOk
  pushIndents : Bool := false
  deriving DecidableEq, Repr, Inhabited

structure State where
  /-- `continued_lines` (their indents; the text does not matter here) -/
  lines : List Nat := []
  indent : Nat := 0
  /-- number of inputs handed to `Koto::run` so far (each is one execution on the shared runtime) -/
  runs : Nat := 0
  deriving DecidableEq, Repr, Inhabited

def INDENT_SIZE : Nat := 2

/-- the buffer after a line, and whether the next line gets extra indentation -/
def nextLines (lines : List Nat) (l : Line) : List Nat × Bool :=
  if lines.isEmpty || l.blank then
    match l.verdict with
    | .runOk => ([], false)
    | .runErr => ([], false)     -- `self.continued_lines.clear()` after the match on `run`'s result
    | .indentErr => if lines.isEmpty then ([l.indent], true) else ([], false)
    | .otherErr => ([], false)
  else (lines ++ [l.indent], l.pushIndents)

/-- the line hands an input to `Koto::run` -/
def runsInput (lines : List Nat) (l : Line) : Bool :=
  (lines.isEmpty || l.blank) && (l.verdict == .runOk || l.verdict == .runErr)

def indentOf (lines : List Nat) (indentNext : Bool) : Nat :=
  match lines.getLast? with
  | none => 0
  | some cur => if indentNext then cur + INDENT_SIZE else cur

/-- `Repl::on_line` -/
def onLine (s : State) (l : Line) : State :=
  { lines := (nextLines s.lines l).1,
    indent := indentOf (nextLines s.lines l).1 (nextLines s.lines l).2,
    runs := s.runs + (if runsInput s.lines l then 1 else 0) }

def session (ls : List Line) (s : State) : State := ls.foldl onLine s

/-- the prompt the REPL shows next: `»` (main) iff the buffer is empty -/
def atMainPrompt (s : State) : Bool := s.lines.isEmpty

end KotoVerif.Repl
