/-
C04 — mini language for the error-handling property (guide level).

A self-contained AST, independent of the other properties' models: markers, locals, in-place
mutable lists (so that "the state as it was at the throw point" is observable), `throw` of any
value, abstract failing primitives for every runtime-error kind, functions, native adaptors calling
back into functions (`each/keep/fold/sort`), generators consumed by `for`, overloaded operators,
`try` / typed `catch`* / `finally`, and `return`/`break`/`continue`.

Text is never stored: strings are atoms (`Str.lit n` is the literal `'str<n>'`), runtime error
messages are structured (`EK`) and rendered to text only by the driver.
-/
namespace KotoVerif.Try

/-- Type names as `koto.type` reports them (also the type hints of `catch e: T`). -/
inductive Ty where
  | null | bool | number | string | list | map
  | obj (c : Nat)
  /-- not a type: the map pattern `{k… as v…}` of a catch argument, by its key atoms -/
  | keys (ks : List Nat)
  deriving DecidableEq, Repr, Inhabited

/-- Binary operators of the mini language. `ge` on an object without `@>=` is derived by the
runtime from `@<` (`run_overridden_comparison_op`, a nested VM entry). -/
inductive BOp where
  | add | lt | ge
  deriving DecidableEq, Repr, Inhabited

/-- Runtime error kinds, with the parameters that appear in the message. -/
inductive EK where
  | index (i : Int) (n : Nat)            -- index out of bounds - index: i, size: n
  | binop (op : BOp) (l r : Ty)          -- unable to perform operation 'op' with 'l' and 'r'
  | invalidIndex (i : Int)               -- invalid index (i)   (index assignment)
  | assert                               -- assertion failed
  | argsFew (given expected : Nat)       -- insufficient arguments (given, expected n)
  | argsMany (given expected : Nat)      -- too many arguments (given, expected n)
  | access (t : Ty)                      -- expected a value that supports '.' access, found t
  | pred (t : Ty)                        -- expected Bool from the predicate, found t
  | expectedBool (t : Ty)                -- expected Bool, found t
  | other (n : Nat)                      -- outside the modelled envelope (never generated)
  deriving DecidableEq, Repr, Inhabited

/-- Strings: literal atoms and runtime error messages. -/
inductive Str where
  | lit (n : Nat)
  | err (k : EK)
  /-- the text an object's `@display` function returned (`'str<n>'`): shown unquoted in containers -/
  | shown (n : Nat)
  /-- display tokens: `[`, `]`, and the separator between the holes of an interpolated line -/
  | lb | rb | sep
  deriving DecidableEq, Repr, Inhabited

inductive Val where
  | null
  | bool (b : Bool)
  | int (i : Int)
  | str (s : Str)
  | list (r : Nat)          -- reference into the heap
  | mp (fs : List (Nat × Int))    -- an immutable map literal `{k<a>: i, …}` (key atoms → ints)
  | obj (c : Nat)           -- object of class `c` (`@type: 'K<c>'`, `@display: 'k<c>'`)
  deriving DecidableEq, Repr, Inhabited

def Val.ty : Val → Ty
  | .null => .null
  | .bool _ => .bool
  | .int _ => .number
  | .str _ => .string
  | .list _ => .list
  | .mp _ => .map
  | .obj c => .obj c

def recGet (fs : List (Nat × Int)) (k : Nat) : Option Int :=
  (fs.find? (fun f => f.1 == k)).map (·.2)

/-- Does a catch argument accept the value? No hint: always. A type hint: the value's type.
A map pattern: the value is a map that has every key of the pattern (anything else, or a missing
key, is "no match": the next catch block is tried; after the last one the error continues). -/
def accepts : Option Ty → Val → Bool
  | none, _ => true
  | some (.keys ks), v =>
    match v with
    | .mp fs => ks.all (fun k => (recGet fs k).isSome)
    | _ => false
  | some t, v => decide (v.ty = t)

/-- only `null` and `false` are falsy -/
def Val.truthy : Val → Bool
  | .null => false
  | .bool b => b
  | _ => true

inductive FaultKind where
  | idx      -- `(1, 2)[5]`
  | typ      -- `1 + 'a'`
  | asrt     -- `assert false`
  | args     -- `k1_()` with `k1_ = |a| a`
  | key      -- `nul_.foo` with `nul_ = null`
  deriving DecidableEq, Repr, Inhabited

def FaultKind.ek : FaultKind → EK
  | .idx => .index 5 2
  | .typ => .binop .add .number .string
  | .asrt => .assert
  | .args => .argsFew 0 1
  | .key => .access .null

inductive NatKind where
  | each | keep | fold | sort
  deriving DecidableEq, Repr, Inhabited

/-- Expressions (everything is an expression, as in Koto). -/
inductive E where
  | lit (v : Val)
  | var (x : Nat)
  | gvar (k : Nat)                          -- global list `g<k>` (captured by every function)
  | assign (x : Nat) (e : E)
  | emit (tag : Nat) (arg : Option E)       -- `print '#<tag> {type v} {v}'`
  | emitI (tag : Nat) (es : List E)         -- `print "#<tag> [{e1}|{e2}|…]"`: an interpolated string with holes
  | mkList (es : List E)
  | mkObj (c : Nat)
  | index (l i : E)
  | push (l e : E)
  | setIdx (l i e : E)
  | bin (op : BOp) (a b : E)
  | call (f : Nat) (args : List E)
  | native (k : NatKind) (f : Nat) (l : E)
  | throw (e : E)
  | fault (k : FaultKind)
  | seq (es : List E)
  | ite (c t e : E)
  | forList (x : Nat) (l : E) (body : E)
  | forGen (x : Nat) (g : Nat) (args : List E) (body : E)
  | brk
  | brkV (e : E)                            -- `break <e>`: the value is evaluated first, inside any enclosing try
  | cont
  | ret (e : E)
  | try_ (b : E) (cs : List (Option Ty × Nat × E)) (fin : Option E)
  deriving Repr, Inhabited

abbrev Catch := Option Ty × Nat × E

/-- A function or generator definition. -/
structure Def where
  isGen : Bool := false
  nparams : Nat := 0
  nlocals : Nat := 0             -- total number of locals, parameters included
  body : E := .seq []            -- function body
  segs : List (E × E) := []      -- generator: (statements, yielded expression) per `yield`
  tail : E := .seq []            -- generator: statements after the last `yield`
  deriving Repr, Inhabited

structure Cls where
  addFn : Option Nat := none     -- `@+: |o| f<k>(self, o)`
  ltFn : Option Nat := none      -- `@<: |o| f<k>(self, o)`
  dispFn : Option Nat := none    -- `@display: || f<k>(self)` (a script function: it may raise)
  deriving Repr, Inhabited

structure Prog where
  nglobals : Nat := 0
  classes : List Cls := []
  defs : List Def := []
  mainLocals : Nat := 0
  main : E := .seq []
  deriving Repr, Inhabited

/-- What an `emit` shows: the value, with list contents snapshotted. -/
inductive Shown where
  | atom (v : Val)
  | lst (vs : List Val)
  | parts (vs : List Val)    -- the display tokens of the holes of an interpolated marker line
  | toks (top : Val) (ts : List Val)   -- a displayed value: its display tokens (containers flattened)
  deriving DecidableEq, Repr, Inhabited

structure Ev where
  tag : Nat
  arg : Option Shown
  deriving DecidableEq, Repr, Inhabited

/-- Control signals. `vals` is only produced by argument-list evaluation; `oof` = out of fuel. -/
inductive Sig where
  | ok (v : Val)
  | vals (vs : List Val)
  | err (v : Val)
  | ret (v : Val)
  | brk
  | cont
  | oof
  deriving DecidableEq, Repr, Inhabited

structure St where
  locals : List Val := []
  heap : List (List Val) := []
  out : List Ev := []
  deriving DecidableEq, Repr, Inhabited

end KotoVerif.Try
