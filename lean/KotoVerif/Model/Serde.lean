/-
C20 — model of koto's serde data-model mapping (crates/serde) and of the Rust-type side.

Mirrors, as small total functions:

* `ser`      — `impl Serialize for SerializableKValue` (serialize.rs): which serializer method is
               called for which value; map keys go through `key.to_string()` (`keyStr`, the `Display`
               impl of `ValueKey`), so *every* key arrives as a string.
* `de`       — `KValueVisitor` (deserialize.rs): what each visitor method builds; the visitor methods
               it does not define are serde's defaults (`visit_i8..i32 → visit_i64`,
               `visit_u8..u32 → visit_u64`, `visit_f32 → visit_f64`, `visit_char → visit_str`,
               `visit_string/borrowed_str → visit_str`, `visit_byte_buf → visit_bytes`).
* `norm`     — the documented normal form of a round trip (lists → tuples, keys → strings).
* `toKoto`   — `Serializer` (serializer.rs) for a value of the Rust-type universe `RVal`.
* `fromKoto` — `Deserializer` (deserializer.rs) driven by a type description `Ty` (what the derived
               / std `Deserialize` impls ask for).

External facts are parameters (`Ext`): the text of a float used as a map key (Rust's `Display` for
`f64`), and the float conversions `as f32` / `as f64` / `as i64`.

`Option` results: `none` = the real function returns `Err`. The functions are total — "never a panic"
is the statement that the Rust functions are total as well, which is what the harness watches for.
-/
import KotoVerif.Model.Value

namespace KotoVerif.Serde
open KotoVerif

/-! ## Decidable equality on value trees (`Val` is a nested inductive; no deriving handler) -/

mutual
def beqV : Val → Val → Bool
  | .null, .null => true
  | .bool a, .bool b => a == b
  | .num a, .num b => decide (a = b)
  | .str a, .str b => decide (a = b)
  | .range a b, .range c d => decide (a = c) && decide (b = d)
  | .tuple a, .tuple b => beqL a b
  | .list a, .list b => beqL a b
  | .map a, .map b => beqE a b
  | _, _ => false
def beqL : List Val → List Val → Bool
  | [], [] => true
  | x :: xs, y :: ys => beqV x y && beqL xs ys
  | _, _ => false
def beqE : List (Val × Val) → List (Val × Val) → Bool
  | [], [] => true
  | (k, v) :: xs, (k', v') :: ys => beqV k k' && (beqV v v' && beqE xs ys)
  | _, _ => false
end

mutual
theorem beqV_eq : ∀ a b : Val, beqV a b = true → a = b
  | .null, b => by cases b <;> simp [beqV]
  | .bool a, b => by cases b <;> simp [beqV]
  | .num a, b => by cases b <;> simp [beqV]
  | .str a, b => by cases b <;> simp [beqV]
  | .range a c, b => by cases b <;> simp [beqV]
  | .tuple a, b => by
    cases b <;> simp [beqV]
    exact beqL_eq a _
  | .list a, b => by
    cases b <;> simp [beqV]
    exact beqL_eq a _
  | .map a, b => by
    cases b <;> simp [beqV]
    exact beqE_eq a _
theorem beqL_eq : ∀ a b : List Val, beqL a b = true → a = b
  | [], b => by cases b <;> simp [beqL]
  | x :: xs, b => by
    cases b with
    | nil => simp [beqL]
    | cons y ys =>
      simp only [beqL, Bool.and_eq_true, List.cons.injEq]
      exact fun ⟨h1, h2⟩ => ⟨beqV_eq x y h1, beqL_eq xs ys h2⟩
theorem beqE_eq : ∀ a b : List (Val × Val), beqE a b = true → a = b
  | [], b => by cases b <;> simp [beqE]
  | (k, v) :: xs, b => by
    cases b with
    | nil => simp [beqE]
    | cons y ys =>
      obtain ⟨k', v'⟩ := y
      simp only [beqE, Bool.and_eq_true, List.cons.injEq, Prod.mk.injEq]
      exact fun ⟨h1, h2, h3⟩ => ⟨⟨beqV_eq k k' h1, beqV_eq v v' h2⟩, beqE_eq xs ys h3⟩
end

mutual
theorem beqV_refl : ∀ a : Val, beqV a a = true
  | .null => by simp [beqV]
  | .bool a => by simp [beqV]
  | .num a => by simp [beqV]
  | .str a => by simp [beqV]
  | .range a c => by simp [beqV]
  | .tuple a => by simp [beqV, beqL_refl a]
  | .list a => by simp [beqV, beqL_refl a]
  | .map a => by simp [beqV, beqE_refl a]
theorem beqL_refl : ∀ a : List Val, beqL a a = true
  | [] => by simp [beqL]
  | x :: xs => by simp [beqL, beqV_refl x, beqL_refl xs]
theorem beqE_refl : ∀ a : List (Val × Val), beqE a a = true
  | [] => by simp [beqE]
  | (k, v) :: xs => by simp [beqE, beqV_refl k, beqV_refl v, beqE_refl xs]
end

instance : DecidableEq Val := fun a b =>
  if h : beqV a b = true then isTrue (beqV_eq a b h)
  else isFalse (fun e => h (e ▸ beqV_refl a))

/-! ## External facts -/

/-- Facts the model takes from outside (DESIGN §4): float → text and float conversions. -/
structure Ext where
  /-- `format!("{n}")` of a `KNumber::F64` (used only when a float is a map key) -/
  fmtFloat : UInt64 → List Nat
  /-- `f32 as f64` -/
  widen : UInt32 → UInt64
  /-- `f64 as f32` -/
  narrow : UInt64 → UInt32
  /-- `f64 as i64` (saturating, NaN ↦ 0) -/
  f2i : UInt64 → Int64
  /-- `f >= -2^63 && f < 2^63` (false for NaN): the guard of `number_to_i64` -/
  f2iOk : UInt64 → Bool
  /-- `i64 as f64` -/
  i2f : Int64 → UInt64
  /-- `i64 as f32` -/
  i2f32 : Int64 → UInt32
  /-- the `f64` nearest to an integer literal that fits neither `i64` nor `u64` (what `serde_json`
  hands over for such a literal) -/
  big2f : Int → UInt64

/-! ## Text of map keys: `impl Display for ValueKey` -/

def digitsAux : Nat → Nat → List Nat → List Nat
  | 0, _, acc => acc
  | fuel + 1, n, acc =>
    let acc' := (48 + n % 10) :: acc
    if n / 10 = 0 then acc' else digitsAux fuel (n / 10) acc'

/-- decimal digits (ASCII) of a natural number below 10^40 -/
def natDec (n : Nat) : List Nat := digitsAux 40 n []

def intDec (i : Int) : List Nat := if i < 0 then 45 :: natDec i.natAbs else natDec i.natAbs

def sNull : List Nat := [110, 117, 108, 108]
def sTrue : List Nat := [116, 114, 117, 101]
def sFalse : List Nat := [102, 97, 108, 115, 101]

/-- `impl Display for KRange` -/
def rangeStr (a : Option Int64) (b : Option (Int64 × Bool)) : List Nat :=
  (match a with | some x => intDec x.toInt | none => []) ++ [46, 46] ++
  (match b with
   | some (e, incl) => (if incl then [61] else []) ++ intDec e.toInt
   | none => [])

mutual
/-- `key.to_string()`; the `_ => Ok(())` arm (unhashable values, unreachable for real keys) prints
nothing -/
def keyStr (X : Ext) : Val → List Nat
  | .null => sNull
  | .bool true => sTrue
  | .bool false => sFalse
  | .num (.i n) => intDec n.toInt
  | .num (.f b) => X.fmtFloat b
  | .str s => s
  | .range a b => rangeStr a b
  | .tuple xs => [40] ++ keyStrL X xs ++ [41]
  | .list _ => []
  | .map _ => []
def keyStrL (X : Ext) : List Val → List Nat
  | [] => []
  | [x] => keyStr X x
  | x :: y :: r => keyStr X x ++ [44, 32] ++ keyStrL X (y :: r)
end

/-! ## The serde data model, as a `Visitor` sees it -/

inductive SVal where
  | unit
  | none
  | some (v : SVal)
  | bool (b : Bool)
  /-- `visit_i8 … visit_i64` (the narrow ones forward to `visit_i64`) -/
  | i64 (n : Int64)
  /-- `visit_u8 … visit_u64` -/
  | u64 (n : Nat)
  | i128 (n : Int)
  | u128 (n : Nat)
  /-- `visit_f64` (and `visit_f32`, widened by serde's default) -/
  | f64 (bits : UInt64)
  | char (cp : Nat)
  | str (bytes : List Nat)
  | bytes (bs : List Nat)
  | newtype (v : SVal)
  | seq (xs : List SVal)
  | map (es : List (SVal × SVal))
  /-- `visit_enum`: the variant is read with `variant::<DeserializableKValue>()`, the payload with
  `newtype_variant::<DeserializableKValue>()` -/
  | enum (variant : SVal) (payload : SVal)
  deriving Repr, Inhabited

def i64Max : Int := 9223372036854775807
def i64Min : Int := -9223372036854775808

def inI64 (n : Int) : Bool := decide (i64Min ≤ n) && decide (n ≤ i64Max)

/-! ### `ser` — serialize.rs -/

mutual
def ser (X : Ext) : Val → Option SVal
  | .null => some .unit
  | .bool b => some (.bool b)
  | .num (.i n) => some (.i64 n)
  | .num (.f b) => some (.f64 b)
  | .str s => some (.str s)
  | .list xs => (serL X xs).map .seq
  | .tuple xs => (serL X xs).map .seq
  | .map es => (serE X es).map .map
  | .range _ _ => none            -- `other => Err("serialization isn't supported for …")`
def serL (X : Ext) : List Val → Option (List SVal)
  | [] => some []
  | x :: xs =>
    match ser X x, serL X xs with
    | some s, some ss => some (s :: ss)
    | _, _ => none
def serE (X : Ext) : List (Val × Val) → Option (List (SVal × SVal))
  | [] => some []
  | (k, v) :: es =>
    match ser X v, serE X es with
    | some s, some ss => some ((.str (keyStr X k), s) :: ss)
    | _, _ => none
end

/-! ### `de` — deserialize.rs, `KValueVisitor` -/

mutual
/-- `KValue::is_hashable` -/
def hashable : Val → Bool
  | .null => true
  | .bool _ => true
  | .num _ => true
  | .range _ _ => true
  | .str _ => true
  | .tuple xs => hashableL xs
  | .list _ => false
  | .map _ => false
def hashableL : List Val → Bool
  | [] => true
  | x :: xs => hashable x && hashableL xs
end

/-- `IndexMap::insert`: an existing key keeps its position (and its key object), the value is
replaced; a new key is appended. Key equality is `ValueKey: PartialEq`, which is structural on the
hashable values this model admits as keys (floats compare by value there — float keys are outside
the modelled envelope, see `keysModelled`). -/
def insertKV (k v : Val) : List (Val × Val) → List (Val × Val)
  | [] => [(k, v)]
  | (k', v') :: r => if k' = k then (k', v) :: r else (k', v') :: insertKV k v r

def buildFrom (acc : List (Val × Val)) : List (Val × Val) → List (Val × Val)
  | [] => acc
  | (k, v) :: r => buildFrom (insertKV k v acc) r

/-- a `ValueMap` filled by successive `insert`s -/
def buildMap (es : List (Val × Val)) : List (Val × Val) := buildFrom [] es

/-- UTF-8 encoding of one scalar value (`char::encode_utf8`) -/
def utf8 (cp : Nat) : List Nat :=
  if cp < 0x80 then [cp]
  else if cp < 0x800 then [0xC0 + cp / 64, 0x80 + cp % 64]
  else if cp < 0x10000 then [0xE0 + cp / 4096, 0x80 + cp / 64 % 64, 0x80 + cp % 64]
  else [0xF0 + cp / 262144, 0x80 + cp / 4096 % 64, 0x80 + cp / 64 % 64, 0x80 + cp % 64]

def ofI (n : Int) : Option Val := if inI64 n then some (.num (.i (Int64.ofInt n))) else none

mutual
def de : SVal → Option Val
  | .unit => some .null
  | .none => some .null
  | .some v => de v                       -- `deserializer.deserialize_any(self)`
  | .newtype v => de v
  | .bool b => some (.bool b)
  | .i64 n => some (.num (.i n))
  | .u64 n => ofI n                       -- `i64::try_from(v)` or `invalid_value`
  | .i128 n => ofI n
  | .u128 n => ofI n
  | .f64 b => some (.num (.f b))
  | .char c => some (.str (utf8 c))
  | .str s => some (.str s)
  | .bytes bs => some (.tuple (bs.map (fun b => Val.num (.i (Int64.ofNat b)))))
  | .seq xs => (deL xs).map .tuple
  | .map es => (deE es).map (fun kvs => .map (buildMap kvs))
  | .enum var payload =>
    match de var, de payload with
    | some k, some v => if hashable k then some (.map [(k, v)]) else none
    | _, _ => none
def deL : List SVal → Option (List Val)
  | [] => some []
  | x :: xs =>
    match de x, deL xs with
    | some v, some vs => some (v :: vs)
    | _, _ => none
def deE : List (SVal × SVal) → Option (List (Val × Val))
  | [] => some []
  | (k, v) :: es =>
    match de k, de v, deE es with
    | some k', some v', some r => if hashable k' then some ((k', v') :: r) else none
    | _, _, _ => none
end

/-! ### `norm` — the documented normal form of a round trip -/

mutual
def norm (X : Ext) : Val → Val
  | .list xs => .tuple (normL X xs)
  | .tuple xs => .tuple (normL X xs)
  | .map es => .map (buildMap (normE X es))
  | .null => .null
  | .bool b => .bool b
  | .num n => .num n
  | .str s => .str s
  | .range a b => .range a b
def normL (X : Ext) : List Val → List Val
  | [] => []
  | x :: xs => norm X x :: normL X xs
def normE (X : Ext) : List (Val × Val) → List (Val × Val)
  | [] => []
  | (k, v) :: es => (.str (keyStr X k), norm X v) :: normE X es
end

/-! ### Predicates on value trees -/

mutual
/-- the property's "serializable value": no range in a value position (ranges as keys are text) -/
def serializable : Val → Bool
  | .range _ _ => false
  | .list xs => serializableL xs
  | .tuple xs => serializableL xs
  | .map es => serializableE es
  | _ => true
def serializableL : List Val → Bool
  | [] => true
  | x :: xs => serializable x && serializableL xs
def serializableE : List (Val × Val) → Bool
  | [] => true
  | (_, v) :: es => serializable v && serializableE es
end

mutual
def noNull : Val → Bool
  | .null => false
  | .list xs => noNullL xs
  | .tuple xs => noNullL xs
  | .map es => noNullE es
  | _ => true
def noNullL : List Val → Bool
  | [] => true
  | x :: xs => noNull x && noNullL xs
def noNullE : List (Val × Val) → Bool
  | [] => true
  | (_, v) :: es => noNull v && noNullE es
end

def isMap : Val → Bool
  | .map _ => true
  | _ => false

/-- IEEE-754 binary64: exponent field not all ones -/
def finiteBits (b : UInt64) : Bool := (b >>> 52) &&& 0x7FF != 0x7FF

mutual
def allFinite : Val → Bool
  | .num (.f b) => finiteBits b
  | .list xs => allFiniteL xs
  | .tuple xs => allFiniteL xs
  | .map es => allFiniteE es
  | _ => true
def allFiniteL : List Val → Bool
  | [] => true
  | x :: xs => allFinite x && allFiniteL xs
def allFiniteE : List (Val × Val) → Bool
  | [] => true
  | (_, v) :: es => allFinite v && allFiniteE es
end

mutual
/-- all map keys are strings (the property's "string-keyed map") -/
def strKeys : Val → Bool
  | .list xs => strKeysL xs
  | .tuple xs => strKeysL xs
  | .map es => strKeysE es
  | _ => true
def strKeysL : List Val → Bool
  | [] => true
  | x :: xs => strKeys x && strKeysL xs
def strKeysE : List (Val × Val) → Bool
  | [] => true
  | (.str _, v) :: es => strKeys v && strKeysE es
  | (_, _) :: _ => false
end

/-! ### Contracts of the text layers at the data-model interface (hypotheses, exercised by (K)) -/

mutual
/-- what `toml::to_string` accepts below the top level: no unit anywhere -/
def tomlNoUnit : SVal → Bool
  | .unit => false
  | .none => false
  | .seq xs => tomlNoUnitL xs
  | .map es => tomlNoUnitE es
  | _ => true
def tomlNoUnitL : List SVal → Bool
  | [] => true
  | x :: xs => tomlNoUnit x && tomlNoUnitL xs
def tomlNoUnitE : List (SVal × SVal) → Bool
  | [] => true
  | (_, v) :: es => tomlNoUnit v && tomlNoUnitE es
end

/-- `toml::to_string` succeeds iff the document is a table at the top and contains no unit -/
def tomlAccepts : SVal → Bool
  | .map es => tomlNoUnitE es
  | _ => false

mutual
/-- `serde_json` writes a non-finite float as `null` -/
def jsonLayer : SVal → SVal
  | .f64 b => if finiteBits b then .f64 b else .unit
  | .seq xs => .seq (jsonLayerL xs)
  | .map es => .map (jsonLayerE es)
  | s => s
def jsonLayerL : List SVal → List SVal
  | [] => []
  | x :: xs => jsonLayer x :: jsonLayerL xs
def jsonLayerE : List (SVal × SVal) → List (SVal × SVal)
  | [] => []
  | (k, v) :: es => (k, jsonLayer v) :: jsonLayerE es
end

/-! ### TOML entry order

TOML's syntax puts the plain `key = value` lines of a table before its sub-tables, so `toml`'s writer
emits, per table, first the entries whose value is written inline and then — in their original
order — the entries that become a `[table]` (a map) or an `[[array of tables]]` (a non-empty
sequence of maps only); the reader (`preserve_order`) keeps document order. Inline values (also the
inline tables inside mixed arrays) keep their order. The maps are equal as Koto values (`==` ignores
entry order); `tomlOrd` states the order exactly so that any *other* reordering is detected. -/

def isTableLike : Val → Bool
  | .map _ => true
  | .tuple xs => !xs.isEmpty && xs.all isMap
  | .list xs => !xs.isEmpty && xs.all isMap
  | _ => false

mutual
def tomlOrd : Val → Val
  | .map es => .map (tomlPlain es ++ tomlTables es)
  | .tuple xs => if !xs.isEmpty && xs.all isMap then .tuple (tomlOrdL xs) else .tuple xs
  | .list xs => if !xs.isEmpty && xs.all isMap then .list (tomlOrdL xs) else .list xs
  | .null => .null
  | .bool b => .bool b
  | .num n => .num n
  | .str s => .str s
  | .range a b => .range a b
def tomlOrdL : List Val → List Val
  | [] => []
  | x :: xs => tomlOrd x :: tomlOrdL xs
/-- the entries written inline, in order, untouched -/
def tomlPlain : List (Val × Val) → List (Val × Val)
  | [] => []
  | (k, v) :: es => if isTableLike v then tomlPlain es else (k, v) :: tomlPlain es
/-- the entries written as tables / arrays of tables, in order, each ordered inside -/
def tomlTables : List (Val × Val) → List (Val × Val)
  | [] => []
  | (k, v) :: es => if isTableLike v then (k, tomlOrd v) :: tomlTables es else tomlTables es
end

/-! ### Nesting depth and the readers' recursion limits -/

mutual
/-- number of container levels (a scalar has depth 0) -/
def depth : Val → Nat
  | .list xs => depthL xs + 1
  | .tuple xs => depthL xs + 1
  | .map es => depthE es + 1
  | _ => 0
def depthL : List Val → Nat
  | [] => 0
  | x :: xs => max (depth x) (depthL xs)
def depthE : List (Val × Val) → Nat
  | [] => 0
  | (_, v) :: es => max (depth v) (depthE es)
end

/-- `serde_json`'s reader gives up beyond 127 container levels ("recursion limit exceeded"),
`serde_yaml_ng`'s beyond 128, `toml`'s beyond 81 (the top-level table included). The writer's limit is
127 for all formats (`writerDepthLimit`), so only a value of depth 82 … 127 through TOML serializes
but cannot be read back (finding F-C20-5); JSON and YAML read everything the writer emits. Measured constants of
the pinned crates; exercised at the boundary by (K) on every run. -/
def jsonDepthLimit : Nat := 127
def yamlDepthLimit : Nat := 128
def tomlDepthLimit : Nat := 81

/-- `NESTING_LIMIT` of serialize.rs (commits c53b26d, d9992fd): entering a list, tuple or map while
127 containers are already being serialized is an error ("nested more than 127 levels deep") -/
def writerDepthLimit : Nat := 127

/-- **serialize.rs as it is**: the mapping `ser`, refused as a whole when some path of the value
nests more than `writerDepthLimit` containers (the traversal fails at the first container of level
129, and an error anywhere is an error of the whole call). -/
def serW (X : Ext) (v : Val) : Option SVal := if depth v ≤ writerDepthLimit then ser X v else none

/-- what `serde_json` hands over for an integer literal: `i64` if it fits, else `u64` if it fits,
else the nearest `f64` (so only the literals in `(i64::MAX, u64::MAX]` reach `visit_u64` and are
rejected by `KValueVisitor`; larger or more negative ones arrive as floats — finding F-C20-6) -/
def jsonInt (X : Ext) (n : Int) : SVal :=
  if inI64 n then .i64 (Int64.ofInt n)
  else if 0 ≤ n ∧ n ≤ 18446744073709551615 then .u64 n.toNat
  else .f64 (X.big2f n)

def tomlDatetimeKey : List Nat :=
  [36, 95, 95, 116, 111, 109, 108, 95, 112, 114, 105, 118, 97, 116, 101, 95, 100, 97, 116, 101, 116, 105, 109, 101]

/-- what `toml`'s reader hands over for a date/time literal: a one-entry map with the crate's private
key `$__toml_private_datetime` and the literal's text — the value loses its type (a note, not a
round-trip clause: the property speaks about value → text → value) -/
def tomlDatetime (text : List Nat) : SVal := .map [(.str tomlDatetimeKey, .str text)]

/-! ### Aliasing: values are graphs, `Val` is their unfolding

A Koto list or map is a shared, mutable container; a value can contain the same container twice
(a DAG) or contain itself (a cycle). `Val` is the tree unfolding, which exists exactly for the
acyclic values. `serG` mirrors `serialize.rs` on the graph itself: the containers that are being
serialized are tracked (`PARENT_CONTAINERS`, commit 31a9fd6) and meeting one of them again is an
error, so serialization is partial on cyclic values and total (= `ser` of the unfolding) on the
others. Fuel bounds the recursion for Lean; `nodes + 1` is always enough because the guard keeps the
nodes on the path distinct. -/

/-- an element of a container node: a scalar leaf or a reference to a node -/
inductive GElem where
  | leaf (n : Int64)
  | ref (i : Nat)
  deriving Repr, Inhabited, DecidableEq

/-- a container node: list (`isMap = false`) or map (entry `j` has the key `k<j>`) -/
structure GNode where
  isMap : Bool
  elems : List GElem
  deriving Repr, Inhabited

abbrev Graph := List GNode

/-- keys of graph maps: `k0`, `k1`, … -/
def gKey (j : Nat) : List Nat := 107 :: natDec j

def zipKeys (j : Nat) : List SVal → List (SVal × SVal)
  | [] => []
  | s :: ss => (.str (gKey j), s) :: zipKeys (j + 1) ss

def allSome {α : Type} : List (Option α) → Option (List α)
  | [] => some []
  | none :: _ => none
  | some a :: r => (allSome r).map (a :: ·)

def serG (g : Graph) : Nat → List Nat → Nat → Option SVal
  | 0, _, _ => none
  | fuel + 1, path, i =>
    if i ∈ path then none   -- "a container that contains itself"
    else if writerDepthLimit ≤ path.length then none   -- "nested more than 127 levels deep"
    else
      match g[i]? with
      | none => none
      | some node =>
        let elems := node.elems.map (fun e =>
          match e with
          | .leaf n => some (SVal.i64 n)
          | .ref j => serG g fuel (i :: path) j)
        (allSome elems).map (fun ss => if node.isMap then .map (zipKeys 0 ss) else .seq ss)

/-- successor relation of the graph -/
def gSucc (g : Graph) (i j : Nat) : Prop := ∃ node, g[i]? = some node ∧ GElem.ref j ∈ node.elems

mutual
/-- every integer the format hands over fits `i64` -/
def intsInRange : SVal → Bool
  | .u64 n => inI64 n
  | .i128 n => inI64 n
  | .u128 n => inI64 n
  | .some v => intsInRange v
  | .newtype v => intsInRange v
  | .seq xs => intsInRangeL xs
  | .map es => intsInRangeE es
  | .enum a b => intsInRange a && intsInRange b
  | _ => true
def intsInRangeL : List SVal → Bool
  | [] => true
  | x :: xs => intsInRange x && intsInRangeL xs
def intsInRangeE : List (SVal × SVal) → Bool
  | [] => true
  | (k, v) :: es => intsInRange k && (intsInRange v && intsInRangeE es)
end

/-! ## The Rust-type side -/

abbrev Name := List Nat

inductive IntK where
  | i8 | i16 | i32 | i64 | u8 | u16 | u32 | u64 | i128 | u128
  deriving DecidableEq, Repr, Inhabited

def IntK.lo : IntK → Int
  | .i8 => -128 | .i16 => -32768 | .i32 => -2147483648 | .i64 => i64Min
  | .u8 => 0 | .u16 => 0 | .u32 => 0 | .u64 => 0
  | .i128 => -170141183460469231731687303715884105728 | .u128 => 0

def IntK.hi : IntK → Int
  | .i8 => 127 | .i16 => 32767 | .i32 => 2147483647 | .i64 => i64Max
  | .u8 => 255 | .u16 => 65535 | .u32 => 4294967295 | .u64 => 18446744073709551615
  | .i128 => 170141183460469231731687303715884105727
  | .u128 => 340282366920938463463374607431768211455

/-- the types whose `deserialize_*` goes through `i64::try_from(n)` + `visit_i64` -/
def IntK.wide : IntK → Bool
  | .u64 => true | .i128 => true | .u128 => true | _ => false

inductive VKind where
  | unit | newtype | tuple | struct
  deriving DecidableEq, Repr, Inhabited

/-- Type descriptions. Newtype structs, unit structs and tuple structs are described by their
structural type (`serialize_newtype_struct`/`deserialize_newtype_struct` are transparent,
`serialize_unit_struct = serialize_unit`, `serialize_tuple_struct = serialize_tuple`).
A variant is `(name, kind, payload type)`; for `kind = tuple` the payload type is a `tuple`, for
`kind = struct` a `struct`, for `kind = unit` it is `unit`. -/
inductive Ty where
  | unit | bool
  | int (k : IntK)
  | f32 | f64 | char | string
  | option (t : Ty)
  | seq (t : Ty)
  | tuple (ts : List Ty)
  | map (t : Ty)
  | struct (fs : List (Name × Ty))
  | enum (vs : List (Name × VKind × Ty))
  deriving Repr, Inhabited

/-- Values of the universe. `int` carries the mathematical value (the type gives the width);
`map` lists the entries in the collection's own iteration order. -/
inductive RVal where
  | unit
  | bool (b : Bool)
  | int (n : Int)
  | f32 (bits : UInt32)
  | f64 (bits : UInt64)
  | char (cp : Nat)
  | str (s : List Nat)
  | none
  | some (x : RVal)
  | seq (xs : List RVal)
  | tuple (xs : List RVal)
  | map (es : List (Name × RVal))
  | struct (fs : List (Name × RVal))
  | variant (name : Name) (kind : VKind) (payload : RVal)
  deriving Repr, Inhabited

/-! ### `toKoto` — serializer.rs -/

mutual
def toKoto (X : Ext) : RVal → Option Val
  | .unit => some .null
  | .bool b => some (.bool b)
  | .int n => ofI n                      -- `OutOfRangeU64 / I128 / U128` otherwise
  | .f32 b => some (.num (.f (X.widen b)))
  | .f64 b => some (.num (.f b))
  | .char c => some (.str (utf8 c))
  | .str s => some (.str s)
  | .none => some .null
  | .some x => toKoto X x
  | .seq xs => (toKotoL X xs).map .tuple
  | .tuple xs => (toKotoL X xs).map .tuple
  | .map es => (toKotoF X es).map (fun kvs => .map (buildMap kvs))
  | .struct fs => (toKotoF X fs).map (fun kvs => .map (buildMap kvs))
  | .variant name .unit _ => some (.str name)
  | .variant name _ payload => (toKoto X payload).map (fun v => .map [(.str name, v)])
def toKotoL (X : Ext) : List RVal → Option (List Val)
  | [] => some []
  | x :: xs =>
    match toKoto X x, toKotoL X xs with
    | some v, some vs => some (v :: vs)
    | _, _ => none
def toKotoF (X : Ext) : List (Name × RVal) → Option (List (Val × Val))
  | [] => some []
  | (n, x) :: es =>
    match toKoto X x, toKotoF X es with
    | some v, some vs => some ((.str n, v) :: vs)
    | _, _ => none
end

/-! ### `fromKoto` — deserializer.rs -/

/-- `number_to_i64`: `I64(i) → Some(i)`; `F64(f) → Some(f as i64)` (truncated) if `-2^63 ≤ f < 2^63`,
otherwise (too large, NaN) `None` -/
def numI64 (X : Ext) : Num → Option Int
  | .i a => some a.toInt
  | .f b => if X.f2iOk b then some (X.f2i b).toInt else none

/-- `deserialize_i8 … deserialize_u128` followed by the primitive's visitor.
Narrow kinds and `i64`: `number_to_i64(n).and_then(|i| T::try_from(i).ok())`, else `OutOfRangeNumber`.
`u64`/`i128`/`u128`: `number_to_i64(n)` then `visit_i64(i)`, where the primitive's visitor rejects a
negative `i` for the unsigned types. Both are "the i64 lies in the type's range". -/
def fromInt (X : Ext) (k : IntK) (n : Num) : Option RVal :=
  match numI64 X n with
  | none => none
  | some i => if k.lo ≤ i ∧ i ≤ k.hi then some (.int i) else none

def isCont (b : Nat) : Bool := 0x80 ≤ b && b < 0xC0

/-- the single `char` of a string that has exactly one (`s.chars().count() == 1`) -/
def decodeOne : List Nat → Option Nat
  | [a] => if a < 0x80 then some a else none
  | [a, b] => if 0xC0 ≤ a && a < 0xE0 && isCont b then some ((a - 0xC0) * 64 + (b - 0x80)) else none
  | [a, b, c] =>
    if 0xE0 ≤ a && a < 0xF0 && isCont b && isCont c then
      some ((a - 0xE0) * 4096 + (b - 0x80) * 64 + (c - 0x80)) else none
  | [a, b, c, d] =>
    if 0xF0 ≤ a && a < 0xF8 && isCont b && isCont c && isCont d then
      some ((a - 0xF0) * 262144 + (b - 0x80) * 4096 + (c - 0x80) * 64 + (d - 0x80)) else none
  | _ => none

def strKey? : Val → Option Name
  | .str s => some s
  | _ => none

/-- first entry whose key is the string `n` -/
def lookupStr (n : Name) : List (Val × Val) → Option Val
  | [] => none
  | (.str s, v) :: r => if s = n then some v else lookupStr n r
  | (_, _) :: r => lookupStr n r

def allStrKeys : List (Val × Val) → Bool
  | [] => true
  | (.str _, _) :: r => allStrKeys r
  | (_, _) :: _ => false

def countKey (n : Name) : List (Val × Val) → Nat
  | [] => 0
  | (.str s, _) :: r => (if s = n then 1 else 0) + countKey n r
  | (_, _) :: r => countKey n r

/-- `BTreeMap<String, T>::insert` on an association list (last value wins, first position kept) -/
def insertN (k : Name) (v : RVal) : List (Name × RVal) → List (Name × RVal)
  | [] => [(k, v)]
  | (k', v') :: r => if k' = k then (k', v) :: r else (k', v') :: insertN k v r

def buildFromN (acc : List (Name × RVal)) : List (Name × RVal) → List (Name × RVal)
  | [] => acc
  | (k, v) :: r => buildFromN (insertN k v acc) r

def isOption : Ty → Bool
  | .option _ => true
  | _ => false

/-- `Vec<T>`: every element through `T` -/
def allM (f : Val → Option RVal) : List Val → Option (List RVal)
  | [] => some []
  | v :: vs =>
    match f v, allM f vs with
    | some x, some xs => some (x :: xs)
    | _, _ => none

/-- `BTreeMap<String, T>`: keys through `deserialize_string`, values through `T` -/
def entriesM (f : Val → Option RVal) : List (Val × Val) → Option (List (Name × RVal))
  | [] => some []
  | (k, v) :: es =>
    match strKey? k, f v, entriesM f es with
    | some n, some x, some r => some ((n, x) :: r)
    | _, _, _ => none

/-- no field name occurs twice among the keys (`duplicate field` otherwise) -/
def fieldsOnce {α : Type} : List (Name × α) → List (Val × Val) → Bool
  | [], _ => true
  | (n, _) :: fs, es => decide (countKey n es ≤ 1) && fieldsOnce fs es

mutual
def fromKoto (X : Ext) : Ty → Val → Option RVal
  | .unit, v => (match v with | .null => some .unit | _ => none)
  | .bool, v => (match v with | .bool b => some (.bool b) | _ => none)
  | .int k, v => (match v with | .num n => fromInt X k n | _ => none)
  | .f32, v =>
    (match v with
     | .num (.i a) => some (.f32 (X.i2f32 a))
     | .num (.f b) => some (.f32 (X.narrow b))
     | _ => none)
  | .f64, v =>
    (match v with
     | .num (.i a) => some (.f64 (X.i2f a))
     | .num (.f b) => some (.f64 b)
     | _ => none)
  | .char, v => (match v with | .str s => (decodeOne s).map .char | _ => none)
  | .string, v => (match v with | .str s => some (.str s) | _ => none)
  | .option t, v => (match v with | .null => some .none | v => (fromKoto X t v).map .some)
  | .seq t, v =>
    (match v with
     | .tuple xs => (allM (fromKoto X t) xs).map .seq
     | .list xs => (allM (fromKoto X t) xs).map .seq
     | _ => none)
  | .tuple ts, v =>
    (match v with
     | .tuple xs => (fromPos X ts xs).map .tuple
     | .list xs => (fromPos X ts xs).map .tuple
     | _ => none)
  | .map t, v =>
    (match v with
     | .map es => (entriesM (fromKoto X t) es).map (fun kvs => .map (buildFromN [] kvs))
     | _ => none)
  | .struct fs, v =>
    (match v with
     | .map es =>
       if allStrKeys es && fieldsOnce fs es then (fromFields X fs es).map .struct else none
     | .tuple xs => (fromFieldsPos X fs xs).map .struct
     | .list xs => (fromFieldsPos X fs xs).map .struct
     | _ => none)
  | .enum vs, v =>
    (match v with
     | .str s => fromVariant X vs s .null
     | .map [(.str s, payload)] => fromVariant X vs s payload
     | _ => none)
/-- tuples / tuple structs / tuple variants: exactly as many elements as fields -/
def fromPos (X : Ext) : List Ty → List Val → Option (List RVal)
  | [], [] => some []
  | t :: ts, v :: vs =>
    (match fromKoto X t v, fromPos X ts vs with
     | some x, some xs => some (x :: xs)
     | _, _ => none)
  | _, _ => none
/-- derived struct visitor, `visit_map`: a field is read from the entry with its name; a missing
field is an error unless its type is an `Option` (serde's `missing_field`) -/
def fromFields (X : Ext) : List (Name × Ty) → List (Val × Val) → Option (List (Name × RVal))
  | [], _ => some []
  | (n, t) :: fs, es =>
    match (match lookupStr n es with
           | some v => fromKoto X t v
           | none => if isOption t then some .none else none),
          fromFields X fs es with
    | some x, some r => some ((n, x) :: r)
    | _, _ => none
/-- derived struct visitor, `visit_seq` -/
def fromFieldsPos (X : Ext) : List (Name × Ty) → List Val → Option (List (Name × RVal))
  | [], [] => some []
  | (n, t) :: fs, v :: vs =>
    (match fromKoto X t v, fromFieldsPos X fs vs with
     | some x, some r => some ((n, x) :: r)
     | _, _ => none)
  | _, _ => none
/-- `visit_enum` of a derived enum: the tag selects the variant, the payload is read according to
the variant's kind (`unit_variant`, `newtype_variant_seed`, `tuple_variant`, `struct_variant`) -/
def fromVariant (X : Ext) : List (Name × VKind × Ty) → Name → Val → Option RVal
  | [], _, _ => none
  | (n, k, t) :: vs, s, payload =>
    if n = s then
      match k with
      | .unit => (match payload with | .null => some (.variant n .unit .unit) | _ => none)
      | .newtype => (fromKoto X t payload).map (.variant n .newtype)
      | .tuple => (fromKoto X t payload).map (.variant n .tuple)
      | .struct =>
        -- `deserialize_map`: only a map is accepted here (not a tuple/list as for a plain struct)
        (match payload with
         | .map _ => (fromKoto X t payload).map (.variant n .struct)
         | _ => none)
    else fromVariant X vs s payload
end

/-! ### Typing of `RVal` by `Ty` -/

def scalar (cp : Nat) : Bool := cp < 0xD800 || (0xE000 ≤ cp && cp < 0x110000)

def names {α : Type} (fs : List (Name × α)) : List Name := fs.map (·.1)

mutual
def hasTy : Ty → RVal → Bool
  | .unit, x => (match x with | .unit => true | _ => false)
  | .bool, x => (match x with | .bool _ => true | _ => false)
  | .int k, x => (match x with | .int n => decide (k.lo ≤ n) && decide (n ≤ k.hi) | _ => false)
  | .f32, x => (match x with | .f32 _ => true | _ => false)
  | .f64, x => (match x with | .f64 _ => true | _ => false)
  | .char, x => (match x with | .char c => scalar c | _ => false)
  | .string, x => (match x with | .str _ => true | _ => false)
  | .option t, x => (match x with | .none => true | .some y => hasTy t y | _ => false)
  | .seq t, x => (match x with | .seq xs => xs.all (hasTy t) | _ => false)
  | .tuple ts, x => (match x with | .tuple xs => hasTyPos ts xs | _ => false)
  | .map t, x => (match x with | .map es => es.all (fun e => hasTy t e.2) && decide (names es).Nodup | _ => false)
  | .struct fs, x => (match x with | .struct xs => hasTyFields fs xs | _ => false)
  | .enum vs, x => (match x with | .variant n k p => hasTyVariant vs n k p | _ => false)
def hasTyPos : List Ty → List RVal → Bool
  | [], [] => true
  | t :: ts, x :: xs => hasTy t x && hasTyPos ts xs
  | _, _ => false
def hasTyFields : List (Name × Ty) → List (Name × RVal) → Bool
  | [], [] => true
  | (n, t) :: fs, (m, x) :: xs => decide (n = m) && hasTy t x && hasTyFields fs xs
  | _, _ => false
def hasTyVariant : List (Name × VKind × Ty) → Name → VKind → RVal → Bool
  | [], _, _, _ => false
  | (n, k, t) :: vs, m, k', p =>
    if n = m then decide (k = k') && hasTy t p else hasTyVariant vs m k' p
end

/-- types whose values can serialize to `null` -/
def nullable : Ty → Bool
  | .unit => true
  | .option _ => true
  | _ => false

def kindOk : VKind → Ty → Bool
  | .unit, .unit => true
  | .newtype, _ => true
  | .tuple, .tuple _ => true
  | .struct, .struct _ => true
  | _, _ => false

mutual
/-- well-formed type descriptions: distinct field / variant names, variant kinds consistent, and
no `Option` directly around a nullable type (the excluded shape of `rust_roundtrip_partial`) -/
def wfTy : Ty → Bool
  | .option t => !nullable t && wfTy t
  | .seq t => wfTy t
  | .map t => wfTy t
  | .tuple ts => wfTyL ts
  | .struct fs => decide (names fs).Nodup && wfTyF fs
  | .enum vs => decide (names vs).Nodup && wfTyV vs
  | _ => true
def wfTyL : List Ty → Bool
  | [] => true
  | t :: ts => wfTy t && wfTyL ts
def wfTyF : List (Name × Ty) → Bool
  | [] => true
  | (_, t) :: fs => wfTy t && wfTyF fs
def wfTyV : List (Name × VKind × Ty) → Bool
  | [] => true
  | (_, k, t) :: vs => kindOk k t && wfTy t && wfTyV vs
end

mutual
/-- every integer in the value fits `i64` (otherwise `to_koto_value` reports `OutOfRange…`) -/
def intsFit : RVal → Bool
  | .int n => inI64 n
  | .some x => intsFit x
  | .seq xs => intsFitL xs
  | .tuple xs => intsFitL xs
  | .map es => intsFitF es
  | .struct fs => intsFitF fs
  | .variant _ .unit _ => true
  | .variant _ _ p => intsFit p
  | _ => true
def intsFitL : List RVal → Bool
  | [] => true
  | x :: xs => intsFit x && intsFitL xs
def intsFitF : List (Name × RVal) → Bool
  | [] => true
  | (_, x) :: es => intsFit x && intsFitF es
end

end KotoVerif.Serde
