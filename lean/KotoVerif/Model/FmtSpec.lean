/-
Model of Koto's string-format options (shared by C15 and C11):

* `StringFormatOptions::parse`  (crates/parser/src/string_format_options.rs) — `parse`
* the text form of an options value (what the formatter must print so that it re-parses) — `renderOpts`
* `run_string_push`             (crates/runtime/src/vm.rs) — `applyFmt`: precision, representation,
  fill / alignment / minimum width measured in grapheme clusters

Mirrors the code, quirks included:
* the fill is the first *character* when it is directly followed by `<`, `^`, `>`, otherwise the first
  *grapheme cluster* (and then an alignment character must follow);
* `0` directly followed by a digit sets the fill to `"0"` (overriding an explicit fill);
* centre alignment computes the two halves through `f32` (`fill_chars as f32 / 2.0`, floor / ceil), which
  loses a unit for odd counts above 2^24;
* `precision` on an integer goes through `f64` when `(n as f64 as i64) == n` — true for `i64::MAX` by
  saturation, which then prints as 9223372036854775808.

Grapheme segmentation is an input: `gFirst s` = byte length of the first extended grapheme cluster of
the non-empty string `s` (supplied by the caller; never computed here). Core Lean + `Model/Utf8` only.
-/
import KotoVerif.Model.Utf8

namespace KotoVerif.FmtSpec
open KotoVerif.Utf8

inductive Align where
  | default | left | center | right
  deriving DecidableEq, Repr, Inhabited

/-- `StringFormatRepresentation` -/
inductive Rep where
  | debug | hexLower | hexUpper | binary | octal | expLower | expUpper
  deriving DecidableEq, Repr, Inhabited

/-- `StringFormatOptions` (the fill is the constant's text) -/
structure Opts where
  align : Align := .default
  minWidth : Option Nat := none
  precision : Option Nat := none
  fill : Option Bytes := none
  rep : Option Rep := none
  deriving DecidableEq, Repr, Inhabited

/-- `FormatParsePosition` -/
inductive Pos where
  | start | alignment | minWidth | precision | type | end_
  deriving DecidableEq, Repr

/-- `StringFormatError` (the offending character as its bytes) -/
inductive PErr where
  | expectedNumber (c : Bytes)
  | tooLarge
  | unexpectedToken (c : Bytes)
  | reprNotInteger          -- run-time: a radix representation applied to a float that is not an `i64` value
                            -- (only with requests/C15-fix-14.diff applied)
  deriving DecidableEq, Repr

def u32max : Nat := 4294967295

def alignOf? (c : Bytes) : Option Align :=
  if c = [60] then some .left else if c = [94] then some .center else if c = [62] then some .right else none

def alignChar : Align → Bytes
  | .default => []
  | .left => [60]
  | .center => [94]
  | .right => [62]

def digit? : Bytes → Option Nat
  | [b] => if 48 ≤ b ∧ b ≤ 57 then some (b - 48) else none
  | _ => none

def repOf? (c : Bytes) : Option Rep :=
  if c = [63] then some .debug
  else if c = [98] then some .binary
  else if c = [111] then some .octal
  else if c = [120] then some .hexLower
  else if c = [88] then some .hexUpper
  else if c = [101] then some .expLower
  else if c = [69] then some .expUpper
  else none

def repChar : Rep → Bytes
  | .debug => [63] | .binary => [98] | .octal => [111] | .hexLower => [120] | .hexUpper => [88]
  | .expLower => [101] | .expUpper => [69]

/-- the `while let Some(n_next @ '0'..='9') = chars.peek()` loop of `consume_u32` -/
def consumeDigits : Nat → List Bytes → Except PErr (Nat × List Bytes)
  | n, [] => .ok (n, [])
  | n, c :: cs =>
    match digit? c with
    | some d => if n * 10 + d > u32max then .error .tooLarge else consumeDigits (n * 10 + d) cs
    | none => .ok (n, c :: cs)

def posIn (p : Pos) (ps : List Pos) : Bool := ps.contains p

/-- the `while let Some(next) = chars.next()` loop of `StringFormatOptions::parse`; the arms are tried
in source order. `fmt` is the whole format string (needed for the grapheme-cluster fill). -/
def parseLoop (gFirst : Bytes → Nat) (fmt : Bytes) : Nat → List Bytes → Pos → Opts → Except PErr Opts
  | 0, _, _, o => .ok o
  | _ + 1, [], _, o => .ok o
  | fuel + 1, next :: rest, pos, o =>
    match (if pos = .start then rest.head?.bind alignOf? else none) with
    | some al =>
      -- (_, Some('<' | '^' | '>'), Start): single-character fill
      parseLoop gFirst fmt fuel (rest.drop 1) .minWidth { o with fill := some next, align := al }
    | none =>
      match (if posIn pos [.start, .alignment] then alignOf? next else none) with
      | some al => parseLoop gFirst fmt fuel rest .minWidth { o with align := al }
      | none =>
        if next = [48] ∧ (rest.head?.bind digit?).isSome ∧ posIn pos [.start, .minWidth] then
          parseLoop gFirst fmt fuel rest .minWidth { o with fill := some [48] }
        else match (if posIn pos [.start, .minWidth] then digit? next else none) with
          | some d =>
            (match consumeDigits d rest with
             | .error e => .error e
             | .ok (n, rest') => parseLoop gFirst fmt fuel rest' .precision { o with minWidth := some n })
          | none =>
            if next = [46] ∧ rest ≠ [] ∧ posIn pos [.start, .minWidth, .precision] then
              (match rest with
               | [] => .ok o
               | first :: rest' =>
                 match digit? first with
                 | none => .error (.expectedNumber first)
                 | some d =>
                   match consumeDigits d rest' with
                   | .error e => .error e
                   | .ok (n, rest'') => parseLoop gFirst fmt fuel rest'' .type { o with precision := some n })
            else match (if posIn pos [.start, .minWidth, .precision, .type] then repOf? next else none) with
              | some r => parseLoop gFirst fmt fuel rest .end_ { o with rep := some r }
              | none =>
                if pos = .start then
                  -- (_, _, Start): grapheme-cluster fill; the scan resumes after the cluster
                  let g := gFirst fmt
                  parseLoop gFirst fmt fuel (charsOf (fmt.drop g)) .alignment { o with fill := some (fmt.take g) }
                else .error (.unexpectedToken next)

/-- `StringFormatOptions::parse(format_string)`.
`clusterFirst = true` describes a tree with requests/C15-fix-6.diff applied: before the loop, a first
grapheme cluster that is directly followed by an alignment character is taken as the fill (what the lexer
already does), so a fill cluster whose first character is a digit / representation character works. -/
def parse (gFirst : Bytes → Nat) (fmt : Bytes) (clusterFirst : Bool := false) : Except PErr Opts :=
  let g := gFirst fmt
  let rest := fmt.drop g
  match (if clusterFirst ∧ fmt ≠ [] ∧ rest ≠ [] ∧ gFirst rest = 1 then alignOf? (rest.take 1) else none) with
  | some al =>
    parseLoop gFirst fmt (fmt.length + 1) (charsOf (rest.drop 1)) .minWidth { fill := some (fmt.take g), align := al }
  | none => parseLoop gFirst fmt (fmt.length + 1) (charsOf fmt) .start {}

/-! ### text form of an options value -/

def digitChar (d : Nat) (upper : Bool) : Nat :=
  if d < 10 then 48 + d else (if upper then 55 else 87) + d

/-- digits of `n` in `base`, most significant first -/
def natDigits (base : Nat) (upper : Bool) : Nat → Nat → Bytes
  | 0, _ => []
  | fuel + 1, n =>
    if n < base then [digitChar n upper]
    else natDigits base upper fuel (n / base) ++ [digitChar (n % base) upper]

def showNat (base : Nat) (upper : Bool) (n : Nat) : Bytes := natDigits base upper 70 n

def showDec (n : Nat) : Bytes := showNat 10 false n

/-- canonical text of an options value: `[fill][align][width][.precision][representation]`.
An explicit fill needs an alignment character to re-parse (`Default` alignment has none) — except the
fill `"0"`, which is written as the `0` flag before the width. -/
def renderOpts (o : Opts) : Bytes :=
  let fillAlign :=
    match o.fill, o.align with
    | some f, .default => if f = [48] ∧ o.minWidth.isSome then [] else f
    | some f, a => f ++ alignChar a
    | none, a => alignChar a
  let zero := match o.fill, o.align with
    | some f, .default => if f = [48] ∧ o.minWidth.isSome then [48] else []
    | _, _ => []
  let w := match o.minWidth with | some n => showDec n | none => []
  let p := match o.precision with | some n => 46 :: showDec n | none => []
  let r := match o.rep with | some r => repChar r | none => []
  fillAlign ++ zero ++ w ++ p ++ r

/-! ### applying the options (`run_string_push`) -/

/-- values that are interpolated in the modelled envelope -/
inductive FVal where
  | str (b : Bytes)
  | int (n : Int)          -- an `i64`
  | bool (b : Bool)
  | null
  deriving DecidableEq, Repr, Inhabited

def showInt (n : Int) : Bytes :=
  if n < 0 then 45 :: showDec n.natAbs else showDec n.toNat

def two64 : Nat := 18446744073709551616

/-- `{n:x}` etc. on an `i64`: two's complement, no sign -/
def showRadix (base : Nat) (upper : Bool) (n : Int) : Bytes :=
  showNat base upper (if n < 0 then (n + two64).toNat else n.toNat)

def stripZeros : Nat → Nat → Nat → Nat × Nat
  | 0, n, e => (n, e)
  | fuel + 1, n, e => if n % 10 = 0 ∧ n ≥ 10 then stripZeros fuel (n / 10) (e + 1) else (n, e)

/-- `{n:e}` on an `i64` without precision: mantissa without trailing zeros, `e`, decimal exponent -/
def showExp (upper : Bool) (n : Int) : Bytes :=
  let (m, tz) := stripZeros 20 n.natAbs 0
  let ds := showDec m
  let mant := match ds with
    | [] => []
    | [d] => [d]
    | d :: r => d :: 46 :: r
  (if n < 0 then [45] else []) ++ mant ++ [if upper then 69 else 101] ++ showDec (tz + ds.length - 1)

def bitLen : Nat → Nat → Nat
  | 0, _ => 0
  | fuel + 1, n => if n = 0 then 0 else 1 + bitLen fuel (n / 2)

/-- `KNumber::is_i64_in_f64_range`: `(n as f64 as i64) == n` — exactly representable, or `i64::MAX`
(rounds up to 2^63, which saturates back) -/
def inF64Range (n : Int) : Bool :=
  let a := n.natAbs
  let bl := bitLen 70 a
  (bl ≤ 53 || a % 2 ^ (bl - 53) == 0) || n == 9223372036854775807

/-- the integer `n as f64` prints as, when `inF64Range n` -/
def f64Int (n : Int) : Int := if n = 9223372036854775807 then 9223372036854775808 else n

/-- `UnaryOp::Display` / `UnaryOp::Debug` -/
def display : FVal → Bytes
  | .str b => b
  | .int n => showInt n
  | .bool true => [116, 114, 117, 101]
  | .bool false => [102, 97, 108, 115, 101]
  | .null => [110, 117, 108, 108]

def debug : FVal → Bytes
  | .str b => [39] ++ b ++ [39]
  | v => display v

/-- first part of `run_string_push`: the value rendered with precision and representation -/
def render (gFirst : Bytes → Nat) (v : FVal) (o : Option Opts) : Bytes :=
  let precision := o.bind (·.precision)
  let rep := o.bind (·.rep)
  match v with
  | .int n =>
    (match rep with
     | some .debug => showInt n
     | some .hexLower => showRadix 16 false n
     | some .hexUpper => showRadix 16 true n
     | some .binary => showRadix 2 false n
     | some .octal => showRadix 8 false n
     | some .expLower => showExp false n
     | some .expUpper => showExp true n
     | none =>
       match precision with
       | some p =>
         if inF64Range n then showInt (f64Int n) ++ (if p = 0 then [] else 46 :: List.replicate p 48)
         else showInt n
       | none => showInt n)
  | other =>
    let text := if rep = some .debug then debug other else display other
    match precision with
    | some p => ((graphemes gFirst text).take p).flatten
    | none => text

/-- `usize as f32` (round to nearest, ties to even) as a natural number -/
def f32Exp : Nat → Nat → Nat
  | 0, _ => 0
  | fuel + 1, n => if n < 16777216 then 0 else 1 + f32Exp fuel (n / 2)

def roundF32 (n : Nat) : Nat :=
  let e := f32Exp 64 n
  if e = 0 then n
  else
    let q := n / 2 ^ e
    let r := n % 2 ^ e
    let half := 2 ^ (e - 1)
    let q' := if r > half ∨ (r = half ∧ q % 2 = 1) then q + 1 else q
    q' * 2 ^ e

/-- fill counts `(left, right)` for `fillChars` missing clusters.
`exactCenter = true` describes a tree with requests/C15-fix-2.diff applied (integer halves). -/
def fillCounts (a : Align) (isNumber : Bool) (fillChars : Nat) (exactCenter : Bool := false) : Nat × Nat :=
  match a with
  | .default => if isNumber then (fillChars, 0) else (0, fillChars)
  | .left => (0, fillChars)
  | .right => (fillChars, 0)
  | .center =>
    if exactCenter then (fillChars / 2, fillChars - fillChars / 2)
    else
      let r := roundF32 fillChars        -- `fill_chars as f32`
      (r / 2, (r + 1) / 2)               -- `(x / 2.0).floor()`, `(x / 2.0).ceil()`

def rep_ (n : Nat) (s : Bytes) : Bytes := (List.replicate n s).flatten

/-- second part of `run_string_push`: minimum width, fill, alignment -/
def pad (gFirst : Bytes → Nat) (isNumber : Bool) (rendered : Bytes) (o : Option Opts)
    (exactCenter : Bool := false) : Bytes :=
  match o with
  | none => rendered
  | some o =>
    let len := (graphemes gFirst rendered).length
    let minWidth := o.minWidth.getD 0
    if len < minWidth then
      let fill := o.fill.getD [32]
      let (l, r) := fillCounts o.align isNumber (minWidth - len) exactCenter
      rep_ l fill ++ rendered ++ rep_ r fill
    else rendered

def isNumber : FVal → Bool
  | .int _ => true
  | _ => false

/-- what `run_string_push` appends to the string builder -/
def applyFmt (gFirst : Bytes → Nat) (v : FVal) (o : Option Opts) (exactCenter : Bool := false) : Bytes :=
  pad gFirst (isNumber v) (render gFirst v o) o exactCenter

/-- `run_string_push` with requests/C15-fix-12.diff applied: the `0` flag (fill `"0"` with `Default`
alignment — only the flag produces that) is sign-aware for numbers: the sign comes first, the zeroes after
it (`'{-5:03}'` is `-05`; the current code gives `0-5`, F-C15-14) -/
def applyFmtSign (gFirst : Bytes → Nat) (v : FVal) (o : Option Opts) (exactCenter : Bool := false) : Bytes :=
  let r := render gFirst v o
  match o with
  | some oo =>
    if isNumber v ∧ oo.align = .default ∧ oo.fill = some [48] ∧ r.head? = some 45 then
      45 :: pad gFirst true (r.drop 1) (some { oo with minWidth := oo.minWidth.map (· - 1) }) exactCenter
    else pad gFirst (isNumber v) r o exactCenter
  | none => r

/-- `'{v:fmt}'`: parse the options, then apply them -/
def format (gFirst : Bytes → Nat) (fmt : Bytes) (v : FVal) (exactCenter : Bool := false)
    (clusterFirst : Bool := false) (signAware : Bool := false) : Except PErr Bytes :=
  match parse gFirst fmt clusterFirst with
  | .error e => .error e
  | .ok o => .ok (if signAware then applyFmtSign gFirst v (some o) exactCenter else applyFmt gFirst v (some o) exactCenter)

/-! ## Every value kind: floats, containers, objects with `@display`

`FVal` / `render` above cover strings, integers, booleans and null. `XVal` adds the other kinds that can be
interpolated. Floats are modelled *exactly* from their IEEE-754 bits (fixed precision, truncation to `i64`,
rounding to significant digits — plain `Nat` arithmetic, round-half-even as Rust does); the one external fact
is the **shortest round-trip decimal** of a finite float (`ShortDec`: what `{}` / `{:e}` print — Grisu/Ryu in
Rust's `core::fmt`), supplied by the harness like the Unicode facts. Containers hold simple elements;
an object is represented by the texts its `@display` / `@debug` functions return. -/

/-- shortest round-trip decimal of a finite float: value = d₁.d₂d₃… × 10^exp (digits ASCII, d₁ ≠ 0 unless 0) -/
structure ShortDec where
  digits : Bytes
  exp : Int
  deriving DecidableEq, Repr, Inhabited

inductive FClass | finite | inf | nan
  deriving DecidableEq, Repr

def fNeg (bits : Nat) : Bool := bits / 2 ^ 63 % 2 == 1
def fExpBits (bits : Nat) : Nat := bits / 2 ^ 52 % 2048
def fFrac (bits : Nat) : Nat := bits % 2 ^ 52
def fClass (bits : Nat) : FClass :=
  if fExpBits bits = 2047 then (if fFrac bits = 0 then .inf else .nan) else .finite
/-- a finite float is `fMant · 2^fExp2` -/
def fMant (bits : Nat) : Nat := if fExpBits bits = 0 then fFrac bits else fFrac bits + 2 ^ 52
def fExp2 (bits : Nat) : Int := if fExpBits bits = 0 then -1074 else (fExpBits bits : Int) - 1075
/-- numerator and denominator of the magnitude -/
def fNum (bits : Nat) : Nat := fMant bits * 2 ^ (fExp2 bits).toNat
def fDen (bits : Nat) : Nat := 2 ^ (-(fExp2 bits)).toNat

def showDecBig (n : Nat) : Bytes := natDigits 10 false 1200 n

/-- `num / den` rounded to the nearest integer, ties to even -/
def roundDiv (num den : Nat) : Nat :=
  let q := num / den
  let r := num % den
  if 2 * r > den ∨ (2 * r = den ∧ q % 2 = 1) then q + 1 else q

def signBytes (neg : Bool) : Bytes := if neg then [45] else []

/-- `{:.p}` of the exact value `num / den` -/
def fixedText (neg : Bool) (num den p : Nat) : Bytes :=
  let ds := showDecBig (roundDiv (num * 10 ^ p) den)
  let ds := List.replicate (p + 1 - ds.length) 48 ++ ds
  signBytes neg ++ ds.take (ds.length - p) ++ (if p = 0 then [] else 46 :: ds.drop (ds.length - p))

def nonFinite (bits : Nat) : Bytes :=
  if fClass bits = .nan then [78, 97, 78] else signBytes (fNeg bits) ++ [105, 110, 102]

/-- `format!("{:.*}", p, f)` -/
def floatFixed (bits p : Nat) : Bytes :=
  if fClass bits ≠ .finite then nonFinite bits else fixedText (fNeg bits) (fNum bits) (fDen bits) p

def fIntegral (bits : Nat) : Bool := fNum bits % fDen bits == 0

/-- `KNumber`'s `Display` for an `f64`: `{:.1}` when there is no fractional part, `{}` otherwise -/
def floatDisplay (bits : Nat) (sd : ShortDec) : Bytes :=
  if fClass bits ≠ .finite then nonFinite bits
  else if fIntegral bits then floatFixed bits 1
  else
    signBytes (fNeg bits) ++
      (if sd.exp ≥ 0 then sd.digits.take (sd.exp.toNat + 1) ++ 46 :: sd.digits.drop (sd.exp.toNat + 1)
       else [48, 46] ++ List.replicate ((-sd.exp).toNat - 1) 48 ++ sd.digits)

/-- `{:e}` / `{:E}` of an `f64` -/
def floatExp (upper : Bool) (bits : Nat) (sd : ShortDec) : Bytes :=
  if fClass bits ≠ .finite then nonFinite bits
  else signBytes (fNeg bits) ++ sd.digits.take 1 ++
    (if sd.digits.length > 1 then 46 :: sd.digits.drop 1 else []) ++ [if upper then 69 else 101] ++ showInt sd.exp

/-- `f as i64`: toward zero, saturating, NaN ↦ 0 -/
def truncI64 (bits : Nat) : Int :=
  match fClass bits with
  | .nan => 0
  | .inf => if fNeg bits then -9223372036854775808 else 9223372036854775807
  | .finite =>
    let mag : Int := (fNum bits / fDen bits : Nat)
    let v := if fNeg bits then -mag else mag
    if v < -9223372036854775808 then -9223372036854775808 else if v > 9223372036854775807 then 9223372036854775807 else v

/-- the float is exactly an `i64` value -/
def fExactI64 (bits : Nat) : Bool :=
  fClass bits == .finite && fIntegral bits &&
    (if fNeg bits then decide (fNum bits / fDen bits ≤ 9223372036854775808) else decide (fNum bits / fDen bits ≤ 9223372036854775807))

def pow10n (k : Int) : Nat := 10 ^ k.toNat

/-- `num / den ≥ 10^g` -/
def geP10 (num den : Nat) (g : Int) : Bool := decide (num * pow10n (-g) ≥ den * pow10n g)

/-- `⌊log₁₀ (num / den)⌋` for a positive value, from a guess that is off by at most `fuel` -/
def log10Floor (num den : Nat) : Nat → Int → Int
  | 0, g => g
  | fuel + 1, g =>
    if !geP10 num den g then log10Floor num den fuel (g - 1)
    else if geP10 num den (g + 1) then log10Floor num den fuel (g + 1)
    else g

/-- `{:.pe}` of the exact value `num / den`: `p + 1` significant digits, ties to even -/
def expPrecText (neg upper : Bool) (num den : Nat) (guess : Int) (p : Nat) : Bytes :=
  let e := if upper then 69 else 101
  if num = 0 then signBytes neg ++ [48] ++ (if p = 0 then [] else 46 :: List.replicate p 48) ++ [e, 48]
  else
    let E := log10Floor num den 4 guess
    let q := roundDiv (num * pow10n ((p : Int) - E)) (den * pow10n (E - (p : Int)))
    let bump := decide (q ≥ 10 ^ (p + 1))
    let q := if bump then q / 10 else q
    let E := if bump then E + 1 else E
    let ds := showDecBig q
    signBytes neg ++ ds.take 1 ++ (if p = 0 then [] else 46 :: ds.drop 1) ++ [e] ++ showInt E

def floatExpPrec (upper : Bool) (bits : Nat) (sd : ShortDec) (p : Nat) : Bytes :=
  if fClass bits ≠ .finite then nonFinite bits
  else expPrecText (fNeg bits) upper (fNum bits) (fDen bits) sd.exp p

/-- elements of containers -/
inductive Simple where
  | str (b : Bytes)
  | int (n : Int)
  | bool (b : Bool)
  | null
  | obj (disp dbg : Bytes)
  deriving DecidableEq, Repr, Inhabited

/-- every value kind that is interpolated in the modelled envelope -/
inductive XVal where
  | base (v : FVal)
  | float (bits : Nat) (sd : ShortDec)
  | tuple (xs : List Simple)
  | list (xs : List Simple)
  | map (es : List (Bytes × Simple))
  | obj (disp dbg : Bytes)          -- a map with `@display` (and `@debug`): the texts its functions return
  deriving Repr, Inhabited

/-- an element inside a container: strings are quoted, an object shows its `@debug` text in a debug context -/
def Simple.text (dbg : Bool) : Simple → Bytes
  | .str b => [39] ++ b ++ [39]
  | .int n => showInt n
  | .bool b => display (.bool b)
  | .null => display .null
  | .obj d g => if dbg then g else d

def joinComma : List Bytes → Bytes
  | [] => []
  | [x] => x
  | x :: y :: r => x ++ [44, 32] ++ joinComma (y :: r)

/-- `UnaryOp::Display` / `UnaryOp::Debug` of a non-number -/
def XVal.text (dbg : Bool) : XVal → Bytes
  | .base v => if dbg then debug v else display v
  | .float _ _ => []
  | .tuple xs => [40] ++ joinComma (xs.map (Simple.text dbg)) ++ [41]
  | .list xs => [91] ++ joinComma (xs.map (Simple.text dbg)) ++ [93]
  | .map es => [123] ++ joinComma (es.map fun (k, v) => k ++ [58, 32] ++ v.text dbg) ++ [125]
  | .obj d g => if dbg then g else d

def XVal.isNumber : XVal → Bool
  | .base v => FmtSpec.isNumber v
  | .float _ _ => true
  | _ => false

/-- which repairs are in the tree (requests/C15-fix-2, -6, -12, -13, -14) -/
structure FmtCfg where
  exactCenter : Bool := false
  clusterFirst : Bool := false
  signAware : Bool := false
  precRepr : Bool := false       -- fix-13: precision is honoured together with `?`, `e`, `E`
  radixStrict : Bool := false    -- fix-14: `x X b o` on a float that is not an `i64` value is a runtime error
  deriving DecidableEq, Repr

def isRadix : Rep → Bool
  | .hexLower | .hexUpper | .binary | .octal => true
  | _ => false

def radixText (r : Rep) (n : Int) : Bytes :=
  match r with
  | .hexLower => showRadix 16 false n
  | .hexUpper => showRadix 16 true n
  | .binary => showRadix 2 false n
  | .octal => showRadix 8 false n
  | _ => showInt n

/-- first part of `run_string_push` for every value kind -/
def renderX (g : Bytes → Nat) (x : XVal) (o : Option Opts) (cfg : FmtCfg := {}) : Except PErr Bytes :=
  let precision := o.bind (·.precision)
  let rep := o.bind (·.rep)
  let precR := if cfg.precRepr then precision else none     -- current code: a representation drops the precision
  match x with
  | .float bits sd =>
    (match rep with
     | some .debug => .ok (match precR with | some p => floatFixed bits p | none => floatDisplay bits sd)
     | some .expLower => .ok (match precR with | some p => floatExpPrec false bits sd p | none => floatExp false bits sd)
     | some .expUpper => .ok (match precR with | some p => floatExpPrec true bits sd p | none => floatExp true bits sd)
     | some r => if cfg.radixStrict ∧ ¬ fExactI64 bits then .error .reprNotInteger else .ok (radixText r (truncI64 bits))
     | none => .ok (match precision with | some p => floatFixed bits p | none => floatDisplay bits sd))
  | .base (.int n) =>
    (match precR, rep with
     | some p, some .debug => .ok (render g (.int n) (some { precision := some p }))
     | some p, some .expLower =>
       .ok (if inF64Range n then expPrecText (decide (n < 0)) false (f64Int n).natAbs 1 ((showDec (f64Int n).natAbs).length - 1 : Nat) p
            else render g (.int n) o)
     | some p, some .expUpper =>
       .ok (if inF64Range n then expPrecText (decide (n < 0)) true (f64Int n).natAbs 1 ((showDec (f64Int n).natAbs).length - 1 : Nat) p
            else render g (.int n) o)
     | _, _ => .ok (render g (.int n) o))
  | .base v => .ok (render g v o)
  | other =>
    let text := other.text (rep == some .debug)
    .ok (match precision with
         | some p => ((graphemes g text).take p).flatten
         | none => text)

/-- what `run_string_push` appends, for every value kind -/
def applyFmtX (g : Bytes → Nat) (x : XVal) (o : Option Opts) (cfg : FmtCfg := {}) : Except PErr Bytes :=
  match renderX g x o cfg with
  | .error e => .error e
  | .ok r =>
    .ok (match o with
      | some oo =>
        if cfg.signAware ∧ x.isNumber ∧ oo.align = .default ∧ oo.fill = some [48] ∧ r.head? = some 45 then
          45 :: pad g true (r.drop 1) (some { oo with minWidth := oo.minWidth.map (· - 1) }) cfg.exactCenter
        else pad g x.isNumber r o cfg.exactCenter
      | none => r)

/-- `'{x:fmt}'` for every value kind -/
def formatX (g : Bytes → Nat) (fmt : Bytes) (x : XVal) (cfg : FmtCfg := {}) : Except PErr Bytes :=
  match parse g fmt cfg.clusterFirst with
  | .error e => .error e
  | .ok o => applyFmtX g x (some o) cfg

end KotoVerif.FmtSpec
