/-
C02 — the parser's capture analysis on the wider statement syntax (block `if`/`for`/`while`/`until`,
`switch`, `match`, string interpolation, tuples, assignments nested in expressions, multi-assignment
with map patterns and `as` rebinds, `yield`), with the same frame operations as Model/Capture.lean
(`PFrame.access/assignId/finalize/beginRhs/endRhs/addNested`), and the declarative free variables
(static scoping in textual order) of the same syntax.

Used by the correspondence only: the set computed by `accessedX` for every function literal of a
generated script is compared with `Function::accessed_non_locals` of the real parser's AST, and
`freeX ⊆` that set is the completeness clause. (The theorems of Props/C02 are about the core syntax of
Model/Capture.lean.) The traversal functions are `partial` because of the nested lists; they are
executed by the driver only.
-/
import KotoVerif.Model.Capture

namespace KotoVerif.CaptureX
open KotoVerif.Capture

/-- assignment target of a multi-assignment -/
inductive XT where
  | id (x : Name)          -- `x`
  | short (x : Name)       -- `{x}`
  | as (x : Name)          -- `{k as x}`
  deriving Repr, Inhabited

inductive X where
  | lit
  | var (x : Name)
  | op (a b : X)                       -- any binary operator, ranges included
  | par (e : X)
  | ite (c t e : X)                    -- inline `if c then t else e`
  | str (es : List X)                  -- string literal with interpolated expressions
  | tup (es : List X)                  -- `(a, b, …)`
  | asg (x : Name) (e : X)
  | masg (ts : List XT) (es : List X)  -- `t1, t2 = e1, e2`
  | fn (ps : List Name) (body : List X)
  | call (g : Name) (args : List X)
  | ifb (c : X) (t e : List X)         -- block `if` … `else` …
  | forb (v : Name) (it : X) (body : List X)
  | whileb (c : X) (body : List X)     -- `while` / `until`
  | switchb (arms : List X) (els : X)  -- arms are `sarm`
  | sarm (c e : X)                     -- `c then e`
  | matchb (subj : X) (arms : List X) (els : X)   -- arms are `marm`
  | marm (pat : Option Name) (guard : Option X) (e : X)  -- `pat [if guard] then e`
  | yld (e : X)
  deriving Repr, Inhabited

def directAssign (f : PFrame) (x : Name) : PFrame := { f with assigned := ins x f.assigned }

def targetName : XT → Name
  | .id x => x
  | .short x => x
  | .as x => x

mutual
/-- one expression parsed inside the current frame (mirror of the parser's traversal) -/
partial def peX : X → PFrame → PFrame
  | .lit, f => f
  | .var x, f => f.access x
  | .op a b, f => peX b (peX a f)
  | .par e, f => peX e f
  | .ite c t e, f =>
    let f := peX c f
    let f := (peX t f).finalize
    (peX e f).finalize
  | .str es, f => es.foldl (fun f e => (peX e f).finalize) f
  | .tup es, f => es.foldl (fun f e => peX e f) f
  | .asg x e, f =>
    let f := (f.access x).assignId x
    let ids := f.pendAsg
    ((peX e f.beginRhs).finalize).endRhs ids
  | .masg ts es, f =>
    -- the targets are first parsed as expressions: ids and `{x}` shorthands are accesses
    let f := ts.foldl (fun f t => match t with
      | .id x => f.access x
      | .short x => f.access x
      | .as _ => f) f
    -- at `=`: ids and `{x}` shorthands discard their own counted access; the target of `k as x`
    -- was never parsed as an expression, so it only becomes a pending assignment (/repo 5baba35)
    let f := ts.foldl (fun f t => match t with
      | .as x => { f with pendAsg := ins x f.pendAsg }
      | t => f.assignId (targetName t)) f
    let ids := f.pendAsg
    let f := es.foldl (fun f e => peX e f) f.beginRhs
    f.finalize.endRhs ids
  | .fn ps body, f => f.addNested (peBlockX body { assigned := ps }).nonLocals
  | .call g args, f => args.foldl (fun f e => peX e f) (f.access g)
  | .ifb c t e, f => peBlockX e (peBlockX t (peX c f))
  | .forb v it body, f =>
    -- the iterable's accesses are finalized, then the loop variable becomes assigned (/repo d2ad1f4)
    peBlockX body (directAssign (peX it f).finalize v)
  | .whileb c body, f => peBlockX body (peX c f)
  | .switchb arms els, f => (peX els (arms.foldl (fun f a => peX a f) f)).finalize
  | .sarm c e, f => (peX e (peX c f)).finalize
  | .matchb subj arms els, f =>
    let f := (peX subj f).finalize
    (peX els (arms.foldl (fun f a => peX a f) f)).finalize
  | .marm pat guard e, f =>
    let f := match pat with | some y => directAssign f y | none => f
    let f := match guard with | some g => peX g f | none => f
    (peX e f).finalize
  | .yld e, f => (peX e f).finalize
/-- a block: every line is an expression list -/
partial def peBlockX : List X → PFrame → PFrame
  | [], f => f
  | l :: ls, f => peBlockX ls (peX l f).finalize
end

def accessedX (ps : List Name) (body : List X) : List Name :=
  (peBlockX body { assigned := ps }).nonLocals

/-- `e` is a function literal, possibly in parentheses -/
partial def directFn : X → Option (List Name × List X)
  | .fn ps body => some (ps, body)
  | .par e => directFn e
  | _ => none

mutual
/-- declarative free variables: `(free names, names bound afterwards)` -/
partial def fvX : X → List Name → List Name × List Name
  | .lit, bd => ([], bd)
  | .var x, bd => (if bd.contains x then [] else [x], bd)
  | .op a b, bd => fvSeq [a, b] bd
  | .par e, bd => fvX e bd
  | .ite c t e, bd => fvSeq [c, t, e] bd
  | .str es, bd => fvSeq es bd
  | .tup es, bd => fvSeq es bd
  | .asg x (.fn ps body), bd =>
    (((fvSeq body ps).1.filter (fun y => !bd.contains y)).filter (· != x), ins x bd)
  | .asg x e, bd => let (fe, bd) := fvX e bd; (fe, ins x bd)
  | .masg ts es, bd =>
    -- a function literal that is (up to parentheses) one of the right-hand sides refers to the
    -- targets of the assignment itself: `f, g = (|n| … g …), (|n| … f …)` is mutual recursion
    let tn := ts.map targetName
    let (fe, bd) := fvSeq es bd
    let direct := es.foldl (fun acc e => match directFn e with
      | some (ps, body) => union acc ((fvSeq body ps).1.filter (fun y => tn.contains y))
      | none => acc) []
    let others := es.foldl (fun acc e => match directFn e with
      | some _ => acc
      | none => union acc (fvX e bd).1) []
    -- names of the targets are dropped only where they come from direct function literals
    (fe.filter (fun y => !(direct.contains y) || others.contains y),
     ts.foldl (fun bd t => ins (targetName t) bd) bd)
  | .fn ps body, bd => ((fvSeq body ps).1.filter (fun y => !bd.contains y), bd)
  | .call g args, bd =>
    let fg := if bd.contains g then [] else [g]
    let (fa, bd) := fvSeq args bd
    (union fg fa, bd)
  | .ifb c t e, bd => fvSeq (c :: t ++ e) bd
  | .forb v it body, bd =>
    -- the iterable is evaluated before the loop variable is bound
    let (fi, bd) := fvX it bd
    let (fb, bd) := fvSeq body (ins v bd)
    (union fi fb, bd)
  | .whileb c body, bd => fvSeq (c :: body) bd
  | .switchb arms els, bd => fvSeq (arms ++ [els]) bd
  | .sarm c e, bd => fvSeq [c, e] bd
  | .matchb subj arms els, bd => fvSeq (subj :: arms ++ [els]) bd
  | .marm pat guard e, bd =>
    let bd := match pat with | some y => ins y bd | none => bd
    fvSeq ((match guard with | some g => [g] | none => []) ++ [e]) bd
  | .yld e, bd => fvX e bd
/-- in textual order, threading the bound names -/
partial def fvSeq : List X → List Name → List Name × List Name
  | [], bd => ([], bd)
  | e :: es, bd =>
    let (f1, bd) := fvX e bd
    let (f2, bd) := fvSeq es bd
    (union f1 f2, bd)
end

def freeX (ps : List Name) (body : List X) : List Name := (fvSeq body ps).1

mutual
/-- all function literals in post-order (the order in which the parser pushes `Function` nodes):
`(accessed, free)` per function -/
partial def fnsOf : X → List (List Name × List Name)
  | .lit => []
  | .var _ => []
  | .op a b => fnsOf a ++ fnsOf b
  | .par e => fnsOf e
  | .ite c t e => fnsOf c ++ fnsOf t ++ fnsOf e
  | .str es => fnsOfList es
  | .tup es => fnsOfList es
  | .asg _ e => fnsOf e
  | .masg _ es => fnsOfList es
  | .fn ps body => fnsOfList body ++ [(accessedX ps body, freeX ps body)]
  | .call _ args => fnsOfList args
  | .ifb c t e => fnsOf c ++ fnsOfList t ++ fnsOfList e
  | .forb _ it body => fnsOf it ++ fnsOfList body
  | .whileb c body => fnsOf c ++ fnsOfList body
  | .switchb arms els => fnsOfList arms ++ fnsOf els
  | .sarm c e => fnsOf c ++ fnsOf e
  | .matchb subj arms els => fnsOf subj ++ fnsOfList arms ++ fnsOf els
  | .marm _ guard e => (match guard with | some g => fnsOf g | none => []) ++ fnsOf e
  | .yld e => fnsOf e
partial def fnsOfList : List X → List (List Name × List Name)
  | [] => []
  | e :: es => fnsOf e ++ fnsOfList es
end

end KotoVerif.CaptureX
