/-
C06 — panic kernels (DESIGN §6 C06).

Every *guarded primitive* the property's anchors name is modelled as a small total function that
returns a three-valued outcome

* `Res.panic` — the Rust code panics in the profile the repository's test-suite uses (debug:
  `overflow-checks` on): `+ - *` on `usize/u8/u32/i32/i64` overflow unless the source uses a
  `wrapping_`/`saturating_`/`checked_` form, slice/Vec indexing out of range, `unwrap` on `None`,
  `IndexMap::swap_indices` out of range, `%` `/` by zero, shifts ≥ the bit width, `clamp` with
  `min > max`;
* `Res.err` — the caller's guard rejects the input and a runtime *error value* is returned;
* `Res.ok a` — normal result.

Machine integers are mathematical integers (`Int`) with the range checks written out (`ckI64`,
`ckUsize`, …), so that the theorems of `Props/C06.lean` are plain linear arithmetic over all inputs.
`as` casts are modelled by `castI64`/`castU8`/… (wrapping, never panicking), float→int conversions
are *inputs* (`NumView`, computed by the driver from the IEEE bits exactly as `number.rs` does).
-/
namespace KotoVerif.Guards

inductive Res (α : Type) where
  | panic
  | err
  | ok (a : α)
  deriving DecidableEq, Repr, Inhabited

namespace Res

@[inline] def bind {α β : Type} (r : Res α) (f : α → Res β) : Res β :=
  match r with
  | .panic => .panic
  | .err => .err
  | .ok a => f a

instance : Monad Res where
  pure := Res.ok
  bind := Res.bind

def isPanic {α : Type} : Res α → Bool
  | .panic => true
  | _ => false

def map' {α β : Type} (f : α → β) : Res α → Res β
  | .panic => .panic
  | .err => .err
  | .ok a => .ok (f a)

end Res

/-! ## machine integers -/

def I64_MIN : Int := -9223372036854775808
def I64_MAX : Int := 9223372036854775807
def I32_MIN : Int := -2147483648
def I32_MAX : Int := 2147483647
def USIZE_MAX : Int := 18446744073709551615
def U32_MAX : Int := 4294967295
def U8_MAX : Int := 255
def I8_MIN : Int := -128
def I8_MAX : Int := 127

/-- debug-profile checked result of an `i64` operation -/
def ckI64 (x : Int) : Res Int := if I64_MIN ≤ x ∧ x ≤ I64_MAX then .ok x else .panic
def ckI32 (x : Int) : Res Int := if I32_MIN ≤ x ∧ x ≤ I32_MAX then .ok x else .panic
def ckUsize (x : Int) : Res Int := if 0 ≤ x ∧ x ≤ USIZE_MAX then .ok x else .panic
def ckU32 (x : Int) : Res Int := if 0 ≤ x ∧ x ≤ U32_MAX then .ok x else .panic
def ckU8 (x : Int) : Res Int := if 0 ≤ x ∧ x ≤ U8_MAX then .ok x else .panic

/-- `x as i64` for a `usize` value -/
def castI64 (x : Int) : Int := if x ≤ I64_MAX then x else x - 18446744073709551616
/-- `x as u8` for a non-negative value -/
def castU8 (x : Int) : Int := x % 256
/-- two's complement wrap to 64 bits (the `wrapping_*` forms) -/
def wrap64 (x : Int) : Int := (x + 9223372036854775808) % 18446744073709551616 - 9223372036854775808

/-- slice / `Vec` indexing `data[i]` -/
def sliceIndex (len i : Int) : Res Int := if 0 ≤ i ∧ i < len then .ok i else .panic
/-- slice indexing with a range `data[a..b]` -/
def sliceRange (len a b : Int) : Res (Int × Int) := if 0 ≤ a ∧ a ≤ b ∧ b ≤ len then .ok (a, b) else .panic
/-- `Ord::clamp` asserts `min <= max` -/
def clamp (x lo hi : Int) : Res Int := if lo ≤ hi then .ok (max lo (min x hi)) else .panic

/-- What the code reads off a `KNumber` (computed by the caller of the kernel; `number.rs`):
`ltZeroF` = `n < 0.0`, `geZeroF` = `n >= 0.0` (comparisons as `f64`; both false for NaN),
`geZeroI` = `n >= 0` (comparison as `i64`),
`usize` = `usize::from(n)` and `i64` = `i64::from(n)` (saturating casts, NaN ↦ 0). -/
structure NumView where
  ltZeroF : Bool
  geZeroF : Bool
  geZeroI : Bool
  usize : Int
  i64 : Int
  deriving Repr, DecidableEq

/-- the facts about `NumView` the conversions guarantee -/
def NumView.wf (n : NumView) : Prop :=
  0 ≤ n.usize ∧ n.usize ≤ USIZE_MAX ∧ I64_MIN ≤ n.i64 ∧ n.i64 ≤ I64_MAX

/-! ## range predicates (the vocabulary of the callers' guards) -/

def inI64 (x : Int) : Prop := I64_MIN ≤ x ∧ x ≤ I64_MAX
def inI32 (x : Int) : Prop := I32_MIN ≤ x ∧ x ≤ I32_MAX
def inUsize (x : Int) : Prop := 0 ≤ x ∧ x ≤ USIZE_MAX
def inU32 (x : Int) : Prop := 0 ≤ x ∧ x ≤ U32_MAX
def inU8 (x : Int) : Prop := 0 ≤ x ∧ x ≤ U8_MAX
def inI8 (x : Int) : Prop := I8_MIN ≤ x ∧ x ≤ I8_MAX
/-- a container length: Rust allocations are at most `isize::MAX` bytes -/
def inLen (x : Int) : Prop := 0 ≤ x ∧ x ≤ I64_MAX

instance (x : Int) : Decidable (inI64 x) := by unfold inI64; infer_instance
instance (x : Int) : Decidable (inI32 x) := by unfold inI32; infer_instance
instance (x : Int) : Decidable (inUsize x) := by unfold inUsize; infer_instance
instance (x : Int) : Decidable (inU32 x) := by unfold inU32; infer_instance
instance (x : Int) : Decidable (inU8 x) := by unfold inU8; infer_instance
instance (x : Int) : Decidable (inI8 x) := by unfold inI8; infer_instance
instance (x : Int) : Decidable (inLen x) := by unfold inLen; infer_instance

/-! ## `KRange` (crates/runtime/src/types/range.rs) -/

structure KRange where
  start : Option Int
  stop : Option (Int × Bool)
  deriving Repr, DecidableEq

def KRange.isBounded (r : KRange) : Bool := r.start.isSome && r.stop.isSome

/-- all bounds of the range are `i64` values -/
def KRange.wf (r : KRange) : Prop :=
  (∀ s, r.start = some s → inI64 s) ∧ (∀ e i, r.stop = some (e, i) → inI64 e)

/-- the range is inclusive with `end = i64::MAX` — the one shape on which `as_bounded_range`
overflows; `¬ endsAtMax` is the guard the code lacks -/
def KRange.endsAtMax (r : KRange) : Prop := r.stop = some (I64_MAX, true)

instance (r : KRange) : Decidable r.endsAtMax := by unfold KRange.endsAtMax; infer_instance

/-- `(start, end, inclusive)` with missing bounds replaced by `i64::MIN/MAX` -/
def KRange.triple (r : KRange) : Int × Int × Bool :=
  match r.start, r.stop with
  | some s, some (e, i) => (s, e, i)
  | some s, none => (s, I64_MAX, false)
  | none, some (e, i) => (I64_MIN, e, i)
  | none, none => (I64_MIN, I64_MAX, false)

/-- `KRange::as_bounded_range`: `let end = if inclusive { end + 1 } else { end }; start..end.max(start)` -/
def asBoundedRange (r : KRange) : Res (Int × Int) :=
  match r.triple with
  | (s, e, incl) =>
    (if incl then ckI64 (e + 1) else .ok e).bind fun e' => .ok (s, max e' s)

/-- `KRange::size`: `((range.end).max(range.start) - range.start) as usize` -/
def rangeSize (r : KRange) : Res (Option Int) :=
  if r.isBounded then
    (asBoundedRange r).bind fun (s, e) => (ckI64 (max e s - s)).bind fun d => .ok (some d)
  else .ok none

/-- `KRange::contains` (the number already converted: `floor`/`ceil` then `i64::from`) -/
def rangeContains (r : KRange) (n : Int) : Res Bool :=
  (asBoundedRange r).bind fun (s, e) => .ok (decide (s ≤ n ∧ n < e))

/-- `KRange::indices(max_index)` -/
def rangeIndices (r : KRange) (maxIndex : Int) : Res (Int × Int) :=
  let mi := castI64 maxIndex
  (asBoundedRange r).bind fun (s, e) =>
    (clamp s 0 mi).bind fun a =>
      (clamp e a mi).bind fun b => .ok (a, b)

/-- `KRange::intersection` -/
def rangeIntersection (a b : KRange) : Res (Option (Int × Int)) :=
  (asBoundedRange a).bind fun (s1, e1) =>
    (asBoundedRange b).bind fun (s2, e2) =>
      let c (x : Int) := decide (s1 ≤ x ∧ x < e1)
      if !(c s2 || c e2) then .ok none else .ok (some (max s1 s2, min e1 e2))

/-- `KRange::pop_front` on a bounded range (`large` = the `BoundedLarge` i64 representation, else
i32). Result: popped value, new (start, end, inclusive). -/
def popFront (large : Bool) (s e : Int) (incl : Bool) : Res (Option Int × Int × Int × Bool) :=
  if s < e then
    ((if large then ckI64 else ckI32) (s + 1)).bind fun s' => .ok (some s, s', e, incl)
  else if s = e then
    if incl then .ok (some s, s, e, false) else .ok (none, s, e, incl)
  else .ok (none, s, e, incl)

/-- `KRange::pop_back` -/
def popBack (large : Bool) (s e : Int) (incl : Bool) : Res (Option Int × Int × Int × Bool) :=
  let ck := if large then ckI64 else ckI32
  if s < e then
    (if incl then .ok e else ck (e - 1)).bind fun v =>
      (ck (e - 1)).bind fun e' => .ok (some v, s, e', incl)
  else if s = e then
    if incl then .ok (some s, s, e, false) else .ok (none, s, e, incl)
  else .ok (none, s, e, incl)

/-! ## index arithmetic of the VM (crates/runtime/src/vm.rs) -/

/-- `signed_index_to_unsigned(index: i8, size: usize)` -/
def signedIndexToUnsigned (index size : Int) : Res Int :=
  if index < 0 then ckUsize (size - min (-index) size) else .ok index

/-- `validate_index` -/
def validateIndex (n : NumView) (size : Option Int) : Res Int :=
  if n.ltZeroF then .err
  else match size with
    | some sz => if n.usize ≥ sz then .err else .ok n.usize
    | none => .ok n.usize

/-- `run_index`, `(List|Tuple|Map, Number)`: validate, then `data[index]` -/
def runIndexSeqNum (len : Int) (n : NumView) : Res Int :=
  (validateIndex n (some len)).bind fun i => sliceIndex len i

/-- `run_index`, `(List|Tuple, Range)`: `indices(len)` then `data[indices]` -/
def runIndexSeqRange (len : Int) (r : KRange) : Res (Int × Int) :=
  (rangeIndices r len).bind fun (a, b) => sliceRange len a b

/-- `run_index`, `(Str, Number)`: validate, then `with_bounds(index..index + 1)` -/
def runIndexStrNum (len : Int) (n : NumView) : Res (Int × Int) :=
  (validateIndex n (some len)).bind fun i => (ckUsize (i + 1)).bind fun e => .ok (i, e)

/-- `run_index`, `(Range, Number)` when the range has a start:
`validate_index(n, r.size())` then `start + index as i64` -/
def runIndexRangeNum (r : KRange) (n : NumView) : Res Int :=
  match r.start with
  | none => .err
  | some s =>
    (rangeSize r).bind fun sz =>
      (validateIndex n sz).bind fun i => ckI64 (s + castI64 i)

/-- `run_slice` on a list / tuple / string / map of `len` entries: the index arithmetic, then a
non-panicking `get(..index)` / `get(index..)` (result `none` = Null) -/
def runSliceSeq (len index : Int) (sliceTo : Bool) : Res (Option (Int × Int)) :=
  (signedIndexToUnsigned index len).bind fun i =>
    if i ≤ len then .ok (some (if sliceTo then (0, i) else (i, len))) else .ok none

/-- `run_temp_index` on a list / tuple / map: index arithmetic then non-panicking `get` -/
def runTempIndexSeq (len index : Int) : Res (Option Int) :=
  (signedIndexToUnsigned index len).bind fun i => .ok (if i < len then some i else none)

/-- `run_temp_index` on a string: `with_bounds(index..index + 1)` -/
def runTempIndexStr (len index : Int) : Res (Int × Int) :=
  (signedIndexToUnsigned index len).bind fun i => (ckUsize (i + 1)).bind fun e => .ok (i, e)

/-- `run_temp_index` on a temporary tuple held in `count` registers from `start`:
guard `|index| < count`, then `registers[start + index]` -/
def runTempIndexTemp (regsLen start count index : Int) : Res (Option Int) :=
  if (if index < 0 then -index else index) < count then
    (signedIndexToUnsigned index count).bind fun i =>
      (ckUsize (start + i)).bind fun j => (sliceIndex regsLen j).bind fun k => .ok (some k)
  else .ok none

/-- `run_temp_index` on a range -/
def runTempIndexRange (r : KRange) (index : Int) : Res (Option Int) :=
  if index < 0 then
    match r.stop with
    | none => .err
    | some (e, incl) =>
      (if incl then ckI64 (e + 1) else .ok e).bind fun e' =>
        (ckI64 (e' + index)).bind fun v =>
          (rangeContains r v).bind fun c => .ok (if c then some v else none)
  else
    match r.start with
    | none => .err
    | some s =>
      (ckI64 (s + index)).bind fun v =>
        (rangeContains r v).bind fun c => .ok (if c then some v else none)

/-- `run_index_assign`, list arm, number index: guard `*index >= 0.0 && u_index < len` -/
def indexAssignListNum (len : Int) (n : NumView) : Res Int :=
  if n.geZeroF ∧ n.usize < len then sliceIndex len n.usize else .err

/-- `run_index_assign`, list arm, range index: `for i in range.indices(len) { data[i] = … }` -/
def indexAssignListRange (len : Int) (r : KRange) : Res (Int × Int) :=
  (rangeIndices r len).bind fun (a, b) =>
    if a < b then (sliceIndex len (b - 1)).bind fun _ => .ok (a, b) else .ok (a, b)

/-! ### the map arm of `run_index_assign` (`IndexMap` as the list of its keys) -/

/-- `IndexMap::swap_remove_index` -/
def swapRemoveIndex (ks : List Nat) (i : Nat) : List Nat :=
  if i < ks.length then
    match ks.getLast? with
    | some last => (ks.set i last).dropLast
    | none => ks
  else ks

/-- `IndexMap::insert` (keys only): an existing key keeps its position -/
def insertKey (ks : List Nat) (k : Nat) : List Nat := if k ∈ ks then ks else ks ++ [k]

/-- `IndexMap::swap_indices`: panics when an index is out of range -/
def swapIndices (ks : List Nat) (i j : Nat) : Res (List Nat) :=
  match ks[i]?, ks[j]? with
  | some a, some b => .ok ((ks.set i b).set j a)
  | _, _ => .panic

/-- `run_index_assign`, map arm as it was before commit 6a9dccd (no key-collision guard): guard
`index >= 0.0 && u_index < map_len`, the value must be a 2-tuple, then
swap_remove_index / insert / swap_indices(u_index, map_len - 1). Kept to show what the guard is for. -/
def indexAssignMapUnguarded (ks : List Nat) (geZeroF : Bool) (u : Nat) (isPair : Bool) (key : Nat) : Res (List Nat) :=
  if geZeroF ∧ u < ks.length then
    if isPair then swapIndices (insertKey (swapRemoveIndex ks u) key) u (ks.length - 1)
    else .err
  else .err

/-- position of a key (`IndexMap::get_index_of`) -/
def indexOfKey (ks : List Nat) (k : Nat) : Option Nat :=
  match ks with
  | [] => none
  | x :: xs => if x = k then some 0 else (indexOfKey xs k).map (· + 1)

/-- `run_index_assign`, map arm (current code): additionally, a key that is already used by
*another* entry is rejected with a runtime error before the swap dance -/
def indexAssignMap (ks : List Nat) (geZeroF : Bool) (u : Nat) (isPair : Bool) (key : Nat) : Res (List Nat) :=
  if geZeroF ∧ u < ks.length then
    if isPair then
      match indexOfKey ks key with
      | some j => if j ≠ u then .err else swapIndices (insertKey (swapRemoveIndex ks u) key) u (ks.length - 1)
      | none => swapIndices (insertKey (swapRemoveIndex ks u) key) u (ks.length - 1)
    else .err
  else .err

/-! ## arithmetic (vm.rs, types/number.rs, core_lib/number.rs) -/

/-- `i64::wrapping_rem` -/
def wrappingRem (a b : Int) : Res Int :=
  if b = 0 then .panic else if b = -1 then .ok 0 else .ok (Int.tmod a b)

/-- `run_remainder` on two integers: `b == 0` is special-cased to NaN (`none`) -/
def runRemainder (a b : Int) : Res (Option Int) :=
  if b = 0 then .ok none else (wrappingRem a b).map' some

/-- `run_remainder_assign` on two integers: no special case -/
def runRemainderAssign (a b : Int) : Res Int := wrappingRem a b

/-- modular exponentiation by squaring (fuel = bit length bound of the exponent) -/
def powWrap : Nat → Int → Nat → Int → Int
  | 0, _, _, acc => acc
  | fuel + 1, base, e, acc =>
    if e = 0 then acc
    else powWrap fuel (wrap64 (base * base)) (e / 2) (if e % 2 = 1 then wrap64 (acc * base) else acc)

/-- `KNumber::pow` on two integers with `b >= 0` (since 1b7bdc2): square-and-multiply with
`wrapping_mul` over the full 64-bit exponent (before: `a.wrapping_pow(b as u32)`, which truncated
exponents `>= 2^32`) — never panics -/
def powInt (a b : Int) : Res Int := .ok (powWrap 64 a b.toNat 1)

/-- `number.shift_left`: guard `b >= 0` (as i64), then `a << b` (panics when `b >= 64`) -/
def shiftLeft (a : Int) (b : NumView) : Res Int :=
  if b.geZeroI then (if b.i64 < 64 then .ok (wrap64 (a * 2 ^ b.i64.toNat)) else .panic) else .err

/-- `number.shift_right` -/
def shiftRight (a : Int) (b : NumView) : Res Int :=
  if b.geZeroI then (if b.i64 < 64 then .ok (a / 2 ^ b.i64.toNat) else .panic) else .err

/-- `KNumber::abs` on an integer: `i64::abs` overflows on `i64::MIN` -/
def absInt (a : Int) : Res Int := ckI64 (if a < 0 then -a else a)

/-- before commit d8d5b00 (finding F-C06-8): `StepToI64Iterator::new(start, target, step_by)` in
unchecked `i64` arithmetic -/
def stepToNewUnchecked (start target step : Int) : Res (Int × Int × Int) :=
  (ckI64 (target - start)).bind fun d =>
    (ckI64 (if d < 0 then -d else d)).bind fun ad =>
      (if step = 0 then Res.panic else ckI64 (Int.tdiv ad step)).bind fun steps =>
        (if target < start then ckI64 (-step) else .ok step).bind fun st =>
          (ckI64 (st * steps)).bind fun m =>
            (ckI64 (start + m)).bind fun tgt => .ok (tgt, st, steps)

/-! ### `StepToI64Iterator` (core_lib/number/step_to.rs, current code): `i128` step count -/

def I128_MIN : Int := -170141183460469231731687303715884105728
def I128_MAX : Int := 170141183460469231731687303715884105727
/-- debug-profile checked result of an `i128` operation -/
def ckI128 (x : Int) : Res Int := if I128_MIN ≤ x ∧ x ≤ I128_MAX then .ok x else .panic

def iabs (x : Int) : Int := if x < 0 then -x else x

structure StepTo where
  target : Int   -- i64
  step : Int     -- i64
  steps : Int    -- i128 (`steps_to_target`)
  deriving Repr, DecidableEq

/-- `StepToI64Iterator::new`: a step that is not positive gives the empty iterator (`steps = -1`);
`step_by.wrapping_neg()` when descending; `(start + step_by * steps.max(0)) as i64` -/
def stepToNew (start target step : Int) : Res StepTo :=
  (if step > 0 then
      (ckI128 (target - start)).bind fun d => (ckI128 (iabs d)).bind fun ad => ckI128 (Int.tdiv ad step)
    else Res.ok (-1)).bind fun steps =>
    let st := if target < start then wrap64 (-step) else step
    (ckI128 (st * max steps 0)).bind fun m =>
      (ckI128 (start + m)).bind fun t => .ok ⟨wrap64 t, st, steps⟩

/-- `next`: `(target - step_by * steps) as i64`, `steps -= 1` -/
def stepToNext (s : StepTo) : Res (Option Int × StepTo) :=
  if s.steps ≥ 0 then
    (ckI128 (s.step * s.steps)).bind fun m =>
      (ckI128 (s.target - m)).bind fun v =>
        (ckI128 (s.steps - 1)).bind fun n' => .ok (some (wrap64 v), { s with steps := n' })
  else .ok (none, s)

/-- `next_back`: yields `target`, `target = target.wrapping_sub(step_by)`, `steps -= 1` -/
def stepToNextBack (s : StepTo) : Res (Option Int × StepTo) :=
  if s.steps ≥ 0 then
    (ckI128 (s.steps - 1)).bind fun n' =>
      .ok (some s.target, { s with target := wrap64 (s.target - s.step), steps := n' })
  else .ok (none, s)

/-- `size_hint`: `usize::try_from(steps + 1).unwrap_or(usize::MAX)` -/
def stepToSizeHint (s : StepTo) : Res Int :=
  (ckI128 (s.steps + 1)).bind fun h => .ok (if 0 ≤ h ∧ h ≤ USIZE_MAX then h else USIZE_MAX)

/-- a sequence of pulls (`true` = `next_back`); result: the yielded values in pull order -/
def stepToRun (s : StepTo) : List Bool → Res (List Int)
  | [] => .ok []
  | b :: ops =>
    (if b then stepToNextBack s else stepToNext s).bind fun r =>
      (stepToRun r.2 ops).bind fun vs => .ok (match r.1 with | some x => x :: vs | none => vs)

/-! vocabulary for the `StepTo` theorems -/

/-- `x` lies between `a` and `b` inclusive (in either order) -/
def between (a b x : Int) : Prop := min a b ≤ x ∧ x ≤ max a b

/-- the step count and the signed step `new` computes -/
def stepCount (start target step : Int) : Int :=
  if step > 0 then Int.tdiv (iabs (target - start)) step else -1
def stepSigned (start target step : Int) : Int := if target < start then wrap64 (-step) else step

/-- invariant of every state reachable from `new(start, target, step)` by `next` / `next_back`:
`lo` values have been taken from the front, `steps + 1` remain, `target` is the last remaining one -/
def StepInv (start target step : Int) (s : StepTo) : Prop :=
  s.step = stepSigned start target step ∧ -1 ≤ s.steps ∧ s.steps ≤ stepCount start target step ∧
  (0 ≤ s.steps → ∃ lo, 0 ≤ lo ∧ lo + s.steps ≤ stepCount start target step ∧
      s.target = start + stepSigned start target step * (lo + s.steps))

/-- `range.expanded`: `start - n`, `end + n` -/
def rangeExpanded (s e n : Int) : Res (Int × Int) :=
  (ckI64 (s - n)).bind fun s' => (ckI64 (e + n)).bind fun e' => .ok (s', e')

/-! ## core_lib/list.rs argument arithmetic -/

/-- `list.insert`: guard `n < 0.0 || index > len`, then `Vec::insert` (panics when `index > len`) -/
def listInsert (len : Int) (n : NumView) : Res Int :=
  if n.ltZeroF ∨ n.usize > len then .err
  else if n.usize ≤ len then .ok n.usize else .panic

/-- `list.remove`: guard `n < 0.0 || index >= len`, then `Vec::remove` (panics when `index >= len`) -/
def listRemove (len : Int) (n : NumView) : Res Int :=
  if n.ltZeroF ∨ n.usize ≥ len then .err
  else if n.usize < len then .ok n.usize else .panic

/-- `list.get`: guard `index >= 0` (as i64), then the non-panicking `get` (`none` = default) -/
def listGet (len : Int) (n : NumView) : Res (Option Int) :=
  if n.geZeroI then .ok (if n.usize < len then some n.usize else none) else .ok none

/-- `list.resize`: guard `n < 0.0` → error; else `Vec::resize(n)` (allocation is outside C06) -/
def listResize (n : NumView) : Res Int := if n.ltZeroF then .err else .ok n.usize

/-! ### `list.retain` with a predicate (current code, commit cf950fc)

The predicate may change the list, so the list length after each call is an *input* (`lens`); the
loop bound is the length read once before the loop (`len0`). Each iteration: read through the
non-panicking `get(read_index)` (stop when gone), call the predicate (`keep`, new length), write
through `get_mut(write_index)` (skipped when the slot is gone); finally `truncate(write_index)`.
Before the fix the read was `data()[read_index]` and the write `data_mut()[write_index]`. -/

/-- one adversary move: the predicate's answer and the list length it leaves behind -/
abbrev RetainMove := Bool × Int

/-- state: read index, write index, current length; `checked = false` is the code before the fix -/
def retainLoop (checked : Bool) (len0 : Int) : Int → Int → Int → List RetainMove → Res (Int × Int)
  | _, w, len, [] => .ok (w, len)
  | r, w, len, (keep, len') :: ms =>
    if r < len0 then
      if r < len then
        -- the predicate ran: the list now has `len'` entries
        if keep then
          if w < len' then retainLoop checked len0 (r + 1) (w + 1) len' ms
          else if checked then retainLoop checked len0 (r + 1) w len' ms else .panic
        else retainLoop checked len0 (r + 1) w len' ms
      else if checked then .ok (w, len) else .panic
    else .ok (w, len)

/-- the loop, then `truncate(write_index)` (never panics): the final length -/
def listRetain (checked : Bool) (len0 : Int) (ms : List RetainMove) : Res Int :=
  (retainLoop checked len0 0 0 len0 ms).bind fun (w, len) => .ok (min w len)

/-! ## string iterators (core_lib/string/iterators.rs): `next` and `size_hint` -/

/-- first offset at which `pat` occurs in `hay` (`str::find`) -/
def isPrefix : List Nat → List Nat → Bool
  | [], _ => true
  | _ :: _, [] => false
  | p :: ps, h :: hs => p == h && isPrefix ps hs

def findSub (pat : List Nat) : List Nat → Option Nat
  | [] => if pat.isEmpty then some 0 else none
  | h :: hs => if isPrefix pat (h :: hs) then some 0 else (findSub pat hs).map (· + 1)

/-- the arithmetic state of `Split` / `Lines` / `Bytes` / `CharIndices`: input length and cursor -/
structure Cursor where
  len : Int
  pos : Int
  deriving Repr, DecidableEq

/-- `size_hint` of all four: `self.input.len() - self.start` -/
def sizeHint (c : Cursor) : Res Int := ckUsize (c.len - c.pos)

/-- `Split::next` (since e1818ae): `found` = offset of the match in `input[start..]` (if any); when
nothing is found the last part is yielded and `start = len + 1` -/
def splitNext (c : Cursor) (patLen : Int) (found : Option Int) : Option Cursor :=
  if c.pos ≤ c.len then
    match found with
    | some k => some { c with pos := c.pos + k + patLen }
    | none => some { c with pos := c.len + 1 }
  else none

/-- byte length of the UTF-8 character that starts with byte `b` (`char::len_utf8`) -/
def utf8Len (b : Nat) : Nat := if b < 128 then 1 else if b < 224 then 2 else if b < 240 then 3 else 4

/-- what `Split::next` searches for: a non-empty pattern with `str::find`; an empty pattern matches
at `start` the first time and afterwards at the next character boundary (so it terminates) -/
def splitFind (pat rest : List Nat) (started : Bool) : Option Nat :=
  if pat.isEmpty then (if started then rest.head?.map utf8Len else some 0) else findSub pat rest

/-- `Lines::next`: `found` = offset of `\n` in the rest; `cr` = preceded by `\r` -/
def linesNext (c : Cursor) (found : Option (Int × Bool)) : Option Cursor :=
  if c.pos < c.len then
    match found with
    | some (k, cr) => some { c with pos := (if cr then c.pos + k - 1 else c.pos + k) + (if cr then 2 else 1) }
    | none => some { c with pos := c.len + 1 }
  else none

/-- `Bytes::next` -/
def bytesNext (c : Cursor) : Option Cursor :=
  if c.pos < c.len then some { c with pos := c.pos + 1 } else none

/-- `CharIndices::next`: `g` = byte length of the next grapheme (`1 ≤ g ≤ len - pos`) -/
def charIndicesNext (c : Cursor) (g : Int) : Option Cursor :=
  if c.pos < c.len then some { c with pos := c.pos + g } else none

/-- executable `Split` over byte lists, `steps` calls of `next` then `size_hint`
(outputs: the yielded pieces as (start, end) and the final size_hint) -/
def splitRunH (hint : Cursor → Res Int) (input pat : List Nat) :
    Bool → Nat → Cursor → List (Int × Int) → List (Int × Int) × Res Int
  | _, 0, c, acc => (acc.reverse, hint c)
  | started, n + 1, c, acc =>
    let found := (splitFind pat (input.drop c.pos.toNat) started).map Int.ofNat
    match splitNext c pat.length found with
    | none => (acc.reverse, hint c)
    | some c' =>
      let e := match found with | some k => c.pos + k | none => c.len
      splitRunH hint input pat true n c' ((c.pos, e) :: acc)

def splitRun (input pat : List Nat) := splitRunH sizeHint input pat false

def linesRunH (hint : Cursor → Res Int) (input : List Nat) :
    Nat → Cursor → List (Int × Int) → List (Int × Int) × Res Int
  | 0, c, acc => (acc.reverse, hint c)
  | n + 1, c, acc =>
    let rest := input.drop c.pos.toNat
    let found := (findSub [10] rest).map fun k =>
      (Int.ofNat k, decide (k > 0 ∧ rest[k - 1]? = some 13))
    match linesNext c found with
    | none => (acc.reverse, hint c)
    | some c' =>
      let e := match found with
        | some (k, cr) => if cr then c.pos + k - 1 else c.pos + k
        | none => c.len
      linesRunH hint input n c' ((c.pos, e) :: acc)

def linesRun := linesRunH sizeHint

def bytesRun : Nat → Cursor → Nat → Nat × Res Int
  | 0, c, k => (k, sizeHint c)
  | n + 1, c, k =>
    match bytesNext c with
    | none => (k, sizeHint c)
    | some c' => bytesRun n c' (k + 1)

/-! ## `TupleSlice::with_bounds`, `StringSlice::{with_bounds, split}`, `KotoLexer::peek` -/

/-- `with_bounds`: `bounds.start + self.bounds.start .. bounds.end + self.bounds.start`, then the
non-panicking `data.get(new_bounds)`; `boundaryOk` = both ends on char boundaries (strings) -/
def withBounds (dataLen selfStart bStart bEnd : Int) (boundaryOk : Bool) : Res (Option (Int × Int)) :=
  (ckUsize (bStart + selfStart)).bind fun a =>
    (ckUsize (bEnd + selfStart)).bind fun b =>
      .ok (if a ≤ b ∧ b ≤ dataLen ∧ boundaryOk then some (a, b) else none)

/-- `TupleSlice::with_bounds` since a83c277: the new bounds are relative to the slice and must lie within
it (`bounds.start > bounds.end || bounds.end > self.bounds.len()` ⇒ `None`; `Range::len` saturates at 0)
before the offsets are added -/
def tupleWithBounds (dataLen selfStart selfEnd bStart bEnd : Int) : Res (Option (Int × Int)) :=
  if bStart > bEnd ∨ bEnd > max 0 (selfEnd - selfStart) then .ok none
  else withBounds dataLen selfStart bStart bEnd true

/-- `StringSlice::with_bounds` since 42b084b: the new bounds must lie within the slice itself
(`bounds.end > self.end - self.start` ⇒ `None`) before the offsets are added -/
def stringWithBounds (dataLen selfStart selfEnd bStart bEnd : Int) (boundaryOk : Bool) : Res (Option (Int × Int)) :=
  (ckUsize (selfEnd - selfStart)).bind fun ownLen =>
    if bEnd > ownLen then .ok none else withBounds dataLen selfStart bStart bEnd boundaryOk

/-- `StringSlice::split`: `self.bounds.start + offset`, then `is_char_boundary` (non-panicking) -/
def stringSliceSplit (dataLen selfStart offset : Int) (boundaryOk : Bool) : Res (Option Int) :=
  (ckUsize (selfStart + offset)).bind fun p => .ok (if p ≤ dataLen ∧ boundaryOk then some p else none)

/-- before b5b4493: `KotoLexer::peek(n)` lexed `token_queue_len + 1 - n.max(token_queue_len)` tokens -/
def lexerPeekOld (queueLen n : Int) : Res Int :=
  (ckUsize (queueLen + 1)).bind fun a => ckUsize (a - max n queueLen)

/-- `KotoLexer::peek(n)` (current): `(n + 1).saturating_sub(token_queue_len)` tokens are lexed -/
def lexerPeek (queueLen n : Int) : Res Int :=
  (ckUsize (n + 1)).bind fun a => .ok (max 0 (a - queueLen))

/-! ## `format_source_excerpt` (crates/parser/src/error.rs) -/

/-- arithmetic and unwraps of `format_source_excerpt` for a span `sl:sc .. el:ec` (u32 fields) over
a source whose `lines()` has `nLines` entries -/
def sourceExcerpt (nLines sl sc el ec : Int) : Res Unit :=
  (ckU32 (el - sl)).bind fun d =>            -- `end.line - start.line`
    (ckU32 (d + 1)).bind fun _ =>              -- `+ 1`
      (ckU32 (el + 1)).bind fun _ =>           -- `(n + 1).to_string()` for the last line number
        (if sl = el then
          -- `excerpt_lines.first().unwrap()`, `start.column as usize + 1`, `end.column - start.column`
          (if sl < nLines then Res.ok () else Res.panic).bind fun _ =>
            (ckUsize (sc + 1)).bind fun _ => (ckU32 (ec - sc)).bind fun _ => .ok ()
        else .ok ()).bind fun _ =>
          (ckU32 (sl + 1)).bind fun _ => (ckU32 (sc + 1)).bind fun _ => .ok ()

/-! ## `ExecutionTimeout` (vm.rs) -/

/-- before commit 2bba370: `now + execution_limit` (`Instant + Duration`, seconds as `i64`) panics
on overflow -/
def timeoutDeadlineUnchecked (nowSecs limitSecs : Int) : Res Int := ckI64 (nowSecs + limitSecs)

/-- current code: `now.checked_add(limit).unwrap_or_else(|| now + Duration::from_secs(u32::MAX))`;
`first_interval_instruction_count as usize` and the other `f64 → usize` casts saturate -/
def timeoutDeadline (nowSecs limitSecs : Int) : Res Int :=
  if I64_MIN ≤ nowSecs + limitSecs ∧ nowSecs + limitSecs ≤ I64_MAX then .ok (nowSecs + limitSecs)
  else ckI64 (nowSecs + U32_MAX)

/-- `check_for_timeout`, fast path: guard `since < interval`, then `since += 1` -/
def timeoutTick (since interval : Int) : Res (Option Int) :=
  if since < interval then (ckUsize (since + 1)).map' some else .ok none

/-! ## `KotoVm::next_register` and the operations native code starts on the running VM -/

/-- `next_register()` since b752efa: `next = registers.len() - register_base`; an error when fewer
than 8 ids are left (`next + 8 > u8::MAX`), else `next as u8` -/
def nextRegister (next : Int) : Res Int := if next + 8 > 255 then .err else .ok next

/-- before b752efa: `(registers.len() - register_base) as u8` -/
def nextRegisterUnguarded (next : Int) : Res Int := .ok (castU8 next)

/-- `run_unary_op` (`extra = 1`), `run_binary_op` (`extra = 2`), `call_and_run_function`, read / write
ops: `result_register = next_register()?`, then operand registers `result_register + 1 ..= extra` (u8) -/
def hostOp (guarded : Bool) (next extra : Int) : Res Int :=
  (if guarded then nextRegister next else nextRegisterUnguarded next).bind fun r =>
    (ckU8 (r + extra)).bind fun _ => .ok r

/-! ## `run_string_push`: padding to a minimum width (vm.rs) -/

inductive Align where
  | default (isNumber : Bool)
  | left
  | center
  | right
  deriving Repr, DecidableEq

/-- the fill counts `(left, right)` of `run_string_push` for a rendered value with `graphemes`
grapheme clusters (`bytes` UTF-8 bytes) and a minimum width: guard `len < min_width` on the GRAPHEME
count, then `fill_chars = min_width - len` with the same `len`; centre: `fill / 2` left, the rest
right. `byteLen = true` is the seeded variant that subtracts the byte length instead. -/
def padFill (byteLen : Bool) (graphemes bytes minWidth : Int) (a : Align) : Res (Int × Int) :=
  if graphemes < minWidth then
    (ckUsize (minWidth - (if byteLen then bytes else graphemes))).bind fun fill =>
      match a with
      | .default true | .right => .ok (fill, 0)
      | .default false | .left => .ok (0, fill)
      | .center => (ckUsize (fill - fill / 2)).bind fun r => .ok (fill / 2, r)
  else .ok (0, 0)

/-! ## `unpack_packed_arguments` (vm.rs): the u8 argument count while `xs...` arguments are spliced in -/

/-- one packed argument that yields `len` values: the limit is computed from the CURRENT count
(`(u8::MAX - arg_count - 1)`), more values are a runtime error; then `arg_count -= 1` and
`arg_count += len as u8`. `staleMax = some m` is the seeded variant with the limit hoisted out of
the loop. -/
def unpackOne (staleMax : Option Int) (argCount len : Int) : Res Int :=
  (match staleMax with
    | some m => Res.ok m
    | none => (ckU8 (255 - argCount)).bind fun a => ckU8 (a - 1)).bind fun maxArgs =>
    if len > maxArgs then .err
    else (ckU8 (argCount - 1)).bind fun c => ckU8 (c + castU8 len)

/-- all packed arguments in order (`stale`: limit computed once, before the loop) -/
def unpackArgsFrom (staleMax : Option Int) : Int → List Int → Res Int
  | argCount, [] => .ok argCount
  | argCount, len :: rest => (unpackOne staleMax argCount len).bind fun c => unpackArgsFrom staleMax c rest

def unpackArgs (stale : Bool) (argCount : Int) (lens : List Int) : Res Int :=
  if stale then
    (ckU8 (255 - argCount)).bind fun a => (ckU8 (a - 1)).bind fun m => unpackArgsFrom (some m) argCount lens
  else unpackArgsFrom none argCount lens

/-! ## compiler `Frame` (crates/bytecode/src/frame.rs), `u8` arithmetic -/

/-- `Frame::new`: `1 + local_count + captures.len() as u8 + placeholders as u8` -/
def frameNew (localCount captures placeholders : Int) : Res Int :=
  (ckU8 (1 + localCount)).bind fun a =>
    (ckU8 (a + castU8 captures)).bind fun b => ckU8 (b + castU8 placeholders)

structure Frame where
  base : Int
  count : Int
  used : Int
  stack : List Int
  deriving Repr, DecidableEq

/-- `Frame::push_register` (`none` = `FrameError::StackOverflow`) -/
def pushRegister (f : Frame) : Res (Option Int × Frame) :=
  (ckU8 (f.base + f.count)).bind fun n =>
    if n = 255 then .ok (none, f)
    else (ckU8 (f.count + 1)).bind fun c =>
      .ok (some n, { f with count := c, used := max f.used c, stack := n :: f.stack })

/-- `Frame::pop_register` (`none` = an error value) -/
def popRegister (f : Frame) : Res (Option Int × Frame) :=
  match f.stack with
  | [] => .ok (none, f)
  | r :: rest =>
    if r ≥ f.base then
      if f.count = 0 then .ok (none, { f with stack := rest })
      else (ckU8 (f.count - 1)).bind fun c => .ok (some r, { f with count := c, stack := rest })
    else .ok (some r, { f with stack := rest })

/-- `Frame::peek_register(n)`: `register_stack.get(len - n - 1)` -/
def peekRegister (stackLen n : Int) : Res (Option Int) :=
  (ckUsize (stackLen - n)).bind fun a => (ckUsize (a - 1)).bind fun b =>
    .ok (if b < stackLen then some b else none)

/-- `next_temporary_register`, `available_registers_count`, `registers_used` -/
def frameNextTemp (f : Frame) : Res Int := ckU8 (f.count + f.base)
def frameAvailable (f : Frame) : Res Int := (frameNextTemp f).bind fun n => ckU8 (255 - n)
def frameRegistersUsed (f : Frame) : Res Int := ckU8 (f.base + f.used)

inductive FrameOp where
  | push
  | pop
  deriving Repr, DecidableEq

def frameStep (f : Frame) : FrameOp → Res Frame
  | .push => (pushRegister f).map' (·.2)
  | .pop => (popRegister f).map' (·.2)

def frameRun (f : Frame) : List FrameOp → Res Frame
  | [] => .ok f
  | op :: ops => (frameStep f op).bind fun f' => frameRun f' ops


/-! ## the same kernels after the proposed repairs (requests/C06-fix-*.diff)

Each repair is a flag of `Fx`; with all flags off the `…G` kernels are the kernels above (link lemmas
in Props/C06.lean), with a flag on they mirror the patched code. The harness selects the flags from
the status of the findings in known_findings.json (`fixed` ⇒ flag on), so that the correspondence
compares the implementation with the model of the code *as it is*. -/

structure Fx where
  /-- F-C06-1 / fix-1: `%=` with an integer zero divisor yields NaN -/
  rem : Bool := false
  /-- F-C06-2 / fix-2: `saturating_sub` in Split / Lines / SplitWith `size_hint` -/
  hint : Bool := false
  /-- F-C06-5 / fix-5: `end.saturating_add(1)` in `as_bounded_range` -/
  range : Bool := false
  /-- F-C06-7 / fix-5: `wrapping_sub … as u64 as usize` in `KRange::size` -/
  size : Bool := false
  /-- F-C06-6 / fix-6: shift amounts `>= 64` are rejected -/
  shift : Bool := false
  /-- F-C06-9 / fix-9: `wrapping_abs` -/
  abs : Bool := false
  /-- F-C06-10 / fix-10: `saturating_sub/add` in `range.expanded` -/
  expanded : Bool := false
  /-- F-C06-11 / fix-11: `wrapping_add` when indexing an open-ended range -/
  openIndex : Bool := false
  deriving Repr, DecidableEq

def Fx.none : Fx := {}
def Fx.all : Fx := ⟨true, true, true, true, true, true, true, true⟩

def satI64 (x : Int) : Int := max I64_MIN (min I64_MAX x)

def asBoundedRangeG (fx : Fx) (r : KRange) : Res (Int × Int) :=
  match r.triple with
  | (s, e, incl) =>
    (if incl then (if fx.range then .ok (min (e + 1) I64_MAX) else ckI64 (e + 1)) else .ok e).bind fun e' =>
      .ok (s, max e' s)

def rangeSizeG (fx : Fx) (r : KRange) : Res (Option Int) :=
  if r.isBounded then
    (asBoundedRangeG fx r).bind fun (s, e) =>
      (if fx.size then .ok (max e s - s) else ckI64 (max e s - s)).bind fun d => .ok (some d)
  else .ok none

def rangeContainsG (fx : Fx) (r : KRange) (n : Int) : Res Bool :=
  (asBoundedRangeG fx r).bind fun (s, e) => .ok (decide (s ≤ n ∧ n < e))

def rangeIndicesG (fx : Fx) (r : KRange) (maxIndex : Int) : Res (Int × Int) :=
  let mi := castI64 maxIndex
  (asBoundedRangeG fx r).bind fun (s, e) =>
    (clamp s 0 mi).bind fun a =>
      (clamp e a mi).bind fun b => .ok (a, b)

def rangeIntersectionG (fx : Fx) (a b : KRange) : Res (Option (Int × Int)) :=
  (asBoundedRangeG fx a).bind fun (s1, e1) =>
    (asBoundedRangeG fx b).bind fun (s2, e2) =>
      let c (x : Int) := decide (s1 ≤ x ∧ x < e1)
      if !(c s2 || c e2) then .ok none else .ok (some (max s1 s2, min e1 e2))

def runIndexSeqRangeG (fx : Fx) (len : Int) (r : KRange) : Res (Int × Int) :=
  (rangeIndicesG fx r len).bind fun (a, b) => sliceRange len a b

def runIndexRangeNumG (fx : Fx) (r : KRange) (n : NumView) : Res Int :=
  match r.start with
  | none => .err
  | some s =>
    (rangeSizeG fx r).bind fun sz =>
      (validateIndex n sz).bind fun i =>
        if fx.openIndex then .ok (wrap64 (s + castI64 i)) else ckI64 (s + castI64 i)

def indexAssignListRangeG (fx : Fx) (len : Int) (r : KRange) : Res (Int × Int) :=
  (rangeIndicesG fx r len).bind fun (a, b) =>
    if a < b then (sliceIndex len (b - 1)).bind fun _ => .ok (a, b) else .ok (a, b)

/-- (fix-5 also makes the range arm of `run_temp_index` saturate / wrap) -/
def runTempIndexRangeG (fx : Fx) (r : KRange) (index : Int) : Res (Option Int) :=
  let add (a b : Int) : Res Int := if fx.range then .ok (wrap64 (a + b)) else ckI64 (a + b)
  if index < 0 then
    match r.stop with
    | none => .err
    | some (e, incl) =>
      (if incl then (if fx.range then .ok (min (e + 1) I64_MAX) else ckI64 (e + 1)) else .ok e).bind fun e' =>
        (add e' index).bind fun v =>
          (rangeContainsG fx r v).bind fun c => .ok (if c then some v else none)
  else
    match r.start with
    | none => .err
    | some s =>
      (add s index).bind fun v =>
        (rangeContainsG fx r v).bind fun c => .ok (if c then some v else none)

/-- `run_slice` on a bounded range (arm added by commit 0ead920: `(first, rest...)` against `1..5`
binds the sub-range): `size = (end - start) as usize`, `index = signed_index_to_unsigned(index,
size).min(size) as i64`, then `start + index`. With fix-5: wrapping forms. -/
def runSliceRangeG (fx : Fx) (r : KRange) (index : Int) (sliceTo : Bool) : Res (Int × Int) :=
  (asBoundedRangeG fx r).bind fun (s, e) =>
    (if fx.range then .ok (e - s) else ckI64 (e - s)).bind fun size =>
      (signedIndexToUnsigned index size).bind fun i0 =>
        let i := castI64 (min i0 size)
        (if fx.range then .ok (wrap64 (s + i)) else ckI64 (s + i)).bind fun x =>
          .ok (if sliceTo then (s, x) else (x, e))

def runRemainderAssignG (fx : Fx) (a b : Int) : Res (Option Int) :=
  if fx.rem ∧ b = 0 then .ok none else (wrappingRem a b).map' some

def sizeHintG (fx : Fx) (c : Cursor) : Res Int :=
  if fx.hint then .ok (max 0 (c.len - c.pos)) else ckUsize (c.len - c.pos)

def shiftLeftG (fx : Fx) (a : Int) (b : NumView) : Res Int :=
  if b.geZeroI ∧ (fx.shift = true → b.i64 < 64) then
    (if b.i64 < 64 then .ok (wrap64 (a * 2 ^ b.i64.toNat)) else .panic)
  else .err

def shiftRightG (fx : Fx) (a : Int) (b : NumView) : Res Int :=
  if b.geZeroI ∧ (fx.shift = true → b.i64 < 64) then
    (if b.i64 < 64 then .ok (a / 2 ^ b.i64.toNat) else .panic)
  else .err

def absIntG (fx : Fx) (a : Int) : Res Int :=
  if fx.abs then .ok (wrap64 (if a < 0 then -a else a)) else ckI64 (if a < 0 then -a else a)

def rangeExpandedG (fx : Fx) (s e n : Int) : Res (Int × Int) :=
  if fx.expanded then .ok (satI64 (s - n), satI64 (e + n))
  else (ckI64 (s - n)).bind fun s' => (ckI64 (e + n)).bind fun e' => .ok (s', e')

end KotoVerif.Guards
