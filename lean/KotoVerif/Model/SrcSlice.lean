/-
Model of `FormatContext::source_slice` (crates/format/src/format.rs, since /repo b1042e7):

    line_offsets     = [0] ++ [i + 1 | source[i] == '\n']        -- byte offset of each line start
    position_offsets = sort+dedup [(tok.span.start, tok.bytes.start), (tok.span.end, tok.bytes.end) | tok ← Lexer(source)]
    byte_offset(p)   = position_offsets[binary_search p]           -- p is a token boundary
                     | line_offsets[p.line] + p.column             -- fallback: p is no token boundary
    source_slice(span) = &source[byte_offset(span.start) .. byte_offset(span.end)]

Before b1042e7 only the fallback arithmetic existed; it is wrong whenever a character in front of
the point advances the lexer's `column` (display width) by something else than its byte length
(finding F-C11-3: `é = 1; 99` was copied as ` 9`). The fallback is still in the code, for positions
that are not token boundaries; `byteOfCol` models it.

The source is modelled as lines of characters, each carrying its UTF-8 byte length and the amount
the lexer adds to `column` for it; the token-boundary table is the list the lexer yields. All are
*inputs* (supplied by the harness from `char::len_utf8`, `unicode-width` and `koto_lexer`).

Used for: number literals (`Node::SmallInt | Int | Float`), every comment (`add_source_region` in
`add_trivia_item`) and `#[fmt:skip]` regions — all of which start and end on token boundaries.
-/
namespace KotoVerif.SrcSlice

/-- One source character. `cp` is only an identity (so that text can be compared). -/
structure Ch where
  cp : Nat
  bytes : Nat
  width : Nat
  deriving Repr, DecidableEq, Inhabited

/-- A line: its characters *including* the terminating `'\n'` (absent on the last line). -/
abbrev Line := List Ch

def byteLen : List Ch → Nat
  | [] => 0
  | c :: cs => c.bytes + byteLen cs

/-- What the lexer adds to `column` while moving over these characters. -/
def colLen : List Ch → Nat
  | [] => 0
  | c :: cs => c.width + colLen cs

/-- `line_offsets[k]`: the bytes of all earlier lines. (`k` beyond the last line: the real code
panics on the index; lexer spans never point there.) -/
def lineOffset : List Line → Nat → Nat
  | _, 0 => 0
  | [], _ + 1 => 0
  | l :: ls, k + 1 => byteLen l + lineOffset ls k

structure Pos where
  line : Nat
  col : Nat
  deriving Repr, DecidableEq

structure Span where
  start : Pos
  stop : Pos
  deriving Repr, DecidableEq

/-- The fallback (and, before b1042e7, the only rule): `line_offsets[p.line] + p.column` — a column
used as if it were a byte offset. -/
def byteOfCol (ls : List Line) (p : Pos) : Nat := lineOffset ls p.line + p.col

/-- `position_offsets`: token-boundary positions with their byte offsets. -/
abbrev Table := List (Pos × Nat)

/-- the entry `binary_search_by` finds (the table is sorted and deduplicated; positions are unique
unless the lexer reports one position for two offsets, in which case this is the first). -/
def lookup (tbl : Table) (p : Pos) : Option Nat :=
  match tbl with
  | [] => none
  | (q, b) :: rest => if q = p then some b else lookup rest p

/-- `byte_offset(p)` -/
def byteOf (ls : List Line) (tbl : Table) (p : Pos) : Nat :=
  match lookup tbl p with
  | some b => b
  | none => byteOfCol ls p

/-- The byte range `source_slice` indexes the source with. -/
def sourceSlice (ls : List Line) (tbl : Table) (sp : Span) : Nat × Nat :=
  (byteOf ls tbl sp.start, byteOf ls tbl sp.stop)

/-- the range the fallback alone gives (= the whole behaviour before b1042e7) -/
def sourceSliceCol (ls : List Line) (sp : Span) : Nat × Nat := (byteOfCol ls sp.start, byteOfCol ls sp.stop)

/-- Drop exactly `n` bytes from the front; `none` when `n` is not a character boundary
(`&source[a..b]` panics there) or lies beyond the end. -/
def dropBytes : List Ch → Nat → Option (List Ch)
  | cs, 0 => some cs
  | [], _ + 1 => none
  | c :: cs, n + 1 => if c.bytes ≤ n + 1 then dropBytes cs (n + 1 - c.bytes) else none

/-- Take exactly `n` bytes from the front. -/
def takeBytes : List Ch → Nat → Option (List Ch)
  | _, 0 => some []
  | [], _ + 1 => none
  | c :: cs, n + 1 =>
    if c.bytes ≤ n + 1 then (takeBytes cs (n + 1 - c.bytes)).map (fun r => c :: r) else none

/-- `&source[s..e]` as characters; `none` = the slice expression panics. -/
def sliceText (src : List Ch) (s e : Nat) : Option (List Ch) :=
  if s ≤ e then (dropBytes src s).bind (fun r => takeBytes r (e - s)) else none

/-- The text `source_slice(span)` yields (`none` = panic). -/
def sourceSliceText (ls : List Line) (tbl : Table) (sp : Span) : Option (List Ch) :=
  sliceText ls.flatten (sourceSlice ls tbl sp).1 (sourceSlice ls tbl sp).2

/-- … with the fallback alone. -/
def sourceSliceTextCol (ls : List Line) (sp : Span) : Option (List Ch) :=
  sliceText ls.flatten (sourceSliceCol ls sp).1 (sourceSliceCol ls sp).2

/-- The position the lexer reports for the point on line `k` that follows the characters `pre`. -/
def lexPos (k : Nat) (pre : List Ch) : Pos := { line := k, col := colLen pre }

/-- The byte offset of that point. -/
def truePos (ls : List Line) (k : Nat) (pre : List Ch) : Nat := lineOffset ls k + byteLen pre

end KotoVerif.SrcSlice
