/-
Model of `FormatContext::source_slice` (crates/format/src/format.rs):

    line_offsets = [0] ++ [i + 1 | source[i] == '\n']          -- byte offset of each line start
    source_slice(span) = &source[line_offsets[span.start.line] + span.start.column
                                 .. line_offsets[span.end.line] + span.end.column]

The lexer's `column` is not a byte count: it advances per character by that character's display
width (`c.width().unwrap_or(0)`, see crates/lexer/src/lexer.rs). The source is therefore modelled
as lines of characters, each character carrying its UTF-8 byte length and the amount the lexer adds
to `column` for it. Both are *inputs* (supplied per character by the harness from `char::len_utf8`
and `unicode-width`); nothing here depends on a Unicode table.

Used for: number literals (`Node::SmallInt | Int | Float`), every comment (`add_source_region` in
`add_trivia_item`) and `#[fmt:skip]` regions.
-/
namespace KotoVerif.SrcSlice

/-- One source character. `cp` is only an identity (so that text can be compared). -/
structure Ch where
  cp : Nat
  bytes : Nat
  width : Nat
  deriving Repr, DecidableEq, Inhabited

/-- A line: its characters *including* the terminating `'\n'` (absent on the last line). -/
abbrev Line := List Ch

def byteLen : List Ch → Nat
  | [] => 0
  | c :: cs => c.bytes + byteLen cs

/-- What the lexer adds to `column` while moving over these characters. -/
def colLen : List Ch → Nat
  | [] => 0
  | c :: cs => c.width + colLen cs

/-- `line_offsets[k]`: the bytes of all earlier lines. (`k` beyond the last line: the real code
panics on the index; lexer spans never point there.) -/
def lineOffset : List Line → Nat → Nat
  | _, 0 => 0
  | [], _ + 1 => 0
  | l :: ls, k + 1 => byteLen l + lineOffset ls k

structure Pos where
  line : Nat
  col : Nat
  deriving Repr, DecidableEq

structure Span where
  start : Pos
  stop : Pos
  deriving Repr, DecidableEq

/-- `line_offsets[p.line] + p.column` — a column used as if it were a byte offset. -/
def byteOf (ls : List Line) (p : Pos) : Nat := lineOffset ls p.line + p.col

/-- The byte range `source_slice` indexes the source with. -/
def sourceSlice (ls : List Line) (sp : Span) : Nat × Nat := (byteOf ls sp.start, byteOf ls sp.stop)

/-- Drop exactly `n` bytes from the front; `none` when `n` is not a character boundary
(`&source[a..b]` panics there) or lies beyond the end. -/
def dropBytes : List Ch → Nat → Option (List Ch)
  | cs, 0 => some cs
  | [], _ + 1 => none
  | c :: cs, n + 1 => if c.bytes ≤ n + 1 then dropBytes cs (n + 1 - c.bytes) else none

/-- Take exactly `n` bytes from the front. -/
def takeBytes : List Ch → Nat → Option (List Ch)
  | _, 0 => some []
  | [], _ + 1 => none
  | c :: cs, n + 1 =>
    if c.bytes ≤ n + 1 then (takeBytes cs (n + 1 - c.bytes)).map (fun r => c :: r) else none

/-- `&source[s..e]` as characters; `none` = the slice expression panics. -/
def sliceText (src : List Ch) (s e : Nat) : Option (List Ch) :=
  if s ≤ e then (dropBytes src s).bind (fun r => takeBytes r (e - s)) else none

/-- The text `source_slice(span)` yields (`none` = panic). -/
def sourceSliceText (ls : List Line) (sp : Span) : Option (List Ch) :=
  sliceText ls.flatten (sourceSlice ls sp).1 (sourceSlice ls sp).2

/-- The position the lexer reports for the point on line `k` that follows the characters `pre`. -/
def lexPos (k : Nat) (pre : List Ch) : Pos := { line := k, col := colLen pre }

/-- The byte offset of that point. -/
def truePos (ls : List Line) (k : Nat) (pre : List Ch) : Nat := lineOffset ls k + byteLen pre

end KotoVerif.SrcSlice
