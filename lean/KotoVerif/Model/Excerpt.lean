/-
Model of `crates/parser/src/error.rs` `format_source_excerpt(source, span, None)`.

The source enters as the list produced by `str::lines()` (split at `\n`, a trailing `\r` removed, no
entry for the empty text after a final line break). The arithmetic is done in `Nat` with every
`u32`/`usize` subtraction and every `unwrap()` of the Rust code made explicit as a `panic` outcome
(the harness is built with overflow checks, as debug builds are; in a release build the same inputs
wrap and then fail in `unwrap()` on the empty line-number range or try to allocate 4 GiB of carets).

The structured result `Out` (which lines are quoted, number column width, underline arithmetic) is
what the theorems speak about; `render` turns it into the exact text so that the correspondence
can compare whole strings with the implementation.
-/
import KotoVerif.Model.SrcMap

namespace KotoVerif.Excerpt
open KotoVerif.SrcMap

inductive Panic where
  | lineUnderflow     -- `end.line - start.line` with end.line < start.line
  | noSuchLine        -- `excerpt_lines.first().unwrap()`: start.line is past the last `lines()` entry
  | colUnderflow      -- `end.column - start.column` with end.column < start.column (single line)
  deriving Repr, DecidableEq, Inhabited

structure Out where
  /-- `start.line + 1`, `start.column + 1` -/
  header : Nat × Nat
  /-- width of the line-number column -/
  numberWidth : Nat
  /-- quoted lines: (printed number, index into `lines()`) -/
  quoted : List (Nat × Nat)
  /-- single-line spans: (spaces after `|`, number of `^`) -/
  underline : Option (Nat × Nat)
  deriving Repr, DecidableEq, Inhabited

inductive Res where
  | panic (p : Panic)
  | ok (o : Out)
  deriving Repr, DecidableEq, Inhabited

def digitsFuel : Nat → Nat → Nat
  | 0, _ => 1
  | f + 1, n => if n < 10 then 1 else 1 + digitsFuel f (n / 10)

/-- number of decimal digits of `n` (`n.to_string().len()`) -/
def digits (n : Nat) : Nat := digitsFuel n n

/-- `format_source_excerpt` over `nlines = source.lines().count()`. -/
def excerpt (nlines : Nat) (sp : Span) : Res :=
  let s := sp.start
  let e := sp.stop
  if e.line < s.line then .panic .lineUnderflow            -- take(end.line - start.line + 1)
  else
    let count := e.line - s.line + 1
    -- lines().skip(start.line).take(count): indices start.line .. start.line+avail-1
    let avail := min count (nlines - s.line)
    -- line_numbers = (start.line ..= end.line).map(n + 1); the widest is the last one
    let width := digits (e.line + 1)
    if s.line = e.line then
      if nlines ≤ s.line then .panic .noSuchLine
      else if e.col < s.col then .panic .colUnderflow
      else .ok { header := (s.line + 1, s.col + 1), numberWidth := width,
                 quoted := [(s.line + 1, s.line)],
                 underline := some (s.col + 1, e.col - s.col) }
    else
      -- zip(excerpt_lines, line_numbers): as many rows as there are lines available
      .ok { header := (s.line + 1, s.col + 1), numberWidth := width,
            quoted := (List.range avail).map (fun k => (s.line + k + 1, s.line + k)),
            underline := none }

/-- the guard under which the arithmetic is total: the span is ordered and starts on a line that
`lines()` yields -/
def Guard (nlines : Nat) (sp : Span) : Prop :=
  sp.start.line < nlines ∧
  (sp.start.line < sp.stop.line ∨ (sp.start.line = sp.stop.line ∧ sp.start.col ≤ sp.stop.col))

instance (nlines : Nat) (sp : Span) : Decidable (Guard nlines sp) := by
  unfold Guard; exact inferInstance

/-! ### Text rendering (driver only; no theorem depends on it) -/

def rjust (w : Nat) (s : String) : String :=
  String.ofList (List.replicate (w - s.length) ' ') ++ s

def spaces (n : Nat) : String := String.ofList (List.replicate n ' ')

/-- the text `format_source_excerpt(source, span, None)` returns, for the lines of `source` -/
def render (lines : List String) (sp : Span) : Option String :=
  match excerpt lines.length sp with
  | .panic _ => none
  | .ok o =>
    let padding := spaces (o.numberWidth + 2)
    let row := fun (p : Nat × Nat) =>
      " " ++ rjust o.numberWidth (toString p.1) ++ " | " ++ (lines.getD p.2 "") ++ "\n"
    let body := String.join (o.quoted.map row)
    let tail := match o.underline with
      | some (sp, carets) => padding ++ "|" ++ spaces sp ++ String.ofList (List.replicate carets '^')
      | none => ""
    some (s!"{o.header.1}:{o.header.2}\n" ++ padding ++ "|\n" ++ body ++ tail)

end KotoVerif.Excerpt
