/-
Model of the bytecode compiler's *result-register protocol* (`ResultRegister::{None, Any, Fixed}`,
`CompileNodeOutput`) for the scalar / conditional core of Koto, mirroring
`crates/bytecode/src/compiler.rs`:

  compile_node (Null, BoolTrue/False, SmallInt/Int, VarId), compile_unary_op, compile_arithmetic_op,
  compile_comparison_op (without chaining), compile_logic_op, compile_assign (VarId target),
  compile_compound_assignment_op (VarId target), compile_block, compile_if (if / if-else),
  assign_result_register, and the register allocator calls they make (`frame.rs`:
  push_register / pop_register / truncate / reserve_local_register / commit_local_register /
  get_local_assigned_register).

The compiler emits *structured* code here (`Code`); `flatten` produces the instruction list with the
relative forward jumps that the real compiler patches in, and is what the correspondence check (K2)
compares with the decoded output of the real compiler, instruction for instruction.

The semantics of values and operators is a parameter (`Sem`): the theorems in `Props/C01.lean`
about this model concern register allocation and control flow only, for *every* operator semantics.
-/
namespace KotoVerif.Compile

-- (notations rather than `abbrev`s: `omega` ignores hypotheses about abbreviations of `Nat`)
scoped notation "VarId" => Nat
scoped notation "Reg" => Nat

inductive UnOp | neg | not
  deriving DecidableEq, Repr, Inhabited

inductive BinOp | add | sub | mul | div | rem | pow | lt | le | gt | ge | eq | ne
  deriving DecidableEq, Repr, Inhabited

def BinOp.isComparison : BinOp → Bool
  | .lt | .le | .gt | .ge | .eq | .ne => true
  | _ => false

/-- The modelled expression forms. `bin` covers arithmetic operators, `cmp` a single (unchained)
comparison, `seq a b` a block `a; b` (all but the last expression are compiled for side effects). -/
inductive Expr where
  | null
  | bool (b : Bool)
  | int (n : Int)
  | var (x : VarId)
  | un (op : UnOp) (e : Expr)
  | bin (op : BinOp) (a b : Expr)
  | cmp (op : BinOp) (a b : Expr)
  | chain3 (op1 op2 : BinOp) (a b c : Expr)     -- `a op1 b op2 c`: `b` is evaluated once
  | and (a b : Expr)
  | or (a b : Expr)
  | assign (x : VarId) (e : Expr)
  | compound (op : BinOp) (x : VarId) (e : Expr)
  | seq (a b : Expr)
  | ite (c t e : Expr)
  | ifThen (c t : Expr)
  deriving Repr, Inhabited

/-! ## reference semantics (the language guide: strict left-to-right, short-circuit `and`/`or`) -/

/-- value and operator semantics, left abstract -/
structure Sem where
  V : Type
  null : V
  ofBool : Bool → V
  ofInt : Int → V
  truthy : V → Bool
  unop : UnOp → V → Option V
  binop : BinOp → V → V → Option V
  /-- `x op= e` is a different runtime operation (`run_compound_assign_op!`: numbers only) from
  `x op e` (`+` also joins strings and containers), so it has its own semantic function. -/
  compoundop : BinOp → V → V → Option V

variable (S : Sem)

abbrev Env := VarId → Option S.V

def Env.set {S : Sem} (ρ : Env S) (x : VarId) (v : S.V) : Env S := fun y => if y = x then some v else ρ y

/-- big-step evaluation; `none` = a runtime error (or a read of an unassigned name) -/
def eval : Expr → Env S → Option (S.V × Env S)
  | .null, ρ => some (S.null, ρ)
  | .bool b, ρ => some (S.ofBool b, ρ)
  | .int n, ρ => some (S.ofInt n, ρ)
  | .var x, ρ => (ρ x).map (fun v => (v, ρ))
  | .un op e, ρ =>
    match eval e ρ with
    | some (v, ρ1) => (S.unop op v).map (fun r => (r, ρ1))
    | none => none
  | .bin op a b, ρ =>
    match eval a ρ with
    | some (va, ρ1) =>
      match eval b ρ1 with
      | some (vb, ρ2) => (S.binop op va vb).map (fun r => (r, ρ2))
      | none => none
    | none => none
  | .cmp op a b, ρ =>
    match eval a ρ with
    | some (va, ρ1) =>
      match eval b ρ1 with
      | some (vb, ρ2) => (S.binop op va vb).map (fun r => (r, ρ2))
      | none => none
    | none => none
  | .chain3 op1 op2 a b c, ρ =>
    -- `(a op1 b) and (b op2 c)` with `b` evaluated once; `c` only if the first comparison holds
    match eval a ρ with
    | some (va, ρ1) =>
      match eval b ρ1 with
      | some (vb, ρ2) =>
        match S.binop op1 va vb with
        | some r1 =>
          if S.truthy r1 then
            match eval c ρ2 with
            | some (vc, ρ3) => (S.binop op2 vb vc).map (fun r => (r, ρ3))
            | none => none
          else some (r1, ρ2)
        | none => none
      | none => none
    | none => none
  | .and a b, ρ =>
    match eval a ρ with
    | some (va, ρ1) => if S.truthy va then eval b ρ1 else some (va, ρ1)
    | none => none
  | .or a b, ρ =>
    match eval a ρ with
    | some (va, ρ1) => if S.truthy va then some (va, ρ1) else eval b ρ1
    | none => none
  | .assign x e, ρ =>
    match eval e ρ with
    | some (v, ρ1) => some (v, ρ1.set x v)
    | none => none
  | .compound op x e, ρ =>
    -- `x op= e` is `x = x op e`: the old value of `x` is read first
    match ρ x with
    | some vx =>
      match eval e ρ with
      | some (vr, ρ1) => (S.compoundop op vx vr).map (fun r => (r, ρ1.set x r))
      | none => none
    | none => none
  | .seq a b, ρ =>
    match eval a ρ with
    | some (_, ρ1) => eval b ρ1
    | none => none
  | .ite c t e, ρ =>
    match eval c ρ with
    | some (vc, ρ1) => if S.truthy vc then eval t ρ1 else eval e ρ1
    | none => none
  | .ifThen c t, ρ =>
    match eval c ρ with
    | some (vc, ρ1) => if S.truthy vc then eval t ρ1 else some (S.null, ρ1)
    | none => none

/-! ## target: structured register code -/

inductive Instr where
  | setNull (r : Reg)
  | setBool (r : Reg) (b : Bool)
  | setInt (r : Reg) (n : Int)
  | copy (dst src : Reg)
  | unop (op : UnOp) (dst src : Reg)
  | binop (op : BinOp) (dst a b : Reg)
  | compound (op : BinOp) (lhs rhs : Reg)      -- AddAssign …: lhs ← lhs op rhs
  deriving DecidableEq, Repr, Inhabited

inductive Code where
  | nil
  | instr (i : Instr)
  | seq (a b : Code)
  | jumpIfFalse (r : Reg) (body : Code)        -- JumpIfFalse r, over `body`
  | jumpIfTrue (r : Reg) (body : Code)         -- JumpIfTrue r, over `body`
  | ifElse (r : Reg) (t : Code) (withJump : Bool) (e : Code)
      -- JumpIfFalse r → e ; t ; [Jump → end] ; e
  deriving Repr, Inhabited

abbrev Regs := Reg → S.V

def Regs.set {S : Sem} (σ : Regs S) (r : Reg) (v : S.V) : Regs S := fun q => if q = r then v else σ q

def stepInstr : Instr → Regs S → Option (Regs S)
  | .setNull r, σ => some (σ.set r S.null)
  | .setBool r b, σ => some (σ.set r (S.ofBool b))
  | .setInt r n, σ => some (σ.set r (S.ofInt n))
  | .copy d s, σ => some (σ.set d (σ s))
  | .unop op d s, σ => (S.unop op (σ s)).map (σ.set d)
  | .binop op d a b, σ => (S.binop op (σ a) (σ b)).map (σ.set d)
  | .compound op l r, σ => (S.compoundop op (σ l) (σ r)).map (σ.set l)

/-- execution of structured code; `none` = runtime error -/
def exec : Code → Regs S → Option (Regs S)
  | .nil, σ => some σ
  | .instr i, σ => stepInstr S i σ
  | .seq a b, σ =>
    match exec a σ with
    | some σ1 => exec b σ1
    | none => none
  | .jumpIfFalse r body, σ => if S.truthy (σ r) then exec body σ else some σ
  | .jumpIfTrue r body, σ => if S.truthy (σ r) then some σ else exec body σ
  | .ifElse r t withJump e, σ =>
    if S.truthy (σ r) then
      match exec t σ with
      | some σ1 => if withJump then some σ1 else exec e σ1
      | none => none
    else exec e σ

/-! ## the compile-time frame (`frame.rs`, the parts used here) -/

/-- `LocalRegister`; a local's register number is its index in `local_registers` -/
inductive Slot where
  | allocated                -- register 0 (`self`), unnamed arguments
  | assigned (x : VarId)
  | reserved (x : VarId)
  deriving DecidableEq, Repr, Inhabited

def Slot.id? : Slot → Option VarId
  | .allocated => none
  | .assigned x => some x
  | .reserved x => some x

structure Frame where
  locals : List Slot := [.allocated]   -- local_registers
  tb : Nat                             -- temporary_base
  tc : Nat := 0                        -- temporary_count (= register_stack.len())
  tmax : Nat := 0                      -- temporaries_used_in_frame
  deriving Repr, Inhabited

/-- `registers_used`: the frame's NewFrame register count -/
def Frame.registersUsed (F : Frame) : Nat := F.tb + F.tmax

/-- index of the first slot satisfying `p`, counting from `i` -/
def findSlot (p : Slot → Bool) : List Slot → Nat → Option Nat
  | [], _ => none
  | s :: rest, i => if p s then some i else findSlot p rest (i + 1)

/-- `get_local_assigned_register` -/
def Frame.getAssigned (F : Frame) (x : VarId) : Option Reg :=
  findSlot (fun s => s == .assigned x) F.locals 0

/-- `get_local_assigned_or_reserved_register` -/
def Frame.getAssignedOrReserved (F : Frame) (x : VarId) : Option Reg :=
  findSlot (fun s => s.id? == some x) F.locals 0

/-- `push_register`: `StackOverflow` when the new register would be 255 -/
def Frame.pushReg (F : Frame) : Option (Reg × Frame) :=
  let r := F.tb + F.tc
  if r ≥ 255 then none else some (r, { F with tc := F.tc + 1, tmax := max F.tmax (F.tc + 1) })

/-- `pop_register` -/
def Frame.popReg (F : Frame) : Option Frame :=
  if F.tc = 0 then none else some { F with tc := F.tc - 1 }

/-- `reserve_local_register`: `LocalRegisterOverflow` when no local slot is left -/
def Frame.reserve (F : Frame) (x : VarId) : Option (Reg × Frame) :=
  match F.getAssignedOrReserved x with
  | some r => some (r, F)
  | none =>
    let r := F.locals.length
    if r < F.tb then some (r, { F with locals := F.locals ++ [.reserved x] }) else none

/-- `commit_local_register` (no deferred ops in this core): Reserved → Assigned -/
def Frame.commit (F : Frame) (r : Reg) : Option Frame :=
  match F.locals[r]? with
  | some (.assigned _) => some F
  | some (.reserved x) => some { F with locals := F.locals.set r (.assigned x) }
  | _ => none

/-! ## the compiler -/

inductive Mode | none | any | fixed (r : Reg)
  deriving DecidableEq, Repr, Inhabited

/-- `CompileNodeOutput` -/
structure Out where
  reg : Option Reg
  temp : Bool
  deriving DecidableEq, Repr, Inhabited

/-- `assign_result_register` -/
def assignResult (m : Mode) (F : Frame) : Option (Out × Frame) :=
  match m with
  | .fixed r => some (⟨some r, false⟩, F)
  | .any => (F.pushReg).map (fun (r, F') => (⟨some r, true⟩, F'))
  | .none => some (⟨Option.none, false⟩, F)

def popIf (b : Bool) (F : Frame) : Option Frame := if b then F.popReg else some F

def instrIf (r : Option Reg) (f : Reg → Instr) : Code :=
  match r with
  | some r => .instr (f r)
  | none => .nil

/-- `result.register.map_or(ResultRegister::None, ResultRegister::Fixed)` -/
def branchMode (r : Option Reg) : Mode :=
  match r with
  | some r => .fixed r
  | none => .none

/-- `result.register.map_or_else(|| self.push_register(), Ok)`: the result register, or a fresh
temporary when there is none -/
def resultOrTemp (res : Out) (F : Frame) : Option (Reg × Frame) :=
  match res.reg with
  | some r => some (r, F)
  | none => F.pushReg

/-- the register committed at the end of an assignment (`if !value_result.is_temporary`) -/
def commitIf (o : Out) (vr : Reg) (F : Frame) : Option Frame :=
  if o.temp then some F else F.commit vr

/-- the result of `compile_assign` for each result mode -/
def assignOut (m : Mode) (c : Code) (o : Out) (vr : Reg) : Code × Out :=
  match m with
  | .fixed r => (if r ≠ vr then .seq c (.instr (.copy r vr)) else c, ⟨some r, false⟩)
  | .any => (c, o)
  | .none => (c, ⟨Option.none, false⟩)

def compile : Expr → Mode → Frame → Option (Code × Out × Frame)
  | .null, m, F => do
    let (res, F1) ← assignResult m F
    pure (instrIf res.reg .setNull, res, F1)
  | .bool b, m, F => do
    let (res, F1) ← assignResult m F
    pure (instrIf res.reg (.setBool · b), res, F1)
  | .int n, m, F => do
    let (res, F1) ← assignResult m F
    pure (instrIf res.reg (.setInt · n), res, F1)
  | .var x, m, F =>
    -- compile_load_id, local case only (a non-local load is outside the modelled core)
    match F.getAssigned x with
    | some rx =>
      match m with
      | .none => some (.nil, ⟨Option.none, false⟩, F)
      | .any => some (.nil, ⟨some rx, false⟩, F)
      | .fixed r => some (.instr (.copy r rx), ⟨some r, false⟩, F)
    | none => Option.none
  | .un op e, m, F => do
    let (res, F1) ← assignResult m F
    let (c, o, F2) ← compile e .any F1
    let vr ← o.reg
    let F3 ← popIf o.temp F2
    pure (.seq c (instrIf res.reg (fun r => .unop op r vr)), res, F3)
  | .bin op a b, m, F => do
    let (res, F1) ← assignResult m F
    match res.reg with
    | some r =>
      let (ca, oa, F2) ← compile a .any F1
      let ra ← oa.reg
      let (cb, ob, F3) ← compile b .any F2
      let rb ← ob.reg
      let F4 ← popIf oa.temp F3
      let F5 ← popIf ob.temp F4
      pure (.seq ca (.seq cb (.instr (.binop op r ra rb))), res, F5)
    | none =>
      let (ca, _, F2) ← compile a .none F1
      let (cb, _, F3) ← compile b .none F2
      pure (.seq ca cb, res, F3)
  | .cmp op a b, m, F => do
    -- compile_comparison_op without chaining: operands are always compiled into registers, a
    -- temporary comparison register is taken when there is no result register, and the register
    -- stack is truncated to its size after `assign_result_register`
    let (res, F1) ← assignResult m F
    let (_, F1') ← resultOrTemp res F1
    let (ca, oa, F2) ← compile a .any F1'
    let ra ← oa.reg
    let (cb, ob, F3) ← compile b .any F2
    let rb ← ob.reg
    pure (.seq ca (.seq cb (instrIf res.reg (fun r => .binop op r ra rb))), res, { F3 with tc := F1.tc })
  | .chain3 op1 op2 a b c, m, F => do
    -- compile_comparison_op with one chained comparison: the first comparison goes into the
    -- comparison register (the result register, or a temporary), a false result jumps to the end
    let (res, F1) ← assignResult m F
    let (creg, F1') ← resultOrTemp res F1
    let (ca, oa, F2) ← compile a .any F1'
    let ra ← oa.reg
    let (cb, ob, F3) ← compile b .any F2
    let rb ← ob.reg
    let (cc, oc, F4) ← compile c .any F3
    let rc ← oc.reg
    pure (.seq ca (.seq cb (.seq (.instr (.binop op1 creg ra rb))
            (.jumpIfFalse creg (.seq cc (instrIf res.reg (fun r => .binop op2 r rb rc)))))),
          res, { F4 with tc := F1.tc })
  | .and a b, m, F => do
    let (res, F1) ← assignResult m F
    let (reg, F2) ← resultOrTemp res F1
    let (ca, _, F3) ← compile a (.fixed reg) F2
    let (cb, _, F4) ← compile b (.fixed reg) F3
    let F5 ← popIf res.reg.isNone F4
    pure (.seq ca (.jumpIfFalse reg cb), res, F5)
  | .or a b, m, F => do
    let (res, F1) ← assignResult m F
    let (reg, F2) ← resultOrTemp res F1
    let (ca, _, F3) ← compile a (.fixed reg) F2
    let (cb, _, F4) ← compile b (.fixed reg) F3
    let F5 ← popIf res.reg.isNone F4
    pure (.seq ca (.jumpIfTrue reg cb), res, F5)
  | .assign x e, m, F => do
    let (rx, F1) ← F.reserve x
    let (c, o, F2) ← compile e (.fixed rx) F1
    let vr ← o.reg
    let F3 ← commitIf o vr F2
    pure ((assignOut m c o vr).1, (assignOut m c o vr).2, F3)
  | .compound op x e, m, F => do
    let (res, F1) ← assignResult m F
    let (cr, orr, F2) ← compile e .any F1
    let rr ← orr.reg
    -- the left-hand side is compiled as `VarId` with `Any`: a local's own register, no code
    let rl ← F2.getAssigned x
    let F5 ← popIf orr.temp F2
    pure (.seq cr (.seq (.instr (.compound op rl rr)) (instrIf res.reg (fun r => .copy r rl))), res, F5)
  | .seq a b, m, F => do
    let (ca, _, F1) ← compile a .none F
    let (cb, o, F2) ← compile b m F1
    pure (.seq ca cb, o, F2)
  | .ite c t e, m, F => do
    let (res, F1) ← assignResult m F
    let (cc, oc, F2) ← compile c .any F1
    let rc ← oc.reg
    let F3 ← popIf oc.temp F2
    let (ct, _, F4) ← compile t (branchMode res.reg) F3
    let (ce, _, F5) ← compile e (branchMode res.reg) F4
    pure (.seq cc (.ifElse rc ct true ce), res, F5)
  | .ifThen c t, m, F => do
    let (res, F1) ← assignResult m F
    let (cc, oc, F2) ← compile c .any F1
    let rc ← oc.reg
    let F3 ← popIf oc.temp F2
    let (ct, _, F4) ← compile t (branchMode res.reg) F3
    pure (.seq cc (.ifElse rc ct res.reg.isSome (instrIf res.reg .setNull)), res, F4)

/-! ## flattening to the instruction stream with relative jumps -/

/-- flat instructions; jump operands count *instructions* to skip forward -/
inductive Flat where
  | op (i : Instr)
  | jumpIfFalse (r : Reg) (skip : Nat)
  | jumpIfTrue (r : Reg) (skip : Nat)
  | jump (skip : Nat)
  deriving DecidableEq, Repr, Inhabited

def flatten : Code → List Flat
  | .nil => []
  | .instr i => [.op i]
  | .seq a b => flatten a ++ flatten b
  | .jumpIfFalse r body => .jumpIfFalse r (flatten body).length :: flatten body
  | .jumpIfTrue r body => .jumpIfTrue r (flatten body).length :: flatten body
  | .ifElse r t withJump e =>
    let ft := flatten t
    let fe := flatten e
    if withJump then
      .jumpIfFalse r (ft.length + 1) :: ft ++ (.jump fe.length :: fe)
    else
      .jumpIfFalse r ft.length :: ft ++ fe

end KotoVerif.Compile
