/-
C02 — which variables a function captures, and what a closure sees.

Part A mirrors the parser's data flow (`crates/parser/src/parser.rs`: `Frame::{add_id_access,
add_local_id_assignment, finalize_id_accesses, add_nested_accessed_non_locals}`, called from
`consume_id_expression`, `parse_assign_expression`, `parse_expressions` (= every *expression list*:
a line, the right-hand side of an assignment, the branches of an inline `if … then … else …`),
`consume_function` / `push_function_node`) over a small expression language.
Part B is the declarative definition of free variables (static scoping in textual order).
Part C is an evaluator with closures (capture by copy at creation, deferred self capture on
commit: `compile_function` + `defer_op_until_register_is_committed` + `run_capture_value`),
parametric in the capture analysis, so the parser's analysis and the declarative one can be run
side by side.
Part D is a small heap machine for captured lists (handles are copied, contents are shared) and
default values (evaluated once, when the function is created).
-/
namespace KotoVerif.Capture

abbrev Name := Nat

/-! ## Expressions -/

inductive Ex where
  | lit (n : Int)
  | var (x : Name)
  | add (a b : Ex)
  | sub (a b : Ex)
  | lt (a b : Ex)
  | paren (e : Ex)
  | ite (c t e : Ex)                       -- inline `if c then t else e`
  | assign (x : Name) (e : Ex)             -- `x = e`
  | fn (ps : List Name) (body : List Ex)   -- `|ps|` + block (one expression list per line)
  | call (f : Name) (args : List Ex)       -- `f(args)`
  deriving Repr, Inhabited

/-! ## Part A — the parser's analysis -/

def ins (x : Name) (xs : List Name) : List Name := if xs.contains x then xs else xs ++ [x]

def union (xs ys : List Name) : List Name := ys.foldl (fun acc y => ins y acc) xs

/-- the parser's `Frame` (sets as duplicate-free lists; `pendAcc` is a multiset: the parser counts
pending accesses, /repo da73144) -/
structure PFrame where
  assigned : List Name := []     -- ids_assigned_in_frame
  nonLocals : List Name := []    -- accessed_non_locals
  pendAcc : List Name := []      -- pending_accesses (one entry per counted access)
  pendAsg : List Name := []      -- pending_assignments
  inProg : List Name := []       -- assignments_in_progress (/repo 86c848a)
  deriving Repr, Inhabited

/-- `add_id_access`: one more counted access -/
def PFrame.access (f : PFrame) (x : Name) : PFrame := { f with pendAcc := f.pendAcc ++ [x] }

/-- `add_local_id_assignment`: the id becomes a pending assignment and exactly *one* pending access
of it (the one noted when the left-hand side was parsed as an expression) is discarded -/
def PFrame.assignId (f : PFrame) (x : Name) : PFrame :=
  { f with pendAsg := ins x f.pendAsg, pendAcc := f.pendAcc.erase x }

/-- `finalize_id_accesses` -/
def PFrame.finalize (f : PFrame) : PFrame :=
  { f with
    assigned := union f.assigned f.pendAsg,
    nonLocals := union f.nonLocals (f.pendAcc.filter (fun x => !f.assigned.contains x)),
    pendAcc := [], pendAsg := [] }

/-- `begin_assignment_rhs`: the targets are "in progress" while the right-hand side is parsed, so
expression lists nested in it do not count them as assigned -/
def PFrame.beginRhs (f : PFrame) : PFrame :=
  { f with inProg := union f.inProg f.pendAsg, pendAsg := [] }

/-- `end_assignment_rhs ids` -/
def PFrame.endRhs (f : PFrame) (ids : List Name) : PFrame :=
  { f with inProg := f.inProg.filter (fun x => !ids.contains x), assigned := union f.assigned ids }

/-- `add_nested_accessed_non_locals` -/
def PFrame.addNested (f : PFrame) (nested : List Name) : PFrame :=
  nested.foldl (fun f x => if f.pendAsg.contains x || f.inProg.contains x then f else f.access x) f

mutual
/-- one expression parsed inside the current frame -/
def pe : Ex → PFrame → PFrame
  | .lit _, f => f
  | .var x, f => f.access x
  | .add a b, f => pe b (pe a f)
  | .sub a b, f => pe b (pe a f)
  | .lt a b, f => pe b (pe a f)
  | .paren e, f => pe e f
  | .ite c t e, f =>
    -- condition: parse_expression; branches: parse_expressions (finalize after each)
    let f := pe c f
    let f := (pe t f).finalize
    (pe e f).finalize
  | .assign x e, f =>
    -- the target is first parsed as an id (an access), then turned into an assignment;
    -- the right-hand side is an expression list
    let f := (f.access x).assignId x
    let ids := f.pendAsg
    ((pe e f.beginRhs).finalize).endRhs ids
  | .fn ps body, f => f.addNested (peBlock body { assigned := ps }).nonLocals
  | .call g args, f => peArgs args (f.access g)
/-- comma separated expressions without a list boundary (call arguments) -/
def peArgs : List Ex → PFrame → PFrame
  | [], f => f
  | e :: es, f => peArgs es (pe e f)
/-- a block: every line is an expression list -/
def peBlock : List Ex → PFrame → PFrame
  | [], f => f
  | e :: es, f => peBlock es (pe e f).finalize
end

/-- `Function::accessed_non_locals` of `|ps| body` -/
def accessed (ps : List Name) (body : List Ex) : List Name :=
  (peBlock body { assigned := ps }).nonLocals

/-! ## Part B — declarative free variables

Static scoping in textual order: a name is local from the point where an assignment to it is
complete; a read of a name that is not (yet) local is free. In `x = |…| body` the function's
reference to `x` is the function itself (recursion), so it is not a free variable of the statement. -/

mutual
/-- `fv e bound = (free names read by e, names bound after e)` -/
def fv : Ex → List Name → List Name × List Name
  | .lit _, bd => ([], bd)
  | .var x, bd => (if bd.contains x then [] else [x], bd)
  | .add a b, bd => let (fa, bd) := fv a bd; let (fb, bd) := fv b bd; (union fa fb, bd)
  | .sub a b, bd => let (fa, bd) := fv a bd; let (fb, bd) := fv b bd; (union fa fb, bd)
  | .lt a b, bd => let (fa, bd) := fv a bd; let (fb, bd) := fv b bd; (union fa fb, bd)
  | .paren e, bd => fv e bd
  | .ite c t e, bd =>
    let (fc, bd) := fv c bd; let (ft, bd) := fv t bd; let (fe, bd) := fv e bd
    (union (union fc ft) fe, bd)
  | .assign x (.fn ps body), bd =>
    (((fvBlock body ps).1.filter (fun y => !bd.contains y)).filter (· != x), ins x bd)
  | .assign x e, bd => let (fe, bd) := fv e bd; (fe, ins x bd)
  | .fn ps body, bd => ((fvBlock body ps).1.filter (fun y => !bd.contains y), bd)
  | .call g args, bd =>
    let fg := if bd.contains g then [] else [g]
    let (fa, bd) := fvArgs args bd
    (union fg fa, bd)
def fvArgs : List Ex → List Name → List Name × List Name
  | [], bd => ([], bd)
  | e :: es, bd => let (f1, bd) := fv e bd; let (f2, bd) := fvArgs es bd; (union f1 f2, bd)
def fvBlock : List Ex → List Name → List Name × List Name
  | [], bd => ([], bd)
  | e :: es, bd => let (f1, bd) := fv e bd; let (f2, bd) := fvBlock es bd; (union f1 f2, bd)
end

/-- free variables of the function `|ps| body` -/
def freeVars (ps : List Name) (body : List Ex) : List Name := (fvBlock body ps).1

/-! ### The envelope of the evaluator comparison

`simple e`: no assignment inside `e`. A block is *well shaped* when assignments are whole lines
`x = e` with `e` simple, and a function literal strictly inside such an `e` does not mention `x`
(inside the right-hand side of `x = …` the parser leaves `x` to the function's deferred self
capture, which is meant for `x = |…| …` itself). Since /repo da73144 + 86c848a reads of `x` anywhere
in `e` (after inline-`if` branches included) are inside the envelope. -/

mutual
/-- reads of `x` anywhere in `e` (function bodies included) -/
def mentions (x : Name) : Ex → Bool
  | .lit _ => false
  | .var y => x == y
  | .add a b => mentions x a || mentions x b
  | .sub a b => mentions x a || mentions x b
  | .lt a b => mentions x a || mentions x b
  | .paren e => mentions x e
  | .ite c t e => mentions x c || mentions x t || mentions x e
  | .assign y e => x == y || mentions x e
  | .fn _ body => mentionsList x body
  | .call g args => x == g || mentionsList x args
def mentionsList (x : Name) : List Ex → Bool
  | [] => false
  | e :: es => mentions x e || mentionsList x es
end

mutual
/-- a function literal inside `e` mentions `x` -/
def fnMentions (x : Name) : Ex → Bool
  | .lit _ => false
  | .var _ => false
  | .add a b => fnMentions x a || fnMentions x b
  | .sub a b => fnMentions x a || fnMentions x b
  | .lt a b => fnMentions x a || fnMentions x b
  | .paren e => fnMentions x e
  | .ite c t e => fnMentions x c || fnMentions x t || fnMentions x e
  | .assign _ e => fnMentions x e
  | .fn _ body => mentionsList x body
  | .call _ args => fnMentionsArgs x args
def fnMentionsArgs (x : Name) : List Ex → Bool
  | [] => false
  | e :: es => fnMentions x e || fnMentionsArgs x es
end

def isFn : Ex → Bool
  | .fn _ _ => true
  | _ => false

mutual
def simple : Ex → Bool
  | .lit _ => true
  | .var _ => true
  | .add a b => simple a && simple b
  | .sub a b => simple a && simple b
  | .lt a b => simple a && simple b
  | .paren e => simple e
  | .ite c t e => simple c && simple t && simple e
  | .assign _ _ => false
  | .fn _ body => shapedBlock body
  | .call _ args => simpleArgs args
def simpleArgs : List Ex → Bool
  | [] => true
  | e :: es => simple e && simpleArgs es
/-- a block of lines: assignments are whole lines `x = e` -/
def shapedBlock : List Ex → Bool
  | [] => true
  | .assign x e :: es => simple e && (isFn e || !fnMentions x e) && shapedBlock es
  | e :: es => simple e && shapedBlock es
end

/-! ## Part C — evaluation with closures -/

inductive V where
  | null
  | int (n : Int)
  | bool (b : Bool)
  /-- `self = some x`: the capture slot of `x` is filled with the function itself once the
  assignment `x = |…| …` is committed (deferred `Capture`) -/
  | clo (ps : List Name) (body : List Ex) (env : List (Name × V)) (self : Option Name)
  deriving Inhabited

abbrev Env := List (Name × V)

inductive EErr where
  | notfound | type | args | fuel
  deriving DecidableEq, Repr, Inhabited

def EErr.name : EErr → String
  | .notfound => "E:notfound" | .type => "E:type" | .args => "E:args" | .fuel => "E:fuel"

def lookup (x : Name) : Env → Option V
  | [] => none
  | (y, v) :: r => if x == y then some v else lookup x r

def update (x : Name) (v : V) : Env → Env
  | [] => [(x, v)]
  | (y, w) :: r => if x == y then (y, v) :: r else (y, w) :: update x v r

def V.truthy : V → Bool
  | .null => false
  | .bool false => false
  | _ => true

/-- capture by copy: the values the captured names have *now*; names without a local value are
resolved when read (non-local lookup), which fails in the generated scripts -/
def captureEnv (names : List Name) (env : Env) : Env :=
  names.filterMap (fun n => (lookup n env).map (fun v => (n, v)))

def bindParams : List Name → List V → Option Env
  | [], [] => some []
  | p :: ps, v :: vs => (bindParams ps vs).map (fun r => (p, v) :: r)
  | _, _ => none

/-- `capt ps body` = the names the function captures (the analysis under test) -/
abbrev Analysis := List Name → List Ex → List Name

mutual
def eval (capt : Analysis) : Nat → Ex → Env → Except EErr (V × Env)
  | 0, _, _ => .error .fuel
  | fuel + 1, e, env =>
    match e with
    | .lit n => .ok (.int n, env)
    | .var x => match lookup x env with
      | some v => .ok (v, env)
      | none => .error .notfound
    | .add a b => do
      let (va, env) ← eval capt fuel a env
      let (vb, env) ← eval capt fuel b env
      match va, vb with
      | .int x, .int y => pure (.int (x + y), env)
      | _, _ => .error .type
    | .sub a b => do
      let (va, env) ← eval capt fuel a env
      let (vb, env) ← eval capt fuel b env
      match va, vb with
      | .int x, .int y => pure (.int (x - y), env)
      | _, _ => .error .type
    | .lt a b => do
      let (va, env) ← eval capt fuel a env
      let (vb, env) ← eval capt fuel b env
      match va, vb with
      | .int x, .int y => pure (.bool (x < y), env)
      | _, _ => .error .type
    | .paren e => eval capt fuel e env
    | .ite c t e => do
      let (vc, env) ← eval capt fuel c env
      if vc.truthy then eval capt fuel t env else eval capt fuel e env
    | .assign x (.fn ps body) =>
      let names := capt ps body
      -- `x` not yet assigned: its register is reserved and the `Capture` is deferred until the
      -- assignment is committed; `x` already assigned: the function is written into `x`'s register
      -- (the assignment's result register) *before* `Capture` reads that register. Either way the
      -- function's `x` is the function itself.
      let self := if names.contains x then some x else none
      let f := V.clo ps body (captureEnv names env) self
      .ok (f, update x f env)
    | .assign x e => do
      let (v, env) ← eval capt fuel e env
      pure (v, update x v env)
    | .fn ps body => .ok (.clo ps body (captureEnv (capt ps body) env) none, env)
    | .call g args =>
      match lookup g env with
      | none => .error .notfound
      | some f => do
        let (vs, env) ← evalArgs capt fuel args env
        match f with
        | .clo ps body cenv self =>
          match bindParams ps vs with
          | none => .error .args
          | some penv =>
            let cenv := match self with
              | some x => update x f cenv
              | none => cenv
            let (r, _) ← evalBlock capt fuel body (cenv ++ penv)
            pure (r, env)
        | _ => .error .type
def evalArgs (capt : Analysis) : Nat → List Ex → Env → Except EErr (List V × Env)
  | 0, _, _ => .error .fuel
  | _ + 1, [], env => .ok ([], env)
  | fuel + 1, e :: es, env => do
    let (v, env) ← eval capt fuel e env
    let (vs, env) ← evalArgs capt fuel es env
    pure (v :: vs, env)
/-- value of a block = value of its last line -/
def evalBlock (capt : Analysis) : Nat → List Ex → Env → Except EErr (V × Env)
  | 0, _, _ => .error .fuel
  | _ + 1, [], env => .ok (.null, env)
  | fuel + 1, [e], env => eval capt fuel e env
  | fuel + 1, e :: e' :: es, env => do
    let (_, env) ← eval capt fuel e env
    evalBlock capt fuel (e' :: es) env
end

/-- run a whole script (the top level is a frame like any other) -/
def runScript (capt : Analysis) (fuel : Nat) (script : List Ex) : Except EErr V :=
  (evalBlock capt fuel script []).map (·.1)

/-! ## Part D — captured containers and default values (heap machine) -/

inductive SVal where
  | int (n : Int)
  | ref (a : Nat)
  deriving DecidableEq, Repr, Inhabited

abbrev Heap := List (List Int)
abbrev SEnv := List (Name × SVal)

def slookup (x : Name) : SEnv → Option SVal
  | [] => none
  | (y, v) :: r => if x == y then some v else slookup x r

def supdate (x : Name) (v : SVal) : SEnv → SEnv
  | [] => [(x, v)]
  | (y, w) :: r => if x == y then (y, v) :: r else (y, w) :: supdate x v r

/-- how a default value is written in the argument list -/
inductive DefaultExpr where
  | tick (tag : Nat) (n : Int)    -- `p = tick(tag, n)` : emits `tag` when evaluated
  | var (y : Name)                -- `p = y`
  | fresh (xs : List Int)         -- `p = [..]` : a new list
  deriving Repr, Inhabited

/-- body operations; names are captured variables, the parameter, or body locals -/
inductive BOp where
  | emit (x : Name)
  | push (x : Name) (n : Int)          -- `x.push n`
  | bump (x : Name) (n : Int)          -- `x = x + n`
  | set (x : Name) (n : Int)           -- `x = n`
  deriving Repr, Inhabited

structure SClo where
  param : Option Name          -- at most one (optional) parameter
  default : Option SVal        -- its default value, evaluated at creation
  env : SEnv                   -- captured variables (copied)
  body : List BOp
  deriving Repr, Inhabited

inductive SOp where
  | setInt (x : Name) (n : Int)
  | newList (x : Name) (xs : List Int)
  | alias (x y : Name)                       -- `x = y`
  | push (x : Name) (n : Int)                -- `x.push n`
  | mkFn (f : Name) (param : Option (Name × Option DefaultExpr)) (body : List BOp)
  | call (f : Name) (arg : Option Name)      -- `f()` / `f(y)`
  | emit (x : Name)
  deriving Repr, Inhabited

inductive Ev where
  | tick (tag : Nat)
  | int (n : Int)
  | list (xs : List Int)
  | err (what : Nat)       -- 0 notfound, 1 type, 2 args
  deriving DecidableEq, Repr, Inhabited

structure SState where
  env : SEnv := []
  heap : Heap := []
  fns : List (Name × SClo) := []
  out : List Ev := []
  failed : Bool := false
  deriving Repr, Inhabited

def flookup (f : Name) : List (Name × SClo) → Option SClo
  | [] => none
  | (g, c) :: r => if f == g then some c else flookup f r

def deref (h : Heap) : SVal → Ev
  | .int n => .int n
  | .ref a => .list (h.getD a [])

def heapPush (h : Heap) (a : Nat) (n : Int) : Heap :=
  match h[a]? with
  | some xs => h.set a (xs ++ [n])
  | none => h

/-- names read by a body before being (re)assigned there: the capture set (minus the parameter) -/
def bodyNames : List BOp → List Name → List Name
  | [], _ => []
  | .emit x :: r, bd => (if bd.contains x then [] else [x]) ++ bodyNames r bd
  | .push x _ :: r, bd => (if bd.contains x then [] else [x]) ++ bodyNames r bd
  | .bump x _ :: r, bd => (if bd.contains x then [] else [x]) ++ bodyNames r (x :: bd)
  | .set x _ :: r, bd => bodyNames r (x :: bd)

def sCapture (names : List Name) (env : SEnv) : SEnv :=
  names.filterMap (fun n => (slookup n env).map (fun v => (n, v)))

/-- run a body in a fresh frame; returns the heap, the output and whether it failed -/
def runBody : List BOp → SEnv → Heap → List Ev → Heap × List Ev × Bool
  | [], _, h, out => (h, out, false)
  | .emit x :: r, env, h, out =>
    match slookup x env with
    | some v => runBody r env h (out ++ [deref h v])
    | none => (h, out ++ [.err 0], true)
  | .push x n :: r, env, h, out =>
    match slookup x env with
    | some (.ref a) => runBody r env (heapPush h a n) out
    | some (.int _) => (h, out ++ [.err 1], true)
    | none => (h, out ++ [.err 0], true)
  | .bump x n :: r, env, h, out =>
    match slookup x env with
    | some (.int m) => runBody r (supdate x (.int (m + n)) env) h out
    | some (.ref _) => (h, out ++ [.err 1], true)
    | none => (h, out ++ [.err 0], true)
  | .set x n :: r, env, h, out => runBody r (supdate x (.int n) env) h out

def sstep (s : SState) (op : SOp) : SState :=
  if s.failed then s else
  match op with
  | .setInt x n => { s with env := supdate x (.int n) s.env }
  | .newList x xs => { s with env := supdate x (.ref s.heap.length) s.env, heap := s.heap ++ [xs] }
  | .alias x y =>
    match slookup y s.env with
    | some v => { s with env := supdate x v s.env }
    | none => { s with out := s.out ++ [.err 0], failed := true }
  | .push x n =>
    match slookup x s.env with
    | some (.ref a) => { s with heap := heapPush s.heap a n }
    | some (.int _) => { s with out := s.out ++ [.err 1], failed := true }
    | none => { s with out := s.out ++ [.err 0], failed := true }
  | .mkFn f param body =>
    let pname := param.map (·.1)
    let names := bodyNames body (match pname with | some p => [p] | none => [])
    -- default value first (evaluated in the enclosing scope), then the captures
    let dflt : Option (Option (SVal × Heap × List Ev)) :=
      match param with
      | some (_, some (.tick tag n)) => some (some (.int n, s.heap, [.tick tag]))
      | some (_, some (.var y)) => some ((slookup y s.env).map (fun v => (v, s.heap, [])))
      | some (_, some (.fresh xs)) => some (some (.ref s.heap.length, s.heap ++ [xs], []))
      | _ => none
    match dflt with
    | some none => { s with out := s.out ++ [.err 0], failed := true }
    | some (some (v, h, evs)) =>
      let c : SClo := { param := pname, default := some v, env := sCapture names s.env, body := body }
      { s with heap := h, out := s.out ++ evs, fns := (f, c) :: s.fns }
    | none =>
      let c : SClo := { param := pname, default := none, env := sCapture names s.env, body := body }
      { s with fns := (f, c) :: s.fns }
  | .call f arg =>
    match flookup f s.fns with
    | none => { s with out := s.out ++ [.err 0], failed := true }
    | some c =>
      let argv : Option (Option SVal) := match arg with
        | some y => (slookup y s.env).map some
        | none => some none
      match argv with
      | none => { s with out := s.out ++ [.err 0], failed := true }
      | some av =>
        -- binding of the single (optional) parameter
        let penv : Option SEnv :=
          match c.param, av, c.default with
          | none, none, _ => some []
          | none, some _, _ => none
          | some p, some v, _ => some [(p, v)]
          | some p, none, some d => some [(p, d)]
          | some _, none, none => none
        match penv with
        | none => { s with out := s.out ++ [.err 2], failed := true }
        | some penv =>
          let (h, out, failed) := runBody c.body (penv ++ c.env) s.heap s.out
          { s with heap := h, out := out, failed := failed }
  | .emit x =>
    match slookup x s.env with
    | some v => { s with out := s.out ++ [deref s.heap v] }
    | none => { s with out := s.out ++ [.err 0], failed := true }

def srun (ops : List SOp) (s : SState := {}) : SState := ops.foldl sstep s

end KotoVerif.Capture
