/-
C03 — unpacking: multi-assignment `a, b, c = value`, `a, b = x, y` (temporary tuple),
`for a, b in iterable`, with `_` targets.

Mirrors (file → definition):
* `vm.rs run_make_iterator` (always `temp_iterator = true` from bytecode)   → `elems`
  (list / tuple / string / bounded range / map are iterated, every other plain value becomes a
  `once` iterator)
* `vm.rs run_iterator_next` with `IterUnpack` (jump offset 0: an exhausted iterator writes Null
  and execution continues) and `IterNextQuiet` (`_`: pull one value, drop it) → `assign`
* `compiler.rs compile_multi_assign`, single right-hand side               → `multiAssign`
* `compiler.rs compile_multi_assign`, `rhs_is_temp_tuple` (`TempIndex i`)   → `assignIdx`
* `compiler.rs compile_for` (one arg: `IterNext`; several: `IterNextTemp`, `MakeIterator`,
  then `IterUnpack` per arg)                                               → `forUnpack`

Envelope: strings whose grapheme clusters are single code points (the runtime iterates grapheme
clusters; the Unicode segmentation table is not modelled), no `i64` overflow in ranges, typed
targets (`a: Number`) are C16's.
-/
import KotoVerif.Model.Match

namespace KotoVerif
namespace Unpack
open Match

/-- split UTF-8 bytes into code points (`cur` = bytes of the current one, reversed) -/
def splitChars : List Nat → List Nat → List (List Nat)
  | [], cur => if cur.isEmpty then [] else [cur.reverse]
  | b :: bs, cur =>
    if isCont b then splitChars bs (b :: cur)
    else (if cur.isEmpty then [] else [cur.reverse]) ++ splitChars bs [b]

/-- the values an iterable yields when unpacked; `none` = runtime error (unbounded range) -/
def elems : Val → Option (List Val)
  | .list xs => some xs
  | .tuple xs => some xs
  | .str bs => some ((splitChars bs []).map Val.str)
  | .map es => some (es.map pairOf)
  | .range (some a) (some (e, incl)) =>
    let e' : Int := if incl then e.toInt + 1 else e.toInt
    some ((List.range (e' - a.toInt).toNat).map (fun (i : Nat) => Val.num (.i (Int64.ofInt (a.toInt + (i : Int))))))
  | .range _ _ => none
  | v => some [v]

/-- the declarative result: the first `n` elements, padded with Null -/
def unpack : Nat → List Val → List Val
  | 0, _ => []
  | n + 1, [] => .null :: unpack n []
  | n + 1, x :: xs => x :: unpack n xs

inductive Tgt where
  | id (x : Name)
  | wild
  deriving DecidableEq, Repr, Inhabited

/-- target by target: `IterUnpack` (exhausted ⇒ Null) or `IterNextQuiet` for `_` -/
def assign : List Tgt → List Val → Env → Env
  | [], _, ρ => ρ
  | .id x :: ts, [], ρ => assign ts [] (ρ.set x .null)
  | .id x :: ts, v :: vs, ρ => assign ts vs (ρ.set x v)
  | .wild :: ts, [], ρ => assign ts [] ρ
  | .wild :: ts, _ :: vs, ρ => assign ts vs ρ

/-- the same, target by target, against a *stateful* source (a generator instance, an iterator
value, a peekable — the variable keeps pointing at the one shared iterator): the second component
is what the source still has to yield afterwards.  Every target pulls exactly once — `IterUnpack`
for a name, `IterNextQuiet` for `_` / `_name` (also when it is the last target), `IterUnpack` into a
temporary for a typed `_: T` -/
def assignSt : List Tgt → List Val → Env → Env × List Val
  | [], vs, ρ => (ρ, vs)
  | .id x :: ts, [], ρ => assignSt ts [] (ρ.set x .null)
  | .id x :: ts, v :: vs, ρ => assignSt ts vs (ρ.set x v)
  | .wild :: ts, [], ρ => assignSt ts [] ρ
  | .wild :: ts, _ :: vs, ρ => assignSt ts vs ρ

/-- `a, b, c = rhs`: the expression's value is `rhs` itself -/
def multiAssign (ts : List Tgt) (rhs : Val) (ρ : Env) : Option (Env × Val) :=
  (elems rhs).map (fun xs => (assign ts xs ρ, rhs))

/-- `TempIndex i` per target (temporary tuple on the right-hand side) -/
def assignIdx : List Tgt → List Val → Nat → Env → Env
  | [], _, _, ρ => ρ
  | .id x :: ts, vs, i, ρ => assignIdx ts vs (i + 1) (ρ.set x (vs[i]?.getD .null))
  | .wild :: ts, vs, i, ρ => assignIdx ts vs (i + 1) ρ

/-- `a, b = x, y, …` (all right-hand sides are evaluated first): value = the tuple -/
def multiAssignTemp (ts : List Tgt) (vs : List Val) (ρ : Env) : Env × Val :=
  (assignIdx ts vs 0 ρ, .tuple vs)

/-- the registers at every entry of the loop body, and after the loop -/
def forSteps (ts : List Tgt) : List Val → Env → Option (List Env × Env)
  | [], ρ => some ([], ρ)
  | e :: es, ρ =>
    match ts with
    | [.id x] => (forSteps ts es (ρ.set x e)).map (fun r => (ρ.set x e :: r.1, r.2))
    | [.wild] => (forSteps ts es ρ).map (fun r => (ρ :: r.1, r.2))
    | _ =>
      match elems e with
      | none => none
      | some xs =>
        let ρ1 := assign ts xs ρ
        (forSteps ts es ρ1).map (fun r => (ρ1 :: r.1, r.2))

/-- a single named argument is written by `IterNext` itself, which stores Null when the iterator
is exhausted; several arguments are unpacked from a temporary and keep their last values -/
def forUnpack (ts : List Tgt) (it : Val) (ρ : Env) : Option (List Env × Env) :=
  match elems it with
  | none => none
  | some es =>
    (forSteps ts es ρ).map (fun r =>
      match ts with
      | [.id x] => (r.1, r.2.set x .null)
      | _ => r)

/-- position of every target in the element stream (`_` consumes one too) -/
def tgtNames : List Tgt → List Name
  | [] => []
  | .id x :: ts => x :: tgtNames ts
  | .wild :: ts => tgtNames ts

end Unpack
end KotoVerif
