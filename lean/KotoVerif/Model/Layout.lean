/-
Model of one layer of the formatter's layout engine (crates/format/src/format.rs): the decision
`FormatItem::render_group` takes for a group — render it on one line, or switch to the break logic —

    columns_remaining = line_length.saturating_sub(column)
    too_long    = self.line_length() > columns_remaining
    force_break = items.iter().any(FormatItem::force_break)
    if too_long || force_break || items.last().is_some_and(FormatItem::is_indented_block) { …break logic… }
    else { for item in items { item.render(output, false, false, options, column)? } }

together with `FormatItem::line_length`, `FormatItem::force_break`, `FormatItem::is_indented_block`,
`GroupBreak::{needs_linebreak(false,false,false), line_length}` and the single-line branch of
`FormatItem::render`. The break logic itself (the loop over items in the first branch) and the
builder that produces the item tree from the Ast are NOT modelled.

Text is abstracted to display widths (what `unicode-width` reports — an input): a `str` item carries
the widths of its lines.
-/
namespace KotoVerif.Layout

/-- `GroupBreak` -/
inductive Brk where
  | none | spaceOrIndent | spaceOrIndentIfNecessary | spaceOrReturn | maybeIndent
  | indentIfNecessary | maybeReturn | indentedBreak | returnOrIndent | lineStart | startBlock
  deriving Repr, DecidableEq, Inhabited

/-- `needs_linebreak(false, false, false)`: breaks that force the group onto several lines -/
def Brk.forces : Brk → Bool
  | .indentedBreak | .returnOrIndent | .startBlock => true
  | _ => false

/-- `GroupBreak::line_length` -/
def Brk.len : Brk → Nat
  | .spaceOrIndent | .spaceOrIndentIfNecessary => 1
  | _ => 0

/-- what `FormatItem::render` emits for a break on the single-line path: a space or nothing -/
def Brk.flatWidth : Brk → Nat
  | .spaceOrIndent | .spaceOrIndentIfNecessary | .spaceOrReturn => 1
  | _ => 0

mutual
/-- `FormatItem` (texts reduced to widths; `KString` = `str`) -/
inductive Item where
  | char (w : Nat)                 -- `Char(c)`, w = c.width().unwrap_or(0)
  | optChar (w : Nat)              -- `OptionalChar(c)`
  | str (w : Nat) (more : List Nat) -- `Str(s)`: width of the first line, widths of the further lines
  | lineBreak
  | brk (b : Brk)
  | error
  | group (items : Items)
/-- `Vec<FormatItem>` -/
inductive Items where
  | nil
  | cons (i : Item) (is : Items)
end

mutual
/-- `FormatItem::line_length` -/
def lineLength : Item → Nat
  | .char w => w
  | .optChar w => w
  | .str w _ => w
  | .lineBreak => 0
  | .brk b => b.len
  | .error => 0
  | .group is => lineLengthItems is
/-- the `take_while(not a forcing break).map(line_length).sum()` of a group -/
def lineLengthItems : Items → Nat
  | .nil => 0
  | .cons (.brk b) rest => if b.forces then 0 else b.len + lineLengthItems rest
  | .cons (.char w) rest => w + lineLengthItems rest
  | .cons (.optChar w) rest => w + lineLengthItems rest
  | .cons (.str w _) rest => w + lineLengthItems rest
  | .cons .lineBreak rest => lineLengthItems rest
  | .cons .error rest => lineLengthItems rest
  | .cons (.group is) rest => lineLengthItems is + lineLengthItems rest
end

/-- `FormatItem::force_break` (not recursive: a nested group never forces its parent) -/
def forceBreak : Item → Bool
  | .lineBreak => true
  | .brk b => b.forces
  | _ => false

/-- `FormatItem::is_indented_block` -/
def isIndentedBlock : Item → Bool
  | .group (.cons (.brk .startBlock) _) => true
  | _ => false

def anyItem (p : Item → Bool) : Items → Bool
  | .nil => false
  | .cons i rest => p i || anyItem p rest

def lastIs (p : Item → Bool) : Items → Bool
  | .nil => false
  | .cons i .nil => p i
  | .cons _ (.cons j rest) => lastIs p (.cons j rest)

/-- `too_long` -/
def tooLong (lineLen col : Nat) (is : Items) : Bool := decide (lineLengthItems is > lineLen - col)

/-- the condition of the `if` in `render_group`: `true` = break logic, `false` = single line -/
def broken (lineLen col : Nat) (is : Items) : Bool :=
  tooLong lineLen col is || anyItem forceBreak is || lastIs isIndentedBlock is

mutual
/-- Width of what the single-line branch emits for an item, when nothing in it produces a line
break (see `flatOneLine`). Nested groups are rendered by `render_group` again, at the SAME
`column`; `flatWidth` follows their single-line branch too (justified by `nested_not_broken`). -/
def flatWidth : Item → Nat
  | .char w => w
  | .optChar _ => 0                -- `render_optional` is false on this path
  | .str w _ => w
  | .lineBreak => 0
  | .brk b => b.flatWidth
  | .error => 0
  | .group is => flatWidthItems is
def flatWidthItems : Items → Nat
  | .nil => 0
  | .cons i rest => flatWidth i + flatWidthItems rest
end

mutual
/-- No forcing break, line break, multi-line text or error anywhere in the tree: the single-line
branch then really produces one line. -/
def flatOneLine : Item → Bool
  | .char _ => true
  | .optChar _ => true
  | .str _ more => more.isEmpty
  | .lineBreak => false
  | .brk b => !b.forces
  | .error => false
  | .group is => flatOneLineItems is
def flatOneLineItems : Items → Bool
  | .nil => true
  | .cons i rest => flatOneLine i && flatOneLineItems rest
end

mutual
/-- total width of the `OptionalChar`s (counted by `line_length`, not emitted on one line) -/
def optWidth : Item → Nat
  | .optChar w => w
  | .group is => optWidthItems is
  | _ => 0
def optWidthItems : Items → Nat
  | .nil => 0
  | .cons i rest => optWidth i + optWidthItems rest
end

mutual
/-- number of `SpaceOrReturn` breaks (emitted as a space on one line, counted as 0 by `line_length`) -/
def returnSpaces : Item → Nat
  | .brk .spaceOrReturn => 1
  | .group is => returnSpacesItems is
  | _ => 0
def returnSpacesItems : Items → Nat
  | .nil => 0
  | .cons i rest => returnSpaces i + returnSpacesItems rest
end

mutual
/-- every nested group (at any depth) takes the single-line branch at column `col` -/
def nestedFlat (lineLen col : Nat) : Item → Bool
  | .group is => !broken lineLen col is && nestedFlatItems lineLen col is
  | _ => true
def nestedFlatItems (lineLen col : Nat) : Items → Bool
  | .nil => true
  | .cons i rest => nestedFlat lineLen col i && nestedFlatItems lineLen col rest
end

/-! ## The break branch of `render_group` and `FormatItem::render`

Output is abstracted to the display widths of its lines: `Out` is the list of line widths, LAST line
first (so that appending works on the head). -/

/-- `needs_linebreak(line_is_too_long, force_break, accept_optional_linebreak)` -/
def Brk.needsLinebreak (b : Brk) (tooLong force accept : Bool) : Bool :=
  match b with
  | .none | .spaceOrIndentIfNecessary | .indentIfNecessary | .lineStart => false
  | .indentedBreak | .returnOrIndent | .startBlock => true
  | .spaceOrIndent | .spaceOrReturn => tooLong
  | .maybeReturn | .maybeIndent => force || (accept && tooLong)

/-- `needs_indent(line_is_too_long, force_break, already_indented)` -/
def Brk.needsIndent (b : Brk) (tooLong force indented : Bool) : Bool :=
  match b with
  | .indentedBreak | .lineStart => true
  | .spaceOrIndent => tooLong
  | .maybeIndent => tooLong || force
  | .none | .startBlock | .spaceOrReturn | .maybeReturn => false
  | .spaceOrIndentIfNecessary | .indentIfNecessary => false
  | .returnOrIndent => !indented

/-- `needs_return(line_is_too_long, force_break, already_indented)` -/
def Brk.needsReturn (b : Brk) (tooLong force indented : Bool) : Bool :=
  match b with
  | .lineStart => true
  | .maybeReturn => tooLong || force
  -- (`SpaceOrReturn` returned `true` before /repo 506c2fd: see `layout_action_spaceOrReturn_fixed`)
  | .none | .indentedBreak | .spaceOrIndent | .maybeIndent | .startBlock | .spaceOrReturn => false
  | .spaceOrIndentIfNecessary | .indentIfNecessary => false
  | .returnOrIndent => indented

/-- `needs_space(line_is_too_long)` -/
def Brk.needsSpace (b : Brk) (tooLong : Bool) : Bool :=
  match b with
  | .spaceOrIndent | .spaceOrIndentIfNecessary | .spaceOrReturn => !tooLong
  | _ => false

/-- What the break logic puts in front of the next item. -/
inductive Action where
  | nothing
  | space
  /-- `group_start_indent` WITHOUT a line break in front (relies on one having been emitted) -/
  | returnOnly
  | newline          -- line break + `group_start_indent`
  | newlineIndent    -- line break + `group_start_indent` + one indent
  deriving Repr, DecidableEq, Inhabited

/-- the `if … needs_linebreak … else if needs_return … else if needs_space` cascade -/
def Brk.action (b : Brk) (tooLong force indented accept : Bool) : Action :=
  if b.needsLinebreak tooLong force accept then
    if b.needsIndent tooLong force indented then .newlineIndent else .newline
  else if b.needsReturn tooLong force indented then .returnOnly
  else if b.needsSpace tooLong then .space
  else .nothing

/-- the break an `…IfNecessary` kind turns into when the next item does not fit -/
def ifNecessaryBreak (indented : Bool) : Brk := if indented then .maybeReturn else .indentedBreak

abbrev Out := List Nat

def Out.emit (w : Nat) : Out → Out
  | [] => [w]
  | c :: rest => (c + w) :: rest

def Out.newline (o : Out) : Out := 0 :: o

/-- append the text `t` (also last-line-first) to `o` -/
def Out.append (o : Out) (t : Out) : Out :=
  match t.reverse with
  | [] => o
  | first :: more => more.reverse ++ (o.emit first)

/-- width of the first line of a rendered text -/
def Out.firstW (t : Out) : Nat := t.getLast?.getD 0
/-- width of its last line -/
def Out.lastW (t : Out) : Nat := t.head?.getD 0
def Out.multi (t : Out) : Bool := decide (t.length > 1)

structure Opt where
  lineLen : Nat
  indentWidth : Nat
  deriving Repr, DecidableEq

/-- the mutable locals of the loop in `render_group` -/
structure St where
  column : Nat
  groupColumn : Nat
  pending : Brk
  lineWidth : Nat
  childIndented : Bool
  firstItem : Bool
  out : Out
  deriving Repr

/-- "Adjust the column for the item to be rendered": the `group_column` and `child_is_indented` the
next item is rendered with. -/
def preAdjust (o : Opt) (tooLong force indented : Bool) (st : St) : Nat × Bool :=
  let accept := !(st.firstItem && indented)
  let pre := st.pending.needsLinebreak tooLong force accept
  let preIndent := pre && st.pending.needsIndent tooLong force indented
  (if pre then (if preIndent then st.column + o.indentWidth else st.column) else st.groupColumn,
   if preIndent then true else st.childIndented)

/-- "Check for 'indented break if necessary' items": the pending break after the fit test of the
`…IfNecessary` kinds (`firstW` = width of the first line of the rendered item). -/
def resolvePending (o : Opt) (indented : Bool) (st : St) (firstW : Nat) : Brk :=
  match st.pending with
  | .spaceOrIndentIfNecessary =>
    if decide (st.lineWidth + firstW + 1 ≤ o.lineLen) then .none else ifNecessaryBreak indented
  | .indentIfNecessary =>
    if decide (st.lineWidth + firstW ≤ o.lineLen) then .none else ifNecessaryBreak indented
  | b => b

/-- The rest of the loop body once the item has been rendered to the text `t` (with the values
`gc1`, `ci1` of `preAdjust`): the `…IfNecessary` fit tests, what is emitted in front of the item,
and the bookkeeping. -/
def stepItem (o : Opt) (tooLong force indented : Bool) (st : St) (gc1 : Nat) (ci1 : Bool) (t : Out) : St :=
  let accept := !(st.firstItem && indented)
  let firstW := t.firstW
  -- "Check for 'indented break if necessary' items"
  let fitsS := decide (st.lineWidth + firstW + 1 ≤ o.lineLen)
  let pending2 : Brk := resolvePending o indented st firstW
  let spaced := st.pending == .spaceOrIndentIfNecessary && fitsS && decide (firstW > 0)
  let out2 := if spaced then st.out.emit 1 else st.out
  let firstW2 := if spaced then firstW + 1 else firstW
  -- "Emit linebreaks if necessary"
  let act := pending2.action tooLong force indented accept
  let out3 : Out :=
    match act with
    | .newlineIndent => (out2.newline.emit st.column).emit o.indentWidth
    | .newline => out2.newline.emit st.column
    | .returnOnly => out2.emit st.column
    | .space => out2.emit 1
    | .nothing => out2
  let gc : Nat :=
    match act with
    | .newlineIndent => st.column + o.indentWidth
    | .newline | .returnOnly => st.column
    | _ => gc1
  let lw : Nat :=
    match act with
    | .newlineIndent => st.column + o.indentWidth
    | .newline | .returnOnly => st.column
    | _ => st.lineWidth
  let ci : Bool :=
    match act with
    | .newlineIndent => true
    | .returnOnly => false
    | _ => ci1
  let lastW := if t.multi then t.lastW else firstW2
  { column := st.column, groupColumn := gc, pending := .none, lineWidth := lw + lastW,
    childIndented := ci, firstItem := false, out := out3.append t }

/-- a `GroupBreak` item in the loop -/
def stepBrk (o : Opt) (indented : Bool) (b : Brk) (st : St) : St :=
  match b with
  | .startBlock =>
    { st with column := st.column + o.indentWidth, groupColumn := st.column + o.indentWidth,
              out := st.out.newline, pending := .none }
  | .indentedBreak => { st with pending := if indented then .maybeIndent else .indentedBreak }
  | b => { st with pending := b }

mutual
/-- `FormatItem::render(output = fresh buffer, indented, render_optional, options, column)`;
`none` = an `Error` item was met. -/
def renderItem (o : Opt) : Item → Bool → Bool → Nat → Option Out
  | .char w, _, _, _ => some [w]
  | .optChar w, _, ro, _ => some [if ro then w else 0]
  | .str w more, _, _, _ => some (w :: more).reverse
  | .lineBreak, _, _, _ => some [0, 0]
  | .brk b, _, _, _ => some [b.flatWidth]
  | .error, _, _, _ => none
  | .group is, indented, _, column =>
    let tooLong := tooLong o.lineLen column is
    let force := anyItem forceBreak is
    if tooLong || force || lastIs isIndentedBlock is then
      (loopItems o tooLong force indented is
        { column := column, groupColumn := column, pending := .none, lineWidth := column,
          childIndented := false, firstItem := true, out := [0] }).map (·.out)
    else flatItems o is column [0]
/-- the single-line branch: `for item in items { item.render(output, false, false, options, column)? }` -/
def flatItems (o : Opt) : Items → Nat → Out → Option Out
  | .nil, _, out => some out
  | .cons i rest, column, out =>
    match renderItem o i false false column with
    | none => none
    | some t => flatItems o rest column (out.append t)
/-- the break branch: `for item in items { match item { … } }` -/
def loopItems (o : Opt) (tooLong force indented : Bool) : Items → St → Option St
  | .nil, st => some st
  | .cons (.brk b) rest, st => loopItems o tooLong force indented rest (stepBrk o indented b st)
  | .cons .lineBreak rest, st =>
    loopItems o tooLong force indented rest { st with out := st.out.newline, pending := .none }
  | .cons i rest, st =>
    if isIndentedBlock i then
      -- relative to the group's start column, not `group_column` (/repo dd98b16)
      match renderItem o i false false st.column with
      | none => none
      | some t => loopItems o tooLong force indented rest { st with out := st.out.append t, pending := .none }
    else
      let p := preAdjust o tooLong force indented st
      match renderItem o i p.2 (tooLong || p.2) p.1 with
      | none => none
      | some t => loopItems o tooLong force indented rest (stepItem o tooLong force indented st p.1 p.2 t)
end

/-- `render_group` for the items of a group, as text shape (first line first); `none` on `Error` -/
def renderGroupLines (o : Opt) (is : Items) (indented : Bool) (column : Nat) : Option (List Nat) :=
  (renderItem o (.group is) indented false column).map List.reverse

end KotoVerif.Layout
