/-
Model of one layer of the formatter's layout engine (crates/format/src/format.rs): the decision
`FormatItem::render_group` takes for a group — render it on one line, or switch to the break logic —

    columns_remaining = line_length.saturating_sub(column)
    too_long    = self.line_length() > columns_remaining
    force_break = items.iter().any(FormatItem::force_break)
    if too_long || force_break || items.last().is_some_and(FormatItem::is_indented_block) { …break logic… }
    else { for item in items { item.render(output, false, false, options, column)? } }

together with `FormatItem::line_length`, `FormatItem::force_break`, `FormatItem::is_indented_block`,
`GroupBreak::{needs_linebreak(false,false,false), line_length}` and the single-line branch of
`FormatItem::render`. The break logic itself (the loop over items in the first branch) and the
builder that produces the item tree from the Ast are NOT modelled.

Text is abstracted to display widths (what `unicode-width` reports — an input): a `str` item carries
the width of its first line and its number of lines.
-/
namespace KotoVerif.Layout

/-- `GroupBreak` -/
inductive Brk where
  | none | spaceOrIndent | spaceOrIndentIfNecessary | spaceOrReturn | maybeIndent
  | indentIfNecessary | maybeReturn | indentedBreak | returnOrIndent | lineStart | startBlock
  deriving Repr, DecidableEq, Inhabited

/-- `needs_linebreak(false, false, false)`: breaks that force the group onto several lines -/
def Brk.forces : Brk → Bool
  | .indentedBreak | .returnOrIndent | .startBlock => true
  | _ => false

/-- `GroupBreak::line_length` -/
def Brk.len : Brk → Nat
  | .spaceOrIndent | .spaceOrIndentIfNecessary => 1
  | _ => 0

/-- what `FormatItem::render` emits for a break on the single-line path: a space or nothing -/
def Brk.flatWidth : Brk → Nat
  | .spaceOrIndent | .spaceOrIndentIfNecessary | .spaceOrReturn => 1
  | _ => 0

mutual
/-- `FormatItem` (texts reduced to widths; `KString` = `str`) -/
inductive Item where
  | char (w : Nat)                 -- `Char(c)`, w = c.width().unwrap_or(0)
  | optChar (w : Nat)              -- `OptionalChar(c)`
  | str (w : Nat) (lines : Nat)    -- `Str(s)`: width of the first line, number of lines
  | lineBreak
  | brk (b : Brk)
  | error
  | group (items : Items)
/-- `Vec<FormatItem>` -/
inductive Items where
  | nil
  | cons (i : Item) (is : Items)
end

mutual
/-- `FormatItem::line_length` -/
def lineLength : Item → Nat
  | .char w => w
  | .optChar w => w
  | .str w _ => w
  | .lineBreak => 0
  | .brk b => b.len
  | .error => 0
  | .group is => lineLengthItems is
/-- the `take_while(not a forcing break).map(line_length).sum()` of a group -/
def lineLengthItems : Items → Nat
  | .nil => 0
  | .cons (.brk b) rest => if b.forces then 0 else b.len + lineLengthItems rest
  | .cons (.char w) rest => w + lineLengthItems rest
  | .cons (.optChar w) rest => w + lineLengthItems rest
  | .cons (.str w _) rest => w + lineLengthItems rest
  | .cons .lineBreak rest => lineLengthItems rest
  | .cons .error rest => lineLengthItems rest
  | .cons (.group is) rest => lineLengthItems is + lineLengthItems rest
end

/-- `FormatItem::force_break` (not recursive: a nested group never forces its parent) -/
def forceBreak : Item → Bool
  | .lineBreak => true
  | .brk b => b.forces
  | _ => false

/-- `FormatItem::is_indented_block` -/
def isIndentedBlock : Item → Bool
  | .group (.cons (.brk .startBlock) _) => true
  | _ => false

def anyItem (p : Item → Bool) : Items → Bool
  | .nil => false
  | .cons i rest => p i || anyItem p rest

def lastIs (p : Item → Bool) : Items → Bool
  | .nil => false
  | .cons i .nil => p i
  | .cons _ (.cons j rest) => lastIs p (.cons j rest)

/-- `too_long` -/
def tooLong (lineLen col : Nat) (is : Items) : Bool := decide (lineLengthItems is > lineLen - col)

/-- the condition of the `if` in `render_group`: `true` = break logic, `false` = single line -/
def broken (lineLen col : Nat) (is : Items) : Bool :=
  tooLong lineLen col is || anyItem forceBreak is || lastIs isIndentedBlock is

mutual
/-- Width of what the single-line branch emits for an item, when nothing in it produces a line
break (see `flatOneLine`). Nested groups are rendered by `render_group` again, at the SAME
`column`; `flatWidth` follows their single-line branch too (justified by `nested_not_broken`). -/
def flatWidth : Item → Nat
  | .char w => w
  | .optChar _ => 0                -- `render_optional` is false on this path
  | .str w _ => w
  | .lineBreak => 0
  | .brk b => b.flatWidth
  | .error => 0
  | .group is => flatWidthItems is
def flatWidthItems : Items → Nat
  | .nil => 0
  | .cons i rest => flatWidth i + flatWidthItems rest
end

mutual
/-- No forcing break, line break, multi-line text or error anywhere in the tree: the single-line
branch then really produces one line. -/
def flatOneLine : Item → Bool
  | .char _ => true
  | .optChar _ => true
  | .str _ lines => lines == 1
  | .lineBreak => false
  | .brk b => !b.forces
  | .error => false
  | .group is => flatOneLineItems is
def flatOneLineItems : Items → Bool
  | .nil => true
  | .cons i rest => flatOneLine i && flatOneLineItems rest
end

mutual
/-- total width of the `OptionalChar`s (counted by `line_length`, not emitted on one line) -/
def optWidth : Item → Nat
  | .optChar w => w
  | .group is => optWidthItems is
  | _ => 0
def optWidthItems : Items → Nat
  | .nil => 0
  | .cons i rest => optWidth i + optWidthItems rest
end

mutual
/-- number of `SpaceOrReturn` breaks (emitted as a space on one line, counted as 0 by `line_length`) -/
def returnSpaces : Item → Nat
  | .brk .spaceOrReturn => 1
  | .group is => returnSpacesItems is
  | _ => 0
def returnSpacesItems : Items → Nat
  | .nil => 0
  | .cons i rest => returnSpaces i + returnSpacesItems rest
end

mutual
/-- every nested group (at any depth) takes the single-line branch at column `col` -/
def nestedFlat (lineLen col : Nat) : Item → Bool
  | .group is => !broken lineLen col is && nestedFlatItems lineLen col is
  | _ => true
def nestedFlatItems (lineLen col : Nat) : Items → Bool
  | .nil => true
  | .cons i rest => nestedFlat lineLen col i && nestedFlatItems lineLen col rest
end

end KotoVerif.Layout
