/-
The compile-time register allocator of `crates/bytecode/src/frame.rs` (`Frame`) as a state machine
with explicit `u8` arithmetic. Shared by C01 (register discipline of the compiler core) and C05
(register limits).

Registers of a frame: `0` = self, then arguments / captures / unpacked arguments / locals (all
"local registers", indices into `local_registers`), then temporaries from `temporary_base` upwards,
handed out and returned in LIFO order (`register_stack`).

Every Rust operation is one function `Frame → … → Out α`, where `Out` distinguishes
* `ok s a`    — `Ok(a)` with the new state `s` (a state change can also accompany an error, see `err`),
* `err s e`   — `Err(FrameError::e)`; the state may have changed before the error was detected
                (`reserve_local_register` / `assign_local_register` push the local *before* the limit
                test — the compiler aborts on the first error, so the poisoned state is never used),
* `panic`     — an arithmetic overflow that panics in a build with overflow checks
                (`attempt to add/subtract with overflow`); in a release build the same expression
                wraps, see `Frame.newWrapping`.

`u8`/`usize` values are `Nat`s; every place where Rust computes in `u8` is marked.
Loop bookkeeping (`loop_stack`), `last_node_was_return`, `output_type`, `is_generator` do not
interact with register allocation and are not modelled.
-/
namespace KotoVerif.Frame

/-- `LocalRegister` -/
inductive Local where
  | assigned (id : Nat)
  | reserved (id : Nat) (deferred : List (List Nat))
  | allocated
  deriving DecidableEq, Repr, Inhabited

/-- `Arg` -/
inductive Arg where
  | local_ (id : Nat)
  | unpacked (id : Nat)
  | placeholder
  deriving DecidableEq, Repr, Inhabited

/-- `FrameError` (the register-related variants) -/
inductive Err where
  | emptyRegisterStack
  | localRegisterOverflow
  | stackOverflow
  | unableToCommitRegister (r : Nat)
  | unableToPeekRegister (n : Nat)
  | unexpectedTemporaryRegister (r : Nat)
  | unreservedRegister (r : Nat)
  deriving DecidableEq, Repr, Inhabited

structure Frame where
  /-- `register_stack`, most recently pushed first -/
  stack : List Nat := []
  /-- `local_registers`, index = register -/
  locals : List Local := []
  /-- `exported_ids` (a set; kept as a list without duplicates) -/
  exported : List Nat := []
  /-- `temporary_base : u8` -/
  tb : Nat := 0
  /-- `temporary_count : u8` -/
  tc : Nat := 0
  /-- `temporaries_used_in_frame : u8` -/
  used : Nat := 0
  deriving DecidableEq, Repr, Inhabited

inductive Out (α : Type) where
  | ok (s : Frame) (a : α)
  | err (s : Frame) (e : Err)
  | panic
  deriving Repr, DecidableEq

def u8Max : Nat := 255

/-- `x as u8` -/
def asU8 (x : Nat) : Nat := x % 256

def placeholders (args : List Arg) : Nat := (args.filter (· == .placeholder)).length

/-- The `local_registers` vector built by `Frame::new`: self, top-level args (named and
placeholders) in order, captures, then unpacked args. -/
def initialLocals (args : List Arg) (captures : List Nat) : List Local :=
  [Local.allocated]
  ++ args.filterMap (fun a => match a with
      | .local_ id => some (Local.assigned id)
      | .placeholder => some Local.allocated
      | .unpacked _ => none)
  ++ captures.map Local.assigned
  ++ args.filterMap (fun a => match a with
      | .unpacked id => some (Local.assigned id)
      | _ => none)

/-- The exact (unbounded) value of `1 + local_count + captures + placeholders`. -/
def baseSum (localCount : Nat) (args : List Arg) (captures : List Nat) : Nat :=
  1 + localCount + captures.length + placeholders args

/-- `Frame::new(local_count: u8, args, captures, …)`:
`temporary_base = 1 + local_count + captures.len() as u8 + placeholders as u8`, three `u8`
additions evaluated left to right, each of which panics on overflow in a checked build. -/
def Frame.new (localCount : Nat) (args : List Arg) (captures : List Nat) : Out Unit :=
  let c := asU8 captures.length
  let p := asU8 (placeholders args)
  if 1 + localCount > u8Max then .panic
  else if 1 + localCount + c > u8Max then .panic
  else if 1 + localCount + c + p > u8Max then .panic
  else .ok { locals := initialLocals args captures, tb := 1 + localCount + c + p } ()

/-- The same constructor in a build without overflow checks: the sum wraps modulo 256. -/
def Frame.newWrapping (localCount : Nat) (args : List Arg) (captures : List Nat) : Frame :=
  { locals := initialLocals args captures,
    tb := asU8 (1 + localCount + asU8 captures.length + asU8 (placeholders args)) }

/-- `compile_frame` (since fix 4f80b78): before calling `Frame::new` the compiler computes
`1 + local_count + captures.len() + placeholders` in `usize` and reports
`FunctionPropertyLimit("local registers")` when it exceeds `u8::MAX`; `none` = that compile error.
`local_count` is a `u8` here (the main block's and a function's counts are converted with
`u8::try_from`, a failure being `FunctionPropertyLimit("locals")`). -/
def Frame.newGuarded (localCount : Nat) (args : List Arg) (captures : List Nat) : Option (Out Unit) :=
  if baseSum localCount args captures > u8Max then none else some (Frame.new localCount args captures)

/-- index of the first element satisfying `p` -/
def findIdx (p : Local → Bool) : List Local → Nat → Option Nat
  | [], _ => none
  | l :: ls, i => if p l then some i else findIdx p ls (i + 1)

/-- `get_local_assigned_register`: position of the first `Assigned(id)`, `as u8`. -/
def Frame.getAssigned (s : Frame) (id : Nat) : Option Nat :=
  (findIdx (fun l => l == .assigned id) s.locals 0).map asU8

inductive AssignedOrReserved where
  | assigned (r : Nat)
  | reserved (r : Nat)
  | unassigned
  deriving DecidableEq, Repr, Inhabited

def lookupLocal (id : Nat) : List Local → Nat → AssignedOrReserved
  | [], _ => .unassigned
  | .assigned a :: ls, i => if a = id then .assigned (asU8 i) else lookupLocal id ls (i + 1)
  | .reserved a _ :: ls, i => if a = id then .reserved (asU8 i) else lookupLocal id ls (i + 1)
  | .allocated :: ls, i => lookupLocal id ls (i + 1)

/-- `get_local_assigned_or_reserved_register` -/
def Frame.getAssignedOrReserved (s : Frame) (id : Nat) : AssignedOrReserved :=
  lookupLocal id s.locals 0

/-- Shared tail of `reserve_local_register` / `assign_local_register` for an unknown id: push the
entry, *then* compare the new index with `temporary_base`. -/
def Frame.pushLocal (s : Frame) (l : Local) : Out Nat :=
  let s' := { s with locals := s.locals ++ [l] }
  let r := s.locals.length
  if r < s.tb then .ok s' (asU8 r) else .err s' .localRegisterOverflow

/-- `reserve_local_register` -/
def Frame.reserveLocal (s : Frame) (id : Nat) : Out Nat :=
  match s.getAssignedOrReserved id with
  | .assigned r => .ok s r
  | .reserved r => .ok s r
  | .unassigned => s.pushLocal (.reserved id [])

/-- `defer_op_until_register_is_committed` -/
def Frame.deferOp (s : Frame) (r : Nat) (bytes : List Nat) : Out Unit :=
  match s.locals[r]? with
  | some (.reserved id ops) => .ok { s with locals := s.locals.set r (.reserved id (ops ++ [bytes])) } ()
  | _ => .err s (.unreservedRegister r)

/-- `commit_local_register`: returns the deferred ops (byte strings) in the order they were added. -/
def Frame.commitLocal (s : Frame) (r : Nat) : Out (List (List Nat)) :=
  match s.locals[r]? with
  | some (.assigned _) => .ok s []
  | some (.reserved id ops) => .ok { s with locals := s.locals.set r (.assigned id) } ops
  | _ => .err s (.unreservedRegister r)

/-- `assign_local_register` -/
def Frame.assignLocal (s : Frame) (id : Nat) : Out Nat :=
  match s.getAssignedOrReserved id with
  | .assigned r => .ok s r
  | .reserved r =>
    match s.commitLocal r with
    | .ok s' ops => if ops.isEmpty then .ok s' r else .err s' (.unableToCommitRegister r)
    | .err s' e => .err s' e
    | .panic => .panic
  | .unassigned => s.pushLocal (.assigned id)

/-- `add_to_exported_ids` -/
def Frame.addExported (s : Frame) (id : Nat) : Frame :=
  if s.exported.contains id then s else { s with exported := id :: s.exported }

/-- `push_register`: `new_register = temporary_base + temporary_count` (`u8` addition);
`StackOverflow` iff it equals `u8::MAX` — register 255 is never handed out. -/
def Frame.pushRegister (s : Frame) : Out Nat :=
  let r := s.tb + s.tc
  if r > u8Max then .panic
  else if r = u8Max then .err s .stackOverflow
  else .ok { s with tc := s.tc + 1, used := max s.used (s.tc + 1), stack := r :: s.stack } r

/-- `pop_register` -/
def Frame.popRegister (s : Frame) : Out Nat :=
  match s.stack with
  | [] => .err s .emptyRegisterStack
  | r :: rest =>
    let s' := { s with stack := rest }
    if r ≥ s.tb then
      if s.tc = 0 then .err s' (.unexpectedTemporaryRegister r)
      else .ok { s' with tc := s.tc - 1 } r
    else .ok s' r

/-- `peek_register(n)`: `register_stack.get(len - n - 1)`; the `usize` subtraction panics when
`n ≥ len` in a checked build. -/
def Frame.peekRegister (s : Frame) (n : Nat) : Out Nat :=
  if n + 1 > s.stack.length then .panic
  else match s.stack[n]? with
    | some r => .ok s r
    | none => .err s (.unableToPeekRegister n)

/-- `register_stack_size` -/
def Frame.stackSize (s : Frame) : Nat := s.stack.length

/-- `truncate_register_stack(stack_count)`: pop while `len > stack_count`; the first failing pop
is returned. Structural in `fuel` (initially the stack length). -/
def Frame.truncateFuel : Nat → Frame → Nat → Out Unit
  | 0, s, _ => .ok s ()
  | fuel + 1, s, count =>
    if s.stack.length > count then
      match s.popRegister with
      | .ok s' _ => Frame.truncateFuel fuel s' count
      | .err s' e => .err s' e
      | .panic => .panic
    else .ok s ()

def Frame.truncate (s : Frame) (count : Nat) : Out Unit := Frame.truncateFuel s.stack.length s count

/-- `next_temporary_register`: `temporary_count + temporary_base` in `u8`. -/
def Frame.nextTemporary (s : Frame) : Option Nat :=
  if s.tc + s.tb > u8Max then none else some (s.tc + s.tb)

/-- `available_registers_count`: `u8::MAX - next_temporary_register()`. -/
def Frame.availableRegisters (s : Frame) : Option Nat := s.nextTemporary.map (u8Max - ·)

/-- `captures_for_nested_frame`: the accessed non-locals, *in the order given*, that are assigned
or reserved locals of this frame or were exported before. -/
def Frame.capturesFor (s : Frame) (accessed : List Nat) : List Nat :=
  accessed.filter (fun id =>
    s.locals.any (fun l => match l with
      | .assigned a => a == id
      | .reserved a _ => a == id
      | .allocated => false)
    || s.exported.contains id)

/-- `registers_used`: `temporary_base + temporaries_used_in_frame` in `u8`; written into the
`NewFrame` instruction as the frame's register count. -/
def Frame.registersUsed (s : Frame) : Option Nat :=
  if s.tb + s.used > u8Max then none else some (s.tb + s.used)

/-! ### Operation sequences -/

/-- Operations of the allocator as a request alphabet (driver, theorems over histories). -/
inductive FOp where
  | push | pop | peek (n : Nat) | truncate (count : Nat)
  | assign (id : Nat) | reserve (id : Nat) | commit (r : Nat) | defer (r : Nat) (bytes : List Nat)
  | export_ (id : Nat)
  deriving DecidableEq, Repr, Inhabited

/-- Observable result of one operation. -/
inductive Obs where
  | reg (r : Nat)
  | unit
  | ops (deferred : List (List Nat))
  | error (e : Err)
  | panic
  deriving DecidableEq, Repr, Inhabited

def liftReg : Out Nat → Option Frame × Obs
  | .ok s r => (some s, .reg r)
  | .err s e => (some s, .error e)
  | .panic => (none, .panic)

def liftUnit : Out Unit → Option Frame × Obs
  | .ok s _ => (some s, .unit)
  | .err s e => (some s, .error e)
  | .panic => (none, .panic)

/-- One operation: new state (`none` after a panic) and observation. -/
def Frame.step (s : Frame) : FOp → Option Frame × Obs
  | .push => liftReg s.pushRegister
  | .pop => liftReg s.popRegister
  | .peek n => liftReg (s.peekRegister n)
  | .truncate c => liftUnit (s.truncate c)
  | .assign id => liftReg (s.assignLocal id)
  | .reserve id => liftReg (s.reserveLocal id)
  | .commit r =>
    match s.commitLocal r with
    | .ok s' ops => (some s', .ops ops)
    | .err s' e => (some s', .error e)
    | .panic => (none, .panic)
  | .defer r bytes => liftUnit (s.deferOp r bytes)
  | .export_ id => (some (s.addExported id), .unit)

/-- Run a history the way the compiler does: the first error (or panic) aborts compilation. -/
def Frame.run (s : Frame) : List FOp → Frame × List Obs
  | [] => (s, [])
  | op :: ops =>
    match s.step op with
    | (some s', .error e) => (s', [.error e])
    | (some s', o) => let (s'', os) := Frame.run s' ops; (s'', o :: os)
    | (none, o) => (s, [o])

end KotoVerif.Frame
