/-
C19 — model of the `PtrMut` cell protocol (`crates/memory/src/ptr_mut.rs`, `ptr_impl/{rc,arc}.rs`)
and of container operations as lock brackets (`crates/runtime/src/types/{list,map}.rs`).

Part 1  the lock protocol of ONE cell, both builds:
          rc  = `RefCell`  : `borrow`/`borrow_mut` succeed or *panic*, `try_*` give `None`
          arc = `RwLock`   : `borrow`/`borrow_mut` succeed or *block*,  `try_*` give `None`
        and single-threaded scripts (lock requests + accesses through held guards).
Part 2  N threads, each a program of *bracketed* operations on one shared cell
        (`acquire; load; store; release`, as `KList::data_mut()`, `KMap::insert` … use the guard);
        a schedule is a list of thread ids, one micro-step per entry.  The data access inside a
        bracket is deliberately NOT atomic (a load step and a separate store step), so atomicity of
        the whole operation is a consequence of the lock discipline, not of the modelling.
        `Policy` selects which lock request a write operation issues; `Policy.proper` is the code,
        `Policy.writeAsRead` is the mutant "`borrow_mut` implemented with `read()`".
Part 3  M cells, lock-only programs (`acq c w` / `rel c w`), used for deadlock freedom.
Part 4  concrete sequential semantics of the list / map operations used by the stress harness.

Core Lean only (the driver links this file).
-/
namespace KotoVerif.Cell

/-! ## Part 1 — the lock protocol of one cell -/

inductive Mode where
  | rc | arc
  deriving DecidableEq, Repr

/-- `RefCell`'s borrow flag / `RwLock`'s state word, abstracted: number of shared guards alive and
whether the exclusive guard is alive. -/
structure LockSt where
  readers : Nat := 0
  writer : Bool := false
  deriving DecidableEq, Repr

inductive Req where
  | borrow | borrowMut | tryBorrow | tryBorrowMut | dropRead | dropWrite
  deriving DecidableEq, Repr

inductive Outcome where
  | ok        -- guard obtained / guard dropped
  | none      -- `try_*` returned `None`
  | panic     -- rc: `already borrowed` / `already mutably borrowed`
  | block     -- arc: the calling thread parks; with one thread this is a self-deadlock
  | noGuard   -- ill-formed script: dropping a guard that is not alive
  deriving DecidableEq, Repr

def canRead (s : LockSt) : Bool := !s.writer
def canWrite (s : LockSt) : Bool := !s.writer && s.readers == 0

/-- what a blocking request does on conflict -/
def conflict : Mode → Outcome
  | .rc => .panic
  | .arc => .block

def lockStep (m : Mode) (s : LockSt) : Req → Outcome × LockSt
  | .borrow => if canRead s then (.ok, { s with readers := s.readers + 1 }) else (conflict m, s)
  | .borrowMut => if canWrite s then (.ok, { s with writer := true }) else (conflict m, s)
  | .tryBorrow => if canRead s then (.ok, { s with readers := s.readers + 1 }) else (.none, s)
  | .tryBorrowMut => if canWrite s then (.ok, { s with writer := true }) else (.none, s)
  | .dropRead => if s.readers > 0 then (.ok, { s with readers := s.readers - 1 }) else (.noGuard, s)
  | .dropWrite => if s.writer then (.ok, { s with writer := false }) else (.noGuard, s)

/-- A container operation: which guard it takes and what it does to the data under the guard.
For a read operation only the result component of `f` is used. -/
structure Op (σ ρ : Type) where
  write : Bool
  f : σ → σ × ρ

/-- One action of a single-threaded script. -/
inductive Act (σ ρ : Type) where
  | req (r : Req)
  | read (f : σ → ρ)          -- through a held shared or exclusive guard
  | write (f : σ → σ × ρ)     -- through the held exclusive guard

inductive Ev (ρ : Type) where
  | lock (o : Outcome)
  | val (r : ρ)
  | fault                     -- access without a guard (cannot be written in safe Rust)
  deriving DecidableEq, Repr

def Ev.stops : Ev ρ → Bool
  | .lock .panic => true
  | .lock .block => true
  | _ => false

structure CellSt (σ : Type) where
  data : σ
  lock : LockSt := {}
  deriving DecidableEq, Repr

def act (m : Mode) (c : CellSt σ) : Act σ ρ → Ev ρ × CellSt σ
  | .req r => (.lock (lockStep m c.lock r).1, { c with lock := (lockStep m c.lock r).2 })
  | .read f => if c.lock.readers > 0 || c.lock.writer then (.val (f c.data), c) else (.fault, c)
  | .write f =>
    if c.lock.writer then (.val (f c.data).2, { c with data := (f c.data).1 }) else (.fault, c)

/-- Run a script; a panic (rc) or a block (arc, single thread: forever) ends it. -/
def run (m : Mode) : CellSt σ → List (Act σ ρ) → List (Ev ρ) × CellSt σ
  | c, [] => ([], c)
  | c, a :: rest =>
    if (act m c a).1.stops then ([(act m c a).1], (act m c a).2)
    else ((act m c a).1 :: (run m (act m c a).2 rest).1, (run m (act m c a).2 rest).2)

/-- Non-re-entrant: no *blocking* request is issued while a conflicting guard is alive.
(`try_*` requests are always allowed: they never panic or block.) -/
def nonReentrant : LockSt → List (Act σ ρ) → Bool
  | _, [] => true
  | s, .req r :: rest =>
    (match r with
      | .borrow => canRead s
      | .borrowMut => canWrite s
      | _ => true) && nonReentrant (lockStep .arc s r).2 rest
  | s, _ :: rest => nonReentrant s rest

/-- The bracket a container operation is compiled to (`l.data_mut().push(x)`, `l.data().len()`). -/
def bracket (o : Op σ ρ) : List (Act σ ρ) :=
  if o.write then [.req .borrowMut, .write o.f, .req .dropWrite]
  else [.req .borrow, .read (fun d => (o.f d).2), .req .dropRead]

/-- Sequential meaning of a list of operations: results in order, final data. -/
def seqOps : σ → List (Op σ ρ) → List ρ × σ
  | d, [] => ([], d)
  | d, o :: rest =>
    let d' := if o.write then (o.f d).1 else d
    ((o.f d).2 :: (seqOps d' rest).1, (seqOps d' rest).2)

/-! ## Part 2 — threads of bracketed operations on one shared cell -/

inductive Phase (σ : Type) where
  | idle                 -- between operations, holds nothing
  | held                 -- guard for the head operation acquired
  | loaded (snap : σ)    -- first memory access done (the data as this thread saw it)
  | fin (w : Bool)       -- effect performed and operation popped; guard of kind `w` still alive

structure Thread (σ ρ : Type) where
  prog : List (Op σ ρ)
  phase : Phase σ := .idle
  results : List ρ := []
  /-- for read brackets: the data seen by the first and by the second access -/
  obs : List (σ × σ) := []

/-- Which lock request a *write* operation issues. -/
inductive Policy where
  | proper        -- `borrow_mut` = `write()`  (the code)
  | writeAsRead   -- mutant: `borrow_mut` implemented with `read()`
  deriving DecidableEq, Repr

/-- Shared state. `readers`/`writer` are the RwLock state annotated with the owning thread ids
(ghost information: the lock itself only has `readers.length` and `writer.isSome`, see
`Conc.lockSt`). `lin` is ghost: operations in the order of their effect steps. -/
structure Conc (σ ρ : Type) where
  data : σ
  readers : List Nat := []
  writer : Option Nat := none
  threads : List (Thread σ ρ)
  lin : List (Nat × Op σ ρ) := []

def Conc.lockSt (g : Conc σ ρ) : LockSt := { readers := g.readers.length, writer := g.writer.isSome }

def init (d : σ) (progs : List (List (Op σ ρ))) : Conc σ ρ :=
  { data := d, threads := progs.map (fun p => { prog := p }) }

/-- does the operation take the exclusive guard under this policy -/
def Policy.excl (p : Policy) (o : Op σ ρ) : Bool :=
  match p with
  | .proper => o.write
  | .writeAsRead => false

/-- One micro-step of thread `t`. A blocked acquire leaves the state unchanged. -/
def stepP (p : Policy) (g : Conc σ ρ) (t : Nat) : Conc σ ρ :=
  match g.threads[t]? with
  | none => g
  | some th =>
    match th.phase, th.prog with
    | .idle, [] => g
    | .idle, o :: _ =>
      if p.excl o then
        if g.writer = none ∧ g.readers = [] then
          { g with writer := some t, threads := g.threads.set t { th with phase := .held } }
        else g
      else
        if g.writer = none then
          { g with readers := t :: g.readers, threads := g.threads.set t { th with phase := .held } }
        else g
    | .held, _ => { g with threads := g.threads.set t { th with phase := .loaded g.data } }
    | .loaded _, [] => g
    | .loaded s, o :: rest =>
      if o.write then
        { g with
          data := (o.f s).1
          lin := g.lin ++ [(t, o)]
          threads := g.threads.set t
            { th with prog := rest, phase := .fin (p.excl o), results := th.results ++ [(o.f s).2] } }
      else
        { g with
          lin := g.lin ++ [(t, o)]
          threads := g.threads.set t
            { th with prog := rest, phase := .fin false, results := th.results ++ [(o.f s).2],
                      obs := th.obs ++ [(s, g.data)] } }
    | .fin true, _ => { g with writer := none, threads := g.threads.set t { th with phase := .idle } }
    | .fin false, _ =>
      { g with readers := g.readers.erase t, threads := g.threads.set t { th with phase := .idle } }

abbrev step (g : Conc σ ρ) (t : Nat) : Conc σ ρ := stepP .proper g t

def execP (p : Policy) (g : Conc σ ρ) (sched : List Nat) : Conc σ ρ := sched.foldl (stepP p) g
abbrev exec (g : Conc σ ρ) (sched : List Nat) : Conc σ ρ := execP .proper g sched

/-- effect of one whole operation on the data -/
def effD (o : Op σ ρ) (d : σ) : σ := if o.write then (o.f d).1 else d

def seqStep (acc : σ × List (Nat × ρ)) (e : Nat × Op σ ρ) : σ × List (Nat × ρ) :=
  (effD e.2 acc.1, acc.2 ++ [(e.1, (e.2.f acc.1).2)])

/-- Sequential execution of whole operations, one after the other: final data and the results
tagged with the issuing thread. -/
def seqAll (d : σ) (lin : List (Nat × Op σ ρ)) : σ × List (Nat × ρ) := lin.foldl seqStep (d, [])

def resOf (t : Nat) (rs : List (Nat × ρ)) : List ρ := (rs.filter (fun e => e.1 == t)).map (·.2)
def opsOf (t : Nat) (lin : List (Nat × Op σ ρ)) : List (Op σ ρ) :=
  (lin.filter (fun e => e.1 == t)).map (·.2)

def Thread.holdsW (th : Thread σ ρ) : Bool :=
  match th.phase, th.prog with
  | .held, o :: _ => o.write
  | .loaded _, o :: _ => o.write
  | .fin true, _ => true
  | _, _ => false

def Thread.holdsR (th : Thread σ ρ) : Bool :=
  match th.phase, th.prog with
  | .held, o :: _ => !o.write
  | .loaded _, o :: _ => !o.write
  | .fin false, _ => true
  | _, _ => false

def Thread.finished (th : Thread σ ρ) : Bool :=
  match th.phase, th.prog with
  | .idle, [] => true
  | _, _ => false

/-- thread `t` is not finished and its next micro-step is not a blocked acquire -/
def enabled (g : Conc σ ρ) (t : Nat) : Bool :=
  match g.threads[t]? with
  | none => false
  | some th =>
    match th.phase, th.prog with
    | .idle, [] => false
    | .idle, o :: _ => if o.write then g.writer.isNone && g.readers.isEmpty else g.writer.isNone
    | .loaded _, [] => false
    | _, _ => true

/-! ## Part 3 — several cells, lock-only programs (deadlock) -/

inductive Instr where
  | acq (c : Nat) (w : Bool)
  | rel (c : Nat) (w : Bool)
  deriving DecidableEq, Repr

structure OLock where
  readers : List Nat := []
  writer : Option Nat := none
  deriving DecidableEq, Repr

structure LThread where
  prog : List Instr
  held : List (Nat × Bool) := []
  deriving DecidableEq, Repr

structure Sys where
  locks : Nat → OLock
  threads : Nat → LThread

def upd (f : Nat → α) (i : Nat) (v : α) : Nat → α := fun j => if j = i then v else f j

def lockFree (l : OLock) (w : Bool) : Bool :=
  if w then l.writer.isNone && l.readers.isEmpty else l.writer.isNone

def Sys.enabled (s : Sys) (t : Nat) : Bool :=
  match (s.threads t).prog with
  | [] => false
  | .acq c w :: _ => lockFree (s.locks c) w
  | .rel _ _ :: _ => true

def Sys.step (s : Sys) (t : Nat) : Sys :=
  let th := s.threads t
  match th.prog with
  | [] => s
  | .acq c w :: rest =>
    if lockFree (s.locks c) w then
      { locks := upd s.locks c
          (if w then { s.locks c with writer := some t }
           else { s.locks c with readers := t :: (s.locks c).readers })
        threads := upd s.threads t { prog := rest, held := (c, w) :: th.held } }
    else s
  | .rel c w :: rest =>
    { locks := upd s.locks c
        (if w then { s.locks c with writer := none }
         else { s.locks c with readers := (s.locks c).readers.erase t })
      threads := upd s.threads t { prog := rest, held := th.held.erase (c, w) } }

def Sys.exec (s : Sys) (sched : List Nat) : Sys := sched.foldl Sys.step s

def Sys.init (progs : Nat → List Instr) : Sys :=
  { locks := fun _ => {}, threads := fun t => { prog := progs t } }

/-- every operation holds at most one lock at a time: the program is a sequence of
`acq c w; rel c w` pairs -/
def singleLock : List Instr → Bool
  | [] => true
  | .acq c w :: .rel c' w' :: rest => c == c' && w == w' && singleLock rest
  | _ => false

/-! ## Part 4 — concrete list / map operations (sequential semantics) -/

/-- result of a container operation, values are integers (tags) -/
inductive Res where
  | unit                 -- the operation returns the container itself / nothing we compare
  | null
  | int (n : Int)
  | bool (b : Bool)
  | ints (xs : List Int) -- a snapshot
  | err                  -- runtime error (index out of range)
  deriving DecidableEq, Repr

inductive LOp where
  | push (x : Int)          -- `l.push x`              one `data_mut()`
  | pop                     -- `l.pop()`               one `data_mut()`
  | size                    -- `size l`                one `data()`
  | get (i : Nat)           -- `l.get i`, `l[i]`       one `data()`
  | first | last            -- `l.first()`, `l.last()` one `data()`
  | contains (x : Int)      -- `l.contains x`          one `data()`
  | set (i : Nat) (x : Int) -- `l[i] = x`              one `data_mut()` (run_index_assign)
  | clear                   -- `l.clear()`             one `data_mut()`
  | fill (x : Int)          -- `l.fill x`              one `data_mut()`
  | reverse                 -- `l.reverse()`           one `data_mut()`
  | snapshot                -- `l.to_tuple()`, `copy l`, `'{l}'`, `l + []`, `l[..]` … one `data()`
  | sort                    -- `l.sort()`              one `data_mut()`: only permutes
  | resize (n : Nat) (x : Int) -- `l.resize n, x`      one `data_mut()`
  | extend (xs : List Int)  -- `l.extend (…)`          one `data_mut()` (argument collected first)
  | insert (i : Nat) (x : Int) -- `l.insert i, x`      one `data_mut()`; error if i > len
  | remove (i : Nat)        -- `l.remove i`            one `data_mut()`; error if i ≥ len
  | retain (x : Int)        -- `l.retain x`            one `data_mut()`: keeps the elements equal to x
  | isEmpty                 -- `l.is_empty()`          one `data()`
  | eqTo (xs : List Int)    -- `l == [..]`             one `data()`
  | swapWith (xs : List Int) -- `l.swap tmp; tmp.to_tuple()`: exchange with a private list,
                            --                          one `data_mut()` on `l`; returns the old contents
  | addAll (d : Int)        -- `l.transform |x| x + d` one `data_mut()` held across the (pure) callback
  | tailSnap                -- `(first, rest...)` pattern: `rest` (run_slice from 1) one `data()`
  | initSnap                -- `(others..., last)` pattern: `others` (run_slice to -1) one `data()`
  deriving DecidableEq, Repr

def LOp.isWrite : LOp → Bool
  | .push _ | .pop | .set _ _ | .clear | .fill _ | .reverse | .sort | .resize _ _ | .extend _
  | .insert _ _ | .remove _ | .retain _ | .swapWith _ | .addAll _ => true
  | _ => false

def optRes : Option Int → Res
  | some x => .int x
  | none => .null

/-- insertion sort (stable, ascending): the sequential meaning of `l.sort()` on integers -/
def insertSorted (x : Int) : List Int → List Int
  | [] => [x]
  | y :: ys => if x < y then x :: y :: ys else y :: insertSorted x ys

def sortInts (l : List Int) : List Int := l.foldl (fun acc x => insertSorted x acc) []

def LOp.sem : LOp → List Int → List Int × Res
  | .push x, l => (l ++ [x], .unit)
  | .pop, l => (l.dropLast, optRes l.getLast?)
  | .size, l => (l, .int l.length)
  | .get i, l => (l, optRes l[i]?)
  | .first, l => (l, optRes l.head?)
  | .last, l => (l, optRes l.getLast?)
  | .contains x, l => (l, .bool (l.contains x))
  | .set i x, l => if i < l.length then (l.set i x, .unit) else (l, .err)
  | .clear, _ => ([], .unit)
  | .fill x, l => (l.map (fun _ => x), .unit)
  | .reverse, l => (l.reverse, .unit)
  | .snapshot, l => (l, .ints l)
  | .sort, l => (sortInts l, .unit)
  | .resize n x, l => (l.take n ++ List.replicate (n - l.length) x, .unit)
  | .extend xs, l => (l ++ xs, .unit)
  | .insert i x, l => if i ≤ l.length then (l.take i ++ x :: l.drop i, .unit) else (l, .err)
  | .remove i, l => match l[i]? with
    | some v => (l.eraseIdx i, .int v)
    | none => (l, .err)
  | .retain x, l => (l.filter (· == x), .unit)
  | .isEmpty, l => (l, .bool l.isEmpty)
  | .eqTo xs, l => (l, .bool (l == xs))
  | .swapWith xs, l => (xs, .ints l)
  | .addAll d, l => (l.map (· + d), .unit)
  | .tailSnap, l => (l, .ints (l.drop 1))
  | .initSnap, l => (l, .ints l.dropLast)

def LOp.toOp (o : LOp) : Op (List Int) Res := { write := o.isWrite, f := o.sem }

/-- the value a one-argument `m.insert k` stores (Koto `null`); results show it as `null` -/
def nullV : Int := -999999

inductive MOp where
  | insert (k v : Int)      -- `m.insert k, v`     one `data_mut()`; returns the old value
  | insert1 (k : Int)       -- `m.insert k`        one `data_mut()`; stores null, returns the old value
  | put (k v : Int)         -- `m.k = v` (run_access_assign) one `data_mut()`
  | remove (k : Int)        -- `m.remove k`        one `data_mut()` (shift_remove); old value
  | get (k : Int)           -- `m.get k`, `m.k`    one `data()`
  | containsKey (k : Int)   -- `m.contains_key k`  one `data()`
  | size                    -- `size m`            one `data()`
  | clear                   -- `m.clear()`         one `data_mut()`
  | getIndex (i : Nat)      -- `m.get_index i`, `m[i]`  one `data()`; a `(key, value)` pair
  | sort                    -- `m.sort()`          one `data_mut()`: orders the entries by key
  | extend (es : List (Int × Int)) -- `m.extend {…}` one `data_mut()`
  | isEmpty                 -- `m.is_empty()`      one `data()`
  | snapshot                -- `copy m`, `'{m}'`   one `data()`; flattened k v k v …
  | eqTo (es : List (Int × Int)) -- `m == {…}`     (order-insensitive) one `data()`
  | setAt (i : Nat) (k v : Int) -- `m[i] = (k, v)`  one `data_mut()` (run_index_assign): replaces the
                            --   entry at position i; error if i is out of range or k is another entry's key
  deriving DecidableEq, Repr

def MOp.isWrite : MOp → Bool
  | .insert _ _ | .insert1 _ | .put _ _ | .remove _ | .clear | .sort | .extend _ | .setAt _ _ _ => true
  | _ => false

abbrev Assoc := List (Int × Int)

def Assoc.find (k : Int) : Assoc → Option Int
  | [] => none
  | (k', v) :: rest => if k' = k then some v else Assoc.find k rest

/-- IndexMap::insert: replace in place if present, else append -/
def Assoc.put (k v : Int) : Assoc → Assoc
  | [] => [(k, v)]
  | (k', v') :: rest => if k' = k then (k', v) :: rest else (k', v') :: Assoc.put k v rest

/-- IndexMap::shift_remove: order of the others preserved -/
def Assoc.del (k : Int) : Assoc → Assoc
  | [] => []
  | (k', v') :: rest => if k' = k then rest else (k', v') :: Assoc.del k rest

def Assoc.insertSorted (e : Int × Int) : Assoc → Assoc
  | [] => [e]
  | y :: ys => if e.1 < y.1 then e :: y :: ys else y :: Assoc.insertSorted e ys

def Assoc.sortKeys (m : Assoc) : Assoc := m.foldl (fun acc e => Assoc.insertSorted e acc) []

/-- a stored `null` reads as null -/
def valRes : Option Int → Res
  | some v => if v = nullV then .null else .int v
  | none => .null

def Assoc.indexOf (k : Int) : Assoc → Nat → Option Nat
  | [], _ => none
  | (k', _) :: rest, n => if k' = k then some n else Assoc.indexOf k rest (n + 1)

def MOp.sem : MOp → Assoc → Assoc × Res
  | .insert k v, m => (Assoc.put k v m, valRes (Assoc.find k m))
  | .insert1 k, m => (Assoc.put k nullV m, valRes (Assoc.find k m))
  | .put k v, m => (Assoc.put k v m, .unit)
  | .remove k, m => (Assoc.del k m, valRes (Assoc.find k m))
  | .get k, m => (m, valRes (Assoc.find k m))
  | .containsKey k, m => (m, .bool (Assoc.find k m).isSome)
  | .size, m => (m, .int m.length)
  | .clear, _ => ([], .unit)
  | .getIndex i, m =>
    (m, match m[i]? with
        | some (k, v) => .ints [k, v]
        | none => .null)
  | .sort, m => (Assoc.sortKeys m, .unit)
  | .extend es, m => (es.foldl (fun acc e => Assoc.put e.1 e.2 acc) m, .unit)
  | .setAt i k v, m =>
    if i < m.length then
      match Assoc.indexOf k m 0 with
      | some j => if j = i then (m.set i (k, v), .unit) else (m, .err)
      | none => (m.set i (k, v), .unit)
    else (m, .err)
  | .isEmpty, m => (m, .bool m.isEmpty)
  | .snapshot, m => (m, .ints (m.flatMap (fun e => [e.1, e.2])))
  | .eqTo es, m =>
    (m, .bool (m.length == es.length && m.all (fun e => Assoc.find e.1 es == some e.2)))

def MOp.toOp (o : MOp) : Op Assoc Res := { write := o.isWrite, f := o.sem }

end KotoVerif.Cell
