/-
C04 — sequence/string builder bookkeeping across unwinding (the mechanism since /repo 97373d1).

`sequence_builders` and `string_builders` are per-VM stacks: a list/tuple literal or an
interpolated string pushes a builder before its elements/holes are evaluated and pops it when it is
finished. An error raised inside an element/hole abandons the builder. Since 97373d1
  * `push_frame` records `(sequence_builders.len(), string_builders.len())` in the frame and
    `pop_frame` truncates both stacks to the recorded lengths;
  * `TryStart` records the two lengths in the catch entry and `pop_call_stack_on_error` truncates
    to them before it resumes at the catch address.
Only the two depths matter here. (Before that commit nothing was truncated: finding F-C04-4.)
-/
namespace KotoVerif.Builders

structure Frame where
  entry : Nat × Nat := (0, 0)             -- builder depths at `push_frame`
  catches : List (Nat × Nat) := []        -- builder depths at each open `TryStart`, innermost first
  deriving DecidableEq, Repr, Inhabited

structure VM where
  seq : Nat := 0
  str : Nat := 0
  frames : List Frame := [{}]
  uncaught : Bool := false
  deriving DecidableEq, Repr, Inhabited

inductive Ev where
  | seqStart | seqEnd | strStart | strEnd
  | tryStart | tryEnd
  | call | ret
  | raise
  deriving DecidableEq, Repr, Inhabited

/-- `Vec::truncate` on both stacks -/
def truncTo (d : Nat × Nat) (vm : VM) : VM := { vm with seq := min vm.seq d.1, str := min vm.str d.2 }

/-- `pop_call_stack_on_error`: frames without a catch entry are popped (`pop_frame` truncates to
the frame's recorded depths); the first frame with one resumes, truncated to the entry's depths. -/
def unwind : List Frame → VM → VM
  | [], vm => { vm with frames := [], uncaught := true }
  | f :: rest, vm =>
    match f.catches with
    | d :: _ => truncTo d { vm with frames := f :: rest }
    | [] => unwind rest (truncTo f.entry vm)

def step (vm : VM) : Ev → VM
  | .seqStart => { vm with seq := vm.seq + 1 }
  | .seqEnd => { vm with seq := vm.seq - 1 }
  | .strStart => { vm with str := vm.str + 1 }
  | .strEnd => { vm with str := vm.str - 1 }
  | .tryStart =>
    match vm.frames with
    | f :: rest => { vm with frames := { f with catches := (vm.seq, vm.str) :: f.catches } :: rest }
    | [] => vm
  | .tryEnd =>
    match vm.frames with
    | f :: rest => { vm with frames := { f with catches := f.catches.drop 1 } :: rest }
    | [] => vm
  | .call => { vm with frames := { entry := (vm.seq, vm.str) } :: vm.frames }
  | .ret =>
    match vm.frames with
    | f :: rest => truncTo f.entry { vm with frames := rest }
    | [] => vm
  | .raise => unwind vm.frames vm

def run (evs : List Ev) (vm : VM) : VM := evs.foldl step vm

end KotoVerif.Builders
