/-
Shared value model (DESIGN §5.1): Koto's number tower and immediate (heap-free) value trees.

* integers are `Int64` (wrapping `+ - *`, as `number.rs` does with `wrapping_*`), floats are carried
  as IEEE-754 bit patterns (`UInt64`) and every float operation goes through a `FloatOps` record, so
  theorems are parametric in float arithmetic (Lean's `Float` is opaque to the kernel); the drivers
  instantiate `FloatOps` with the runtime's `Float`.
* `Val` is the immediate value tree used by the models that do not need aliasing (lists are plain
  sequences here; `Model/Heap.lean` (C14) has the aliasing-aware variant).
-/
namespace KotoVerif

structure FloatOps where
  add : UInt64 → UInt64 → UInt64
  sub : UInt64 → UInt64 → UInt64
  mul : UInt64 → UInt64 → UInt64
  div : UInt64 → UInt64 → UInt64
  rem : UInt64 → UInt64 → UInt64
  pow : UInt64 → UInt64 → UInt64
  neg : UInt64 → UInt64
  lt : UInt64 → UInt64 → Bool
  le : UInt64 → UInt64 → Bool
  eq : UInt64 → UInt64 → Bool
  ofInt : Int64 → UInt64        -- `i as f64`
  toInt : UInt64 → Int64        -- `f as i64` (saturating, NaN ↦ 0)
  isNaN : UInt64 → Bool

inductive Num where
  | i (n : Int64)
  | f (bits : UInt64)
  deriving DecidableEq, Repr, Inhabited

namespace Num

def isFloat : Num → Bool
  | .f _ => true
  | .i _ => false

def toF (F : FloatOps) : Num → UInt64
  | .i n => F.ofInt n
  | .f b => b

/-- `number_op!`: both ints → wrapping int op; otherwise promote to f64 -/
def arith (F : FloatOps) (iop : Int64 → Int64 → Int64) (fop : UInt64 → UInt64 → UInt64) : Num → Num → Num
  | .i a, .i b => .i (iop a b)
  | a, b => .f (fop (a.toF F) (b.toF F))

def add (F : FloatOps) := arith F (· + ·) F.add
def sub (F : FloatOps) := arith F (· - ·) F.sub
def mul (F : FloatOps) := arith F (· * ·) F.mul

/-- `/` always yields a float (`impl Div for KNumber`) -/
def div (F : FloatOps) (a b : Num) : Num := .f (F.div (a.toF F) (b.toF F))

def neg (F : FloatOps) : Num → Num
  | .i a => .i (-a)
  | .f b => .f (F.neg b)

/-- `impl PartialEq for KNumber`: ints compare as ints, mixed compare as f64 -/
def eq (F : FloatOps) : Num → Num → Bool
  | .i a, .i b => a == b
  | a, b => F.eq (a.toF F) (b.toF F)

def lt (F : FloatOps) : Num → Num → Bool
  | .i a, .i b => a < b
  | a, b => F.lt (a.toF F) (b.toF F)

def le (F : FloatOps) : Num → Num → Bool
  | .i a, .i b => a ≤ b
  | a, b => F.le (a.toF F) (b.toF F)

end Num

/-- Immediate value trees. Strings are UTF-8 byte lists. -/
inductive Val where
  | null
  | bool (b : Bool)
  | num (n : Num)
  | str (bytes : List Nat)
  | range (start : Option Int64) (stop : Option (Int64 × Bool))
  | tuple (xs : List Val)
  | list (xs : List Val)
  | map (es : List (Val × Val))
  deriving Repr, Inhabited

namespace Val

/-- only `null` and `false` are falsy -/
def truthy : Val → Bool
  | .null => false
  | .bool false => false
  | _ => true

def int (n : Int) : Val := .num (.i (Int64.ofInt n))

end Val

end KotoVerif
