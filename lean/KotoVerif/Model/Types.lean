/-
C16 — the type side of type hints.

Mirrors
  * `KValue::type_as_string`, `is_callable`, `is_indexable`, `is_iterable`
      (crates/runtime/src/types/value.rs),
  * `KMap::meta_type` (crates/runtime/src/types/map.rs),
  * `KotoVm::compare_value_type` (crates/runtime/src/vm.rs).

Names are lists of code points (`decide` can compare them); the names themselves come from
`Gen/TypeNames.lean`, which is regenerated from the Rust source on every run.

`V` is the value universe of the C16 models: immediate trees, no aliasing (type hints never look at
identity). A map *with a metamap* is `obj`: only the metamap entries that the type machinery reads
are kept (`@type`, `@base`, and the presence of `@call`, `@iterator`, `@next`).
-/
import KotoVerif.Gen.TypeNames

namespace KotoVerif.Types
open KotoVerif.Gen.TypeNames

abbrev TyName := List Nat

/-- the `@type` entry of a metamap -/
inductive MetaTy where
  | absent                 -- no `@type` entry
  | nonString              -- `@type` holds something that is not a string
  | str (s : TyName)       -- `@type: 's'`
  deriving DecidableEq, Repr, Inhabited

/-- presence of the metamap entries read by `is_callable` / `is_iterable` -/
structure Flags where
  call : Bool := false     -- `@call`
  iter : Bool := false     -- `@iterator`
  next : Bool := false     -- `@next`
  deriving DecidableEq, Repr, Inhabited

inductive V where
  | null
  | bool (b : Bool)
  | int (n : Int)
  | float (n : Int)                       -- the float `n + 0.5`
  | str (s : List Nat)
  | range (a b : Int)                     -- `a..b`
  | list (xs : List V)
  | tuple (xs : List V)
  | map (es : List (Nat × V))             -- map without a metamap; keys `k<n>`
  | obj (ty : MetaTy) (fl : Flags) (es : List (Nat × V)) (base : Option V)   -- map with a metamap
  | fn (i : Nat)                          -- function `i` of the program's function table
  | genFn (i : Nat)                       -- generator function `i`
  | native (i : Nat)                      -- a core-library function
  | iter (xs : List V)                    -- an iterator (not a generator)
  | gen (i : Nat) (env : List (Nat × V)) (started : Bool) (pc : Nat)   -- suspended generator
  | host (ty : TyName) (callable indexable iterable : Bool)           -- `KValue::Object`
  deriving Repr, Inhabited

namespace V

def isNull : V → Bool
  | .null => true
  | _ => false

/-- the `@base` entry of the value's own metamap (`KValue::Map(m) if m.contains_meta_key(Base)`) -/
def base : V → Option V
  | .obj _ _ _ b => b
  | _ => none

/-- `base^k` -/
def baseIter : Nat → V → Option V
  | 0, v => some v
  | k + 1, v =>
    match v.base with
    | some b => baseIter k b
    | none => none

end V

/-- `KMap::meta_type`: own `@type`, else the `@type` found by following `@base` *maps*. -/
def metaType : V → Option TyName
  | .obj (.str s) _ _ _ => some s
  | .obj .nonString _ _ _ => some badMetaTypeName
  | .obj .absent _ _ (some b) => metaType b
  | _ => none

/-- `KValue::type_as_string` -/
def typeName : V → TyName
  | .null => kindName .null
  | .bool _ => kindName .bool
  | .int _ => kindName .number
  | .float _ => kindName .number
  | .str _ => kindName .str
  | .range _ _ => kindName .range
  | .list _ => kindName .list
  | .tuple _ => kindName .tuple
  | .map _ => kindName .map
  | .obj ty fl es b => (metaType (.obj ty fl es b)).getD objectName
  | .fn _ => kindName .function
  | .genFn _ => kindName .generator
  | .native _ => kindName .native
  | .iter _ => kindName .iterator
  | .gen _ _ _ _ => kindName .iterator
  | .host ty _ _ _ => ty

/-- `KValue::is_callable` (only the value's own metamap is consulted) -/
def callable : V → Bool
  | .fn _ => true
  | .native _ => true
  | .obj _ fl _ _ => fl.call
  | .host _ c _ _ => c
  | _ => false

/-- the `KValue` variant of a value that is not a function, a map with a metamap or a host object -/
def plainKind : V → Option Kind
  | .null => some .null
  | .bool _ => some .bool
  | .int _ => some .number
  | .float _ => some .number
  | .str _ => some .str
  | .range _ _ => some .range
  | .list _ => some .list
  | .tuple _ => some .tuple
  | .map _ => some .map
  | .iter _ => some .iterator
  | .gen _ _ _ _ => some .iterator
  | _ => none

/-- `KValue::is_indexable` (the variants come from the generated table `indexableKind`) -/
def indexable : V → Bool
  | .obj _ _ _ _ => indexableKind .map
  | .host _ _ i _ => i
  | v =>
    match plainKind v with
    | some k => indexableKind k
    | none => false

/-- `KValue::is_iterable` (generated: `iterableKind`, `objIterableNeedsKeys`) -/
def iterable : V → Bool
  | .obj _ fl _ _ => if objIterableNeedsKeys then fl.iter || fl.next else true
  | .host _ _ _ i => i
  | v =>
    match plainKind v with
    | some k => iterableKind k
    | none => false

def isMapValue : V → Bool
  | .map _ => true
  | .obj _ _ _ _ => true
  | _ => false

/-- what the hint `Iterable` accepts: `is_iterable`, and (when the generated flag says so) every map -/
def iterableHint (v : V) : Bool := iterable v || (iterableHintAcceptsMaps && isMapValue v)

def isGeneratorFn : V → Bool
  | .genFn _ => true
  | _ => false

/-- what the hint `Callable` accepts: `is_callable`, and (when the generated flag says so) generator
functions -/
def callableHint (v : V) : Bool := callable v || (callableHintAcceptsGenerators && isGeneratorFn v)

def holds : Special → V → Bool
  | .always, _ => true
  | .callable, v => callableHint v
  | .indexable, v => indexable v
  | .iterable, v => iterableHint v

/-- the string arms of `compare_value_type`, tried in source order -/
def specialLookup (h : TyName) : List (TyName × Special) → Option Special
  | [] => none
  | (n, p) :: rest => if h = n then some p else specialLookup h rest

/-- the `loop` of `compare_value_type`: some value strictly below `v` on the `@base` chain has the
expected name -/
def baseChain (h : TyName) : V → Bool
  | .obj _ _ _ (some b) => typeName b == h || baseChain h b
  | _ => false

/-- `compare_value_type` -/
def check (h : TyName) (allowNull : Bool) (v : V) : Bool :=
  if allowNull && v.isNull then true
  else
    match specialLookup h specialTable with
    | some p => holds p v
    | none => typeName v == h || baseChain h v

/-! ### Possibly cyclic `@base` chains

In the tree universe `V` every chain ends. A running program can tie a chain into a cycle (a test
function receives the module's export map as `self` and can `export @base = self`), so the two walks
are also modelled over a *graph* of maps: node `n` has its own `@type` entry and the index of the map
in its `@base` entry. Both walks keep the maps they have visited (`is_same_instance`) and stop when
they meet one again (/repo commit 76738c2). The outer `none` of the results means "fuel exhausted";
`Props/C16.lean` proves it never happens with fuel `g.length + 1`. -/

structure GNode where
  ty : MetaTy
  base : Option Nat
  deriving Repr, Inhabited

abbrev Graph := List GNode

def gBase (g : Graph) (n : Nat) : Option Nat :=
  match g[n]? with
  | some nd => nd.base
  | none => none

/-- `KMap::meta_type` (iterative, with the visited list) -/
def metaTypeG (g : Graph) : Nat → List Nat → Nat → Option (Option TyName)
  | 0, _, _ => none
  | fuel + 1, vis, n =>
    match g[n]? with
    | none => some none
    | some nd =>
      match nd.ty with
      | .str s => some (some s)
      | .nonString => some (some badMetaTypeName)
      | .absent =>
        match nd.base with
        | none => some none
        | some b => if (n :: vis).contains b then some none else metaTypeG g fuel (n :: vis) b

/-- `type_as_string` of graph node `n` -/
def typeNameG (g : Graph) (n : Nat) : TyName :=
  ((metaTypeG g (g.length + 1) [] n).getD none).getD objectName

/-- the `loop` of `compare_value_type` (with the visited list) -/
def walkG (g : Graph) (h : TyName) : Nat → List Nat → Nat → Option Bool
  | 0, _, _ => none
  | fuel + 1, vis, n =>
    match gBase g n with
    | none => some false
    | some b =>
      if vis.contains n then some false
      else if typeNameG g b = h then some true
      else walkG g h fuel (n :: vis) b

/-- `compare_value_type` on graph node `n` (every node is a map with a metamap) -/
def checkG (g : Graph) (h : TyName) (allowNull : Bool) (n : Nat) : Bool :=
  let _ := allowNull   -- a map is never null
  match specialLookup h specialTable with
  | some .always => true
  | some .callable => false
  | some .indexable => true
  | some .iterable => false
  | none => typeNameG g n == h || (walkG g h (g.length + 1) [] n).getD false

/-- `b` is reached from `a` by `k` `@base` steps -/
def reachesG (g : Graph) : Nat → Nat → Nat → Prop
  | 0, a, b => a = b
  | k + 1, a, b => ∃ m, gBase g a = some m ∧ reachesG g k m b

end KotoVerif.Types
