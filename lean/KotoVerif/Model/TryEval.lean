/-
C04 — guide-level evaluator of the mini language of `TrySyntax.lean`.

One fuel-indexed function `run` over a `Task` sum (so every recursive call is on smaller fuel and a
single induction on fuel covers the whole evaluator). The state is threaded through every signal,
in particular through `err`: the state that reaches a `catch` block is the state at the raise
point (heap and output trace; the locals are those of the catching frame as they were when it
made the call).

`try b cs fin` per the language guide:
  * run `b`; an error is offered to the catch blocks in source order, the first whose type hint
    accepts the value runs with the value bound;
  * the `finally` block then runs exactly once whatever the outcome so far (normal, caught, an
    error escaping the catch block, `return`, `break`, `continue`), and when the outcome is normal
    its value is the value of the expression; a pending abrupt outcome continues afterwards unless
    the `finally` block itself exits abruptly.

`Cfg` is an (empty) record of evaluator options; the only configuration is the guide. (It used to
carry a switch that reproduced finding F-C04-6 — errors re-raised as strings at `for` — which was
repaired in /repo commit 08c98b7.)
-/
import KotoVerif.Model.TrySyntax

namespace KotoVerif.Try

structure Cfg where
  deriving DecidableEq, Repr, Inhabited

def guide : Cfg := {}

inductive Task where
  | ev (e : E)
  | evs (es : List E) (acc : List Val)
  | seq (es : List E) (last : Val)
  | catches (cs : List Catch) (v : Val)
  | callF (f : Nat) (args : List Val)
  | nat (k : NatKind) (f : Nat) (r : Nat) (items : List Val) (accL : List Val) (accV : Val)
  | loopL (x : Nat) (items : List Val) (body : E)
  | loopG (x : Nat) (gl : List Val) (segs : List (E × E)) (tail : E) (body : E)
  /-- display the values `todo` (a work list; `.str .rb` closes a container) into tokens `acc` -/
  | disp (todo : List Val) (acc : List Val)
  deriving Inhabited

abbrev Res := Sig × St

def getLocal (σ : St) (x : Nat) : Val := σ.locals.getD x .null

def setLocal (σ : St) (x : Nat) (v : Val) : St :=
  { σ with locals := (σ.locals ++ List.replicate (x + 1 - σ.locals.length) Val.null).set x v }

def emitEv (σ : St) (e : Ev) : St := { σ with out := σ.out ++ [e] }

def shown (σ : St) : Val → Shown
  | .list r => .lst (σ.heap.getD r [])
  | v => .atom v

def alloc (σ : St) (vs : List Val) : St × Nat :=
  ({ σ with heap := σ.heap ++ [vs] }, σ.heap.length)

def errK (k : EK) : Val := .str (.err k)

/-- A map pattern with keys `ks` binds the local `x + i` to the value of its `i`-th key. -/
def bindKeys (σ : St) (x : Nat) (fs : List (Nat × Int)) : List Nat → St
  | [] => σ
  | k :: ks => bindKeys (setLocal σ x (match recGet fs k with | some i => .int i | none => .null)) (x + 1) fs ks

/-- the binding a catch argument makes when it accepts `v` -/
def bindCatch (σ : St) (ty : Option Ty) (x : Nat) (v : Val) : St :=
  match ty, v with
  | some (.keys ks), .mp fs => bindKeys σ x fs ks
  | _, _ => setLocal σ x v

def insertByKey (k : Int) (v : Val) : List (Int × Val) → List (Int × Val)
  | [] => [(k, v)]
  | (k', v') :: rest => if k < k' then (k, v) :: (k', v') :: rest else (k', v') :: insertByKey k v rest

/-- stable sort by integer key -/
def sortByKey (kvs : List (Int × Val)) : List (Int × Val) :=
  kvs.foldl (fun acc kv => insertByKey kv.1 kv.2 acc) []

def intKeys : List Val → Option (List Int)
  | [] => some []
  | .int i :: rest => (intKeys rest).map (i :: ·)
  | _ => none

/-- Result of a frame exit seen from the caller. -/
def callResult (callerLocals : List Val) : Res → Res
  | (.ok v, σ) => (.ok v, { σ with locals := callerLocals })
  | (.ret v, σ) => (.ok v, { σ with locals := callerLocals })
  | (.err v, σ) => (.err v, { σ with locals := callerLocals })
  | (.oof, σ) => (.oof, { σ with locals := callerLocals })
  | (_, σ) => (.err (errK (.other 1)), { σ with locals := callerLocals })

/-- combine the outcome so far with the outcome of the `finally` block -/
def finish (pending : Sig) : Res → Res
  | (.ok v2, σ2) =>
    match pending with
    | .ok _ => (.ok v2, σ2)
    | p => (p, σ2)
  | r => r

/-- an `err` outcome is offered to a handler; every other outcome passes -/
def catchWith (r : Res) (h : Val → St → Res) : Res :=
  match r with
  | (.err v, σ1) => h v σ1
  | r => r

/-- run the `finally` block once after the outcome `r1` (unless fuel ran out) and combine -/
def thenFinally (r1 : Res) (runF : St → Res) : Res :=
  match r1 with
  | (.oof, σ1) => (.oof, σ1)
  | (s1, σ1) => finish s1 (runF σ1)

def run (cfg : Cfg) (P : Prog) : Nat → Task → St → Res
  | 0, _, σ => (.oof, σ)
  | fuel + 1, t, σ =>
    match t with
    | .ev e =>
      match e with
      | .lit v => (.ok v, σ)
      | .var x => (.ok (getLocal σ x), σ)
      | .gvar k => (.ok (.list k), σ)
      | .assign x e =>
        match run cfg P fuel (.ev e) σ with
        | (.ok v, σ') => (.ok v, setLocal σ' x v)
        | r => r
      | .emit tag none => (.ok .null, emitEv σ ⟨tag, none⟩)
      | .emit tag (some e) =>
        match run cfg P fuel (.ev e) σ with
        | (.ok v, σ') =>
          -- displaying the value may run `@display` functions (also of elements of containers,
          -- at any depth): their errors are the errors of this expression, unchanged
          match run cfg P fuel (.disp [v] []) σ' with
          | (.vals ts, σ'') => (.ok .null, emitEv σ'' ⟨tag, some (.toks v ts)⟩)
          | r => r
        | r => r
      | .emitI tag es =>
        -- the holes are evaluated left to right while the string is being built; an error in a
        -- hole abandons the string (nothing is printed)
        match run cfg P fuel (.evs es []) σ with
        | (.vals vs, σ') =>
          match run cfg P fuel (.disp (vs.intersperse (.str .sep)) []) σ' with
          | (.vals ts, σ'') => (.ok .null, emitEv σ'' ⟨tag, some (.parts ts)⟩)
          | r => r
        | r => r
      | .mkList es =>
        match run cfg P fuel (.evs es []) σ with
        | (.vals vs, σ') => let (σ'', r) := alloc σ' vs; (.ok (.list r), σ'')
        | r => r
      | .mkObj c => (.ok (.obj c), σ)
      | .index l i =>
        match run cfg P fuel (.evs [l, i] []) σ with
        | (.vals [.list r, .int k], σ') =>
          let xs := σ'.heap.getD r []
          if 0 ≤ k ∧ k.toNat < xs.length then (.ok (xs.getD k.toNat .null), σ')
          else (.err (errK (.index k xs.length)), σ')
        | (.vals _, σ') => (.err (errK (.other 2)), σ')
        | r => r
      | .push l e =>
        match run cfg P fuel (.evs [l, e] []) σ with
        | (.vals [.list r, v], σ') =>
          (.ok (.list r), { σ' with heap := σ'.heap.set r (σ'.heap.getD r [] ++ [v]) })
        | (.vals _, σ') => (.err (errK (.other 3)), σ')
        | r => r
      | .setIdx l i e =>
        match run cfg P fuel (.evs [l, i, e] []) σ with
        | (.vals [.list r, .int k, v], σ') =>
          let xs := σ'.heap.getD r []
          if 0 ≤ k ∧ k.toNat < xs.length then
            (.ok v, { σ' with heap := σ'.heap.set r (xs.set k.toNat v) })
          else (.err (errK (.invalidIndex k)), σ')
        | (.vals _, σ') => (.err (errK (.other 4)), σ')
        | r => r
      | .bin op a b =>
        match run cfg P fuel (.evs [a, b] []) σ with
        | (.vals [.int x, .int y], σ') =>
          match op with
          | .add => (.ok (.int (x + y)), σ')
          | .lt => (.ok (.bool (decide (x < y))), σ')
          | .ge => (.ok (.bool (decide (x ≥ y))), σ')
        | (.vals [.obj c, y], σ') =>
          let cls := P.classes.getD c {}
          match op with
          | .add =>
            match cls.addFn with
            | some f => run cfg P fuel (.callF f [.obj c, y]) σ'
            | none => (.err (errK (.binop op (.obj c) y.ty)), σ')
          | .lt =>
            match cls.ltFn with
            | some f => run cfg P fuel (.callF f [.obj c, y]) σ'
            | none => (.err (errK (.binop op (.obj c) y.ty)), σ')
          | .ge =>
            match cls.ltFn with
            | some f =>
              match run cfg P fuel (.callF f [.obj c, y]) σ' with
              | (.ok (.bool b), σ'') => (.ok (.bool (!b)), σ'')
              | (.ok v, σ'') => (.err (errK (.expectedBool v.ty)), σ'')
              | r => r
            | none => (.err (errK (.binop op (.obj c) y.ty)), σ')
        | (.vals [x, y], σ') => (.err (errK (.binop op x.ty y.ty)), σ')
        | (.vals _, σ') => (.err (errK (.other 5)), σ')
        | r => r
      | .call f args =>
        match run cfg P fuel (.evs args []) σ with
        | (.vals vs, σ') => run cfg P fuel (.callF f vs) σ'
        | r => r
      | .native k f l =>
        match run cfg P fuel (.ev l) σ with
        | (.ok (.list r), σ') =>
          run cfg P fuel (.nat k f r (σ'.heap.getD r []) [] (.int 0)) σ'
        | (.ok _, σ') => (.err (errK (.other 6)), σ')
        | r => r
      | .throw e =>
        match run cfg P fuel (.ev e) σ with
        | (.ok v, σ') => (.err v, σ')
        | r => r
      | .fault k => (.err (errK k.ek), σ)
      | .seq es => run cfg P fuel (.seq es .null) σ
      | .ite c t e =>
        match run cfg P fuel (.ev c) σ with
        | (.ok v, σ') => if v.truthy then run cfg P fuel (.ev t) σ' else run cfg P fuel (.ev e) σ'
        | r => r
      | .forList x l body =>
        match run cfg P fuel (.ev l) σ with
        | (.ok (.list r), σ') => run cfg P fuel (.loopL x (σ'.heap.getD r []) body) σ'
        | (.ok _, σ') => (.err (errK (.other 7)), σ')
        | r => r
      | .forGen x g args body =>
        match run cfg P fuel (.evs args []) σ with
        | (.vals vs, σ') =>
          match P.defs[g]? with
          | some d =>
            if !d.isGen then (.err (errK (.other 8)), σ')
            else if vs.length < d.nparams then (.err (errK (.argsFew vs.length d.nparams)), σ')
            else if vs.length > d.nparams then (.err (errK (.argsMany vs.length d.nparams)), σ')
            else
              run cfg P fuel
                (.loopG x (vs ++ List.replicate (d.nlocals - vs.length) Val.null) d.segs d.tail body) σ'
          | none => (.err (errK (.other 9)), σ')
        | r => r
      | .brk => (.brk, σ)
      | .brkV e =>
        match run cfg P fuel (.ev e) σ with
        | (.ok _, σ') => (.brk, σ')
        | r => r
      | .cont => (.cont, σ)
      | .ret e =>
        match run cfg P fuel (.ev e) σ with
        | (.ok v, σ') => (.ret v, σ')
        | r => r
      | .try_ b cs fin =>
        let r1 : Res :=
          catchWith (run cfg P fuel (.ev b) σ) (fun v σ1 => run cfg P fuel (.catches cs v) σ1)
        match fin with
        | none => r1
        | some f => thenFinally r1 (fun σ1 => run cfg P fuel (.ev f) σ1)
    | .evs es acc =>
      match es with
      | [] => (.vals acc, σ)
      | e :: rest =>
        match run cfg P fuel (.ev e) σ with
        | (.ok v, σ') => run cfg P fuel (.evs rest (acc ++ [v])) σ'
        | r => r
    | .seq es last =>
      match es with
      | [] => (.ok last, σ)
      | e :: rest =>
        match run cfg P fuel (.ev e) σ with
        | (.ok v, σ') => run cfg P fuel (.seq rest v) σ'
        | r => r
    | .catches cs v =>
      match cs with
      | [] => (.err v, σ)
      | (ty, x, body) :: rest =>
        if accepts ty v then run cfg P fuel (.ev body) (bindCatch σ ty x v)
        else run cfg P fuel (.catches rest v) σ
    | .callF f args =>
      match P.defs[f]? with
      | some d =>
        if d.isGen then (.err (errK (.other 10)), σ)
        else if args.length < d.nparams then (.err (errK (.argsFew args.length d.nparams)), σ)
        else if args.length > d.nparams then (.err (errK (.argsMany args.length d.nparams)), σ)
        else
          callResult σ.locals
            (run cfg P fuel (.ev d.body)
              { σ with locals := args ++ List.replicate (d.nlocals - args.length) Val.null })
      | none => (.err (errK (.other 11)), σ)
    | .nat k f r items accL accV =>
      match items with
      | [] =>
        match k with
        | .each => let (σ', r') := alloc σ accL; (.ok (.list r'), σ')
        | .keep => let (σ', r') := alloc σ accL; (.ok (.list r'), σ')
        | .fold => (.ok accV, σ)
        | .sort =>
          -- accL holds the keys, in element order
          let xs := σ.heap.getD r []
          match intKeys accL with
          | some ks =>
            (.ok (.list r), { σ with heap := σ.heap.set r ((sortByKey (ks.zip xs)).map (·.2)) })
          | none => (.err (errK (.other 12)), σ)
      | it :: rest =>
        let args := match k with
          | .fold => [accV, it]
          | _ => [it]
        match run cfg P fuel (.callF f args) σ with
        | (.ok v, σ') =>
          match k with
          | .each => run cfg P fuel (.nat k f r rest (accL ++ [v]) accV) σ'
          | .keep =>
            match v with
            | .bool b => run cfg P fuel (.nat k f r rest (if b then accL ++ [it] else accL) accV) σ'
            | v => (.err (errK (.pred v.ty)), σ')
          | .fold => run cfg P fuel (.nat k f r rest accL v) σ'
          | .sort => run cfg P fuel (.nat k f r rest (accL ++ [v]) accV) σ'
        | r => r
    | .loopL x items body =>
      match items with
      | [] => (.ok .null, σ)
      | it :: rest =>
        match run cfg P fuel (.ev body) (setLocal σ x it) with
        | (.ok _, σ') => run cfg P fuel (.loopL x rest body) σ'
        | (.cont, σ') => run cfg P fuel (.loopL x rest body) σ'
        | (.brk, σ') => (.ok .null, σ')
        | r => r
    | .disp todo acc =>
      match todo with
      | [] => (.vals acc, σ)
      | .list r :: rest =>
        run cfg P fuel (.disp (σ.heap.getD r [] ++ .str .rb :: rest) (acc ++ [.str .lb])) σ
      | .obj c :: rest =>
        match (P.classes.getD c {}).dispFn with
        | some f =>
          match run cfg P fuel (.callF f [.obj c]) σ with
          | (.ok (.str (.lit n)), σ') => run cfg P fuel (.disp rest (acc ++ [.str (.shown n)])) σ'
          | (.ok _, σ') => (.err (errK (.other 13)), σ')
          | r => r
        | none => run cfg P fuel (.disp rest (acc ++ [.obj c])) σ
      | v :: rest => run cfg P fuel (.disp rest (acc ++ [v])) σ
    | .loopG x gl segs tail body =>
      match segs with
      | [] =>
        match run cfg P fuel (.ev tail) { σ with locals := gl } with
        | (.err v, σ') => (.err v, { σ' with locals := σ.locals })
        | (.oof, σ') => (.oof, { σ' with locals := σ.locals })
        | (_, σ') => (.ok .null, { σ' with locals := σ.locals })
      | (pre, yv) :: rest =>
        match run cfg P fuel (.seq [pre, yv] .null) { σ with locals := gl } with
        | (.ok v, σ') =>
          let gl' := σ'.locals
          match run cfg P fuel (.ev body) (setLocal { σ' with locals := σ.locals } x v) with
          | (.ok _, σ'') => run cfg P fuel (.loopG x gl' rest tail body) σ''
          | (.cont, σ'') => run cfg P fuel (.loopG x gl' rest tail body) σ''
          | (.brk, σ'') => (.ok .null, σ'')
          | r => r
        | (.err v, σ') => (.err v, { σ' with locals := σ.locals })
        | (.oof, σ') => (.oof, { σ' with locals := σ.locals })
        | (_, σ') => (.ok .null, { σ' with locals := σ.locals })

/-- Initial state: the global lists are heap cells `0 … nglobals-1`, all empty. -/
def initSt (P : Prog) : St :=
  { locals := List.replicate P.mainLocals Val.null, heap := List.replicate P.nglobals [], out := [] }

/-- Run a whole program. -/
def runProg (cfg : Cfg) (P : Prog) (fuel : Nat) : Res :=
  callResult [] (run cfg P fuel (.ev P.main) (initSt P))

end KotoVerif.Try
