/-
C14 — sorting.  `list.sort`, `tuple.sort_copy`, `map.sort` all go through Rust's *stable*
`slice::sort_by` with a comparator built from Koto's `<` (`value_sort.rs compare_values`, or
`ValueKey::partial_cmp` for `map.sort` without arguments).  A stable sort only ever asks
"is a strictly less than b" (`cmp(a, b) == Less`).  The model is a stable insertion sort driven by
that strict test; `Lemmas/C14Sort.lean` proves it returns an ordered, stable permutation for every
total preorder, and that this result is unique — hence equal to what std's sort returns whenever the
comparator is a total preorder (std's contract; modelled and exercised, not proved).
-/
import KotoVerif.Model.Equal

namespace KotoVerif
namespace Sorting
open Equal

variable {α : Type}

/-- insert `x` (which stood *before* all of `ys` in the input) behind the elements strictly
smaller than it and before the first element that is not -/
def insertBy (lt : α → α → Bool) (x : α) : List α → List α
  | [] => [x]
  | y :: ys => if lt y x then y :: insertBy lt x ys else x :: y :: ys

def sortBy (lt : α → α → Bool) : List α → List α
  | [] => []
  | x :: xs => insertBy lt x (sortBy lt xs)

/-! ### `value_sort.rs try_sort_by`: the bottom-up stable merge sort with a comparison that can fail

`less r l = none` is a failing comparison. Sorted runs are merged into a scratch buffer and written
back only when the merge is complete, so when an error is returned the slice holds the result of all
*completed* merges — a permutation of its values. The model computes exactly that state. -/

/-- merge two runs; the left value is taken unless the right one is strictly smaller -/
def tryMerge (less : α → α → Option Bool) : Nat → List α → List α → Option (List α)
  | _, [], r => some r
  | _, l, [] => some l
  | 0, _, _ => none
  | f + 1, a :: l, b :: r =>
    match less b a with
    | none => none
    | some true => (tryMerge less f (a :: l) r).map (b :: ·)
    | some false => (tryMerge less f l (b :: r)).map (a :: ·)

/-- one pass with run width `w`: `(values after the pass, no comparison failed)` -/
def tryPass (less : α → α → Option Bool) (w : Nat) : Nat → List α → List α × Bool
  | 0, xs => (xs, true)
  | f + 1, xs =>
    if xs.length ≤ w then (xs, true)   -- `start + width < len` is false: the rest is left as it is
    else
      let left := xs.take w
      let right := (xs.drop w).take w
      let tail := (xs.drop w).drop w
      match tryMerge less (left.length + right.length) left right with
      | none => (xs, false)            -- the scratch buffer is dropped, nothing more is written
      | some m =>
        let r := tryPass less w f tail
        (m ++ r.1, r.2)

def trySortLoop (less : α → α → Option Bool) : Nat → Nat → List α → List α × Bool
  | 0, _, xs => (xs, true)
  | f + 1, w, xs =>
    if xs.length ≤ w then (xs, true)
    else
      let r := tryPass less w xs.length xs
      if r.2 then trySortLoop less f (2 * w) r.1 else r

/-- `try_sort_by`: `(values afterwards, Ok?)` -/
def trySortBy (less : α → α → Option Bool) (xs : List α) : List α × Bool :=
  trySortLoop less xs.length 1 xs

/-- strict test derived from `compare_values` -/
def valLt (F : FloatOps) (a b : Val) : Bool := vlt F a b == some true

/-- every comparison `sort_values` can make succeeds: all numbers, or all strings
(lists of length ≤ 1 are never compared) -/
def sortable : List Val → Bool
  | [] => true
  | [_] => true
  | xs => xs.all (fun v => match v with | .num _ => true | _ => false) ||
          xs.all (fun v => match v with | .str _ => true | _ => false)

/-- `sort_values`; `none` = a comparison raised a type error (the slice is then left in an
unspecified order by the implementation; histories do not continue after it) -/
def sortVals (F : FloatOps) (xs : List Val) : Option (List Val) :=
  if sortable xs then some (sortBy (valLt F) xs) else none

/-- `sort_by_key` on already computed `(key, value)` pairs -/
def sortPairs {β : Type} (F : FloatOps) (kvs : List (Val × β)) : Option (List (Val × β)) :=
  if sortable (kvs.map Prod.fst) then some (sortBy (fun a b => valLt F a.1 b.1) kvs) else none

/-- `map.sort()` : entries ordered by `ValueKey::partial_cmp` -/
def sortEntries {β : Type} (F : FloatOps) (es : List (Val × β)) : List (Val × β) :=
  sortBy (fun a b => keyCmp F a.1 b.1 == .lt) es

end Sorting
end KotoVerif
