/-
Instruction encoding as the compiler emits it (`crates/bytecode/src/compiler.rs`: `push_op`,
`push_var_u32`, u16 little-endian offsets written by `update_offset_placeholder` /
`push_jump_back_op`, both range-checked) — the operand layout of every opcode.

An instruction is an opcode followed by operand *fields*. The layout (which fields, in which order)
is a table per opcode, `layout`; the only opcode with a value-dependent tail is `StringPush`
(`tailLayout`: the optional format fields announced by its flags byte). The opcode numbering comes
from `Gen/OpTable.lean`, regenerated from `op.rs` on every run.

Bytes are modelled as `Nat` (< 256 for real chunks; the harness sends real bytes).
-/
import KotoVerif.Gen.OpTable

namespace KotoVerif.Bytecode
open KotoVerif.Gen

/-- Kind of constant a constant-index operand must refer to (`ConstantPool::get_str/get_i64/get_f64`
panic with "Invalid index" on any other kind). -/
inductive CKind | str | int | float
  deriving DecidableEq, Repr, Inhabited

/-- Operand field kinds. -/
inductive Fld where
  /-- one byte: a register of the current frame -/
  | reg
  /-- one byte: an immediate (count, index, i8 index, placeholder byte) -/
  | imm
  /-- one byte immediate that the reader range-checks (`byte < bound`, else `Instruction::Error`):
      function flags, string format flags, meta key id, format representation -/
  | immLt (bound : Nat)
  /-- variable-length u32 immediate (size hint, width, precision) -/
  | var
  /-- variable-length u32 constant-pool index of the given kind -/
  | const (k : CKind)
  /-- u16 little-endian forward jump offset, relative to the end of the instruction -/
  | off
  /-- u16 little-endian backward jump offset, relative to the end of the instruction -/
  | offBack
  /-- u16 little-endian byte size of the function body that follows the instruction -/
  | size16
  deriving DecidableEq, Repr, Inhabited

/-- Static operand layout per opcode, in byte order as `InstructionReader::next` consumes them. -/
def layout : Op → List Fld
  | .NewFrame => [.imm]
  | .Copy => [.reg, .reg]
  | .SetNull | .SetFalse | .SetTrue | .Set0 | .Set1 => [.reg]
  | .SetNumberU8 | .SetNumberNegU8 => [.reg, .imm]
  | .LoadFloat => [.reg, .const .float]
  | .LoadInt => [.reg, .const .int]
  | .LoadString => [.reg, .const .str]
  | .LoadNonLocal => [.reg, .const .str]
  | .Import | .ImportAll => [.reg]
  | .MakeTempTuple => [.reg, .reg, .imm]
  | .TempTupleToTuple => [.reg, .reg]
  | .MakeMap => [.reg, .var]
  | .MakeIterator => [.reg, .reg]
  | .SequenceStart => [.var]
  | .SequencePush => [.reg]
  | .SequencePushN => [.reg, .imm]
  | .SequenceToList | .SequenceToTuple => [.reg]
  | .StringStart => [.var]
  | .StringPush => [.reg, .immLt (stringFormatFlagsMax + 1)]
  | .StringFinish => [.reg]
  | .Function => [.reg, .imm, .imm, .imm, .immLt (functionFlagsMax + 1), .size16]
  | .Capture => [.reg, .imm, .reg]
  | .Range | .RangeInclusive => [.reg, .reg, .reg]
  | .RangeTo | .RangeToInclusive | .RangeFrom => [.reg, .reg]
  | .RangeFull => [.reg]
  | .Negate | .Not => [.reg, .reg]
  | .Add | .Subtract | .Multiply | .Divide | .Remainder | .Power => [.reg, .reg, .reg]
  | .AddAssign | .SubtractAssign | .MultiplyAssign | .DivideAssign | .RemainderAssign
  | .PowerAssign => [.reg, .reg]
  | .Less | .LessOrEqual | .Greater | .GreaterOrEqual | .Equal | .NotEqual => [.reg, .reg, .reg]
  | .Jump => [.off]
  | .JumpBack => [.offBack]
  | .JumpIfFalse | .JumpIfTrue | .JumpIfNull => [.reg, .off]
  | .Call => [.reg, .reg, .reg, .imm, .imm]
  | .CallInstance => [.reg, .reg, .reg, .reg, .imm, .imm]
  | .Return | .Yield | .Throw => [.reg]
  | .IterNext | .IterNextTemp => [.reg, .reg, .off]
  | .IterNextQuiet => [.reg, .off]
  | .IterUnpack => [.reg, .reg]
  | .TempIndex | .SliceFrom | .SliceTo => [.reg, .reg, .imm]
  | .Index | .IndexAssign => [.reg, .reg, .reg]
  | .MetaInsert => [.reg, .immLt metaKeyIdInvalid, .reg]
  | .MetaInsertNamed => [.reg, .immLt metaKeyIdInvalid, .reg, .reg]
  | .MetaExport => [.immLt metaKeyIdInvalid, .reg]
  | .MetaExportNamed => [.immLt metaKeyIdInvalid, .reg, .reg]
  | .ExportValue => [.reg, .reg]
  | .ExportEntry => [.reg]
  | .Access => [.reg, .reg, .const .str]
  | .AccessString | .AccessAssign => [.reg, .reg, .reg]
  | .Size => [.reg, .reg]
  | .TryStart => [.reg, .off]
  | .TryEnd => [.imm]
  | .Debug => [.reg, .const .str]
  | .CheckSizeEqual | .CheckSizeMin => [.reg, .imm]
  | .AssertType | .AssertOptionalType => [.reg, .const .str]
  | .CheckType | .CheckOptionalType => [.reg, .const .str, .off]
  | .TryAccess => [.reg, .reg, .const .str, .off]
  | .TryAccessString => [.reg, .reg, .reg, .off]

/-- Is bit `bit` (a power of two) set in `flags`? -/
def hasBit (flags bit : Nat) : Bool := flags / bit % 2 == 1

/-- The optional fields of `StringPush`, announced by its flags byte (second static operand):
`?@min_width, ?@precision, ?@fill_character (a string constant), ?style`. -/
def stringPushTail (flags : Nat) : List Fld :=
  (if hasBit flags sfMinWidth then [.var] else [])
  ++ (if hasBit flags sfPrecision then [.var] else [])
  ++ (if hasBit flags sfFillCharacter then [.const .str] else [])
  ++ (if hasBit flags sfRepresentation then [.immLt stringReprCount] else [])

/-- Value-dependent tail of the layout, given the values of the static operands. -/
def tailLayout : Op → List Nat → List Fld
  | .StringPush, [_, flags] => stringPushTail flags
  | _, _ => []

/-- A decoded instruction: opcode and operand values in byte order (static fields, then tail). -/
structure Instr where
  op : Op
  args : List Nat
  deriving DecidableEq, Repr, Inhabited

def Instr.staticArgs (i : Instr) : List Nat := i.args.take (layout i.op).length

/-- The full field list of an instruction. -/
def Instr.fields (i : Instr) : List Fld := layout i.op ++ tailLayout i.op i.staticArgs

/-! ### var-u32 (`push_var_u32`) -/

/-- `push_var_u32`: 7 bits per byte, least significant group first, bit 7 = continuation.
The Rust loop runs until `n == 0`; for a `u32` that is at most 5 iterations (`fuel`). -/
def encodeVarFuel : Nat → Nat → List Nat
  | 0, _ => []
  | fuel + 1, n =>
    if n / 128 ≠ 0 then (n % 128 + 128) :: encodeVarFuel fuel (n / 128) else [n % 128]

def encodeVar (n : Nat) : List Nat := encodeVarFuel 5 n

/-- u16 little endian -/
def encodeU16 (n : Nat) : List Nat := [n % 256, n / 256]

def encodeField : Fld → Nat → List Nat
  | .reg, v | .imm, v | .immLt _, v => [v]
  | .var, v | .const _, v => encodeVar v
  | .off, v | .offBack, v | .size16, v => encodeU16 v

def encodeFields : List Fld → List Nat → List Nat
  | f :: fs, v :: vs => encodeField f v ++ encodeFields fs vs
  | _, _ => []

/-- `push_op(op, bytes)` followed by the var-u32 / offset pushes: the byte image of an instruction. -/
def encode (i : Instr) : List Nat := i.op.code :: encodeFields i.fields i.args

/-- Range of a field value (what fits its encoding and passes the reader's range check). -/
def fieldOk : Fld → Nat → Bool
  | .reg, v | .imm, v => v < 256
  | .immLt b, v => v < 256 && v < b
  | .var, v | .const _, v => v < 4294967296
  | .off, v | .offBack, v | .size16, v => v < 65536

def fieldsOk : List Fld → List Nat → Bool
  | [], [] => true
  | f :: fs, v :: vs => fieldOk f v && fieldsOk fs vs
  | _, _ => false

/-- An instruction whose operand list matches its layout and whose values are in range. -/
def Instr.valid (i : Instr) : Bool := fieldsOk i.fields i.args

/-! ### offsets (`update_offset_placeholder`, `push_jump_back_op`) -/

/-- `update_offset_placeholder`: the offset is checked with `u16::try_from`;
`none` = `ErrorKind::JumpOffsetIsTooLarge`. -/
def updateOffset (offset : Nat) : Option (List Nat) :=
  if offset ≤ 65535 then some (encodeU16 offset) else none

/-- `push_jump_back_op` (since fix f85bfca): the backward distance is checked with `u16::try_from`
like a forward offset; `none` = `ErrorKind::JumpOffsetIsTooLarge`. (Before the fix the distance was
cast with `as u16`, finding F-C05-1.) -/
def jumpBackOffset (offset : Nat) : Option (List Nat) :=
  if offset ≤ 65535 then some (encodeU16 offset) else none

def decodeU16 (a b : Nat) : Nat := a + 256 * b

end KotoVerif.Bytecode
