/-
C08 — model of the execution limit (crates/runtime/src/vm.rs).

Part 1: `ExecutionTimeout` (struct, `new`, `check_for_timeout`) as a pure state machine over clock
readings. Times are natural numbers of nanoseconds (Rust `Instant`/`Duration` have nanosecond
resolution on the platforms in scope); the `f64` arithmetic of the adaptive interval goes through a
`TOps` record (IEEE bit patterns in `UInt64`), so theorems are parametric in float arithmetic and
the driver instantiates it with the runtime's `Float`. `as usize` casts saturate as in Rust.

Part 2: the delivery model. The VM has one flat call stack; `execute_instructions` invocations
("entries") are delimited by frames whose `execution_barrier` is set (Koto::run, call_and_run_function,
arithmetic/derived-comparison operator overloads, `@display`, `@next`, `@iterator` through the public
`make_iterator`, imports; a generator body runs in its own VM, whose bottom frame plays the same
role). Every entry creates its own poller. A timeout detected in an entry unwinds with
`allow_catch = false` up to and including that entry's barrier frame and is returned to the native
caller as an `Err` that keeps its kind; the native caller propagates it (as all callers in the
runtime do; the `for` instruction keeps the kind of a timeout coming out of an iterator), and the
enclosing entry's loop re-raises it through
`pop_call_stack_on_error(error, !matches!(error.error, ErrorKind::Timeout(_)))` — since the repair of
F-C08-1 (commit 5a7e832) the error kind decides, so a timeout stays uncatchable in every enclosing
entry, while every other error is catchable there.
-/
namespace KotoVerif.Timeout

/-! ## Part 1: the poller -/

/-- The float operations `ExecutionTimeout` uses (bit patterns). -/
structure TOps where
  ofNat : Nat → UInt64                 -- `n as f64` for n < 2^64 (u64 / u32 / usize source)
  add : UInt64 → UInt64 → UInt64
  mul : UInt64 → UInt64 → UInt64
  div : UInt64 → UInt64 → UInt64
  lt : UInt64 → UInt64 → Bool
  isNaN : UInt64 → Bool
  toNatSat : UInt64 → Nat              -- `x as usize`: truncation, saturating, NaN ↦ 0

def usizeMax : Nat := 18446744073709551615

def nanosPerSec : Nat := 1000000000

/-- `x as usize` (the clamp makes `≤ usizeMax` a fact of the model, whatever `F` is) -/
def asUsize (F : TOps) (x : UInt64) : Nat := min (F.toNatSat x) usizeMax

/-- `Duration::as_secs_f64`: `(secs as f64) + (subsec_nanos as f64) / (NANOS_PER_SEC as f64)` -/
def secsF (F : TOps) (d : Nat) : UInt64 :=
  F.add (F.ofNat (d / nanosPerSec)) (F.div (F.ofNat (d % nanosPerSec)) (F.ofNat nanosPerSec))

/-- `f64::min` (IEEE minNum: a NaN operand is ignored) -/
def fmin (F : TOps) (a b : UInt64) : UInt64 :=
  if F.isNaN a then b else if F.isNaN b then a else if F.lt b a then b else a

structure St where
  lastCheck : Nat            -- `last_check` (ns on the clock's axis)
  deadline : Nat             -- `deadline`
  intervalSeconds : UInt64   -- `interval_seconds` (f64 bits)
  intervalInstr : Nat        -- `interval_instructions`
  sinceLast : Nat            -- `instructions_since_last_check`
  limit : Nat                -- `execution_limit` (ns)
  maxInterval : Nat := 18446744073709551615
                             -- `MAX_INTERVAL_INSTRUCTIONS` (1000 since aa1a96f; constant of the code)
  deriving Repr, DecidableEq

/-- `ExecutionTimeout::new`; `rate` is the first-interval baseline constant (`10_000_000.0` with
debug assertions, `100_000_000.0` without), `cap` the bound on the FIRST interval (`100.0` since
0c1b674: `first_interval_instruction_count.min(100.0)`, so that the real instruction rate is
measured early; every later interval is derived from the measured rate), `now` the clock reading
taken by `new`, `maxI` the cap on every later interval (`MAX_INTERVAL_INSTRUCTIONS`).
`Duration / 10` is the floor of the nanosecond count. The deadline is
`now + limit` (the code uses `checked_add` and falls back to a far-future deadline when the sum is
not representable; for limits in the property's range it is). -/
def new (F : TOps) (rate cap : UInt64) (maxI limit now : Nat) : St :=
  let isec := secsF F (limit / 10)
  { lastCheck := now
    deadline := now + limit
    intervalSeconds := isec
    intervalInstr := asUsize F (fmin F (F.mul rate isec) cap)
    sinceLast := 0
    limit := limit
    maxInterval := maxI }

inductive Poll where
  | skip      -- counter below the interval: no clock read
  | ok        -- clock read, deadline not reached, interval recomputed
  | timeout   -- clock read, deadline reached
  deriving DecidableEq, Repr

/-- the recomputed `interval_instructions`, exactly as written in `check_for_timeout`:
`((interval as f64 * adjustment) as usize).min(MAX_INTERVAL_INSTRUCTIONS)` — the cap (aa1a96f) keeps
the interval short whatever rate the previous interval measured, so that expensive instructions after
cheap ones cannot overshoot by more than `maxInterval` of them (F-C08-8) -/
def nextInterval (F : TOps) (s : St) (now : Nat) : Nat :=
  let remaining := secsF F (s.deadline - now)
  let nextIntervalDuration := fmin F s.intervalSeconds remaining
  let elapsed := secsF F (now - s.lastCheck)
  let intervalAdjustment := F.div nextIntervalDuration elapsed
  min (asUsize F (F.mul (F.ofNat s.intervalInstr) intervalAdjustment)) s.maxInterval

/-- `check_for_timeout`; `now` is what `Instant::now()` would return — it is consulted only in the
second and third branch. -/
def check (F : TOps) (s : St) (now : Nat) : St × Poll :=
  if s.sinceLast < s.intervalInstr then
    ({ s with sinceLast := s.sinceLast + 1 }, .skip)
  else if s.deadline ≤ now then
    (s, .timeout)
  else
    ({ s with intervalInstr := nextInterval F s now, sinceLast := 0, lastCheck := now }, .ok)

/-- `runN F clk n s i`: the state after the checks number `i, i+1, …, i+n-1`, where check `j` would
read `clk j`. (In the VM the loop ends at the first timeout; the model state is a fixed point
there, so running on repeats the timeout.) -/
def runN (F : TOps) (clk : Nat → Nat) : Nat → St → Nat → St
  | 0, s, _ => s
  | n + 1, s, i => runN F clk n (check F s (clk i)).1 (i + 1)

/-- the outcome of check number `n` of a run started in `s` (checks are numbered from 0) -/
def pollAt (F : TOps) (clk : Nat → Nat) (s : St) (n : Nat) : Poll :=
  (check F (runN F clk n s 0) (clk n)).2

/-! ### polling points

`execute_instructions` consults the poller before EVERY instruction, whatever its kind. The kinds
below are the ones that can prolong an execution: a backwards jump, a call instruction, an operator
instruction whose overload pushes a frame directly (`-x` with `@negate`, `x < y` with `@<`, `x[i]`
with `@index`, …: no jump, no call instruction), and everything else. `polls` says before which
kinds the poller is consulted; the code is `pollsEvery`. -/

inductive InstrKind where
  | jumpBack | call | opPush | other
  deriving DecidableEq, Repr

/-- the code: every instruction is a polling point -/
def pollsEvery : InstrKind → Bool := fun _ => true

/-- the entry loop over an instruction stream: `some i` = the timeout is reported before
instruction number `i`; `none` = the stream ends (or goes on) without a timeout. Instruction `j`
would read `clk j`. -/
def runInstrs (F : TOps) (polls : InstrKind → Bool) (clk : Nat → Nat) : List InstrKind → St → Nat → Option Nat
  | [], _, _ => none
  | k :: ks, s, i =>
    if polls k then
      match check F s (clk i) with
      | (_, .timeout) => some i
      | (s', _) => runInstrs F polls clk ks s' (i + 1)
    else runInstrs F polls clk ks s (i + 1)

/-- the same over `n` checks, one per instruction (the shape `runN` / `pollAt` talk about) -/
def firstTimeout (F : TOps) (clk : Nat → Nat) : Nat → St → Nat → Option Nat
  | 0, _, _ => none
  | n + 1, s, i =>
    match check F s (clk i) with
    | (_, .timeout) => some i
    | (s', _) => firstTimeout F clk n s' (i + 1)

/-- integer skeleton of the interval update: the float computation returned at most the exact
quotient `interval · min(target, remaining) / elapsed` plus one. This is the only float fact
`bounded_slack` needs; the harness evaluates it on every observed clock read. -/
def UpdateSound (F : TOps) (s : St) (now : Nat) : Prop :=
  nextInterval F s now * (now - s.lastCheck)
    ≤ s.intervalInstr * min (s.limit / 10) (s.deadline - now) + (now - s.lastCheck)

instance (F : TOps) (s : St) (now : Nat) : Decidable (UpdateSound F s now) := by
  unfold UpdateSound; infer_instance

/-- Assumption on an abstract monotone clock (vocabulary of `bounded_slack`): `clk j` is the time
of check number `j`; the entry starts at `t0`; consecutive checks are between `tmin` and `tmax`
apart (the cost of one instruction — including whatever native code or nested interpreter entry it
runs — plus the check itself). -/
structure Costs (clk : Nat → Nat) (t0 tmin tmax : Nat) : Prop where
  pos : 0 < tmin
  le : tmin ≤ tmax
  first_lo : t0 + tmin ≤ clk 0
  first_hi : clk 0 ≤ t0 + tmax
  step_lo : ∀ i, clk i + tmin ≤ clk (i + 1)
  step_hi : ∀ i, clk (i + 1) ≤ clk i + tmax

/-- Fast path used by the driver when replaying an observed trace: `k` skipped checks at once
(justified by `C08.runN_skips`). -/
def skipMany (s : St) (k : Nat) : St := { s with sinceLast := s.sinceLast + k }

/-- One observed poller snapshot: (number of calls so far, last_check, interval_instructions,
timed_out). -/
structure Snap where
  calls : Nat
  lastCheck : Nat
  interval : Nat
  timedOut : Bool
  sound : Bool      -- `UpdateSound` held at this read (true for the initial snapshot and timeouts)
  deriving Repr

/-- Replay a list of clock readings (one per clock-reading poll, in order): between reads the model
skips exactly `interval_instructions` checks. Stops at the first timeout. -/
def replay (F : TOps) : List Nat → St → Nat → List Snap
  | [], _, _ => []
  | t :: ts, s, calls =>
    let s1 := skipMany s (s.intervalInstr - s.sinceLast)
    let calls1 := calls + (s.intervalInstr - s.sinceLast) + 1
    match check F s1 t with
    | (s2, .ok) =>
      { calls := calls1, lastCheck := s2.lastCheck, interval := s2.intervalInstr, timedOut := false,
        sound := decide (UpdateSound F s1 t) } :: replay F ts s2 calls1
    | (s2, .timeout) =>
      [{ calls := calls1, lastCheck := s2.lastCheck, interval := s2.intervalInstr, timedOut := true, sound := true }]
    | (s2, .skip) =>   -- unreachable (C08.poll_gap); kept total
      [{ calls := calls1, lastCheck := s2.lastCheck, interval := s2.intervalInstr, timedOut := false, sound := false }]

/-! ## Part 2: delivery of an error through the call stack -/

/-- One VM frame as far as unwinding is concerned. `catches` = `catch_stack` (innermost handler
first; a handler is identified by a number), `barrier` = `execution_barrier`. The native code that
starts an entry hands the entry's error on unchanged: the two callers that used to replace it by a
string error (`run_display` / `run_debug_op`, F-C08-4 / F-C04-12) do so no longer (5d8bf61, 9cbdb4e),
and no other caller in the runtime maps or drops it. -/
structure Frame where
  catches : List Nat
  barrier : Bool
  deriving Repr, DecidableEq

/-- the two kinds of error that matter for delivery -/
inductive ErrKind where
  | timeout   -- `ErrorKind::Timeout`
  | other     -- thrown values, runtime errors, …
  deriving Repr, DecidableEq

inductive Delivery where
  | caught (handler : Nat) (framesLeft : Nat)   -- resumed at this handler; that many frames remain
  | escaped (kind : ErrKind)                     -- returned to the host as `Err` of this kind
  deriving Repr, DecidableEq

/-- `pop_call_stack_on_error(error, allow_catch)` on the frames of the running entry (top first):
`some (h, rest)` = resume at handler `h` with stack `rest`; `none, rest` = `Err` with the entry's
barrier frame on top of `rest` (or the stack empty). -/
def unwind (allowCatch : Bool) : List Frame → Option Nat × List Frame
  | [] => (none, [])
  | f :: rest =>
    match allowCatch, f.catches with
    | true, h :: _ => (some h, f :: rest)
    | _, _ => if f.barrier then (none, f :: rest) else unwind allowCatch rest

/-- `allow_catch` used by `execute_instructions` for an error returned by an instruction:
`!matches!(error.error, ErrorKind::Timeout(_))` -/
def ErrKind.allowCatch : ErrKind → Bool
  | .timeout => false
  | .other => true

/-- The whole path of an error raised in the top entry with the given `allowCatch` (`false` for a
timeout reported by the poller, `kind.allowCatch` for a failing instruction): `unwind`; on `Err` the
entry's caller pops the barrier frame (`pop_frame`) and returns the error to the native code that
started the entry; that code hands it on with its kind, so the instruction of the enclosing entry
that called the native code fails and `execute_instructions` runs
`pop_call_stack_on_error(error, kind.allowCatch)`. `fuel` bounds the number of entries crossed (the
stack length suffices). -/
def deliver : Nat → ErrKind → Bool → List Frame → Delivery
  | 0, kind, _, _ => .escaped kind
  | fuel + 1, kind, allowCatch, stack =>
    match unwind allowCatch stack with
    | (some h, rest) => .caught h rest.length
    | (none, []) => .escaped kind
    | (none, _ :: []) => .escaped kind            -- outermost entry (host call): error returned to the host
    | (none, _ :: below) => deliver fuel kind kind.allowCatch below

/-- The same path as one structural recursion (proved equal to `deliver` in `Lemmas/C08`). -/
def deliverFlat : ErrKind → Bool → List Frame → Delivery
  | kind, _, [] => .escaped kind
  | kind, allowCatch, f :: rest =>
    match allowCatch, f.catches with
    | true, h :: _ => .caught h (f :: rest).length
    | _, _ =>
      if f.barrier then deliverFlat kind kind.allowCatch rest
      else deliverFlat kind allowCatch rest

/-- A timeout detected (by the poller) in the top entry. -/
def deliverTimeout (stack : List Frame) : Delivery := deliver (stack.length + 1) .timeout false stack

/-- An ordinary error raised in the top entry. -/
def deliverError (stack : List Frame) : Delivery := deliver (stack.length + 1) .other true stack

/-- innermost open handler of a stack, looking through entry boundaries -/
def firstHandler : List Frame → Option Nat
  | [] => none
  | f :: rest =>
    match f.catches with
    | h :: _ => some h
    | [] => firstHandler rest

end KotoVerif.Timeout
