/-
C14 — the heap model: lists and maps are objects addressed by handles; assignment, argument
passing and capture copy *handles* (`HVal.lref h`, `HVal.mref h`); tuples, strings, ranges, numbers,
booleans and null are immediate values (a tuple may *contain* handles).

Mirrors
* `types/list.rs KList(PtrMut<ValueVec>)`, `types/map.rs KMap { data: PtrMut<ValueMap> }` → `Obj`, `Heap`
* `core_lib/list.rs`, `core_lib/map.rs`, `core_lib/tuple.rs`                → `LOp`/`applyL`, `MOp`/`applyM`, `tupleOp`
* `vm.rs run_index / run_index_assign / run_add / run_equal …`              → `indexVal`, `LOp.set`, `MOp.setIndex`, `addVals`, `heq`
* `core_lib/koto.rs copy, deep_copy; types/value.rs KValue::deep_copy`      → `copyVal`, `deepCopy`
A map object stores its keys as immediate `Val` trees (only hashable values can be keys).
-/
import KotoVerif.Model.Equal
import KotoVerif.Model.Sort

namespace KotoVerif
namespace Heap
open Equal

inductive HVal where
  | null
  | bool (b : Bool)
  | num (n : Num)
  | str (bs : List Nat)
  | range (a : Option Int64) (b : Option (Int64 × Bool))
  | tuple (xs : List HVal)
  | lref (h : Nat)
  | mref (h : Nat)
  deriving Repr, Inhabited

inductive Obj where
  | list (xs : List HVal)
  | map (es : List (Val × HVal))
  deriving Repr, Inhabited

abbrev Heap := List Obj

inductive Err where
  | index | type | unhashable | args | fuel | cycle | depth
  deriving Repr, DecidableEq, Inhabited

inductive Res where
  | ok (v : HVal)
  | err (e : Err)
  | panic
  deriving Repr, Inhabited

/-! ### helpers -/

def mapOpt {α β : Type} (f : α → Option β) : List α → Option (List β)
  | [] => some []
  | x :: xs =>
    match f x with
    | none => none
    | some y =>
      match mapOpt f xs with
      | none => none
      | some ys => some (y :: ys)

def mapAccumOpt {σ α β : Type} (f : σ → α → Option (σ × β)) : σ → List α → Option (σ × List β)
  | s, [] => some (s, [])
  | s, x :: xs =>
    match f s x with
    | none => none
    | some (s1, y) =>
      match mapAccumOpt f s1 xs with
      | none => none
      | some (s2, ys) => some (s2, y :: ys)

/-! ### immediate values ⇄ `Val` -/

mutual
/-- an `HVal` without handles as a `Val` tree (`none` if it contains a list or map) -/
def toVal? : HVal → Option Val
  | .null => some .null
  | .bool b => some (.bool b)
  | .num n => some (.num n)
  | .str bs => some (.str bs)
  | .range a b => some (.range a b)
  | .tuple xs => (toValList? xs).map Val.tuple
  | .lref _ => none
  | .mref _ => none
def toValList? : List HVal → Option (List Val)
  | [] => some []
  | x :: xs =>
    match toVal? x with
    | none => none
    | some y =>
      match toValList? xs with
      | none => none
      | some ys => some (y :: ys)
end

mutual
/-- a hashable `Val` (a key) as a value -/
def ofVal : Val → HVal
  | .null => .null
  | .bool b => .bool b
  | .num n => .num n
  | .str bs => .str bs
  | .range a b => .range a b
  | .tuple xs => .tuple (ofValList xs)
  | .list _ => .null
  | .map _ => .null
def ofValList : List Val → List HVal
  | [] => []
  | x :: xs => ofVal x :: ofValList xs
end

/-- `ValueKey::try_from`: only values without handles can be keys -/
def toKey? (v : HVal) : Option Val := toVal? v

/-! ### reading the heap -/

def getList (heap : Heap) (h : Nat) : Option (List HVal) :=
  match heap[h]? with
  | some (.list xs) => some xs
  | _ => none

def getMap (heap : Heap) (h : Nat) : Option (List (Val × HVal)) :=
  match heap[h]? with
  | some (.map es) => some es
  | _ => none

/-- the value tree a value denotes in a heap (`none`: out of fuel — a cycle — or a dangling handle) -/
def snapshot : Nat → Heap → HVal → Option Val
  | 0, _, _ => none
  | f + 1, heap, v =>
    match v with
    | .null => some .null
    | .bool b => some (.bool b)
    | .num n => some (.num n)
    | .str bs => some (.str bs)
    | .range a b => some (.range a b)
    | .tuple xs => (mapOpt (snapshot f heap) xs).map Val.tuple
    | .lref h =>
      match getList heap h with
      | some xs => (mapOpt (snapshot f heap) xs).map Val.list
      | none => none
    | .mref h =>
      match getMap heap h with
      | some es =>
        (mapOpt (snapshot f heap) (es.map Prod.snd)).map (fun ts => Val.map ((es.map Prod.fst).zip ts))
      | none => none

/-- handles of the objects reachable from a value (with repetitions; existing objects only) -/
def reach : Nat → Heap → HVal → List Nat
  | 0, _, _ => []
  | f + 1, heap, v =>
    match v with
    | .tuple xs => xs.flatMap (reach f heap)
    | .lref h =>
      match getList heap h with
      | some xs => h :: xs.flatMap (reach f heap)
      | none => []
    | .mref h =>
      match getMap heap h with
      | some es => h :: es.flatMap (fun e => reach f heap e.2)
      | none => []
    | _ => []

/-- structural equality of two heap values = `run_equal` on what they denote -/
def heq (F : FloatOps) (fuel : Nat) (heap : Heap) (a b : HVal) : Option Bool :=
  match snapshot fuel heap a, snapshot fuel heap b with
  | some x, some y => some (veq F true x y)
  | _, _ => none

/-! ### numbers as indices -/

def zeroBits : UInt64 := 0

/-- `*n < 0.0` -/
def numNeg (F : FloatOps) (n : Num) : Bool := Num.lt F n (.f zeroBits)

/-- `usize::from(KNumber)` for a number that is not negative -/
def numToNat (F : FloatOps) : Num → Nat
  | .i n => n.toInt.toNat
  | .f b => (F.toInt b).toInt.toNat

/-- `KRange::indices(len)` -/
def rangeIndices (a : Option Int64) (b : Option (Int64 × Bool)) (len : Nat) : Nat × Nat :=
  let start : Int := match a with | some x => x.toInt | none => -9223372036854775808
  let stop : Int := match b with
    | some (x, incl) => if incl then x.toInt + 1 else x.toInt
    | none => 9223372036854775807
  let stop := max stop start
  let l : Int := len
  let s := max 0 (min start l)
  let e := max s (min stop l)
  (s.toNat, e.toNat)

/-! ### list operations (`core_lib/list.rs`, `run_index_assign` List arm) -/

inductive LOp where
  | push (v : HVal)
  | pop
  | insert (i : Num) (v : HVal)
  | remove (i : Num)
  | extend (vs : List HVal)
  | clear
  | resize (n : Num) (v : HVal)
  | fill (v : HVal)
  | reverse
  | sort
  | sortKey
  | retain (keep : HVal → Bool)
  | retainFn (p : HVal → Option Bool)
  | set (i : Num) (v : HVal)
  | setRange (a : Option Int64) (b : Option (Int64 × Bool)) (v : HVal)

def hvalLt (F : FloatOps) (a b : HVal) : Bool :=
  match toVal? a, toVal? b with
  | some x, some y => Sorting.valLt F x y
  | _, _ => false

/-- `compare_values(b, a) == Less`, `none` = the comparison raises (operands that `<` rejects) -/
def hvalLess? (F : FloatOps) (b a : HVal) : Option Bool :=
  match toVal? b, toVal? a with
  | some x, some y => vlt F x y
  | _, _ => none

/-- `list.retain` with a predicate function that can fail (`none`): since fix 8dd1e78 the list then
consists of the values retained so far followed by the values that have not been tested -/
def retainTry (p : HVal → Option Bool) : List HVal → List HVal × Bool
  | [] => ([], true)
  | x :: xs =>
    match p x with
    | none => (x :: xs, false)
    | some true => let r := retainTry p xs; (x :: r.1, r.2)
    | some false => retainTry p xs

def hsortable (xs : List HVal) : Bool :=
  match toValList? xs with
  | some vs => Sorting.sortable vs
  | none => xs.length ≤ 1

/-- key function of the modelled `sort` with a key: `|x| x[0]` on tuples -/
def tupleKey : HVal → Option HVal
  | .tuple (k :: _) => some k
  | _ => none

def resizeList (n : Nat) (v : HVal) (xs : List HVal) : List HVal :=
  if n ≤ xs.length then xs.take n else xs ++ List.replicate (n - xs.length) v

/-- the effect of a list operation on the list's content, and its result (`self` = the handle
value, returned by the operations that return the list). On an error the content is unchanged. -/
def applyL (F : FloatOps) (self : HVal) (op : LOp) (xs : List HVal) : List HVal × Res :=
  match op with
  | .push v => (xs ++ [v], .ok self)
  | .pop => (xs.dropLast, .ok (xs.getLast?.getD .null))
  | .insert i v =>
    if numNeg F i || xs.length < numToNat F i then (xs, .err .index)
    else (xs.take (numToNat F i) ++ v :: xs.drop (numToNat F i), .ok self)
  | .remove i =>
    if numNeg F i || xs.length ≤ numToNat F i then (xs, .err .index)
    else (xs.eraseIdx (numToNat F i), .ok (xs[numToNat F i]?.getD .null))
  | .extend vs => (xs ++ vs, .ok self)
  | .clear => ([], .ok self)
  | .resize n v =>
    if numNeg F n then (xs, .err .args) else (resizeList (numToNat F n) v xs, .ok self)
  | .fill v => (xs.map (fun _ => v), .ok self)
  | .reverse => (xs.reverse, .ok self)
  | .sort =>
    -- all comparisons succeed: the stable sorted permutation (`Sorting.sortBy`, see Props/C14);
    -- otherwise `try_sort_by` stops at the first failing comparison and the list keeps the
    -- permutation reached by the merges completed so far
    if hsortable xs then (Sorting.sortBy (hvalLt F) xs, .ok self)
    else
      let r := Sorting.trySortBy (hvalLess? F) xs
      (r.1, if r.2 then .ok self else .err .type)
  | .sortKey =>
    match mapOpt (fun x => (tupleKey x).map (fun k => (k, x))) xs with
    | some kxs =>
      if hsortable (kxs.map Prod.fst) then
        ((Sorting.sortBy (fun a b => hvalLt F a.1 b.1) kxs).map Prod.snd, .ok self)
      else (xs, .err .type)
    | none => (xs, .err .type)
  | .retain keep => (xs.filter keep, .ok self)
  | .retainFn p =>
    let r := retainTry p xs
    (r.1, if r.2 then .ok self else .err .type)
  | .set i v =>
    if numNeg F i || xs.length ≤ numToNat F i then (xs, .err .index)
    else (xs.set (numToNat F i) v, .ok .null)
  | .setRange a b v =>
    let (s, e) := rangeIndices a b xs.length
    (xs.take s ++ List.replicate (e - s) v ++ xs.drop e, .ok .null)

/-! ### map operations (`core_lib/map.rs`, `run_index_assign` Map arm) -/

/-- the fixed callback of the modelled `map.update`: `|x| (x, 0)` -/
def updFn (v : HVal) : HVal := .tuple [v, .num (.i 0)]

inductive MOp where
  | insert (k : Val) (v : HVal)
  | remove (k : Val)
  | update (k : Val) (dflt : HVal)
  | extend (es : List (Val × HVal))
  | clear
  | sort
  | sortVal
  | updateInc (k : Val) (dflt : HVal)
  | setIndex (i : Num) (k : Val) (v : HVal)

/-- `mech = true` mirrors IndexMap's hashing (`getMatch` / `keyEqH`), `false` is the spec (keyEq) -/
def getM (F : FloatOps) (mech : Bool) (n : Nat) : Val → Val → Bool :=
  if mech then getMatch F n else keyEq F

def insM (F : FloatOps) (mech : Bool) : Val → Val → Bool :=
  if mech then keyEqH F else keyEq F

def applyM (F : FloatOps) (mech : Bool) (self : HVal) (op : MOp) (es : List (Val × HVal)) :
    List (Val × HVal) × Res :=
  match op with
  | .insert k v =>
    let r := OMap.insert (insM F mech) k v es
    (r.1, .ok (r.2.getD .null))
  | .remove k =>
    let r := OMap.remove (getM F mech es.length) k es
    (r.1, .ok (r.2.getD .null))
  | .update k d =>
    -- do_map_update: contains_key? else insert default; get; call; insert
    let es1 := match lookupBy (getM F mech es.length) k es with
      | some _ => es
      | none => (OMap.insert (insM F mech) k d es).1
    match lookupBy (getM F mech es1.length) k es1 with
    | some cur => ((OMap.insert (insM F mech) k (updFn cur) es1).1, .ok (updFn cur))
    | none => (es1, .panic)   -- `map.get(&key).unwrap()`
  | .extend other => (OMap.extend (insM F mech) es other, .ok self)
  | .clear => ([], .ok self)
  | .sort =>
    -- `map.sort()`: `try_sort_by` with `ValueKey::partial_cmp`, a total order on all keys since fix
    -- abae06d (F-C14-5), so the result is the stable sorted permutation
    (Sorting.sortEntries F es, .ok self)
  | .sortVal =>
    -- `m.sort(|k, v| v)`: the entries are drained, sorted by value with `try_sort_by` and put back —
    -- also when a comparison failed (then in the order reached so far)
    if hsortable (es.map Prod.snd) then
      (Sorting.sortBy (fun a b => hvalLt F a.2 b.2) es, .ok self)
    else
      let r := Sorting.trySortBy (fun b a => hvalLess? F b.2 a.2) es
      (r.1, if r.2 then .ok self else .err .type)
  | .updateInc k d =>
    -- `m.update(k, d, |x| x + 1)`: `entry(k).or_insert(d)` happens before the function is called, so
    -- the default stays in the map when the function raises
    let es1 := match lookupBy (insM F mech) k es with
      | some _ => es
      | none => (OMap.insert (insM F mech) k d es).1
    match lookupBy (insM F mech) k es1 with
    | some (HVal.num n) =>
      let v := HVal.num (Num.add F n (.i 1))
      ((OMap.insert (insM F mech) k v es1).1, .ok v)
    | _ => (es1, .err .type)
  | .setIndex i k v =>
    if numNeg F i || es.length ≤ numToNat F i then (es, .err .index)
    else
      match OMap.indexAssignChecked (getM F mech es.length) (insM F mech) (numToNat F i) k v es with
      | .replaced es' => (es', .ok .null)
      | .keyInUse _ => (es, .err .index)   -- "the key is already in use by the entry at index j"
      | .panic => (es, .panic)

/-! ### commands on the heap -/

def setObj (heap : Heap) (h : Nat) (o : Obj) : Heap := heap.set h o

/-- allocate: fresh handles are `heap.length` -/
def allocList (heap : Heap) (xs : List HVal) : Heap × HVal := (heap ++ [.list xs], .lref heap.length)
def allocMap (heap : Heap) (es : List (Val × HVal)) : Heap × HVal := (heap ++ [.map es], .mref heap.length)

def onList (F : FloatOps) (heap : Heap) (h : Nat) (op : LOp) : Heap × Res :=
  match getList heap h with
  | some xs =>
    let r := applyL F (.lref h) op xs
    (setObj heap h (.list r.1), r.2)
  | none => (heap, .err .type)

def onMap (F : FloatOps) (mech : Bool) (heap : Heap) (h : Nat) (op : MOp) : Heap × Res :=
  match getMap heap h with
  | some es =>
    let r := applyM F mech (.mref h) op es
    (setObj heap h (.map r.1), r.2)
  | none => (heap, .err .type)

/-- `list.swap`: exchanges the contents of two list objects (`std::mem::swap` of the data) -/
def swapLists (heap : Heap) (h h' : Nat) : Heap × Res :=
  match getList heap h, getList heap h' with
  | some xs, some ys => (setObj (setObj heap h (.list ys)) h' (.list xs), .ok .null)
  | _, _ => (heap, .err .type)

/-- `koto.copy`: a list/map gets a new object with the same elements (handles of nested containers
are copied as handles); everything else is returned as it is -/
def copyVal (heap : Heap) : HVal → Heap × HVal
  | .lref h =>
    match getList heap h with
    | some xs => allocList heap xs
    | none => (heap, .lref h)
  | .mref h =>
    match getMap heap h with
    | some es => allocMap heap es
    | none => (heap, .mref h)
  | v => (heap, v)

/-- `KValue::deep_copy`: lists, maps and tuples are rebuilt recursively; shared sub-objects are
duplicated (a DAG becomes a tree). The fuel drops by one per nesting level (not per element), so it
is the nesting limit of `deep_copy_with_nesting_limit`; `none`: more levels than fuel (always so for
cyclic data) — koto raises "too many nested containers while making a deep copy". -/
def deepCopy : Nat → Heap → HVal → Option (Heap × HVal)
  | 0, _, _ => none
  | f + 1, heap, v =>
    match v with
    | .tuple xs =>
      match mapAccumOpt (deepCopy f) heap xs with
      | some (heap', xs') => some (heap', .tuple xs')
      | none => none
    | .lref h =>
      match getList heap h with
      | some xs =>
        match mapAccumOpt (deepCopy f) heap xs with
        | some (heap', xs') => some (heap' ++ [.list xs'], .lref heap'.length)
        | none => none
      | none => none
    | .mref h =>
      match getMap heap h with
      | some es =>
        match mapAccumOpt (deepCopy f) heap (es.map Prod.snd) with
        | some (heap', vs') => some (heap' ++ [.map ((es.map Prod.fst).zip vs')], .mref heap'.length)
        | none => none
      | none => none
    | v => some (heap, v)

/-! ### pure reads (`run_index`, `list.get/first/last`, `map.get/get_index/keys/values`, `size`) -/

def indexVal (F : FloatOps) (heap : Heap) (v i : HVal) : Heap × Res :=
  match v, i with
  | .lref h, .num n =>
    match getList heap h with
    | some xs => if numNeg F n || xs.length ≤ numToNat F n then (heap, .err .index)
                 else (heap, .ok (xs[numToNat F n]?.getD .null))
    | none => (heap, .err .type)
  | .lref h, .range a b =>
    match getList heap h with
    | some xs =>
      let (s, e) := rangeIndices a b xs.length
      let r := allocList heap ((xs.drop s).take (e - s))
      (r.1, .ok r.2)
    | none => (heap, .err .type)
  | .tuple xs, .num n =>
    if numNeg F n || xs.length ≤ numToNat F n then (heap, .err .index)
    else (heap, .ok (xs[numToNat F n]?.getD .null))
  | .tuple xs, .range a b =>
    let (s, e) := rangeIndices a b xs.length
    (heap, .ok (.tuple ((xs.drop s).take (e - s))))
  | .mref h, .num n =>
    match getMap heap h with
    | some es => if numNeg F n || es.length ≤ numToNat F n then (heap, .err .index)
                 else match es[numToNat F n]? with
                   | some (k, x) => (heap, .ok (.tuple [ofVal k, x]))
                   | none => (heap, .err .index)
    | none => (heap, .err .type)
  | _, _ => (heap, .err .type)

/-- `+` on two lists (new list) or two tuples; `none` otherwise (not modelled here) -/
def addVals (F : FloatOps) (mech : Bool) (heap : Heap) (a b : HVal) : Option (Heap × HVal) :=
  match a, b with
  | .lref h, .lref h' =>
    match getList heap h, getList heap h' with
    | some xs, some ys => some (allocList heap (xs ++ ys))
    | _, _ => none
  | .tuple xs, .tuple ys => some (heap, .tuple (xs ++ ys))
  | .mref h, .mref h' =>
    match getMap heap h, getMap heap h' with
    | some xs, some ys => some (allocMap heap (OMap.extend (insM F mech) xs ys))
    | _, _ => none
  | _, _ => none

end Heap
end KotoVerif
