/-
Model of Koto's iterator machinery (C13):

* sources   — `crates/runtime/src/types/iterator.rs` (ListIterator / TupleIterator / MapIterator,
              RangeIterator over `KRange::pop_front/pop_back`, StringIterator, GeneratorIterator,
              MetaIterator, ByteIterator) and `core_lib/iterator/generators.rs` (Once, RepeatN, Repeat);
* adaptors  — `core_lib/iterator/adaptors.rs`, one state machine each, written as the code does it
              (cursor arithmetic, caches, `nth`, loops, what is called after exhaustion);
* consumers — the closures of `core_lib/iterator.rs: make_module()`.

Shape (DESIGN §6 C13): an iterator is a coalgebra `Co = (σ, next, back, bidir)`; every adaptor is a
*non-recursive* function from the inner `Co` to a new `Co`, so no adaptor needs a termination
argument. The two adaptors that loop until something is found (`Keep`, `Flatten`) take an explicit
loop bound (`fuel`); theorems about them are stated for every sufficiently large fuel.

Effects. `next` returns, besides the output and the successor state, the list of *events* it caused:
sources that are Koto code (generator, `@next` object) log every pull, callbacks log their argument.
This makes the interleaving of pulls and callback calls — laziness and order — part of the model's
observable behaviour, and it is what the correspondence harness compares with the real runtime.

Representation decisions (also listed in `props/C13.json`):
* `KIteratorOutput::ValuePair(a, b)` is represented by its `collect_pair` image `tuple [a, b]`. The
  only places where the code distinguishes a pair from a 2-tuple (`Enumerate`, `Zip`, `to_map`, the
  callback argument packing) treat both the same way.
* States are values, so `make_copy` is the identity on model states: every adaptor's `make_copy`
  copies its input iterator(s), and `Peekable::copy` copies the wrapped iterator (since /repo commit
  7e68542; before, the derived `Clone` shared it — finding F-C13-2). Aliasing created by handing the
  *same* `KIterator` to two owners (`Iterator(i) => Ok(i)` in `make_iterator`) and the position an
  `@next` object keeps in its own map entries (shared by `MetaIterator::make_copy`, finding F-C13-3)
  are outside the model.
* `KIteratorOutput::Error` is not modelled: callbacks are total functions from a fixed menu. Errors
  arise at construction (`chunks 0`, `windows 0`, `step 0`, `reversed` of a forward-only iterator)
  and in consumers (`+`, `<` on unsupported operands, unhashable map keys).
-/
import KotoVerif.Model.Value

namespace KotoVerif.Iter
open KotoVerif

/-! ### events, results, coalgebras -/

/-- Observable side effects. `pull k i`: source `k` was asked for its `i`-th element from the front;
`back k i`: source `k` was asked for element `i` from the back; `done k`: generator `k` ran to its end;
`call f args`: callback number `f` was called with `args`. -/
inductive Ev where
  | pull (src i : Nat)
  | back (src i : Nat)
  | done (src : Nat)
  | call (fn : Nat) (args : List Val)
  deriving Repr, Inhabited

/-- Result of one `next` / `next_back` call. -/
structure Res (σ : Type) where
  out : Option Val
  st : σ
  ev : List Ev

/-- An iterator implementation: `KotoIterator` (`next`, `next_back`, `is_bidirectional`). -/
structure Co where
  σ : Type
  next : σ → Res σ
  back : σ → Res σ
  bidir : Bool

/-- `KotoIterator::next_back` default implementation -/
def noBack {σ : Type} (s : σ) : Res σ := ⟨none, s, []⟩

/-! ### callbacks (a fixed menu of total functions; each call is logged) -/

/-- the scripts' `key` helper: a number for every value -/
def key : Val → Int
  | .num (.i n) => n.toInt
  | .str bs => bs.length
  | .tuple xs => xs.length
  | .list xs => xs.length
  | _ => 0

/-- functions given to `each` -/
inductive Fn where
  | ident | num | wrap | box
  deriving Repr, DecidableEq, Inhabited

def Fn.tag : Fn → Nat
  | .ident => 10 | .num => 11 | .wrap => 12 | .box => 13

def Fn.app : Fn → Val → Val
  | .ident, x => x
  | .num, x => Val.int (key x * 2 + 1)
  | .wrap, x => .tuple [x, Val.int (key x)]
  | .box, x => .list [x]

/-- predicates given to `keep`, `take`, `find`, `position`, `any`, `all` -/
inductive Pred where
  | tt | ff | even | small | nz3
  deriving Repr, DecidableEq, Inhabited

def Pred.tag : Pred → Nat
  | .tt => 20 | .ff => 21 | .even => 22 | .small => 23 | .nz3 => 24

def Pred.app : Pred → Val → Bool
  | .tt, _ => true
  | .ff, _ => false
  | .even, x => Int.tmod (key x) 2 == 0
  | .small, x => key x < 12
  | .nz3, x => Int.tmod (key x) 3 != 0

/-- key functions given to `min` / `max` / `min_max` -/
inductive KeyFn where
  | mod3 | neg
  deriving Repr, DecidableEq, Inhabited

def KeyFn.tag : KeyFn → Nat
  | .mod3 => 30 | .neg => 31

def KeyFn.app : KeyFn → Val → Val
  | .mod3, x => Val.int (Int.tmod (key x) 3)
  | .neg, x => Val.int (0 - key x)

def tagFold : Nat := 40
def tagSep : Nat := 41
def tagConsume : Nat := 42
def tagFor : Nat := 43
def tagAdd : Nat := 44
def tagMul : Nat := 45
def tagLess : Nat := 46
def tagFoldPair : Nat := 47

/-- the value returned by the `intersperse` separator function -/
def sepVal : Val := Val.int (-1)

/-- the fold function of the scripts: `|acc, x| acc * 3 + key(x)` (wrapping i64) -/
def foldFn (acc x : Val) : Val :=
  match acc with
  | .num (.i a) => .num (.i (a * 3 + Int64.ofInt (key x)))
  | _ => .null

/-! ### sources -/

/-- cursor of ListIterator / TupleIterator / MapIterator / ByteIterator -/
structure Idx where
  idx : Nat
  stop : Nat
  deriving Repr, DecidableEq

/-- ListIterator, TupleIterator, MapIterator: `index`, `end`; `get_output` is `xs.get(i)` -/
def seqCo (xs : List Val) : Co where
  σ := Idx
  next s := if s.stop > s.idx then ⟨xs[s.idx]?, ⟨s.idx + 1, s.stop⟩, []⟩ else ⟨none, s, []⟩
  back s := if s.stop > s.idx then ⟨xs[s.stop - 1]?, ⟨s.idx, s.stop - 1⟩, []⟩ else ⟨none, s, []⟩
  bidir := true

/-- ByteIterator (`KIterator::with_bytes`): the same cursor pair as the list iterator; `next_back`
decrements `end` and reads `bytes[end]` (since /repo commit 0c6b903; before it read `bytes[index]`,
finding F-C13-1) -/
def hostBytesCo (xs : List Val) : Co where
  σ := Idx
  next s := if s.stop > s.idx then ⟨xs[s.idx]?, ⟨s.idx + 1, s.stop⟩, []⟩ else ⟨none, s, []⟩
  back s := if s.stop > s.idx then ⟨xs[s.stop - 1]?, ⟨s.idx, s.stop - 1⟩, []⟩ else ⟨none, s, []⟩
  bidir := true

/-- a bounded `KRange` being consumed -/
structure Rng where
  a : Int
  b : Int
  incl : Bool
  deriving Repr, DecidableEq

/-- `KRange::pop_front` -/
def Rng.popFront (r : Rng) : Option Int × Rng :=
  if r.a < r.b then (some r.a, { r with a := r.a + 1 })
  else if r.a = r.b then
    if r.incl then (some r.a, { r with incl := false }) else (none, r)
  else (none, r)

/-- `KRange::pop_back` -/
def Rng.popBack (r : Rng) : Option Int × Rng :=
  if r.a < r.b then (some (if r.incl then r.b else r.b - 1), { r with b := r.b - 1 })
  else if r.a = r.b then
    if r.incl then (some r.a, { r with incl := false }) else (none, r)
  else (none, r)

def rangeCo : Co where
  σ := Rng
  next r := let (o, r') := r.popFront; ⟨o.map Val.int, r', []⟩
  back r := let (o, r') := r.popBack; ⟨o.map Val.int, r', []⟩
  bidir := true

/-- StringIterator: `KString::pop_front/pop_back` remove one grapheme cluster; the state is the list
of remaining clusters (cluster boundaries are an input, supplied by the harness) -/
def strCo : Co where
  σ := List Val
  next s := match s with
    | [] => ⟨none, [], []⟩
    | x :: xs => ⟨some x, xs, []⟩
  back s := match s.getLast? with
    | none => ⟨none, s, []⟩
    | some x => ⟨some x, s.dropLast, []⟩
  bidir := true

/-- silent forward-only cursor (`string.bytes`) -/
def fwdCo (xs : List Val) : Co where
  σ := Nat
  next i := match xs[i]? with
    | some x => ⟨some x, i + 1, []⟩
    | none => ⟨none, i, []⟩
  back := noBack
  bidir := false

/-- GeneratorIterator over the script
`|| for i, x in xs: emit pull k i; yield x` followed by `emit done k`.
A finished generator (`call_stack.is_empty()`) returns `None` without running anything. -/
def genCo (k : Nat) (xs : List Val) : Co where
  σ := Nat × Bool
  next s :=
    match xs[s.1]? with
    | some x => ⟨some x, (s.1 + 1, false), [Ev.pull k s.1]⟩
    | none => if s.2 then ⟨none, s, []⟩ else ⟨none, (s.1, true), [Ev.done k]⟩
  back := noBack
  bidir := false

/-- MetaIterator over a map with `@next` that logs *every* call (also past the end) and returns
`null` (= end of iteration) once its index reaches the length -/
def metaCo (k : Nat) (xs : List Val) : Co where
  σ := Nat
  next i :=
    match xs[i]? with
    | some x => ⟨some x, i + 1, [Ev.pull k i]⟩
    | none => ⟨none, i, [Ev.pull k i]⟩
  back := noBack
  bidir := false

/-- MetaIterator over a map with `@next` and `@next_back` (front index `i`, back index `j`) -/
def metabCo (k : Nat) (xs : List Val) : Co where
  σ := Idx
  next s :=
    if s.idx < s.stop then ⟨xs[s.idx]?, ⟨s.idx + 1, s.stop⟩, [Ev.pull k s.idx]⟩
    else ⟨none, s, [Ev.pull k s.idx]⟩
  back s :=
    if s.idx < s.stop then ⟨xs[s.stop - 1]?, ⟨s.idx, s.stop - 1⟩, [Ev.back k s.stop]⟩
    else ⟨none, s, [Ev.back k s.stop]⟩
  bidir := true

/-- RepeatN / Once -/
def repCo (v : Val) : Co where
  σ := Nat
  next n := if n > 0 then ⟨some v, n - 1, []⟩ else ⟨none, n, []⟩
  back := noBack
  bidir := false

/-- Repeat -/
def repInfCo (v : Val) : Co where
  σ := Unit
  next _ := ⟨some v, (), []⟩
  back := noBack
  bidir := false

/-! ### adaptors (`adaptors.rs`) -/

/-- `Each` -/
def eachCo (f : Fn) (c : Co) : Co where
  σ := c.σ
  next s :=
    let r := c.next s
    match r.out with
    | some v => ⟨some (f.app v), r.st, r.ev ++ [Ev.call f.tag [v]]⟩
    | none => ⟨none, r.st, r.ev⟩
  back s :=
    let r := c.back s
    match r.out with
    | some v => ⟨some (f.app v), r.st, r.ev ++ [Ev.call f.tag [v]]⟩
    | none => ⟨none, r.st, r.ev⟩
  bidir := c.bidir

/-- `Enumerate`: the index is incremented on every call, also when the input is exhausted -/
def enumerateCo (c : Co) : Co where
  σ := c.σ × Nat
  next s :=
    let r := c.next s.1
    ⟨r.out.map (fun v => Val.tuple [Val.int s.2, v]), (r.st, s.2 + 1), r.ev⟩
  back := noBack
  bidir := false

/-- `Take` -/
def takeCo (c : Co) : Co where
  σ := c.σ × Nat
  next s :=
    if s.2 > 0 then
      let r := c.next s.1
      ⟨r.out, (r.st, s.2 - 1), r.ev⟩
    else ⟨none, s, []⟩
  back := noBack
  bidir := false

/-- `TakeWhile` -/
def takeWhileCo (p : Pred) (c : Co) : Co where
  σ := c.σ × Bool
  next s :=
    if s.2 then ⟨none, s, []⟩
    else
      let r := c.next s.1
      match r.out with
      | none => ⟨none, (r.st, false), r.ev⟩
      | some v =>
        if p.app v then ⟨some v, (r.st, false), r.ev ++ [Ev.call p.tag [v]]⟩
        else ⟨none, (r.st, true), r.ev ++ [Ev.call p.tag [v]]⟩
  back := noBack
  bidir := false

/-- `Iterator::advance_by(n)`: call `next` up to `n` times, stop at the first `None`.
Returns whether all `n` steps succeeded. -/
def advance (c : Co) : Nat → c.σ → Bool × c.σ × List Ev
  | 0, s => (true, s, [])
  | n + 1, s =>
    let r := c.next s
    match r.out with
    | none => (false, r.st, r.ev)
    | some _ =>
      let (ok, s', e) := advance c n r.st
      (ok, s', r.ev ++ e)

/-- `Iterator::nth(n)` (std default): `advance_by(n).ok()?; next()` -/
def nth (c : Co) (n : Nat) (s : c.σ) : Res c.σ :=
  let (ok, s', e) := advance c n s
  if ok then
    let r := c.next s'
    ⟨r.out, r.st, e ++ r.ev⟩
  else ⟨none, s', e⟩

/-- `Skip` -/
def skipCo (c : Co) : Co where
  σ := c.σ × Nat
  next s :=
    if s.2 > 0 then
      let r := nth c s.2 s.1
      ⟨r.out, (r.st, 0), r.ev⟩
    else
      let r := c.next s.1
      ⟨r.out, (r.st, 0), r.ev⟩
  back s :=
    if s.2 > 0 then
      let r := nth c (s.2 - 1) s.1
      let r' := c.back r.st
      ⟨r'.out, (r'.st, 0), r.ev ++ r'.ev⟩
    else
      let r := c.back s.1
      ⟨r.out, (r.st, 0), r.ev⟩
  bidir := c.bidir

/-- call `next` `n` times, discarding the outputs and *not* stopping at `None` (`Step`) -/
def pullN (c : Co) : Nat → c.σ → c.σ × List Ev
  | 0, s => (s, [])
  | n + 1, s =>
    let r := c.next s
    let (s', e) := pullN c n r.st
    (s', r.ev ++ e)

/-- `Step` (`step ≥ 1`), lazy: the `pending` stepped-over elements are skipped right before the next
value is needed (stopping at the first `None`); after a value was yielded `step - 1` are pending -/
def stepCo (n : Nat) (c : Co) : Co where
  σ := c.σ × Nat
  next s :=
    let (ok, s', e) := advance c s.2 s.1
    if ok then
      let r := c.next s'
      ⟨r.out, (r.st, if r.out.isSome then n - 1 else 0), e ++ r.ev⟩
    else ⟨none, (s', 0), e⟩
  back := noBack
  bidir := false

/-- `Chain`: `iter_a` is dropped (`None`) after its first `None` -/
def chainCo (a b : Co) : Co where
  σ := Option a.σ × b.σ
  next s :=
    match s.1 with
    | some sa =>
      let ra := a.next sa
      match ra.out with
      | some v => ⟨some v, (some ra.st, s.2), ra.ev⟩
      | none =>
        let rb := b.next s.2
        ⟨rb.out, (none, rb.st), ra.ev ++ rb.ev⟩
    | none =>
      let rb := b.next s.2
      ⟨rb.out, (none, rb.st), rb.ev⟩
  back := noBack
  bidir := false

/-- `Zip`: `a` first; `b` is only asked when `a` produced a value -/
def zipCo (a b : Co) : Co where
  σ := a.σ × b.σ
  next s :=
    let ra := a.next s.1
    match ra.out with
    | some va =>
      let rb := b.next s.2
      match rb.out with
      | some vb => ⟨some (Val.tuple [va, vb]), (ra.st, rb.st), ra.ev ++ rb.ev⟩
      | none => ⟨none, (ra.st, rb.st), ra.ev ++ rb.ev⟩
    | none => ⟨none, (ra.st, s.2), ra.ev⟩
  back := noBack
  bidir := false

/-- `iter.take(n)` collected: up to `n` values, stops at the first `None` -/
def takeUpTo (c : Co) : Nat → c.σ → List Val × c.σ × List Ev
  | 0, s => ([], s, [])
  | n + 1, s =>
    let r := c.next s
    match r.out with
    | none => ([], r.st, r.ev)
    | some v =>
      let (vs, s', e) := takeUpTo c n r.st
      (v :: vs, s', r.ev ++ e)

/-- `Chunks` (`chunk_size ≥ 1`) -/
def chunksCo (n : Nat) (c : Co) : Co where
  σ := c.σ
  next s :=
    let (vs, s', e) := takeUpTo c n s
    ⟨if vs.isEmpty then none else some (Val.tuple vs), s', e⟩
  back := noBack
  bidir := false

/-- the `while cache.len() < window_size` loop of `Windows::next` (`k` = missing elements) -/
def fillCache (c : Co) : Nat → c.σ → List Val → List Val × c.σ × List Ev
  | 0, s, cache => (cache, s, [])
  | k + 1, s, cache =>
    let r := c.next s
    match r.out with
    | none => (cache, r.st, r.ev)
    | some v =>
      let (cache', s', e) := fillCache c k r.st (cache ++ [v])
      (cache', s', r.ev ++ e)

/-- `Windows` (`window_size ≥ 1`): `pop_front`, refill, yield the cache when it is full -/
def windowsCo (n : Nat) (c : Co) : Co where
  σ := c.σ × List Val
  next s :=
    let cache := s.2.drop 1
    let (cache', s', e) := fillCache c (n - cache.length) s.1 cache
    ⟨if cache'.length = n then some (Val.tuple cache') else none, (s', cache'), e⟩
  back := noBack
  bidir := false

/-- state of `Intersperse` / `IntersperseWith` -/
structure Inter (σ : Type) where
  inner : σ
  peeked : Option Val
  nextIsSep : Bool

/-- `Intersperse` (`logSep = false`) and `IntersperseWith` (`logSep = true`: the separator function is
called, which is logged) -/
def intersperseCo (sep : Val) (logSep : Bool) (c : Co) : Co where
  σ := Inter c.σ
  next s :=
    let r : Res c.σ := match s.peeked with
      | some v => ⟨some v, s.inner, []⟩
      | none => c.next s.inner
    match r.out with
    | some v =>
      if s.nextIsSep then
        ⟨some sep, ⟨r.st, some v, false⟩, r.ev ++ (if logSep then [Ev.call tagSep []] else [])⟩
      else ⟨some v, ⟨r.st, none, true⟩, r.ev⟩
    | none => ⟨none, ⟨r.st, none, s.nextIsSep⟩, r.ev⟩
  back := noBack
  bidir := false

/-- the `for output in &mut self.iter` loop of `Keep::next`, at most `fuel` iterations -/
def keepLoop (p : Pred) (c : Co) : Nat → c.σ → Res c.σ
  | 0, s => ⟨none, s, []⟩
  | fuel + 1, s =>
    let r := c.next s
    match r.out with
    | none => ⟨none, r.st, r.ev⟩
    | some v =>
      if p.app v then ⟨some v, r.st, r.ev ++ [Ev.call p.tag [v]]⟩
      else
        let r' := keepLoop p c fuel r.st
        ⟨r'.out, r'.st, r.ev ++ [Ev.call p.tag [v]] ++ r'.ev⟩

/-- `Keep` -/
def keepCo (fuel : Nat) (p : Pred) (c : Co) : Co where
  σ := c.σ
  next s := keepLoop p c fuel s
  back := noBack
  bidir := false

/-- split UTF-8 bytes into code points (a byte `10xxxxxx` continues the current one) -/
def utf8Chars : List Nat → List (List Nat)
  | [] => []
  | b :: bs =>
    match utf8Chars bs with
    | [] => [[b]]
    | c :: cs =>
      match bs with
      | [] => [[b]]
      | b' :: _ => if 128 ≤ b' ∧ b' < 192 then (b :: c) :: cs else [b] :: c :: cs

/-- elements of an iterable *value* (what `make_iterator` would iterate over), `none` if the value
is not iterable. Strings nested in sequences: one cluster per code point (the harness nests no
combining sequences; top-level string sources get their cluster boundaries from the harness). -/
def elemsOf : Val → Option (List Val)
  | .tuple xs => some xs
  | .list xs => some xs
  | .str bs => some ((utf8Chars bs).map Val.str)
  | .range (some a) (some (b, incl)) =>
    let lo := a.toInt
    let hi := if incl then b.toInt + 1 else b.toInt
    some ((List.range (hi - lo).toNat).map (fun (i : Nat) => Val.int (lo + i)))
  -- maps occur as elements only as *boxes* (maps with a metamap, see `boxOf`), which are not iterable
  | .map _ => none
  | _ => none

/-- the `loop` of `Flatten::next`, at most `fuel` iterations. The nested iterator runs over an
immutable value and is represented by its remaining elements. -/
def flattenLoop (c : Co) : Nat → c.σ → Option (List Val) → Res (c.σ × Option (List Val))
  | 0, s, nested => ⟨none, (s, nested), []⟩
  | fuel + 1, s, nested =>
    match nested with
    | some (x :: rest) => ⟨some x, (s, some rest), []⟩
    | _ =>
      let r := c.next s
      match r.out with
      | none => ⟨none, (r.st, nested), r.ev⟩
      | some v =>
        match elemsOf v with
        | some es =>
          let r' := flattenLoop c fuel r.st (some es)
          ⟨r'.out, r'.st, r.ev ++ r'.ev⟩
        | none => ⟨some v, (r.st, nested), r.ev⟩

/-- `Flatten` -/
def flattenCo (fuel : Nat) (c : Co) : Co where
  σ := c.σ × Option (List Val)
  next s := flattenLoop c fuel s.1 s.2
  back := noBack
  bidir := false

/-- state of `Cycle` -/
structure Cyc (σ : Type) where
  inner : σ
  cache : List Val
  idx : Nat

/-- `Cycle`: the input is asked on *every* call, also after it returned `None` -/
def cycleCo (c : Co) : Co where
  σ := Cyc c.σ
  next s :=
    let r := c.next s.inner
    match r.out with
    | some v => ⟨some v, ⟨r.st, s.cache ++ [v], s.idx⟩, r.ev⟩
    | none =>
      if s.cache.isEmpty then ⟨none, ⟨r.st, s.cache, s.idx⟩, r.ev⟩
      else
        let i := if s.idx = s.cache.length then 0 else s.idx
        ⟨s.cache[i]?, ⟨r.st, s.cache, i + 1⟩, r.ev⟩
  back := noBack
  bidir := false

/-- `Reversed` (only built over a bidirectional iterator) -/
def reversedCo (c : Co) : Co where
  σ := c.σ
  next s := c.back s
  back s := c.next s
  bidir := true

/-- state of `Peekable` -/
structure Peek (σ : Type) where
  inner : σ
  front : Option Val
  rear : Option Val

/-- `Peekable` used as an iterator (`iterator_next` / `iterator_next_back`). Over a forward-only
iterator `next_back` returns `None` at once and leaves the state alone (since /repo commit 582d021;
before, the wrapped iterator's default `next_back() == None` was taken for "exhausted" and the cached
front value handed out from the back — finding F-C13-4). -/
def peekableCo (c : Co) : Co where
  σ := Peek c.σ
  next s :=
    match s.front with
    | some v => ⟨some v, { s with front := none }, []⟩
    | none =>
      let r := c.next s.inner
      match r.out with
      | some v => ⟨some v, { s with inner := r.st }, r.ev⟩
      | none => ⟨s.rear, ⟨r.st, none, none⟩, r.ev⟩
  back s :=
    if c.bidir then
      match s.rear with
      | some v => ⟨some v, { s with rear := none }, []⟩
      | none =>
        let r := c.back s.inner
        match r.out with
        | some v => ⟨some v, { s with inner := r.st }, r.ev⟩
        | none => ⟨s.front, ⟨r.st, none, none⟩, r.ev⟩
    else ⟨none, s, []⟩
  bidir := c.bidir

/-- the script-visible operations of a `Peekable` object -/
inductive PeekOp where
  | next | back | peek | peekBack
  deriving Repr, DecidableEq, Inhabited

/-- `Peekable::peek`: the cached front value, else `self.next()` (which falls back to the cached
back value when the wrapped iterator is exhausted) whose result is cached in `peeked_front` -/
def peekFront (c : Co) (s : Peek c.σ) : Res (Peek c.σ) :=
  match s.front with
  | some v => ⟨some v, s, []⟩
  | none =>
    let r := (peekableCo c).next s
    match r.out with
    | none => ⟨none, r.st, r.ev⟩
    | some v => ⟨some v, { r.st with front := some v }, r.ev⟩

/-- `Peekable::peek_back`, symmetric (over a forward-only iterator `next_back` gives `None`, so
`peek_back` gives null and never caches anything) -/
def peekRear (c : Co) (s : Peek c.σ) : Res (Peek c.σ) :=
  match s.rear with
  | some v => ⟨some v, s, []⟩
  | none =>
    let r := (peekableCo c).back s
    match r.out with
    | none => ⟨none, r.st, r.ev⟩
    | some v => ⟨some v, { r.st with rear := some v }, r.ev⟩

def peekStep (c : Co) (op : PeekOp) (s : Peek c.σ) : Res (Peek c.σ) :=
  match op with
  | .next => (peekableCo c).next s
  | .back => (peekableCo c).back s
  | .peek => peekFront c s
  | .peekBack => peekRear c s

/-- a sequence of operations on a `Peekable`; outputs (or the end marker) collected -/
def runPeekOps (c : Co) (endM : Val) : List PeekOp → Peek c.σ → List Val × Peek c.σ × List Ev
  | [], s => ([], s, [])
  | op :: ops, s =>
    let r := peekStep c op s
    let (vs, s', e) := runPeekOps c endM ops r.st
    (r.out.getD endM :: vs, s', r.ev ++ e)

/-- `PairFirst` / `PairSecond` (`map.keys`, `map.values`): forward only -/
def pairCo (first : Bool) (c : Co) : Co where
  σ := c.σ
  next s :=
    let r := c.next s
    ⟨r.out.map (fun v => match v with
      | .tuple [a, b] => if first then a else b
      | other => other), r.st, r.ev⟩
  back := noBack
  bidir := false

/-! ### pipelines -/

inductive Src where
  | seq (xs : List Val)                 -- list, tuple, map (entries as 2-tuples)
  | range (a b : Int) (incl : Bool)
  | str (clusters : List Val)
  | fwd (xs : List Val)                 -- string.bytes
  | gen (k : Nat) (xs : List Val)       -- generator function / @iterator generator
  | obj (k : Nat) (xs : List Val)       -- map with @next
  | objb (k : Nat) (xs : List Val)      -- map with @next and @next_back
  | rep (v : Val) (n : Nat)             -- iterator.repeat(v, n), iterator.once(v)
  | repInf (v : Val)                    -- iterator.repeat(v)
  | hostBytes (xs : List Val)           -- KIterator::with_bytes
  deriving Repr, Inhabited

inductive Pipe where
  | src (s : Src)
  | each (f : Fn) (p : Pipe)
  | keep (q : Pred) (p : Pipe)
  | take (n : Nat) (p : Pipe)
  | takeWhile (q : Pred) (p : Pipe)
  | skip (n : Nat) (p : Pipe)
  | step (n : Nat) (p : Pipe)
  | chain (p q : Pipe)
  | zip (p q : Pipe)
  | enumerate (p : Pipe)
  | chunks (n : Nat) (p : Pipe)
  | windows (n : Nat) (p : Pipe)
  | flatten (p : Pipe)
  | intersperse (v : Val) (p : Pipe)
  | intersperseWith (p : Pipe)
  | cycle (p : Pipe)
  | reversed (p : Pipe)
  | peekable (p : Pipe)
  | pairFirst (p : Pipe)
  | pairSecond (p : Pipe)
  deriving Repr, Inhabited

/-- a running iterator: implementation + current state -/
structure It where
  c : Co
  s : c.σ

def It.next (it : It) : Option Val × It × List Ev :=
  let r := it.c.next it.s
  (r.out, ⟨it.c, r.st⟩, r.ev)

def It.back (it : It) : Option Val × It × List Ev :=
  let r := it.c.back it.s
  (r.out, ⟨it.c, r.st⟩, r.ev)

def Src.it : Src → It
  | .seq xs => ⟨seqCo xs, ⟨0, xs.length⟩⟩
  | .range a b incl => ⟨rangeCo, ⟨a, b, incl⟩⟩
  | .str cl => ⟨strCo, cl⟩
  | .fwd xs => ⟨fwdCo xs, (0 : Nat)⟩
  | .gen k xs => ⟨genCo k xs, ((0 : Nat), false)⟩
  | .obj k xs => ⟨metaCo k xs, (0 : Nat)⟩
  | .objb k xs => ⟨metabCo k xs, ⟨0, xs.length⟩⟩
  | .rep v n => ⟨repCo v, n⟩
  | .repInf v => ⟨repInfCo v, ()⟩
  | .hostBytes xs => ⟨hostBytesCo xs, ⟨0, xs.length⟩⟩

/-- construction (`make_module()` closures: `make_iterator` on the receiver, then the adaptor's `new`).
Construction never pulls. `fuel` bounds the internal loops of `Keep` and `Flatten`. -/
def build (fuel : Nat) : Pipe → It
  | .src s => s.it
  | .each f p => let it := build fuel p; ⟨eachCo f it.c, it.s⟩
  | .keep q p => let it := build fuel p; ⟨keepCo fuel q it.c, it.s⟩
  | .take n p => let it := build fuel p; ⟨takeCo it.c, (it.s, n)⟩
  | .takeWhile q p => let it := build fuel p; ⟨takeWhileCo q it.c, (it.s, false)⟩
  | .skip n p => let it := build fuel p; ⟨skipCo it.c, (it.s, n)⟩
  | .step n p => let it := build fuel p; ⟨stepCo n it.c, (it.s, 0)⟩
  | .chain p q => let a := build fuel p; let b := build fuel q; ⟨chainCo a.c b.c, (some a.s, b.s)⟩
  | .zip p q => let a := build fuel p; let b := build fuel q; ⟨zipCo a.c b.c, (a.s, b.s)⟩
  | .enumerate p => let it := build fuel p; ⟨enumerateCo it.c, (it.s, 0)⟩
  | .chunks n p => let it := build fuel p; ⟨chunksCo n it.c, it.s⟩
  | .windows n p => let it := build fuel p; ⟨windowsCo n it.c, (it.s, [])⟩
  | .flatten p => let it := build fuel p; ⟨flattenCo fuel it.c, (it.s, none)⟩
  | .intersperse v p => let it := build fuel p; ⟨intersperseCo v false it.c, ⟨it.s, none, false⟩⟩
  | .intersperseWith p => let it := build fuel p; ⟨intersperseCo sepVal true it.c, ⟨it.s, none, false⟩⟩
  | .cycle p => let it := build fuel p; ⟨cycleCo it.c, ⟨it.s, [], 0⟩⟩
  | .reversed p => let it := build fuel p; ⟨reversedCo it.c, it.s⟩
  | .peekable p => let it := build fuel p; ⟨peekableCo it.c, ⟨it.s, none, none⟩⟩
  | .pairFirst p => let it := build fuel p; ⟨pairCo true it.c, it.s⟩
  | .pairSecond p => let it := build fuel p; ⟨pairCo false it.c, it.s⟩

inductive Err where
  | chunks | windows | step | reversed   -- construction errors
  | type | key                            -- consumer errors: operator on unsupported operands, unhashable key
  | fuel | unsupported                    -- model limits (never compared)
  deriving Repr, DecidableEq, Inhabited

/-- `is_bidirectional()` of the iterator a pipeline builds (independent of `fuel`) -/
def Pipe.bidir : Pipe → Bool
  | .src (.seq _) | .src (.range ..) | .src (.str _) | .src (.objb ..) | .src (.hostBytes _) => true
  | .src _ => false
  | .each _ p => p.bidir
  | .skip _ p => p.bidir
  | .reversed _ => true
  | .peekable p => p.bidir
  | _ => false

/-- the first construction error, in evaluation order (receiver, argument, then the adaptor itself) -/
def Pipe.err : Pipe → Option Err
  | .src _ => none
  | .each _ p | .keep _ p | .take _ p | .takeWhile _ p | .skip _ p | .enumerate p | .flatten p
  | .intersperse _ p | .intersperseWith p | .cycle p | .peekable p | .pairFirst p | .pairSecond p => p.err
  | .step n p => p.err <|> (if n = 0 then some .step else none)
  | .chunks n p => p.err <|> (if n = 0 then some .chunks else none)
  | .windows n p => p.err <|> (if n = 0 then some .windows else none)
  | .chain p q | .zip p q => p.err <|> q.err
  | .reversed p => p.err <|> (if p.bidir then none else some .reversed)

/-! ### consumers (`core_lib/iterator.rs`) -/

abbrev Ans := Except Err Val

/-- generic consumer loop (`for output in iterator { … }`): every output is handed to `f`, which
returns the events it caused and either a new accumulator or the final answer (early exit). -/
def foldIt {α : Type} (f : α → Val → List Ev × Sum α Ans) (fin : α → Ans) :
    Nat → It → α → Ans × It × List Ev
  | 0, it, _ => (.error .fuel, it, [])
  | n + 1, it, a =>
    let r := it.c.next it.s
    match r.out with
    | none => (fin a, ⟨it.c, r.st⟩, r.ev)
    | some v =>
      let (e, x) := f a v
      match x with
      | .inr ans => (ans, ⟨it.c, r.st⟩, r.ev ++ e)
      | .inl a' =>
        let (ans, it', e') := foldIt f fin n ⟨it.c, r.st⟩ a'
        (ans, it', r.ev ++ e ++ e')

mutual
/-- value equality on hashable values (what `ValueKey` equality sees) -/
def Val.same : Val → Val → Bool
  | .null, .null => true
  | .bool a, .bool b => a == b
  | .num a, .num b => a == b
  | .str a, .str b => a == b
  | .range a b, .range c d => a == c && b == d
  | .tuple xs, .tuple ys => Val.sameList xs ys
  | .list xs, .list ys => Val.sameList xs ys
  | _, _ => false
def Val.sameList : List Val → List Val → Bool
  | [], [] => true
  | x :: xs, y :: ys => Val.same x y && Val.sameList xs ys
  | _, _ => false
end

mutual
/-- `KValue::is_hashable` -/
def Val.hashable : Val → Bool
  | .null | .bool _ | .num _ | .range .. | .str _ => true
  | .tuple xs => Val.hashableList xs
  | _ => false
def Val.hashableList : List Val → Bool
  | [] => true
  | x :: xs => Val.hashable x && Val.hashableList xs
end

/-- `ValueMap::insert` (IndexMap): an existing key keeps its position and gets the new value -/
def mapInsert (k v : Val) : List (Val × Val) → List (Val × Val)
  | [] => [(k, v)]
  | (k', v') :: rest => if Val.same k' k then (k', v) :: rest else (k', v') :: mapInsert k v rest

/-- A *box* is the scripts' order-logging object: a map `{v: payload}` whose metamap defines `@+`,
`@*` and `@<`. Each operator logs `(own payload, other operand unboxed)`; `+` / `*` build a new box
whose payload records both operands in order (a tuple for `+`, a list for `*`), `<` compares `key`. -/
def boxOf (v : Val) : Val := .map [(.str [118], v)]

def unbox : Val → Val
  | .map [(.str [118], v)] => v
  | x => x

/-- `run_add` on non-box operands: Number + Number (wrapping), and concatenation of two strings, two
lists or two tuples; any other combination is an error -/
def addVal : Val → Val → Ans
  | .num (.i a), .num (.i b) => .ok (.num (.i (a + b)))
  | .num _, .num _ => .error .unsupported
  | .str a, .str b => .ok (.str (a ++ b))
  | .list a, .list b => .ok (.list (a ++ b))
  | .tuple a, .tuple b => .ok (.tuple (a ++ b))
  | _, _ => .error .type

def mulVal : Val → Val → Ans
  | .num (.i a), .num (.i b) => .ok (.num (.i (a * b)))
  | .num _, .num _ => .error .unsupported
  | _, _ => .error .type

/-- `run_binary_op(Add, lhs, rhs)`: a box on the *left* answers with its `@+` (whatever the right
operand is); a box on the right of a non-box has no `@r+` and is an error -/
def addOp (a b : Val) : List Ev × Ans :=
  match a with
  | .map [(.str [118], v)] => ([Ev.call tagAdd [v, unbox b]], .ok (boxOf (.tuple [v, unbox b])))
  | _ => ([], addVal a b)

def mulOp (a b : Val) : List Ev × Ans :=
  match a with
  | .map [(.str [118], v)] => ([Ev.call tagMul [v, unbox b]], .ok (boxOf (.list [v, unbox b])))
  | _ => ([], mulVal a b)

/-- bytewise lexicographic `<` (Rust `str` ordering) -/
def bytesLt : List Nat → List Nat → Bool
  | _, [] => false
  | [], _ :: _ => true
  | a :: as, b :: bs => a < b || (a == b && bytesLt as bs)

/-- `run_less` on non-box operands: Number < Number, String < String, anything else is an error -/
def ltVal : Val → Val → Except Err Bool
  | .num (.i a), .num (.i b) => .ok (a < b)
  | .num _, .num _ => .error .unsupported
  | .str a, .str b => .ok (bytesLt a b)
  | _, _ => .error .type

/-- `run_binary_op(Less, lhs, rhs)`: a box on the left answers with its `@<` (logged) -/
def ltOp (a b : Val) : List Ev × Except Err Bool :=
  match a with
  | .map [(.str [118], v)] => ([Ev.call tagLess [v, unbox b]], .ok (decide (key v < key (unbox b))))
  | _ => ([], ltVal a b)

/-- `compare_values(a, b, invert)`: `a < b` selects `a` (min) resp. `b` (max); otherwise the other -/
def pickMin (a b : Val) : List Ev × Ans :=
  match ltOp a b with
  | (e, .ok lt) => (e, .ok (if lt then a else b))
  | (e, .error x) => (e, .error x)

def pickMax (a b : Val) : List Ev × Ans :=
  match ltOp a b with
  | (e, .ok lt) => (e, .ok (if lt then b else a))
  | (e, .error x) => (e, .error x)

/-- the second fold function of the scripts: `|acc, x| (acc, x)` -/
def foldPairFn (acc x : Val) : Val := .tuple [acc, x]

/-- decimal digits of a natural number as bytes -/
def natDigits (n : Nat) : List Nat := (toString n).toList.map Char.toNat

/-- `to_string` on the value kinds whose display form the model covers (integers, strings) -/
def displayBytes : Val → Option (List Nat)
  | .num (.i n) =>
    let i := n.toInt
    some (if i < 0 then 45 :: natDigits i.natAbs else natDigits i.natAbs)
  | .str bs => some bs
  | _ => none

inductive Cons where
  | toList | toTuple | toMap | toString | count | sum | product
  | sumInit (init : Val) | productInit (init : Val) | foldPair
  | min | max | minMax
  | minBy (k : KeyFn) | maxBy (k : KeyFn) | minMaxBy (k : KeyFn)
  | find (q : Pred) | position (q : Pred) | any (q : Pred) | all (q : Pred)
  | last | fold | consume | consumeF (f : Fn) | forLoop
  | calls (dirs : List Bool)       -- `true` = next, `false` = next_back; outputs collected
  | advance (n : Nat)              -- `advance n`, then `to_list`
  | unpack                         -- `a, b, c = it`
  | copyAt (k : Nat) (copyFirst : Bool)
  | peekOps (ops : List PeekOp)    -- `.peekable()` on the pipeline, then next/next_back/peek/peek_back
  /-- `pre` calls, then `c = koto.copy it`, then interleaved calls `(onCopy, isNext)` on copy / original -/
  | copyOps (pre : List Bool) (post : List (Bool × Bool))
  /-- Consuming the iterable *value* itself through one entry path (a `for` loop, multi-assignment
  unpacking, or a library function applied to the value): `pre` × `iterator.next(value)` first, then
  the consumption (`mode` 0: everything, 1: at most two elements, 2: exactly three pulls — unpacking),
  then one more `iterator.next(value)` to observe where the value stands. `persistent`: the value is an
  iterator (KIterator, object with `@next`), so every entry continues where the last one stopped;
  otherwise (containers, ranges, strings, objects with only `@iterator`) every entry starts afresh. -/
  | entry (persistent : Bool) (pre : Nat) (mode : Nat)
  /-- the same on `it = pipeline.peekable()` with the `Peekable` operations -/
  | peekCopy (pre : List PeekOp) (post : List (Bool × PeekOp))
  deriving Repr, Inhabited

def endMarker : Val := .str [69, 78, 68]   -- 'END'

/-- consumer step without events that continues with accumulator `a` -/
def cont {α : Type} (a : α) : List Ev × Sum α Ans := ([], .inl a)

/-- collect every output (`to_list`, …) -/
def drain (fuel : Nat) (it : It) : Ans × It × List Ev :=
  foldIt (fun (acc : List Val) v => cont (acc ++ [v])) (fun acc => .ok (.list acc)) fuel it []

def optPair (r : Option (Val × Val)) : Ans :=
  match r with
  | none => .ok .null
  | some (a, b) => .ok (.tuple [a, b])

/-- consumers that are a single loop over the outputs -/
def runLoop (fuel : Nat) (it : It) : Cons → Ans × It × List Ev
  | .toList => drain fuel it
  | .toTuple =>
    foldIt (fun (acc : List Val) v => cont (acc ++ [v])) (fun acc => .ok (.tuple acc)) fuel it []
  | .toMap =>
    foldIt (fun (acc : List (Val × Val)) v =>
        let (k, x) := match v with
          | .tuple [a, b] => (a, b)
          | other => (other, Val.null)
        if Val.hashable k then cont (mapInsert k x acc) else ([], .inr (.error .key)))
      (fun acc => .ok (.map acc)) fuel it []
  | .toString =>
    foldIt (fun (acc : List Nat) v =>
        match displayBytes v with
        | some bs => cont (acc ++ bs)
        | none => ([], .inr (.error .unsupported)))
      (fun acc => .ok (.str acc)) fuel it []
  | .count => foldIt (fun (n : Nat) _ => cont (n + 1)) (fun n => .ok (Val.int n)) fuel it 0
  | .sum =>
    foldIt (fun (acc : Val) v => match addOp acc v with
        | (e, .ok a) => (e, .inl a)
        | (e, .error x) => (e, .inr (.error x))) (fun a => .ok a) fuel it (Val.int 0)
  | .product =>
    foldIt (fun (acc : Val) v => match mulOp acc v with
        | (e, .ok a) => (e, .inl a)
        | (e, .error x) => (e, .inr (.error x))) (fun a => .ok a) fuel it (Val.int 1)
  | .sumInit init =>
    foldIt (fun (acc : Val) v => match addOp acc v with
        | (e, .ok a) => (e, .inl a)
        | (e, .error x) => (e, .inr (.error x))) (fun a => .ok a) fuel it init
  | .productInit init =>
    foldIt (fun (acc : Val) v => match mulOp acc v with
        | (e, .ok a) => (e, .inl a)
        | (e, .error x) => (e, .inr (.error x))) (fun a => .ok a) fuel it init
  | .foldPair =>
    foldIt (fun (acc : Val) v => ([Ev.call tagFoldPair [acc, v]], .inl (foldPairFn acc v)))
      (fun a => .ok a) fuel it (.tuple [])
  | .min =>
    foldIt (fun (acc : Option Val) v => match acc with
        | none => cont (some v)
        | some a => match pickMin a v with
          | (e, .ok m) => (e, .inl (some m))
          | (e, .error x) => (e, .inr (.error x)))
      (fun a => .ok (a.getD .null)) fuel it none
  | .max =>
    foldIt (fun (acc : Option Val) v => match acc with
        | none => cont (some v)
        | some a => match pickMax a v with
          | (e, .ok m) => (e, .inl (some m))
          | (e, .error x) => (e, .inr (.error x)))
      (fun a => .ok (a.getD .null)) fuel it none
  | .minMax =>
    foldIt (fun (acc : Option (Val × Val)) v => match acc with
        | none => cont (some (v, v))
        | some (lo, hi) => match pickMin lo v with
          | (e, .error x) => (e, .inr (.error x))
          | (e, .ok lo') => match pickMax hi v with
            | (e', .error x) => (e ++ e', .inr (.error x))
            | (e', .ok hi') => (e ++ e', .inl (some (lo', hi'))))
      optPair fuel it none
  | .minBy k =>
    foldIt (fun (acc : Option (Val × Val)) v =>
        let kv := k.app v
        let e := [Ev.call k.tag [v]]
        match acc with
        | none => (e, .inl (some (v, kv)))
        | some (a, ka) => match ltVal ka kv with
          | .error err => (e, .inr (.error err))
          | .ok lt => (e, .inl (some (if lt then (a, ka) else (v, kv)))))
      (fun a => .ok (match a with | none => .null | some (v, _) => v)) fuel it none
  | .maxBy k =>
    foldIt (fun (acc : Option (Val × Val)) v =>
        let kv := k.app v
        let e := [Ev.call k.tag [v]]
        match acc with
        | none => (e, .inl (some (v, kv)))
        | some (a, ka) => match ltVal ka kv with
          | .error err => (e, .inr (.error err))
          | .ok lt => (e, .inl (some (if lt then (v, kv) else (a, ka)))))
      (fun a => .ok (match a with | none => .null | some (v, _) => v)) fuel it none
  | .minMaxBy k =>
    foldIt (fun (acc : Option ((Val × Val) × (Val × Val))) v =>
        let kv := k.app v
        let e := [Ev.call k.tag [v]]
        match acc with
        | none => (e, .inl (some ((v, kv), (v, kv))))
        | some ((lo, klo), (hi, khi)) => match ltVal klo kv with
          | .error err => (e, .inr (.error err))
          | .ok lt1 => match ltVal khi kv with
            | .error err => (e, .inr (.error err))
            | .ok lt2 =>
              (e, .inl (some (if lt1 then (lo, klo) else (v, kv), if lt2 then (v, kv) else (hi, khi)))))
      (fun a => match a with
        | none => .ok .null
        | some ((lo, _), (hi, _)) => .ok (.tuple [lo, hi])) fuel it none
  | .find q =>
    foldIt (fun (_ : Unit) v =>
        ([Ev.call q.tag [v]], if q.app v then .inr (.ok v) else .inl ()))
      (fun _ => .ok .null) fuel it ()
  | .position q =>
    foldIt (fun (i : Nat) v =>
        ([Ev.call q.tag [v]], if q.app v then .inr (.ok (Val.int i)) else .inl (i + 1)))
      (fun _ => .ok .null) fuel it 0
  | .any q =>
    foldIt (fun (_ : Unit) v =>
        ([Ev.call q.tag [v]], if q.app v then .inr (.ok (.bool true)) else .inl ()))
      (fun _ => .ok (.bool false)) fuel it ()
  | .all q =>
    foldIt (fun (_ : Unit) v =>
        ([Ev.call q.tag [v]], if q.app v then .inl () else .inr (.ok (.bool false))))
      (fun _ => .ok (.bool true)) fuel it ()
  | .last => foldIt (fun (_ : Val) v => cont v) (fun a => .ok a) fuel it .null
  | .fold =>
    foldIt (fun (acc : Val) v => ([Ev.call tagFold [acc, v]], .inl (foldFn acc v)))
      (fun a => .ok a) fuel it (Val.int 0)
  | .consume => foldIt (fun (_ : Unit) _ => cont ()) (fun _ => .ok .null) fuel it ()
  | .consumeF f =>
    foldIt (fun (_ : Unit) v => ([Ev.call f.tag [v]], .inl ())) (fun _ => .ok .null) fuel it ()
  | .forLoop =>
    foldIt (fun (n : Nat) v => ([Ev.call tagFor [v]], .inl (n + 1))) (fun n => .ok (Val.int n)) fuel it 0
  | _ => (.error .unsupported, it, [])

/-- a sequence of `next` / `next_back` calls; outputs (or the end marker) collected -/
def runCalls : List Bool → It → List Val × It × List Ev
  | [], it => ([], it, [])
  | d :: ds, it =>
    let (o, it', e) := if d then it.next else it.back
    let (vs, it'', e') := runCalls ds it'
    (o.getD endMarker :: vs, it'', e ++ e')

/-- interleaved calls on a copy `a` and the original `b` (two values of the same state type);
returns the outputs of the copy, the outputs of the original, and all events in call order -/
def runCopyOps : List (Bool × Bool) → It → It → List Val × List Val × List Ev
  | [], _, _ => ([], [], [])
  | (onCopy, d) :: rest, a, b =>
    if onCopy then
      let (o, a', e) := if d then a.next else a.back
      let (xs, ys, e') := runCopyOps rest a' b
      (o.getD endMarker :: xs, ys, e ++ e')
    else
      let (o, b', e) := if d then b.next else b.back
      let (xs, ys, e') := runCopyOps rest a b'
      (xs, o.getD endMarker :: ys, e ++ e')

/-- the same for two `Peekable` states -/
def runPeekCopyOps (c : Co) : List (Bool × PeekOp) → Peek c.σ → Peek c.σ → List Val × List Val × List Ev
  | [], _, _ => ([], [], [])
  | (onCopy, op) :: rest, a, b =>
    if onCopy then
      let r := peekStep c op a
      let (xs, ys, e') := runPeekCopyOps c rest r.st b
      (r.out.getD endMarker :: xs, ys, r.ev ++ e')
    else
      let r := peekStep c op b
      let (xs, ys, e') := runPeekCopyOps c rest a r.st
      (xs, r.out.getD endMarker :: ys, r.ev ++ e')

/-- `iterator.advance`: returns the number of steps that could not be taken -/
def advanceIt : Nat → It → Nat × It × List Ev
  | 0, it => (0, it, [])
  | n + 1, it =>
    let (o, it', e) := it.next
    match o with
    | none => (n + 1, it', e)
    | some _ =>
      let (r, it'', e') := advanceIt n it'
      (r, it'', e ++ e')

def ansVal : Ans → Val
  | .ok v => v
  | .error _ => .null

/-- run a consumer on a built iterator -/
def runCons (fuel : Nat) (it : It) : Cons → Ans × List Ev
  | .calls dirs =>
    let (vs, _, e) := runCalls dirs it
    (.ok (.list vs), e)
  | .advance n =>
    let (r, it', e) := advanceIt n it
    let (a, _, e') := drain fuel it'
    (a.map (fun l => Val.tuple [Val.int r, l]), e ++ e')
  | .entry persistent pre mode =>
    let nullEnd := fun (vs : List Val) => vs.map (fun v => if Val.same v endMarker then Val.null else v)
    let consume := fun (j : It) =>
      match mode with
      | 0 => let (a, j', e) := drain fuel j
             ((match a with | .ok (.list l) => l | _ => []), j', e)
      | 1 => let (vs, j', e) := runCalls [true, true] j
             -- a loop that stops after two elements, or at the end: a second pull only after a value
             match vs with
             | v :: _ => if Val.same v endMarker then
                           let (o, j1, e1) := j.next
                           let _ := o
                           ([], j1, e1)
                         else (vs.filter (fun x => !Val.same x endMarker), j', e)
             | [] => ([], j', e)
      | _ => let (vs, j', e) := runCalls [true, true, true] j
             (nullEnd vs, j', e)
    if persistent then
      let (ps, it1, e1) := runCalls (List.replicate pre true) it
      let (r, it2, e2) := consume it1
      let (a, _, e3) := it2.next
      (.ok (.tuple [.list ps, .list r, a.getD endMarker]), e1 ++ e2 ++ e3)
    else
      let (o, _, e0) := it.next
      let (r, _, e2) := consume it
      (.ok (.tuple [.list (List.replicate pre (o.getD endMarker)), .list r, o.getD endMarker]),
        (List.replicate pre e0).flatten ++ e2 ++ e0)
  | .copyOps pre post =>
    let (vs, it', e) := runCalls pre it
    let (xs, ys, e') := runCopyOps post it' it'
    (.ok (.tuple [.list vs, .list xs, .list ys]), e ++ e')
  | .unpack =>
    let (vs, _, e) := runCalls [true, true, true] it
    (.ok (.tuple (vs.map (fun v => if Val.same v endMarker then Val.null else v))), e)
  | .copyAt k copyFirst =>
    -- `k` × next, then `c = koto.copy it`; drain one, then the other; result `(copy's, original's)`
    let (_, it', e) := runCalls (List.replicate k true) it
    let (a1, _, e1) := drain fuel it'
    let (a2, _, e2) := drain fuel it'
    match a1, a2 with
    | .ok l1, .ok l2 => (.ok (.tuple (if copyFirst then [l1, l2] else [l2, l1])), e ++ e1 ++ e2)
    | .error x, _ => (.error x, e ++ e1)
    | _, .error x => (.error x, e ++ e1 ++ e2)
  | c =>
    let (a, _, e) := runLoop fuel it c
    (a, e)

/-- a whole case: build (construction errors first), then consume -/
def runCase (fuel : Nat) (p : Pipe) (c : Cons) : Ans × List Ev :=
  match p.err with
  | some e => (.error e, [])
  | none =>
    match c with
    | .peekOps ops =>
      let it := build fuel p
      let (vs, _, e) := runPeekOps it.c endMarker ops ⟨it.s, none, none⟩
      (.ok (.list vs), e)
    | .peekCopy pre post =>
      let it := build fuel p
      let (vs, s', e) := runPeekOps it.c endMarker pre ⟨it.s, none, none⟩
      let (xs, ys, e') := runPeekCopyOps it.c post s' s'
      (.ok (.tuple [.list vs, .list xs, .list ys]), e ++ e')
    | c => runCons fuel (build fuel p) c

/-! ### the mathematical definition (`den`) -/

def Src.elems : Src → Option (List Val)
  | .seq xs | .str xs | .fwd xs | .gen _ xs | .obj _ xs | .objb _ xs | .hostBytes xs => some xs
  | .range a b incl =>
    let hi := if incl then b + 1 else b
    some ((List.range (hi - a).toNat).map (fun (i : Nat) => Val.int (a + i)))
  | .rep v n => some (List.replicate n v)
  | .repInf _ => none

/-- every `n`-th element, starting with the first (`n ≥ 1`); `k` = elements still to be dropped -/
def everyNthAux (n : Nat) : Nat → List Val → List Val
  | _, [] => []
  | 0, x :: xs => x :: everyNthAux n (n - 1) xs
  | k + 1, _ :: xs => everyNthAux n k xs

def everyNth (n : Nat) (xs : List Val) : List Val := everyNthAux n 0 xs

/-- consecutive chunks of length `n` (`n ≥ 1`), the last one possibly shorter -/
def chunksOf (n : Nat) : Nat → List Val → List Val
  | 0, _ => []
  | _, [] => []
  | fuel + 1, x :: xs => Val.tuple ((x :: xs).take n) :: chunksOf n fuel ((x :: xs).drop n)

/-- all contiguous windows of length `n` -/
def windowsOf (n : Nat) : List Val → List Val
  | [] => []
  | x :: xs => if (x :: xs).length ≥ n then Val.tuple ((x :: xs).take n) :: windowsOf n xs else []

def intersperseL (sep : Val) : List Val → List Val
  | [] => []
  | [x] => [x]
  | x :: y :: rest => x :: sep :: intersperseL sep (y :: rest)

def flattenL : List Val → List Val
  | [] => []
  | x :: xs => (match elemsOf x with | some es => es | none => [x]) ++ flattenL xs

def enumFrom (i : Nat) : List Val → List Val
  | [] => []
  | x :: xs => Val.tuple [Val.int i, x] :: enumFrom (i + 1) xs

def zipL : List Val → List Val → List Val
  | x :: xs, y :: ys => Val.tuple [x, y] :: zipL xs ys
  | _, _ => []

def takeWhileL (p : Val → Bool) : List Val → List Val
  | [] => []
  | x :: xs => if p x then x :: takeWhileL p xs else []

/-- the first `n` elements of the endless repetition of `xs` -/
def cycleTake (xs : List Val) : Nat → List Val
  | 0 => []
  | n + 1 => if xs.isEmpty then [] else (cycleTake xs n) ++ (xs[n % xs.length]?).toList

def projPair (first : Bool) (v : Val) : Val :=
  match v with
  | .tuple [a, b] => if first then a else b
  | other => other

/-- The sequence a pipeline denotes, by the textbook definition of each operation on lists.
`none`: endless (a `cycle` / `repeat` not directly under `take`) or ill-formed. -/
def den : Pipe → Option (List Val)
  | .src s => s.elems
  | .take n (.cycle p) => (den p).map (fun xs => cycleTake xs n)
  | .take n (.src (.repInf v)) => some (List.replicate n v)
  | .each f p => (den p).map (List.map f.app)
  | .keep q p => (den p).map (List.filter q.app)
  | .take n p => (den p).map (List.take n)
  | .takeWhile q p => (den p).map (takeWhileL q.app)
  | .skip n p => (den p).map (List.drop n)
  | .step n p => (den p).map (everyNth n)
  | .chain p q => do let a ← den p; let b ← den q; pure (a ++ b)
  | .zip p q => do let a ← den p; let b ← den q; pure (zipL a b)
  | .enumerate p => (den p).map (enumFrom 0)
  | .chunks n p => (den p).map (fun xs => chunksOf n xs.length xs)
  | .windows n p => (den p).map (windowsOf n)
  | .flatten p => (den p).map flattenL
  | .intersperse v p => (den p).map (intersperseL v)
  | .intersperseWith p => (den p).map (intersperseL sepVal)
  | .cycle _ => none
  | .reversed p => (den p).map List.reverse
  | .peekable p => den p
  | .pairFirst p => (den p).map (List.map (projPair true))
  | .pairSecond p => (den p).map (List.map (projPair false))

/-! ### consumers on lists (the specification side) -/

/-- `foldIt` on a list: the same early-exit fold without an iterator -/
def foldSpec {α : Type} (f : α → Val → List Ev × Sum α Ans) (fin : α → Ans) : List Val → α → Ans
  | [], a => fin a
  | v :: vs, a =>
    match (f a v).2 with
    | .inr ans => ans
    | .inl a' => foldSpec f fin vs a'

/-- `sum` as a list function: the left fold `((init + x₀) + x₁) + …` with the accumulator as the left
operand, stopping at the first error -/
def sumFrom : Val → List Val → Ans
  | acc, [] => .ok acc
  | acc, x :: xs =>
    match (addOp acc x).2 with
    | .ok a => sumFrom a xs
    | .error e => .error e

/-- the iterator whose outputs are exactly the given list (used to evaluate consumers on `den`) -/
def listIt (xs : List Val) : It := ⟨seqCo xs, ⟨0, xs.length⟩⟩

/-- `next` / `next_back` call sequences on an ideal double-ended sequence; a forward-only iterator
answers every `next_back` with "end" and is left unchanged -/
def specCalls (bidir : Bool) : List Bool → List Val → List Val
  | [], _ => []
  | true :: ds, [] => endMarker :: specCalls bidir ds []
  | true :: ds, x :: xs => x :: specCalls bidir ds xs
  | false :: ds, xs =>
    if bidir then
      match xs.getLast? with
      | some x => x :: specCalls bidir ds xs.dropLast
      | none => endMarker :: specCalls bidir ds xs
    else endMarker :: specCalls bidir ds xs

/-- `Peekable` operations on an ideal double-ended sequence: `peek` / `peek_back` look at the ends
without removing anything -/
def specPeekOps : List PeekOp → List Val → List Val
  | [], _ => []
  | .next :: ops, xs => xs.head?.getD endMarker :: specPeekOps ops xs.tail
  | .back :: ops, xs => xs.getLast?.getD endMarker :: specPeekOps ops xs.dropLast
  | .peek :: ops, xs => xs.head?.getD endMarker :: specPeekOps ops xs
  | .peekBack :: ops, xs => xs.getLast?.getD endMarker :: specPeekOps ops xs

/-- `Peekable` operations on an ideal forward-only sequence: there is no back end, `next_back` and
`peek_back` answer "end" and change nothing -/
def specPeekOpsF : List PeekOp → List Val → List Val
  | [], _ => []
  | .next :: ops, xs => xs.head?.getD endMarker :: specPeekOpsF ops xs.tail
  | .peek :: ops, xs => xs.head?.getD endMarker :: specPeekOpsF ops xs
  | .back :: ops, xs | .peekBack :: ops, xs => endMarker :: specPeekOpsF ops xs

/-- the ideal sequence after a sequence of calls -/
def specAfter (bidir : Bool) : List Bool → List Val → List Val
  | [], xs => xs
  | true :: ds, xs => specAfter bidir ds xs.tail
  | false :: ds, xs => specAfter bidir ds (if bidir then xs.dropLast else xs)

def specPeekAfter (bidir : Bool) : List PeekOp → List Val → List Val
  | [], xs => xs
  | .next :: ops, xs => specPeekAfter bidir ops xs.tail
  | .back :: ops, xs => specPeekAfter bidir ops (if bidir then xs.dropLast else xs)
  | _ :: ops, xs => specPeekAfter bidir ops xs

def specPeek (bidir : Bool) (ops : List PeekOp) (xs : List Val) : List Val :=
  if bidir then specPeekOps ops xs else specPeekOpsF ops xs

/-- consumer applied to a plain list -/
def specCons (bidir : Bool) (c : Cons) (xs : List Val) : Ans :=
  match c with
  | .copyOps pre post =>
    -- copy and original are two independent ideal sequences starting where `pre` left off
    let rest := specAfter bidir pre xs
    let onC := (post.filter (·.1)).map (·.2)
    let onO := (post.filter (fun p => !p.1)).map (·.2)
    .ok (.tuple [.list (specCalls bidir pre xs), .list (specCalls bidir onC rest), .list (specCalls bidir onO rest)])
  | .peekCopy pre post =>
    let onC := (post.filter (·.1)).map (·.2)
    let onO := (post.filter (fun p => !p.1)).map (·.2)
    let rest := specPeekAfter bidir pre xs
    .ok (.tuple [.list (specPeek bidir pre xs), .list (specPeek bidir onC rest), .list (specPeek bidir onO rest)])
  | .peekOps ops => .ok (.list (specPeek bidir ops xs))
  | .entry persistent pre mode =>
    let start := if persistent then xs.drop pre else xs
    let pres := if persistent then specCalls false (List.replicate pre true) xs
                else List.replicate pre (xs.head?.getD endMarker)
    let (r, used) := match mode with
      | 0 => (start, start.length)
      | 1 => (start.take 2, 2)
      | _ => (start.take 3 ++ List.replicate (3 - start.length) Val.null, 3)
    let after := if persistent then (start.drop used).head?.getD endMarker else xs.head?.getD endMarker
    .ok (.tuple [.list pres, .list r, after])
  | .calls dirs => .ok (.list (specCalls bidir dirs xs))
  | .advance n => .ok (.tuple [Val.int (n - xs.length : Nat), .list (xs.drop n)])
  | .unpack => .ok (.tuple ((xs.take 3) ++ List.replicate (3 - xs.length) Val.null))
  | .copyAt k _ => let r := Val.list (xs.drop k); .ok (.tuple [r, r])
  | c => (runLoop (xs.length + 1) (listIt xs) c).1

/-- the property's answer for a whole case, computed from the mathematical definition only -/
def specCase (p : Pipe) (c : Cons) : Option Ans :=
  match p.err with
  | some e => some (.error e)
  | none => (den p).map (specCons p.bidir c)

end KotoVerif.Iter
