/-
# Model/Unwind.lean — the VM's bookkeeping mechanism (shared by C07, C04, C08, C12)

Mirrors `crates/runtime/src/vm.rs` (struct `KotoVm`, struct `Frame`) at the level of *sizes*:

* `registers.len()`, `register_base`, `min_frame_registers`;
* the call stack of frames `{register_base, required_registers, catch_stack, execution_barrier}`;
* the depths of `sequence_builders` / `string_builders`;
* the active exports map (as the list of exported keys) and the `module_cache` entries that are
  in-progress placeholders (`None`) or cached modules.

An *execution* is a flat list of events (`Ev`).  What the script/native code does is not modelled:
it is the universally quantified event list.  What the *VM* does in reaction to an event is
modelled exactly as written:

* `popTo`/`popFrame`     = `pop_frame` (incl. the truncation of the builder stacks to the frame's
                           `builder_counts`, fix 97373d1)
* `unwindGo`/`unwind`    = `pop_call_stack_on_error(error, allow_catch)`
* `raiseGo`              = the `Err` arm of `execute_instructions`, followed — when the error is not
                           caught — by what the Rust caller of `execute_instructions` does
                           (`pop_frame` + `truncate_registers`, or `pop_frame` + propagate), and so
                           on down the stack of pending Rust callers
* `enter` / `enterOp`    = prologue of the host entry points `run`, `call_and_run_function` /
                           `run_unary_op`/`run_binary_op`/`run_read_op`/`run_write_op`
                           (+ `call_overridden_op_N`, `get_overridden_op_result`)
* `nested`               = `run_overridden_comparison_op` and the `@next` arm of `run_iterator_next`
* `importBegin/importEnd`= `run_import` (placeholder, exports swap, rollback)

Because native functions re-enter the interpreter (`ctx.vm.call_function(..)`), the Rust call stack
matters.  It is made explicit as the continuation stack `St.conts : List Cont`:
`loop x`   — an `execute_instructions` loop is running; `x` says what its Rust caller does when it
             returns (`truncate rr`: pop the barrier frame on `Err`, then `truncate_registers(rr)`;
             `propagate`: pop the barrier frame on `Err` and fail the current instruction);
`native ..`— a native function is running (it can start host entries, then returns Ok/Err);
`importing`— the closure inside `run_import` is running (`run`, `run_tests`, `@main`).
The head of `conts` decides which events are meaningful ("mode"); an event that is not
meaningful in the current mode is a no-op, so *every* event list is an execution and theorems
quantify over all of them without a well-formedness side condition.

Generators run in their own `KotoVm` value (`spawn_shared_vm`), i.e. in a separate instance of this
same model; `Yield` is therefore not an event here.

Only core Lean is imported (the model driver must link).  All functions are structurally
recursive so that `decide` can evaluate them.
-/
namespace KotoVerif.Unwind

/-! ## State -/

/-- `struct Frame` (fields that matter for bookkeeping). -/
structure Frame where
  /-- `register_base`: absolute index in `registers` of the frame's register 0 -/
  base : Nat
  /-- `required_registers`, set by `NewFrame` -/
  required : Nat := 0
  /-- `catch_stack`: (error register, catch ip, (sequence, string) builder counts at `TryStart`),
      head = innermost open `try` -/
  catches : List (Nat × Nat × Nat × Nat) := []
  /-- `execution_barrier` -/
  barrier : Bool := false
  /-- `builder_counts.0`: `sequence_builders.len()` when the frame was pushed (fix 97373d1) -/
  seq0 : Nat := 0
  /-- `builder_counts.1`: `string_builders.len()` when the frame was pushed -/
  str0 : Nat := 0
  deriving DecidableEq, Repr, Inhabited

/-- `struct KotoVm` (bookkeeping part) + the shared `module_cache`. -/
structure VM where
  /-- `registers.len()` -/
  regs : Nat := 0
  /-- `register_base` -/
  base : Nat := 0
  /-- `min_frame_registers` -/
  minRegs : Nat := 0
  /-- `call_stack`, head = current frame -/
  stack : List Frame := []
  /-- `sequence_builders.len()` -/
  seq : Nat := 0
  /-- `string_builders.len()` -/
  str : Nat := 0
  /-- keys of the active `exports` map, in insertion order -/
  exports : List Nat := []
  /-- module ids whose `module_cache` entry is the in-progress placeholder `None` -/
  placeholders : List Nat := []
  /-- module ids whose `module_cache` entry is `Some(exports)` -/
  cached : List Nat := []
  deriving DecidableEq, Repr, Inhabited

/-- What the Rust caller of `execute_instructions` does when the loop returns. -/
inductive Exit where
  /-- `run`, `call_and_run_function`, `get_overridden_op_result`:
      `if result.is_err() { pop_frame()? }; truncate_registers(rr); result` -/
  | truncate (rr : Nat)
  /-- `run_overridden_comparison_op`, `@next` in `run_iterator_next`:
      `Err(e) => { pop_frame()?; return Err(e) }` — the current instruction fails -/
  | propagate
  deriving DecidableEq, Repr, Inhabited

/-- One pending Rust caller. -/
inductive Cont where
  | loop (x : Exit)
  /-- a native function called with `call_info.frame_base = fb`; `host = some (rr, t)` when it was
      called directly by a host entry whose result register is `rr` — `t = true` for
      `call_and_run_function` (since fix 5247d9c) and the `run_*_op` wrappers (since fix d4834c0),
      which run `truncate_registers(rr)` before they propagate an error; `t = false` describes an
      entry whose `?` returns without truncating (the code before those fixes; no entry point
      produces it any more) — and `none` when called by a `Call` instruction -/
  | native (fb : Nat) (host : Option (Nat × Bool))
  /-- `run_import` of module `m`; `saved` = the importer's exports -/
  | importing (m : Nat) (saved : List Nat)
  deriving DecidableEq, Repr, Inhabited

structure St where
  vm : VM := {}
  conts : List Cont := []
  deriving DecidableEq, Repr, Inhabited

/-- What `call_callable` does with the callee of a host entry. -/
inductive Callee where
  /-- Koto function: `call_koto_function` succeeds; `argRegs` = registers occupied after the frame
      base once defaults / variadic tuple / captures have been applied -/
  | koto (argRegs : Nat)
  /-- native function / callable object: `call_native_function` -/
  | native
  /-- `call_callable` fails before anything runs (wrong argument count for a Koto function,
      `@call` entry that is not callable, packed-argument failure) -/
  | fail
  deriving DecidableEq, Repr, Inhabited

/-- Events. The first group (`newFrame` … `importBegin`) is meaningful while an interpreter loop is running
(head of `conts` is `loop`), `nativeRet`/`importEnd` while native/host code is running; host entries
(`enter`, `enterOp`, `enterDirect`) and nested loops (`nested`) can be started in both modes. -/
inductive Ev where
  /-- `NewFrame { register_count }` -/
  | newFrame (n : Nat)
  /-- `TryStart { arg_register, catch_offset }` -/
  | tryStart (reg ip : Nat)
  /-- `TryEnd` -/
  | tryEnd
  /-- `Call`/`CallInstance`/overloaded arithmetic operator on a Koto function (`call_koto_function`):
      frame base `fb` (relative), `argRegs` registers after the frame base -/
  | call (fb argRegs : Nat)
  /-- `Call`/`CallInstance` on a native function or callable object (`call_native_function`) -/
  | callNative (fb : Nat)
  /-- `Return` -/
  | ret
  /-- `SequenceStart` -/
  | seqStart
  /-- `SequenceToList` / `SequenceToTuple` -/
  | seqEnd
  /-- `StringStart` -/
  | strStart
  /-- `StringFinish` -/
  | strEnd
  /-- `ExportValue` / `ExportEntry` / `MetaExport` with key `k` -/
  | exportVal (k : Nat)
  /-- the current instruction fails (`catchable = true`: thrown value, runtime error, failed
      `AssertType`, failed assertion inside a native, …) or the execution limit is detected by this
      loop's poller (`catchable = false`) -/
  | raise (catchable : Bool)
  /-- an overloaded operator / protocol entry whose call fails *before* its frame is pushed
      (`call_overridden_op_N` has pushed the instance and the arguments — `n` registers — at
      `new_frame_base`, then `call_callable` fails: wrong arity of the Koto function, a value that is
      not callable, a native function that returns `Err`): the registers stay above the frame and
      the instruction fails. Discarded when the error is caught (fix 8f4d2e4) or when the frame is
      left. -/
  | opSetupFail (n : Nat)
  /-- comparison operator overloaded in Koto / `@next` implemented in Koto: `call_overridden_op_N`
      with `args` arguments, barrier, nested `execute_instructions` -/
  | nested (args argRegs : Nat)
  /-- `Import` of a module from disk (`run_import` up to the start of its closure) -/
  | importBegin (m : Nat)
  /-- host entry point that goes through `call_callable`: pushes `pre` registers (result register
      first; `run` has `pre = 0`), then the frame base and `args` arguments -/
  | enter (pre args : Nat) (c : Callee)
  /-- `run_unary/binary/read/write_op` whose operation goes through `call_overridden_op_N` +
      `call_callable`: same prologue as `enter` (`pre` = 2/3/3/4 result+operand registers) -/
  | enterOp (pre args : Nat) (c : Callee)
  /-- `run_*_op` whose operation is performed natively: pushes `pre` registers; `ok = false`: the
      operation fails -/
  | enterDirect (pre : Nat) (ok : Bool)
  /-- the running native function returns `Ok` / `Err` -/
  | nativeRet (ok : Bool)
  /-- the closure inside `run_import` finishes with `Ok` / `Err` -/
  | importEnd (ok : Bool)
  deriving DecidableEq, Repr, Inhabited

/-! ## Primitive operations -/

/-- `next_register()` as a register id: `(registers.len() - register_base) as u8`. Since fix b752efa
the cast is guarded (`nextRegisterOk`, below); wherever an entry's check has passed the `% 256` is
the identity. -/
def nextRegister (vm : VM) : Nat := (vm.regs - vm.base) % 256

/-- `truncate_registers(len)`: `registers.truncate(register_base + len)` -/
def truncate (len : Nat) (vm : VM) : VM := { vm with regs := min vm.regs (vm.base + len) }

/-- `push_frame(chunk, ip, frame_base, ..)` followed by `frame_mut().execution_barrier = barrier` -/
def pushFrame (fb : Nat) (barrier : Bool) (vm : VM) : VM :=
  { vm with
    stack := { base := vm.base + fb, barrier := barrier, seq0 := vm.seq, str0 := vm.str } :: vm.stack,
    base := vm.base + fb }

/-- `pop_frame` when the call stack is `popped :: rest`. The `Bool` is "execution stops"
(`Ok(Some(value))`). Since fix 97373d1 the builders the frame left unfinished are discarded first:
`sequence_builders.truncate(builder_counts.0)`, `string_builders.truncate(builder_counts.1)`. -/
def popTo (popped : Frame) (rest : List Frame) (vm : VM) : VM × Bool :=
  let vm := { vm with seq := min vm.seq popped.seq0, str := min vm.str popped.str0 }
  match rest with
  | [] => ({ vm with stack := [], base := 0, minRegs := 0 }, true)
  | r :: _ =>
    if popped.barrier then
      ({ vm with stack := rest, base := r.base, minRegs := r.base + r.required }, true)
    else
      -- execution continues: `registers.resize(min_frame_registers)`
      ({ vm with
          stack := rest, base := r.base, minRegs := r.base + r.required,
          regs := r.base + r.required }, false)

/-- `pop_frame`; `none` = `EmptyCallStack`. -/
def popFrame (vm : VM) : Option (VM × Bool) :=
  match vm.stack with
  | [] => none
  | f :: rest => some (popTo f rest vm)

/-- `pop_frame(Null)?` as used on error paths: the error case cannot occur there (the frame that
is popped is the barrier frame the entry pushed itself); modelled as "no change". -/
def popFrameD (vm : VM) : VM :=
  match popFrame vm with
  | some (vm', _) => vm'
  | none => vm

/-- `pop_call_stack_on_error(error, allow_catch)` over the call stack `fs` (= `vm.stack`).
Result: the VM after popping, and `some (reg, ip)` when a catch entry takes the error. -/
def unwindGo (allowCatch : Bool) : List Frame → VM → VM × Option (Nat × Nat)
  | [], vm => (vm, none)
  | f :: rest, vm =>
    match allowCatch, f.catches with
    | true, c :: _ =>
      -- the builders opened in the try block are discarded (fix 97373d1); at the catch point the
      -- value stack is resized to exactly the frame's required registers
      -- (`registers.resize(min_frame_registers)`, fix 8f4d2e4: whatever a half-set-up operation left
      -- above the frame is discarded, and a stack cut short by a failed call is grown again)
      ({ vm with seq := min vm.seq c.2.2.1, str := min vm.str c.2.2.2, regs := vm.minRegs },
        some (c.1, c.2.1))
    | _, _ =>
      if f.barrier then (vm, none)
      else unwindGo allowCatch rest (popTo f rest vm).1

def unwind (allowCatch : Bool) (vm : VM) : VM × Option (Nat × Nat) :=
  unwindGo allowCatch vm.stack vm

/-- Apply the caller's epilogue after `execute_instructions` returned `Err`. -/
def exitErr (x : Exit) (vm : VM) : VM :=
  match x with
  | .truncate rr => truncate rr (popFrameD vm)
  | .propagate => popFrameD vm

/-- An error is raised while the loop at the head of `conts` is running.
`unwind`; if caught the loop continues (at the catch ip); otherwise the loop returns `Err`, its
caller runs its epilogue, and if that caller is itself an instruction of an outer loop
(`propagate`d comparison, `@next`, …) the error is raised there with `allow_catch = true`. When the
pending caller below is native/host code, the error is handed to it (the trace's next events say
what it does). -/
def raiseGo : List Cont → Bool → VM → St
  | .loop x :: .loop y :: rest, c, vm =>
    match unwind c vm with
    | (vm1, some _) => ⟨vm1, .loop x :: .loop y :: rest⟩
    | (vm1, none) => raiseGo (.loop y :: rest) true (exitErr x vm1)
  | .loop x :: rest, c, vm =>
    match unwind c vm with
    | (vm1, some _) => ⟨vm1, .loop x :: rest⟩
    | (vm1, none) => ⟨exitErr x vm1, rest⟩
  | conts, _, vm => ⟨vm, conts⟩

def raise (c : Bool) (st : St) : St := raiseGo st.conts c st.vm

/-- modify the current frame (`frame_mut()`) -/
def modTop (g : Frame → Frame) (vm : VM) : VM :=
  match vm.stack with
  | [] => vm
  | f :: rest => { vm with stack := g f :: rest }

/-- `call_koto_function` + `push_frame`: the value stack ends right after the prepared arguments. -/
def callKoto (fb argRegs : Nat) (barrier : Bool) (vm : VM) : VM :=
  pushFrame fb barrier { vm with regs := vm.base + fb + 1 + argRegs }

/-- `call_native_function` after the native returned `Ok`: drop the call args, keep the calling
frame's required registers (only when there is a calling frame). -/
def nativeOk (fb : Nat) (vm : VM) : VM :=
  match vm.stack with
  | [] => vm
  | f :: _ =>
    let vm1 := truncate fb vm
    { vm1 with regs := max vm1.regs (vm1.base + f.required) }

/-! ## The step function -/

def inLoop (st : St) : Bool :=
  match st.conts with
  | .loop _ :: _ => true
  | _ => false

/-- Host entry through `call_callable`. Host entries are started by native/host code, and also by
single instructions (`StringPush` → `run_unary_op(Display)`, `Size`, `Debug`, …); in the latter case
a failing entry makes the instruction fail, i.e. the error is raised in the loop below (`raiseGo` is
a no-op when the pending caller is native/host code: the error is simply handed to it).
`truncOnErr`: whether the entry runs `truncate_registers(result_register)` before it propagates an
error of `call_callable` (`call_and_run_function` since fix 5247d9c: yes; `run_*_op`: no). -/
def enterWith (truncOnErr : Bool) (pre args : Nat) (c : Callee) (st : St) : St :=
  let vm := st.vm
  let rr := nextRegister vm                       -- result register (for `run`: the frame base)
  let vm1 := { vm with regs := vm.regs + pre }     -- result register and operands
  let fb := nextRegister vm1                      -- frame base
  let vm2 := { vm1 with regs := vm1.regs + 1 + args }
  match c with
  | .koto argRegs => ⟨callKoto fb argRegs true vm2, .loop (.truncate rr) :: st.conts⟩
  | .native => ⟨vm2, .native fb (some (rr, truncOnErr)) :: st.conts⟩
  | .fail => raiseGo st.conts true (if truncOnErr then truncate rr vm2 else vm2)

/-- `run(chunk)` and `call_and_run_function` -/
def enter (pre args : Nat) (c : Callee) (st : St) : St := enterWith true pre args c st

/-- `run_*_op` through `call_overridden_op_N`. Since fix d4834c0 the public `run_*_op` wrappers run
`truncate_registers(result_register)` whenever the operation returns `Err`, so these entries
truncate on the early-error path as well (`enterWith false` describes the code before that fix). -/
def enterOp (pre args : Nat) (c : Callee) (st : St) : St := enterWith true pre args c st

/-- `run_*_op` whose operation is performed natively (no `call_callable`). On `Err` the inner
function returns through `?`; the public wrapper (fix d4834c0) then truncates to the result
register before the error is propagated. -/
def enterDirect (pre : Nat) (ok : Bool) (st : St) : St :=
  let vm1 := { st.vm with regs := st.vm.regs + pre }
  if ok then { st with vm := truncate (nextRegister st.vm) vm1 }   -- `get_overridden_op_result`
  else raiseGo st.conts true (truncate (nextRegister st.vm) vm1)   -- `?`, then the wrapper truncates

/-- `call_overridden_op_N` + barrier + nested `execute_instructions`: comparison operators and `@next`
overloaded in Koto (from an instruction), arithmetic operators overloaded in Koto
(`call_metamap_arithmetic_op`, from an instruction or from the body of `run_binary_op`). On `Err` the
caller pops the barrier frame and fails (`Exit.propagate`); nothing is truncated. -/
def nested (args argRegs : Nat) (st : St) : St :=
  let vm := st.vm
  let fb := vm.regs - vm.base                 -- `new_frame_base()?`
  if fb > 255 then raise true st
  else
    let vm1 := { vm with regs := vm.regs + 1 + args }
    ⟨callKoto fb argRegs true vm1, .loop .propagate :: st.conts⟩

/-! ### the register check in front of every host entry (fix b752efa, ea3163c)

`next_register()` no longer casts to `u8` silently: it fails with a runtime error when fewer than 8
register ids are left above the running frame. `run` / `call_and_run_function` ask twice (result
register; frame base after the result register and a temporary tuple's values were pushed — on
failure the pushed registers are truncated again, fix ea3163c); `run_*_op` ask once and then use
`new_frame_base()` (`u8::try_from`, no headroom) — a failure there returns through `?` and the
wrapper of fix d4834c0 truncates. In every failing case the value stack is what it was and the
error goes to the caller, so all of them are `raiseGo st.conts true st.vm`. When the checks pass,
the `% 256` in `nextRegister` is the identity. -/

def nextRegisterOk (vm : VM) : Bool := decide (vm.regs - vm.base + 8 ≤ 255)

def fitsEnter (vm : VM) (pre : Nat) : Bool :=
  nextRegisterOk vm && nextRegisterOk { vm with regs := vm.regs + pre }

def fitsOp (vm : VM) (pre : Nat) : Bool :=
  nextRegisterOk vm && decide (vm.regs + pre - vm.base ≤ 255)

def enterChecked (pre args : Nat) (c : Callee) (st : St) : St :=
  if fitsEnter st.vm pre then enter pre args c st else raiseGo st.conts true st.vm

def enterOpChecked (pre args : Nat) (c : Callee) (st : St) : St :=
  if fitsOp st.vm pre then enterOp pre args c st else raiseGo st.conts true st.vm

def enterDirectChecked (pre : Nat) (ok : Bool) (st : St) : St :=
  if nextRegisterOk st.vm then enterDirect pre ok st else raiseGo st.conts true st.vm

/-- `Yield` executed by a frame that is not a generator's (only possible at the top level of a
chunk: `compile_and_run("yield 1")`, or a module with a top-level `yield`): `execute_instructions`
returns `Ok(value)` with `ExecutionState::Suspended` and the frames still on the call stack; since
fix 20565a0 `run` then pops the chunk's frame exactly as on `Err` (F-C07-4) and truncates the
registers — for the bookkeeping a top-level `Yield` is a `Return` from the chunk's barrier frame
(`C07.yieldAtTop_eq_ret`), which is how event summaries write it. -/
def yieldAtTop (st : St) : St :=
  match st.conts with
  | .loop x :: conts => ⟨exitErr x st.vm, conts⟩
  | _ => st

def step (ev : Ev) (st : St) : St :=
  match ev with
  | .enter pre args c => enterChecked pre args c st
  | .enterOp pre args c => enterOpChecked pre args c st
  | .enterDirect pre ok => enterDirectChecked pre ok st
  | .nested args argRegs => nested args argRegs st
  | _ =>
  if inLoop st then
    match ev with
    | .newFrame n =>
      let vm := modTop (fun f => { f with required := n }) st.vm
      { st with vm := { vm with minRegs := vm.base + n, regs := vm.base + n } }
    | .tryStart r ip =>
      { st with vm := modTop (fun f => { f with catches := (r, ip, st.vm.seq, st.vm.str) :: f.catches }) st.vm }
    | .tryEnd => { st with vm := modTop (fun f => { f with catches := f.catches.tail }) st.vm }
    | .call fb argRegs => { st with vm := callKoto fb argRegs false st.vm }
    | .callNative fb => { st with conts := .native fb none :: st.conts }
    | .ret =>
      match st.vm.stack, st.conts with
      | f :: rest, .loop x :: conts =>
        match popTo f rest st.vm with
        | (vm1, false) => { st with vm := vm1 }
        | (vm1, true) =>
          -- `ControlFlow::Return`: the loop returns `Ok`, its caller finishes
          match x with
          | .truncate rr => ⟨truncate rr vm1, conts⟩
          | .propagate => ⟨vm1, conts⟩
      | _, _ => st
    | .seqStart => { st with vm := { st.vm with seq := st.vm.seq + 1 } }
    | .seqEnd =>
      if st.vm.seq = 0 then raise true st   -- MissingSequenceBuilder
      else { st with vm := { st.vm with seq := st.vm.seq - 1 } }
    | .strStart => { st with vm := { st.vm with str := st.vm.str + 1 } }
    | .strEnd =>
      if st.vm.str = 0 then raise true st   -- MissingStringBuilder
      else { st with vm := { st.vm with str := st.vm.str - 1 } }
    | .exportVal k =>
      { st with vm := { st.vm with
          exports := (if k ∈ st.vm.exports then st.vm.exports else st.vm.exports ++ [k]) } }
    | .raise c => raise c st
    | .opSetupFail n => raise true { st with vm := { st.vm with regs := st.vm.regs + n } }
    | .importBegin m =>
      if m ∈ st.vm.placeholders then raise true st        -- "recursive import of module"
      else if m ∈ st.vm.cached then st                    -- served from the cache
      else
        ⟨{ st.vm with placeholders := m :: st.vm.placeholders, exports := [] },
         .importing m st.vm.exports :: st.conts⟩
    | _ => st
  else
    match ev with
    | .nativeRet ok =>
      match st.conts with
      | .native fb host :: conts =>
        if ok then
          let vm1 := nativeOk fb st.vm
          match host with
          | some rr => ⟨truncate rr.1 vm1, conts⟩
          | none => ⟨vm1, conts⟩
        else
          -- `host = some (rr, true)`: `call_and_run_function` / the `run_*_op` wrapper truncates to its
          -- result register and returns the error (fixes 5247d9c, d4834c0); `host = some (_, false)`:
          -- an early `?` that undoes nothing (the code before those fixes);
          -- `host = none`: the `Call` instruction fails. In every case the error is then raised in
          -- the loop below if there is one, else handed to the native/host caller.
          match host with
          | some rr => raiseGo conts true (if rr.2 then truncate rr.1 st.vm else st.vm)
          | none => raiseGo conts true st.vm
      | _ => st
    | .importEnd ok =>
      match st.conts with
      | .importing m saved :: conts =>
        let vm1 := { st.vm with
          placeholders := st.vm.placeholders.erase m,
          cached := (if ok then m :: st.vm.cached else st.vm.cached),
          exports := saved }
        if ok then ⟨vm1, conts⟩ else raiseGo conts true vm1
      | _ => st
    | _ => st

def run (evs : List Ev) (st : St) : St := evs.foldl (fun s e => step e s) st

/-- Run events until the continuation stack is back to `depth` entries (the bracket opened above
`depth` has been closed); later events are not part of the bracket. -/
def runUntil (depth : Nat) : List Ev → St → St
  | [], st => st
  | ev :: rest, st => if st.conts.length ≤ depth then st else runUntil depth rest (step ev st)

/-- A host entry bracket whose register check has passed: prologue, then the events of the
execution up to the entry's return. -/
def runEntry (pre args : Nat) (c : Callee) (evs : List Ev) (st : St) : St :=
  runUntil st.conts.length evs (enter pre args c st)

/-- A host entry bracket including the register check (`run` / `call_and_run_function`). -/
def runEntryChecked (pre args : Nat) (c : Callee) (evs : List Ev) (st : St) : St :=
  runUntil st.conts.length evs (enterChecked pre args c st)

/-- The bracket has returned to its caller. -/
def Exited (st0 st : St) : Prop := st.conts.length ≤ st0.conts.length

instance (st0 st : St) : Decidable (Exited st0 st) :=
  inferInstanceAs (Decidable (st.conts.length ≤ st0.conts.length))

/-! ## Host entry points as instances of `enter`

| entry point | `pre` | `args` | callee |
|---|---|---|---|
| `run(chunk)` | 0 | 0 | `koto 0` (frame base = instance register, `truncate_registers(frame_base)`) |
| `call_and_run_function(f, args)` | 1 (+ temp-tuple contents) | n | `koto _` / `native` / `fail` |
| `run_unary_op` via `call_overridden_op_1` | `enterOp` 2 | 0 | any |
| `run_binary_op` / `run_read_op` via `call_overridden_op_2` | `enterOp` 3 | 1 | any |
| `run_write_op` via `call_overridden_op_3` | `enterOp` 4 | 2 | any |
| the same four, operation performed natively | `enterDirect pre ok` | | |
| `run_tests` | a sequence of `call_and_run_function` brackets, stopping at the first `Err` | | |
-/

abbrev runChunk := Ev.enter 0 0 (.koto 0)
abbrev callFunction (nargs : Nat) (c : Callee) := Ev.enter 1 nargs c

/-! ## Generator VMs

A generator runs in its own `KotoVm` (`call_generator`: `spawn_shared_vm` + `push_frame`, state
`Suspended`), i.e. in a separate instance of this model whose bottom frame has **no** execution
barrier. One resumption is `continue_running`: if the call stack is empty the generator is finished
(`Return(Null)`), otherwise `execute_instructions()?` runs until the next `Yield` (the trace simply
ends, frames stay), until the bottom frame returns, or until an error escapes — then
`pop_call_stack_on_error` has popped every frame (there is no barrier to stop at) and nothing else is
undone. The pending Rust caller is modelled as `loop propagate` (its `pop_frame` on the error path is
a no-op on the empty call stack). -/

/-- the state of a freshly created generator VM: one frame without barrier -/
def genInit (args : Nat) : VM :=
  { regs := 1 + args, stack := [{ base := 0 }] }  -- builder counts (0, 0): a fresh VM

/-- `continue_running` reports the end of the iteration without running anything -/
def genFinished (vm : VM) : Bool := vm.stack.isEmpty

/-- one resumption of a generator VM with the events `evs` -/
def genResume (evs : List Ev) (vm : VM) : St :=
  if genFinished vm then ⟨vm, []⟩ else runUntil 0 evs ⟨vm, [.loop .propagate]⟩

/-- What hook H1 reports: `(registers.len, call_stack.len, sequence_builders.len,
string_builders.len, register_base)`. -/
def snapshot (vm : VM) : Nat × Nat × Nat × Nat × Nat :=
  (vm.regs, vm.stack.length, vm.seq, vm.str, vm.base)

end KotoVerif.Unwind
