/-
Model of the trace collection in `crates/runtime/src/vm.rs`:

* `push_frame`: stores the ip of the instruction being executed (`instruction_ip`, the call
  instruction) in the *calling* frame's `return_instruction_ip`, then pushes the callee's frame;
* `pop_frame`: pops, and (if a frame remains) restores `instruction_ip := return_instruction_ip` and
  the chunk of the new top frame;
* `pop_call_stack_on_error(error, allow_catch)`: `extend_trace(instruction_frame())` once, then per
  frame from the top: a catch entry (if catching is allowed) ends the unwinding *without* an error,
  an execution barrier ends it with the error, otherwise `pop_frame` and — if a frame remains — one
  more `extend_trace(instruction_frame())`;
* `Error::extend_trace` appends (`Vec::push`), so the trace is innermost first.

Only what the trace depends on is kept: chunks are numbers, registers/values do not appear.
(A minimal call-stack model of its own: `Model/Unwind.lean` of C07 did not exist when this was
written.)
-/
namespace KotoVerif.Trace

/-- `InstructionFrame { chunk, instruction }` -/
structure IFrame where
  chunk : Nat
  ip : Nat
  deriving Repr, DecidableEq, Inhabited

/-- what the unwinding consults in a `Frame` -/
structure Frame where
  chunk : Nat
  /-- `return_instruction_ip` (meaningful once this frame has called something) -/
  retIp : Nat := 0
  /-- `!catch_stack.is_empty()` -/
  hasCatch : Bool := false
  /-- `execution_barrier` -/
  barrier : Bool := false
  deriving Repr, DecidableEq, Inhabited

/-- the part of the VM the trace depends on; `stack` has the current frame first -/
structure VM where
  stack : List Frame
  /-- chunk of `reader` -/
  chunk : Nat
  /-- `instruction_ip` -/
  ip : Nat
  deriving Repr, DecidableEq, Inhabited

def VM.instructionFrame (vm : VM) : IFrame := ⟨vm.chunk, vm.ip⟩

inductive Outcome where
  /-- a catch block takes over; the extended error is dropped -/
  | caught
  /-- `Err(error)` with this `error.trace` -/
  | uncaught (trace : List IFrame)
  deriving Repr, DecidableEq, Inhabited

/-- the `while let Some(frame) = self.call_stack.last()` loop; `tr` is the trace so far -/
def unwindGo (allowCatch : Bool) : List Frame → List IFrame → Outcome
  | [], tr => .uncaught tr
  | [f], tr =>
    if f.hasCatch && allowCatch then .caught
    else .uncaught tr      -- barrier: break; else pop_frame empties the stack: nothing is pushed
  | f :: g :: rest, tr =>
    if f.hasCatch && allowCatch then .caught
    else if f.barrier then .uncaught tr
    else unwindGo allowCatch (g :: rest) (tr ++ [⟨g.chunk, g.retIp⟩])

/-- `pop_call_stack_on_error` -/
def unwind (allowCatch : Bool) (vm : VM) : Outcome :=
  unwindGo allowCatch vm.stack [vm.instructionFrame]

/-- `KotoVm::run(chunk)`: one frame with an execution barrier -/
def VM.run (chunk : Nat) : VM :=
  { stack := [{ chunk := chunk, barrier := true }], chunk := chunk, ip := 0 }

/-- one call of a call chain: the call instruction at `ip` (in the chunk current at that time)
enters a function of chunk `callee`; `inTry` = the call is made inside a `try` block of the calling
function (its frame has a catch entry while the callee runs) -/
structure Call where
  ip : Nat
  callee : Nat
  inTry : Bool := false
  deriving Repr, DecidableEq, Inhabited

/-- executing a call instruction (`push_frame`) -/
def VM.call (vm : VM) (c : Call) : VM :=
  match vm.stack with
  | [] => { stack := [{ chunk := c.callee }], chunk := c.callee, ip := 0 }
  | f :: rest =>
    { stack := { chunk := c.callee } :: { f with retIp := c.ip, hasCatch := c.inTry } :: rest,
      chunk := c.callee, ip := 0 }

/-- a chain of calls, outermost first -/
def VM.callAll (vm : VM) : List Call → VM
  | [] => vm
  | c :: rest => (vm.call c).callAll rest

/-- the current instruction is the one at `ip` (it fails); `inTry` = it lies inside a `try` block of
the current function -/
def VM.at (vm : VM) (ip : Nat) (inTry : Bool := false) : VM :=
  match vm.stack with
  | [] => { vm with ip := ip }
  | f :: rest => { vm with ip := ip, stack := { f with hasCatch := inTry } :: rest }

/-- the call sites of a call chain as trace frames, in call order: the call at `ip` is executed in
the chunk that was current before it -/
def callSites : Nat → List Call → List IFrame
  | _, [] => []
  | cur, c :: rest => ⟨cur, c.ip⟩ :: callSites c.callee rest

/-- chunk that is current after a call chain -/
def lastChunk : Nat → List Call → Nat
  | cur, [] => cur
  | _, c :: rest => lastChunk c.callee rest

/-- Abstract description → predicted outcome: a script (chunk 0) whose top level performs the call
chain `calls` (outermost first) and then fails at `fault` in the innermost function. -/
def predict (calls : List Call) (fault : Nat) (faultInTry : Bool := false) : Outcome :=
  unwind true (((VM.run 0).callAll calls).at fault faultInTry)

/-! ### Errors that cross native re-entries (callbacks run by core-library functions)

A core-library function that runs a script function (`fold`, `any`, … eagerly; `each`, `keep`, …
lazily when their iterator is consumed) enters the interpreter again through
`call_and_run_function`: the callback's frame gets an execution barrier, so the unwinding of that
entry stops there and the error is handed to the native caller with the trace collected so far.
`call_and_run_function` pops the barrier frame; a lazy adaptor then appends the frame it recorded
when it was *created* (`error.extend_trace(self.error_frame)`, "highlight the adaptor itself");
the native function returns the error to the interpreter loop that executed the native call
instruction, whose `pop_call_stack_on_error` appends its own `instruction_frame()` (the native call)
and goes on unwinding that entry. Frames below a barrier never matter (`unwind_frames`), so every
entry is modelled as a stack of its own with a barrier at the bottom. -/

/-- one interpreter entry: the script calls made inside it (outermost first), the ip of the
instruction that fails in its innermost function (the fault itself for the innermost entry, the
native call instruction for the others) and, if the entry nested inside this one was made by a lazy
adaptor, the ip at which that adaptor was created (an instruction of the same function) -/
structure Seg where
  calls : List Call
  failIp : Nat
  adaptorIp : Option Nat := none
  failInTry : Bool := false
  deriving Repr, DecidableEq, Inhabited

/-- entries innermost first; `tr` = trace handed over by the entry nested inside -/
def predictSegs : List Seg → List IFrame → Outcome
  | [], tr => .uncaught tr
  | s :: rest, tr =>
    let vm := ((VM.run 0).callAll s.calls).at s.failIp s.failInTry
    let adaptor : List IFrame := match s.adaptorIp with
      | some a => [⟨vm.chunk, a⟩]
      | none => []
    match unwindGo true vm.stack (tr ++ adaptor ++ [vm.instructionFrame]) with
    | .caught => .caught
    | .uncaught t => predictSegs rest t

/-- the frames one entry contributes when nothing is caught -/
def segFrames (s : Seg) : List IFrame :=
  (match s.adaptorIp with
    | some a => [⟨lastChunk 0 s.calls, a⟩]
    | none => []) ++ ⟨lastChunk 0 s.calls, s.failIp⟩ :: (callSites 0 s.calls).reverse

end KotoVerif.Trace
