/-
An abstract VM for one unit (function body) of a chunk: the part of `crates/runtime/src/vm.rs` that
the well-formedness of bytecode is about — the instruction pointer, the depth of the sequence- and
string-builder stacks (relative to frame entry) and the frame's catch stack.

* `exec`: `execute_instruction` — the builder/catch-stack effect of the instruction at `pc`
  (`SequenceStart` pushes a builder, `SequencePush*`/`SequenceTo*` need one (`MissingSequenceBuilder`
  otherwise), likewise for strings; `TryStart` pushes `(ip + catch_offset)` on `catch_stack`, `TryEnd`
  pops it), then the instruction pointer moves to one of `succPcs` (fall through, `jump_ip`,
  `jump_ip_back`, the `Function` skip).
* `unwind`: an instruction raised an error and the frame has a handler (`pop_call_stack_on_error`):
  `set_ip(catch_ip)`; the catch stack is left as it is (the handler's first instruction is the
  `TryEnd` that pops it) and the builder stacks are truncated to the lengths recorded at `TryStart`
  (fix 97373d1; before it the real VM left builders opened inside the try block behind).
* leaving the frame (`Return`, or an error without a handler): `pop_frame` truncates the builder
  stacks to their lengths at frame entry (fix 97373d1), so an open builder at `Return` is discarded
  and is not a fault.

Values, registers' contents and calls are not modelled here: a callee runs in its own unit with its
own configuration and, when it is balanced, returns with the builder stacks as it found them.
-/
import KotoVerif.Model.WF

namespace KotoVerif.Bytecode
open KotoVerif.Gen

structure Cfg where
  pc : Nat
  /-- open sequence builders / string builders since frame entry -/
  seq : Nat
  str : Nat
  /-- `Frame::catch_stack`, top first: catch ip, and the builder depths when `TryStart` ran -/
  catches : List (Nat × Nat × Nat)
  deriving Repr

/-- `ip + catch_offset` of a `TryStart` (its forward offset operand). -/
def catchIp (a : Ann) : Nat := a.next + (fwdOffsets a.ins.fields a.ins.args).headD 0

/-- Builder / catch-stack effect of executing `a`; `none` = internal fault
(`MissingSequenceBuilder`, `MissingStringBuilder`). -/
def vmEffect (a : Ann) (c : Cfg) : Option Cfg :=
  match a.ins.op with
  | .SequenceStart => some { c with seq := c.seq + 1 }
  | .SequencePush | .SequencePushN => if c.seq = 0 then none else some c
  | .SequenceToList | .SequenceToTuple => if c.seq = 0 then none else some { c with seq := c.seq - 1 }
  | .StringStart => some { c with str := c.str + 1 }
  | .StringPush => if c.str = 0 then none else some c
  | .StringFinish => if c.str = 0 then none else some { c with str := c.str - 1 }
  | .TryStart => some { c with catches := (catchIp a, c.seq, c.str) :: c.catches }
  | .TryEnd => some { c with catches := c.catches.tail }
  | _ => some c

inductive Step (l : List Ann) : Cfg → Cfg → Prop where
  | exec (c c' : Cfg) (a : Ann) (ps : List Nat) (p : Nat) :
      findPc l c.pc = some a → vmEffect a c = some c' → succPcs a = some ps → p ∈ ps →
      Step l c { c' with pc := p }
  | unwind (c : Cfg) (a : Ann) (h : Nat × Nat × Nat) (rest : List (Nat × Nat × Nat)) :
      findPc l c.pc = some a → c.catches = h :: rest →
      Step l c { pc := h.1, seq := h.2.1, str := h.2.2, catches := c.catches }

/-- Configurations reachable from `c0`. -/
inductive Reach (l : List Ann) (c0 : Cfg) : Cfg → Prop where
  | refl : Reach l c0 c0
  | step (c c' : Cfg) : Reach l c0 c → Step l c c' → Reach l c0 c'

/-- Internal faults of a configuration: the instruction pointer is not on an instruction of this
unit (mid-instruction, inside a nested body, past the unit's end); a builder instruction finds its
builder stack empty; a backward jump leaves the chunk. -/
def Fault (l : List Ann) (c : Cfg) : Prop :=
  match findPc l c.pc with
  | none => True
  | some a =>
    vmEffect a c = none ∨ succPcs a = none

end KotoVerif.Bytecode
