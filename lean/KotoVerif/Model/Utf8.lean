/-
UTF-8 on byte lists: continuation bytes, `str::is_char_boundary`, a validator (the Unicode Table 3-7
automaton = `std::str::from_utf8(..).is_ok()`), the decomposition into characters, `char::encode_utf8`,
and grapheme segmentation *relative to an oracle* `gFirst` (byte length of the first extended
grapheme cluster of a non-empty string — supplied from outside, never computed here).
Shared by `Model/Str.lean` and `Model/FmtSpec.lean`. Core Lean only.
-/
namespace KotoVerif.Utf8

abbrev Bytes := List Nat

/-! ## UTF-8 -/

/-- continuation byte `10xxxxxx` -/
def isCont (b : Nat) : Bool := decide (0x80 ≤ b) && decide (b < 0xC0)

/-- `str::is_char_boundary` (on raw bytes, exactly as std computes it) -/
def isBoundary (bs : Bytes) (i : Nat) : Bool :=
  if i = 0 then true
  else match bs[i]? with
    | some b => !isCont b
    | none => i == bs.length

/-- state of the UTF-8 validator: `need k lo hi` = `k+1` more bytes are expected and the next one
must be a continuation byte in `[lo, hi]` (Unicode Table 3-7: no overlongs, no surrogates,
nothing above U+10FFFF) -/
inductive U8 where
  | start
  | need (k lo hi : Nat)
  deriving DecidableEq, Repr

def u8step : U8 → Nat → Option U8
  | .start, b =>
    if b < 0x80 then some .start
    else if 0xC2 ≤ b ∧ b ≤ 0xDF then some (.need 0 0x80 0xBF)
    else if b = 0xE0 then some (.need 1 0xA0 0xBF)
    else if (0xE1 ≤ b ∧ b ≤ 0xEC) ∨ b = 0xEE ∨ b = 0xEF then some (.need 1 0x80 0xBF)
    else if b = 0xED then some (.need 1 0x80 0x9F)
    else if b = 0xF0 then some (.need 2 0x90 0xBF)
    else if 0xF1 ≤ b ∧ b ≤ 0xF3 then some (.need 2 0x80 0xBF)
    else if b = 0xF4 then some (.need 2 0x80 0x8F)
    else none
  | .need k lo hi, b =>
    if isCont b ∧ lo ≤ b ∧ b ≤ hi then
      (match k with
       | 0 => some .start
       | k + 1 => some (.need k 0x80 0xBF))
    else none

def u8run : U8 → Bytes → Option U8
  | st, [] => some st
  | st, b :: bs =>
    match u8step st b with
    | none => none
    | some st' => u8run st' bs

/-- `std::str::from_utf8(bs).is_ok()` -/
def validUtf8 (bs : Bytes) : Bool := u8run .start bs == some .start

/-- Characters of a byte string: a new group starts at every non-continuation byte
(for well-formed UTF-8 these are exactly the encoded scalar values). -/
def charsOf : Bytes → List Bytes
  | [] => []
  | b :: bs =>
    match charsOf bs with
    | [] => [[b]]
    | [] :: gs => [b] :: gs
    | (c :: g) :: gs => if isCont c then (b :: c :: g) :: gs else [b] :: (c :: g) :: gs

/-- UTF-8 encoding of a scalar value (`char::encode_utf8`) -/
def utf8Enc (cp : Nat) : Bytes :=
  if cp < 0x80 then [cp]
  else if cp < 0x800 then [0xC0 + cp / 64, 0x80 + cp % 64]
  else if cp < 0x10000 then [0xE0 + cp / 4096, 0x80 + cp / 64 % 64, 0x80 + cp % 64]
  else [0xF0 + cp / 262144, 0x80 + cp / 4096 % 64, 0x80 + cp / 64 % 64, 0x80 + cp % 64]

/-- `char::from_u32(cp).is_some()` -/
def isScalar (cp : Nat) : Bool := decide (cp < 0xD800) || (decide (0xE000 ≤ cp) && decide (cp < 0x110000))

/-- segmentation into grapheme clusters by repeatedly taking `gFirst` (what `graphemes(true)` yields) -/
def segs (gFirst : Bytes → Nat) : Nat → Bytes → List Bytes
  | 0, _ => []
  | _ + 1, [] => []
  | fuel + 1, b :: bs =>
    let g := gFirst (b :: bs)
    (b :: bs).take g :: segs gFirst fuel ((b :: bs).drop g)

def graphemes (gFirst : Bytes → Nat) (s : Bytes) : List Bytes := segs gFirst s.length s

/-- the coarsest oracle: every character is its own cluster -/
def gFirstChar (s : Bytes) : Nat := ((charsOf s).head?.map List.length).getD 0

end KotoVerif.Utf8
