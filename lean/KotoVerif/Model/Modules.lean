/-
C18 — model of Koto's module system: `export`, `import` / `from … import` (with `as` and `*`), module
resolution, the loader's chunk cache, the runtime's module cache with its in-progress placeholder,
run-once / cycle detection / rollback after a failed import, `@test`s and `@main`, and
`export_top_level_ids`.

Mirrors (quirks included):
* `crates/runtime/src/vm.rs`: `run_import`, `successful_import`, `run_export_value`,
  `run_load_non_local`, `NonLocals::{get, add_wildcard_import}`, `run_tests`, `KotoVm::run`;
* `crates/bytecode/src/module_loader.rs`: `find_module`, `ModuleLoader::compile_module`;
* `crates/bytecode/src/compiler.rs`: `compile_import`, `compile_from`, `compile_import_item`,
  `compile_export`, `compile_assign` (`force_export_assignment`), `compile_load_id`, and the capture rule
  of `Frame::captures_for_nested_frame`;
* `crates/koto/src/koto.rs`: `Koto::run` (script → tests → `@main`; exports persist between runs).

External facts are parameters: the file system (`FS`: which `name.koto` / `name/main.koto` exist and
what they contain, already parsed into action lists — the parser/compiler are abstracted), the prelude
(`Cfg.prelude`).  Nested execution (an import runs another module's body) is fuel-indexed:
`runUnit fuel`; every theorem in `Props/C18.lean` is stated for every fuel.

Envelope (what is deliberately not modelled; the generator stays inside it):
* statements are straight-line; the only error handling is the guarded *string* import
  (`try` / `import 'm'` / `catch`), which binds nothing — after a caught failed `import m` the real
  local `m` holds the module-name string (register left-over, C04 territory);
* values are integers, null, module export maps, exported functions and opaque prelude entries; exported
  functions are straight-line and called from module / host top levels only (`TAct.callMember`,
  `TAct.call`); since `export` inside a function writes to the caller's map (finding F-C18-6) a
  completed exports map is never mutated and `mref p` is also its identity;
* `export_top_level_ids` + `from m import *` with `m` a local of the same script reads a register the
  compiler never wrote (finding F-C18-2): the model states the intended result there;
* import strings may carry path segments (`'../lib/name'`, `..` never above the root, components
  exist) and dotted names (`'utils.v2'`, through `Cfg.stem`); no nested item paths
  (`from a.b import c`), no symlinks.

Only core Lean is imported so that the driver links and `decide` can evaluate everything.
-/
namespace KotoVerif.Modules

/-- identifiers: module names, export keys and local variables share one namespace, as in Koto -/
abbrev Name := Nat

/-- path of a module file, relative to the root of the (finite) file system, as the loader spells it:
`dir/name.koto` (`isDir = false`) or `dir/name/main.koto` (`isDir = true`); a directory segment is a
name or `..` (`none`). `.` segments do not occur (Rust's `Path` equality ignores them). Paths are the
keys of the loader cache and of the module cache; the file system is asked at normalised paths. -/
structure Path where
  dir : List (Option Name)
  name : Name
  isDir : Bool
  deriving DecidableEq, Repr, Inhabited

/-- `x/..` collapsed, left to right (`..` at the root stays at the root) -/
def normSegs : List (Option Name) → List Name → List Name
  | [], acc => acc.reverse
  | some n :: rest, acc => normSegs rest (n :: acc)
  | none :: rest, acc => normSegs rest acc.tail

/-- the canonical spelling (what `canonicalize` returns; no symlinks) -/
def Path.norm (p : Path) : Path := { p with dir := (normSegs p.dir []).map some }

/-- the directory that contains the file — imports made by code of this file are resolved here
(`find_module` canonicalises the current script path first) -/
def Path.folder (p : Path) : List Name :=
  if p.isDir then normSegs p.dir [] ++ [p.name] else normSegs p.dir []

/-- runtime values that occur in the modelled fragment. A module's exports map is referred to by the
path of the module (`mref`): a module has at most one completed exports map per runtime
(`done_stable` in Props/C18), and a completed map is never mutated in the modelled fragment, so the
reference is also the instance identity that `add_wildcard_import` compares. -/
inductive V where
  | int (n : Int)
  | mref (p : Path)
  | core (n : Name)          -- a prelude entry that is a map (opaque core-library module)
  | native (n : Name)        -- a prelude entry that is a function (`size`, `type`, `copy`)
  | null                     -- what an unpacking assignment binds when the right-hand side is too short
  /-- the function that the module at `home` (`none` = the host's scripts) exported under `key`; the
  closure itself lives in that module's exports (`Exports.fns`) -/
  | fn (home : Option Path) (key : Name)
  deriving DecidableEq, Repr, Inhabited

inductive Err where
  | recursive     -- "recursive import of module '…'"
  | notFound      -- "unable to find module '…'"
  | compile       -- the module file does not compile
  | thrown        -- `throw` executed (top level, @test or @main)
  | idNotFound    -- "'x' not found" (LoadNonLocal)
  | access        -- "'x' not found in …" (Access on the imported value)
  | type          -- ImportAll on a value that is neither a string nor a map
  | exportEntry   -- "expected Key/Value pair to export" (export_top_level_ids + `from x import *` on a number)
  | call          -- "expected callable function"
  | arith         -- "unable to perform operation '+=' with …"
  deriving DecidableEq, Repr, Inhabited

/-- what an import statement names: an id (`name`), or a string (`str`) that may carry leading path
segments (`'../lib/name'` → `segs = [none, some lib]`) -/
structure Ref where
  name : Name
  str : Bool := false
  segs : List (Option Name) := []
  /-- the nested part of a from-path: `from a.b.c import …` has root `a` and `sub = [b, c]`
  (import statements have no nested part: `import a.b` is a parse error) -/
  sub : List Name := []
  deriving DecidableEq, Repr, Inhabited

/-- `name`, `name as alias`, `'name'`, `'name' as alias` -/
structure Item extends Ref where
  as_ : Option Name
  deriving DecidableEq, Repr, Inhabited

/-- the local that the item binds (when it binds one) -/
def Item.target (i : Item) : Name := i.as_.getD i.name

/-- string items bind a local only through `as` -/
def Item.binds (i : Item) : Bool := !(i.str && i.as_.isNone)

/-- the key under which export_top_level_ids exports an imported item. Id items: the code as recorded
in finding F-C18-1 used the name of the imported item even when the statement binds an alias
(`alias = false`); repaired: the alias (`alias = true`). String items: the code as it is exports
nothing, so `'x' as y` is lost for the next chunk (finding F-C18-5, `strAlias = false`); with the
proposed repair the alias is exported (`strAlias = true`). -/
def Item.exportKey? (alias strAlias : Bool) (i : Item) : Option Name :=
  if i.str then (if strAlias then i.as_ else none)
  else some (if alias then i.target else i.name)

/-- an entry of a map pattern: `key` (binds `key`), `key as n` (binds `n`; the key may also be written
as a string), `key as _` (binds nothing) -/
structure PEntry where
  key : Name
  target : Option Name
  deriving DecidableEq, Repr, Inhabited

/-- the assignment-target shapes the grammar allows (nested tuple/list patterns, `...` rests and nested
map patterns are parse errors in assignments): an id, `_`, or a map pattern `{a, b as c, d as _}` -/
inductive Target where
  | id (k : Name)
  | ignored
  | mapPat (entries : List PEntry)
  deriving DecidableEq, Repr, Inhabited

/-- right-hand-side elements: an integer literal or the value of an id -/
inductive Rhs where
  | lit (n : Int)
  | ref (k : Name)
  deriving DecidableEq, Repr, Inhabited

/-- compound assignment operators (`/=` yields floats, which the value model does not have) -/
inductive COp where
  | add | sub | mul | rem | pow
  deriving DecidableEq, Repr, Inhabited

/-- i64 arithmetic wraps -/
def wrap64 (n : Int) : Int := (n + 9223372036854775808) % 18446744073709551616 - 9223372036854775808

def powInt (a : Int) : Nat → Int
  | 0 => 1
  | n + 1 => wrap64 (powInt a n * a)

/-- `a op= b` on integers (`%` truncates like Rust; a zero divisor and a negative exponent are outside
the generated envelope: the result there is the left operand) -/
def COp.apply : COp → Int → Int → Int
  | .add, a, b => wrap64 (a + b)
  | .sub, a, b => wrap64 (a - b)
  | .mul, a, b => wrap64 (a * b)
  | .rem, a, b => if b = 0 then a else Int.tmod a b
  | .pow, a, b => if b < 0 then a else powInt a b.toNat

/-- the ids an assignment target binds -/
def Target.bound : Target → List Name
  | .id k => [k]
  | .ignored => []
  | .mapPat es => es.filterMap PEntry.target

def boundIds (ts : List Target) : List Name := ts.flatMap Target.bound

/-- straight-line statements (usable at a module's top level and inside `@main` / `@test` bodies) -/
inductive Act where
  | print (mk : Nat)                           -- `print 'P<mk>'`
  | export_ (k : Name) (v : Int)               -- `export k = v`
  | assign (k : Name) (v : Int)                -- `k = v`
  | exportId (k : Name) (src : Name)           -- `export k = src`
  | show (mk : Nat) (k : Name)                 -- `print "S<mk>={k}"`
  | importMods (items : List Item)             -- `import a, b as c`
  | fromImport (m : Ref) (items : List Item)   -- `from m import a, b as c`
  | fromAll (m : Ref)                          -- `from m import *`
  | tryImport (m : Ref) (mk : Nat)             -- `try` / `import 'm'` / `catch e` / `print 'C<mk>:<class>'`
  | tryShow (mk : Nat) (k : Name)              -- `try` / `print "S<mk>={k}"` / `catch e` / `print 'C<mk>:<class>'`
  | fail (mk : Nat)                            -- `throw 'boom<mk>'`
  /-- `[export] t1, t2, … = r1, r2, …` — (multi-)assignment with any target shapes -/
  | assignPat (exp : Bool) (targets : List Target) (rhs : List Rhs)
  /-- `k op= r` -/
  | compound (k : Name) (op : COp) (r : Rhs)
  /-- `for zi in 0..n` / `  k op= r`: a compound assignment in a top-level loop -/
  | loopCompound (n : Nat) (k : Name) (op : COp) (r : Rhs)
  /-- `export k = i` executed for i = 1 … last inside a callback of a core function (iterator adaptors,
  which run the callback in a spawned VM that shares the exports map; consumers, which call it on the
  calling VM) or inside a generator body: the callback's `k` is its own local, the exports entry is
  written every time -/
  | cbExport (last : Nat) (k : Name)
  /-- an assignment `k = v` nested in a conditional: form 0 `if true`, form 1 `if false` (not executed),
  form 2 (and above) `match 1` / `1 then` -/
  | condAssign (form : Nat) (k : Name) (v : Int)
  deriving DecidableEq, Repr, Inhabited

/-- top-level statements: the above plus definitions of `@main` and `@test name` (their bodies print
their marker first) -/
inductive TAct where
  | act (a : Act)
  | defMain (mk : Nat) (body : List Act)
  | defTest (name : Name) (mk : Nat) (body : List Act)
  /-- `export k = ||` + body: an exported function (its body prints its marker first) -/
  | exportFn (k : Name) (mk : Nat) (body : List Act)
  /-- `m.k()`: call the entry `k` of the map held by the id `m` (an imported module) -/
  | callMember (m k : Name)
  /-- `k()` -/
  | call (k : Name)
  deriving DecidableEq, Repr, Inhabited

inductive File where
  | bad                          -- exists but does not compile
  | ok (body : List TAct)
  deriving DecidableEq, Repr, Inhabited

/-- the file system: which module files exist, and their contents -/
abbrev FS := Path → Option File

/-- a function value: body, the directory of the chunk it was compiled in, captured locals (by value,
at creation) and the wildcard imports its frame had at creation (`FunctionContext::non_locals`) -/
structure Closure where
  marker : Nat
  body : List Act
  dir : List Name
  locals : List (Name × V)
  wild : List V
  deriving DecidableEq, Repr, Inhabited

/-- an exports map: data entries (insertion ordered) and the meta entries that matter here -/
structure Exports where
  data : List (Name × V) := []
  main : Option Closure := none
  tests : List (Name × Closure) := []
  fns : List (Name × Closure) := []      -- the closures of exported functions (`V.fn _ key`)
  deriving DecidableEq, Repr, Inhabited

/-- module cache entry: `None` placeholder (import in progress) or the cached exports -/
inductive Entry where
  | inProgress
  | done (e : Exports)
  deriving DecidableEq, Repr, Inhabited

inductive Event where
  | print (mk : Nat)
  | show (mk : Nat) (v : V)
  | caught (mk : Nat) (e : Err)
  | enter (p : Path)      -- ghost: run_import starts executing the module at p
  | done (p : Path)       -- the module at p was imported successfully (module_imported_callback)
  | failed (p : Path)     -- ghost: the import of p failed after it had started executing
  deriving DecidableEq, Repr, Inhabited

/-- the runtime: `ModuleLoader::chunks`, `VmContext::module_cache`, `KotoVm::exports`, stdout -/
structure St where
  loader : Path → Bool := fun _ => false
  cache : Path → Option Entry := fun _ => none
  exports : Exports := {}
  out : List Event := []

instance : Inhabited St := ⟨{}⟩

structure Cfg where
  runImportTests : Bool                      -- KotoVmSettings::run_import_tests
  hostTests : Bool                           -- KotoSettings::run_tests
  prelude : Name → Option V := fun _ => none
  exportAlias : Bool := false                -- see `Item.exportKey?`
  exportStrAlias : Bool := false             -- see `Item.exportKey?`
  /-- `find_module` canonicalises the `name.koto` branch too (repair of finding F-C18-3); as it is, only
  the `name/main.koto` branch is canonicalised, so one file can have several cache keys -/
  canonFile : Bool := false
  /-- what `Path::with_extension("koto")` keeps of a module name: a dotted suffix is dropped
  (`'utils.v2'` → `utils`, finding F-C18-4); identity for undotted names and after the repair -/
  stem : Name → Name := id
  /-- non-local lookups consult the module's own exports before its wildcard imports (repair of finding
  F-C18-7); as it is, wildcard imports come first and shadow the module's own `export` -/
  exportsFirst : Bool := false
  /-- repeating a wildcard import moves the map to the most-recent end of the frame's wildcard list
  (repair of finding F-C18-10); as it is, `add_wildcard_import` skips a map that is already present, so
  the repeated import does not get its precedence back -/
  wildRefresh : Bool := false
  /-- the id roots of import statements count as non-local accesses of a function (repair of finding
  F-C18-9), so a function that imports an id which is a local of the enclosing frame captures it; as
  it is, import roots are not accesses (and a function with no other non-local access has no
  non-locals at all — outside the generated envelope: every generated function prints) -/
  importCaptures : Bool := false

/-- execution frame: where imports resolve, locals, wildcard imports, and whether top-level
assignments are exported (`export_top_level_ids`, host script top level only) -/
structure Frame where
  dir : List Name
  locals : List (Name × V) := []
  wild : List V := []
  exportTop : Bool := false
  /-- the module whose top level this frame executes (`none`: a host script or a function) -/
  self : Option Path := none
  /-- for the frame of an exported function: the module that defined it. Non-local reads go to THAT
  module's exports map (`FunctionContext::non_locals.module_exports`) — while `export` inside the
  function writes to the VM's active exports map, i.e. the caller's (finding F-C18-6). -/
  home : Option Path := none
  deriving Repr, Inhabited

/-! ### association lists with `IndexMap::insert` semantics -/

def lookup {α : Type} (k : Name) : List (Name × α) → Option α
  | [] => none
  | (k', v) :: rest => if k' = k then some v else lookup k rest

/-- replace in place when the key exists, append otherwise -/
def insert {α : Type} (k : Name) (v : α) : List (Name × α) → List (Name × α)
  | [] => [(k, v)]
  | (k', v') :: rest => if k' = k then (k, v) :: rest else (k', v') :: insert k v rest

def upd {α : Type} (f : Path → α) (p : Path) (a : α) : Path → α := fun q => if q = p then a else f q

def emit (e : Event) (st : St) : St := { st with out := st.out ++ [e] }

def setData (k : Name) (v : V) (st : St) : St :=
  { st with exports := { st.exports with data := insert k v st.exports.data } }

def bind (k : Name) (v : V) (fr : Frame) : Frame := { fr with locals := insert k v fr.locals }

/-! ### non-local lookup (`NonLocals::get`, `run_load_non_local`) -/

/-- the entries of a map value -/
def resolve (cache : Path → Option Entry) : V → Option (List (Name × V))
  | .mref p => match cache p with
    | some (.done e) => some e.data
    | _ => none
  | _ => none

/-- wildcard imports are searched most-recent-first -/
def wildGet (cache : Path → Option Entry) (k : Name) (wild : List V) : Option V :=
  wild.reverse.findSome? (fun w => (resolve cache w).bind (lookup k))

/-- the exports map a frame's non-local reads consult: the active one, except in the frame of an
exported function whose defining module has completed — then that module's cached map -/
def modExports (fr : Frame) (st : St) : Exports :=
  match fr.home with
  | some p =>
    match st.cache p with
    | some (.done e) => e
    | _ => st.exports
  | none => st.exports

/-- wildcard imports, then the module's exports, then the prelude -/
def nonLocal (cfg : Cfg) (fr : Frame) (st : St) (k : Name) : Option V :=
  if cfg.exportsFirst then
    ((lookup k (modExports fr st).data).orElse fun _ => wildGet st.cache k fr.wild).orElse fun _ => cfg.prelude k
  else
    ((wildGet st.cache k fr.wild).orElse fun _ => lookup k (modExports fr st).data).orElse fun _ => cfg.prelude k

/-- `compile_load_id`: a local if one is assigned, otherwise a non-local lookup at run time -/
def readId (cfg : Cfg) (fr : Frame) (st : St) (k : Name) : Option V :=
  (lookup k fr.locals).orElse fun _ => nonLocal cfg fr st k

/-- `add_wildcard_import`: skipped when the same map instance is already present -/
def addWild (refresh : Bool) (v : V) (fr : Frame) : Frame :=
  if fr.wild.contains v then
    (if refresh then { fr with wild := fr.wild.erase v ++ [v] } else fr)
  else { fr with wild := fr.wild ++ [v] }

/-! ### module resolution and `run_import` -/

/-- `find_module`: `name.koto` first, then `name/main.koto`, in the importing file's directory
(extended by the path segments of a string import). The file system is asked at the normalised path;
the returned cache key is normalised only in the `main.koto` branch (and in the file branch when
`cfg.canonFile`). -/
def findModule (cfg : Cfg) (fs : FS) (dir : List Name) (r : Ref) : Option Path :=
  let raw := dir.map some ++ r.segs
  let fileKey : Path := ⟨raw, cfg.stem r.name, false⟩
  let dirKey : Path := ⟨raw, r.name, true⟩
  if (fs fileKey.norm).isSome then some (if cfg.canonFile then fileKey.norm else fileKey)
  else if (fs dirKey.norm).isSome then some dirKey.norm
  else none

/-- the non-local / prelude hit of `run_import`: the whole import string is looked up, so a string
with path segments never hits -/
def importHit (cfg : Cfg) (fr : Frame) (st : St) (r : Ref) : Option V :=
  if r.segs.isEmpty then nonLocal cfg fr st r.name else none

/-- runs a module unit (top level → tests → @main) in the given directory; `none` = out of fuel -/
abbrev Runner := Option Path → List Name → List TAct → St → Option (Option Err × St)

def bodyOf (fs : FS) (p : Path) : List TAct :=
  match fs p.norm with
  | some (.ok b) => b
  | _ => []

/-- `ModuleLoader::compile_module` after `find_module`: `(loaded_from_cache, state)` or a compile error -/
def compileModule (fs : FS) (p : Path) (st : St) : Option (Bool × St) :=
  if st.loader p then some (true, st)
  else match fs p.norm with
    | some (.ok _) => some (false, { st with loader := upd st.loader p true })
    | _ => none

/-- the second half of `run_import`: the module at `p` has to be executed. A placeholder is inserted
(`None`, import in progress), the importer's exports map is swapped for an empty one, the module runs
(top level → tests → `@main`, via `rec`); on success the placeholder is replaced by the exports map, on
failure it is removed; in both cases the importer's exports map is put back. -/
def loadModule (fs : FS) (rec : Runner) (p : Path) (st1 : St) : Option (Except Err V × St) :=
  let saved := st1.exports
  let st2 := emit (.enter p) { st1 with cache := upd st1.cache p (some .inProgress), exports := {} }
  match rec (some p) p.folder (bodyOf fs p) st2 with
  | none => none
  | some (none, st3) =>
    some (.ok (.mref p),
      emit (.done p) { st3 with cache := upd st3.cache p (some (.done st3.exports)), exports := saved })
  | some (some e, st3) =>
    some (.error e, emit (.failed p) { st3 with cache := upd st3.cache p none, exports := saved })

/-- `run_import` for an import name: non-local / prelude hit first; then resolve and compile; a
placeholder in the module cache means a recursive import; cached exports are returned when the chunk
came from the loader's cache; otherwise the module is executed. -/
def runImport (cfg : Cfg) (fs : FS) (rec : Runner) (fr : Frame) (name : Ref) (st : St) :
    Option (Except Err V × St) :=
  match importHit cfg fr st name with
  | some v => some (.ok v, st)
  | none =>
    match findModule cfg fs fr.dir name with
    | none => some (.error .notFound, st)
    | some p =>
      match compileModule fs p st with
      | none => some (.error .compile, st)
      | some (fromCache, st1) =>
        match st1.cache p, fromCache with
        | some .inProgress, _ => some (.error .recursive, st1)
        | some (.done _), true => some (.ok (.mref p), st1)
        | _, _ => loadModule fs rec p st1

/-- numbers, null and functions: iterating them yields the value itself -/
def V.scalar : V → Bool
  | .int _ => true
  | .null => true
  | .fn _ _ => true
  | .native _ => true
  | _ => false

/-- `run_import` when the register already holds a value (the imported id is a local):
maps succeed, anything else is a type error (strings do not occur in the fragment) -/
def importValue : V → Except Err V
  | .int _ => .error .type
  | .null => .error .type
  | .fn _ _ => .error .type
  | .native _ => .error .type
  | v => .ok v

/-- the value an `import m` / `from m` root denotes: a local (compile-time decision of
`compile_import_item`) or the result of `run_import` -/
def rootValue (cfg : Cfg) (fs : FS) (rec : Runner) (fr : Frame) (m : Ref) (st : St) :
    Option (Except Err V × St) :=
  match (if m.str then none else lookup m.name fr.locals) with
  | some v => some (.ok v, st)
  | none => runImport cfg fs rec fr m st

/-- `Access` on the imported value -/
def access (cache : Path → Option Entry) (v : V) (k : Name) : Except Err V :=
  match (resolve cache v).bind (lookup k) with
  | some x => .ok x
  | none => .error .access

/-- the nested items of a from-path, accessed one after the other (`compile_from`) -/
def accessPath (cache : Path → Option Entry) : V → List Name → Except Err V
  | v, [] => .ok v
  | v, k :: ks =>
    match access cache v k with
    | .error e => .error e
    | .ok x => accessPath cache x ks

/-- root of an import / from statement followed by the nested items of its from-path -/
def importRoot (cfg : Cfg) (fs : FS) (rec : Runner) (fr : Frame) (m : Ref) (st : St) :
    Option (Except Err V × St) :=
  match rootValue cfg fs rec fr m st with
  | none => none
  | some (.error e, st1) => some (.error e, st1)
  | some (.ok v, st1) => some (accessPath st1.cache v m.sub, st1)

/-- the value a `from … import *` statement wildcard-imports. One component: a local goes to `ImportAll`
as a value (maps succeed, other values are a type error), anything else through `run_import` (whose
non-local hit may be any value). Several components: the root is imported WITHOUT the wildcard flag,
the nested items are accessed, and only the final value goes to `ImportAll`. -/
def wildRoot (cfg : Cfg) (fs : FS) (rec : Runner) (fr : Frame) (m : Ref) (st : St) :
    Option (Except Err V × St) :=
  if m.sub.isEmpty then
    match (if m.str then none else lookup m.name fr.locals) with
    | some v => some (importValue v, st)
    | none => runImport cfg fs rec fr m st
  else
    match importRoot cfg fs rec fr m st with
    | none => none
    | some (.error e, st1) => some (.error e, st1)
    | some (.ok v, st1) => some (importValue v, st1)

def exportIf (b : Bool) (k : Name) (v : V) (st : St) : St := if b then setData k v st else st

/-- the local binding made by an import item -/
def bindItem (it : Item) (v : V) (fr : Frame) : Frame := if it.binds then bind it.target v fr else fr

/-- what export_top_level_ids exports for an import item -/
def exportItem (b alias strAlias : Bool) (it : Item) (v : V) (st : St) : St :=
  match it.exportKey? alias strAlias with
  | some k => exportIf b k v st
  | none => st

/-- `import a, b as c`: each item in turn -/
def importItems (cfg : Cfg) (fs : FS) (rec : Runner) :
    List Item → Frame → St → Option (Option Err × Frame × St)
  | [], fr, st => some (none, fr, st)
  | it :: rest, fr, st =>
    match importRoot cfg fs rec fr it.toRef st with
    | none => none
    | some (.error e, st1) => some (some e, fr, st1)
    | some (.ok v, st1) =>
      importItems cfg fs rec rest (bindItem it v fr)
        (exportItem fr.exportTop cfg.exportAlias cfg.exportStrAlias it v st1)

/-- `from m import a, b as c`: each item accessed on the module value in turn -/
def fromItems (alias strAlias : Bool) (mv : V) : List Item → Frame → St → Option Err × Frame × St
  | [], fr, st => (none, fr, st)
  | it :: rest, fr, st =>
    match access st.cache mv it.name with
    | .error e => (some e, fr, st)
    | .ok v =>
      fromItems alias strAlias mv rest (bindItem it v fr) (exportItem fr.exportTop alias strAlias it v st)

/-- `compile_export_iterable` on a map: every entry is exported in order -/
def exportAll : List (Name × V) → St → St
  | [], st => st
  | (k, v) :: rest, st => exportAll rest (setData k v st)

/-! ### (multi-)assignment with patterns (`compile_assign`, `compile_multi_assign`,
`compile_assign_to_map_finish`): every bound id becomes a local and — when the assignment is exported
or export_top_level_ids is active — an exports entry, target by target, entry by entry -/

/-- the right-hand side is evaluated first, in the frame as it was -/
def evalRhs (cfg : Cfg) (fr : Frame) (st : St) : List Rhs → Option (List V)
  | [] => some []
  | .lit n :: rest => (evalRhs cfg fr st rest).map (fun vs => V.int n :: vs)
  | .ref k :: rest =>
    match readId cfg fr st k with
    | none => none
    | some v => (evalRhs cfg fr st rest).map (fun vs => v :: vs)

/-- a map pattern against a value: each key is accessed on the value in turn -/
def bindEntries (b : Bool) (mv : V) : List PEntry → Frame → St → Option Err × Frame × St
  | [], fr, st => (none, fr, st)
  | e :: rest, fr, st =>
    match access st.cache mv e.key with
    | .error err => (some err, fr, st)
    | .ok v =>
      match e.target with
      | some n => bindEntries b mv rest (bind n v fr) (exportIf b n v st)
      | none => bindEntries b mv rest fr st

/-- targets against the values of the right-hand side (`null` when there are too few) -/
def bindTargets (b : Bool) : List Target → List V → Frame → St → Option Err × Frame × St
  | [], _, fr, st => (none, fr, st)
  | .id k :: ts, vs, fr, st =>
    bindTargets b ts vs.tail (bind k (vs.headD .null) fr) (exportIf b k (vs.headD .null) st)
  | .ignored :: ts, vs, fr, st => bindTargets b ts vs.tail fr st
  | .mapPat es :: ts, vs, fr, st =>
    match bindEntries b (vs.headD .null) es fr st with
    | (some e, fr1, st1) => (some e, fr1, st1)
    | (none, fr1, st1) => bindTargets b ts vs.tail fr1 st1

/-- `k op= r` (`compile_compound_assignment_op`): the right operand first, then the left one — a local
register, or a temporary loaded by a non-local lookup; the operation is applied in place, so a non-local
`k` is only changed through the re-export that export_top_level_ids adds at the top level -/
def compoundStep (cfg : Cfg) (k : Name) (op : COp) (r : Rhs) (fr : Frame) (st : St) :
    Option Err × Frame × St :=
  match evalRhs cfg fr st [r] with
  | some [.int b] =>
    match readId cfg fr st k with
    | none => (some .idNotFound, fr, st)
    | some (.int a) =>
      let v := V.int (op.apply a b)
      let fr1 := if (lookup k fr.locals).isSome then bind k v fr else fr
      (none, fr1, exportIf fr.exportTop k v st)
    | some _ => (some .arith, fr, st)
  | some _ =>
    match readId cfg fr st k with
    | none => (some .idNotFound, fr, st)
    | some _ => (some .arith, fr, st)
  | none => (some .idNotFound, fr, st)

def compoundLoop (cfg : Cfg) (k : Name) (op : COp) (r : Rhs) : Nat → Frame → St → Option Err × Frame × St
  | 0, fr, st => (none, fr, st)
  | n + 1, fr, st =>
    match compoundStep cfg k op r fr st with
    | (some e, fr1, st1) => (some e, fr1, st1)
    | (none, fr1, st1) => compoundLoop cfg k op r n fr1 st1

/-- the loop variable `zi` of `Act.loopCompound`: a local of the frame that holds null once the
iterator is exhausted — and, like every top-level id, exported after the loop under
export_top_level_ids (`compile_for`) -/
def loopVar : Name := 89

def execAct (cfg : Cfg) (fs : FS) (rec : Runner) (a : Act) (fr : Frame) (st : St) :
    Option (Option Err × Frame × St) :=
  match a with
  | .print mk => some (none, fr, emit (.print mk) st)
  | .export_ k v => some (none, bind k (.int v) fr, setData k (.int v) st)
  | .assign k v => some (none, bind k (.int v) fr, exportIf fr.exportTop k (.int v) st)
  | .exportId k src =>
    match readId cfg fr st src with
    | none => some (some .idNotFound, fr, st)
    | some v => some (none, bind k v fr, setData k v st)
  | .show mk k =>
    match readId cfg fr st k with
    | none => some (some .idNotFound, fr, st)
    | some v => some (none, fr, emit (.show mk v) st)
  | .importMods items => importItems cfg fs rec items fr st
  | .fromImport m items =>
    match importRoot cfg fs rec fr m st with
    | none => none
    | some (.error e, st1) => some (some e, fr, st1)
    | some (.ok mv, st1) => some (fromItems cfg.exportAlias cfg.exportStrAlias mv items fr st1)
  | .fromAll m =>
    match wildRoot cfg fs rec fr m st with
    | none => none
    | some (.error e, st1) => some (some e, fr, st1)
    | some (.ok mv, st1) =>
      -- with export_top_level_ids the imported value is iterated and every entry exported
      -- (`compile_export_iterable`); a number or null yields itself, which is not a key/value pair.
      -- Envelope: when `m` is a local the real compiler iterates a register it never wrote
      -- (finding F-C18-2); the model exports the entries of the local's value there.
      match fr.exportTop, mv.scalar with
      | true, true => some (some .exportEntry, addWild cfg.wildRefresh mv fr, st1)
      | true, false => some (none, addWild cfg.wildRefresh mv fr, exportAll ((resolve st1.cache mv).getD []) st1)
      | false, _ => some (none, addWild cfg.wildRefresh mv fr, st1)
  | .tryImport m mk =>
    match runImport cfg fs rec fr m st with
    | none => none
    | some (.error e, st1) => some (none, fr, emit (.caught mk e) st1)
    | some (.ok _, st1) => some (none, fr, st1)
  | .tryShow mk k =>
    match readId cfg fr st k with
    | none => some (none, fr, emit (.caught mk .idNotFound) st)
    | some v => some (none, fr, emit (.show mk v) st)
  | .fail _ => some (some .thrown, fr, st)
  | .assignPat exp targets rhs =>
    match evalRhs cfg fr st rhs with
    | none => some (some .idNotFound, fr, st)
    | some vs => some (bindTargets (exp || fr.exportTop) targets vs fr st)
  | .compound k op r => some (compoundStep cfg k op r fr st)
  | .loopCompound n k op r =>
    match compoundLoop cfg k op r n fr st with
    | (some e, fr1, st1) => some (some e, fr1, st1)
    | (none, fr1, st1) => some (none, bind loopVar .null fr1, exportIf fr1.exportTop loopVar .null st1)
  | .cbExport last k => some (none, fr, if last = 0 then st else setData k (.int last) st)
  | .condAssign form k v =>
    if form = 1 then
      -- not executed, but `k` is a local of the frame from here on (a register that holds null
      -- unless it was assigned before)
      some (none, if (lookup k fr.locals).isSome then fr else bind k .null fr, st)
    else some (none, bind k (.int v) fr, exportIf fr.exportTop k (.int v) st)

def execActs (cfg : Cfg) (fs : FS) (rec : Runner) :
    List Act → Frame → St → Option (Option Err × Frame × St)
  | [], fr, st => some (none, fr, st)
  | a :: rest, fr, st =>
    match execAct cfg fs rec a fr st with
    | none => none
    | some (some e, fr1, st1) => some (some e, fr1, st1)
    | some (none, fr1, st1) => execActs cfg fs rec rest fr1 st1

/-! ### functions: `@main` and `@test` -/

/-- the id roots of an import statement -/
def Act.importIds : Act → List Name
  | .importMods items => (items.filter (fun i => !i.str)).map (fun i => i.name)
  | .fromImport m _ => if m.str then [] else [m.name]
  | .fromAll m => if m.str then [] else [m.name]
  | _ => []

def Act.reads : Act → List Name
  | .show _ k => [k]
  | .tryShow _ k => [k]
  | .exportId _ src => [src]
  | .assignPat _ _ rhs => rhs.filterMap (fun r => match r with | .ref k => some k | _ => none)
  | .compound k _ r => k :: (match r with | .ref x => [x] | _ => [])
  | .loopCompound _ k _ r => k :: (match r with | .ref x => [x] | _ => [])
  | _ => []

def Act.binds : Act → List Name
  | .export_ k _ => [k]
  | .assign k _ => [k]
  | .exportId k _ => [k]
  | .importMods items => (items.filter Item.binds).map Item.target
  | .fromImport _ items => (items.filter Item.binds).map Item.target
  | .assignPat _ targets _ => boundIds targets
  | .condAssign _ k _ => [k]
  | .loopCompound _ _ _ _ => [loopVar]
  | _ => []

/-- ids the body reads before it binds them itself (the parser's `accessed_non_locals`) -/
def captureSet (ic : Bool) : List Act → List Name → List Name
  | [], _ => []
  | a :: rest, bound =>
    (a.reads ++ (if ic then a.importIds else [])).filter (fun k => !bound.contains k)
      ++ captureSet ic rest (a.binds ++ bound)

/-- `run_make_function`: accessed ids that are locals of the enclosing frame are captured by value;
the frame's non-locals (wildcard imports so far) are shared as a snapshot -/
def mkClosure (ic : Bool) (fr : Frame) (mk : Nat) (body : List Act) : Closure :=
  { marker := mk, body := body, dir := fr.dir,
    locals := fr.locals.filter (fun kv => (captureSet ic body []).contains kv.1),
    wild := fr.wild }

/-- what a function executes: its marker print first — except a "silent" function (marker 0), whose
only non-local needs are the roots of its import statements -/
def closureBody (c : Closure) : List Act := if c.marker = 0 then c.body else Act.print c.marker :: c.body

def runFn (cfg : Cfg) (fs : FS) (rec : Runner) (c : Closure) (st : St) : Option (Option Err × St) :=
  match execActs cfg fs rec (closureBody c)
      { dir := c.dir, locals := c.locals, wild := c.wild, exportTop := false } st with
  | none => none
  | some (r, _, st1) => some (r, st1)

/-- the closure behind a function value -/
def fnOf (st : St) (home : Option Path) (key : Name) : Option Closure :=
  lookup key (modExports { dir := [], home := home } st).fns

/-- calling a value: only functions are callable; the body runs in a frame of its own whose non-local
reads go to the defining module, with the VM's active exports map left as it is -/
def callValue (cfg : Cfg) (fs : FS) (rec : Runner) (v : V) (st : St) : Option (Option Err × St) :=
  match v with
  | .fn home key =>
    match fnOf st home key with
    | none => some (some .call, st)
    | some c =>
      match execActs cfg fs rec (closureBody c)
          { dir := c.dir, locals := c.locals, wild := c.wild, exportTop := false, home := home } st with
      | none => none
      | some (r, _, st1) => some (r, st1)
  | _ => some (some .call, st)

def execTAct (cfg : Cfg) (fs : FS) (rec : Runner) (a : TAct) (fr : Frame) (st : St) :
    Option (Option Err × Frame × St) :=
  match a with
  | .act a => execAct cfg fs rec a fr st
  | .exportFn k mk body =>
    let v := V.fn fr.self k
    some (none, bind k v fr,
      setData k v { st with exports := { st.exports with fns := insert k (mkClosure cfg.importCaptures fr mk body) st.exports.fns } })
  | .callMember m k =>
    match readId cfg fr st m with
    | none => some (some .idNotFound, fr, st)
    | some mv =>
      match access st.cache mv k with
      | .error e => some (some e, fr, st)
      | .ok fv =>
        match callValue cfg fs rec fv st with
        | none => none
        | some (r, st1) => some (r, fr, st1)
  | .call k =>
    match readId cfg fr st k with
    | none => some (some .idNotFound, fr, st)
    | some fv =>
      match callValue cfg fs rec fv st with
      | none => none
      | some (r, st1) => some (r, fr, st1)
  | .defMain mk body =>
    some (none, fr, { st with exports := { st.exports with main := some (mkClosure cfg.importCaptures fr mk body) } })
  | .defTest n mk body =>
    some (none, fr, { st with exports := { st.exports with tests := insert n (mkClosure cfg.importCaptures fr mk body) st.exports.tests } })

def execTActs (cfg : Cfg) (fs : FS) (rec : Runner) :
    List TAct → Frame → St → Option (Option Err × Frame × St)
  | [], fr, st => some (none, fr, st)
  | a :: rest, fr, st =>
    match execTAct cfg fs rec a fr st with
    | none => none
    | some (some e, fr1, st1) => some (some e, fr1, st1)
    | some (none, fr1, st1) => execTActs cfg fs rec rest fr1 st1

/-- `run_tests`: the `@test` entries in insertion order; the first failure aborts -/
def runTests (cfg : Cfg) (fs : FS) (rec : Runner) : List (Name × Closure) → St → Option (Option Err × St)
  | [], st => some (none, st)
  | (_, c) :: rest, st =>
    match runFn cfg fs rec c st with
    | none => none
    | some (some e, st1) => some (some e, st1)
    | some (none, st1) => runTests cfg fs rec rest st1

def runMain (cfg : Cfg) (fs : FS) (rec : Runner) (st : St) : Option (Option Err × St) :=
  match st.exports.main with
  | none => some (none, st)
  | some c => runFn cfg fs rec c st

/-- tests (when enabled) and then `@main`, on the active exports map -/
def afterTop (cfg : Cfg) (fs : FS) (rec : Runner) (tests : Bool) (st : St) : Option (Option Err × St) :=
  match (if tests then runTests cfg fs rec st.exports.tests st else some (none, st)) with
  | none => none
  | some (some e, st1) => some (some e, st1)
  | some (none, st1) => runMain cfg fs rec st1

/-- script → tests → `@main` in a fresh frame -/
def runBody (cfg : Cfg) (fs : FS) (rec : Runner) (tests : Bool) (fr : Frame) (body : List TAct) (st : St) :
    Option (Option Err × St) :=
  match execTActs cfg fs rec body fr st with
  | none => none
  | some (some e, _, st1) => some (some e, st1)
  | some (none, _, st1) => afterTop cfg fs rec tests st1

/-- the closure inside `run_import`: module top level, `@test`s if `run_import_tests`, `@main`.
Fuel bounds the import nesting depth. -/
def runUnit (cfg : Cfg) (fs : FS) : Nat → Runner
  | 0 => fun _ _ _ _ => none
  | fuel + 1 => fun self dir body st =>
    runBody cfg fs (runUnit cfg fs fuel) cfg.runImportTests { dir := dir, self := self } body st

/-! ### the host: `Koto::compile_and_run` calls on one runtime -/

structure Op where
  dir : List Name          -- directory of the script path given to the compiler
  exportTop : Bool         -- CompilerSettings::export_top_level_ids
  body : List TAct
  deriving Repr, Inhabited

/-- `Koto::run`: the exports map persists between calls; nothing is rolled back on failure -/
def hostRun (cfg : Cfg) (fs : FS) (fuel : Nat) (op : Op) (st : St) : Option (Option Err × St) :=
  runBody cfg fs (runUnit cfg fs fuel) cfg.hostTests { dir := op.dir, exportTop := op.exportTop } op.body st

/-- a history: results and the state after every operation -/
def runOps (cfg : Cfg) (fs : FS) (fuel : Nat) : List Op → St → Option (List (Option Err × St))
  | [], _ => some []
  | op :: rest, st =>
    match hostRun cfg fs fuel op st with
    | none => none
    | some (r, st1) =>
      match runOps cfg fs fuel rest st1 with
      | none => none
      | some rs => some ((r, st1) :: rs)

/-- the state after a history -/
def finalSt (cfg : Cfg) (fs : FS) (fuel : Nat) : List Op → St → Option St
  | [], st => some st
  | op :: rest, st =>
    match hostRun cfg fs fuel op st with
    | none => none
    | some (_, st1) => finalSt cfg fs fuel rest st1

def init : St := {}

end KotoVerif.Modules
