/-
C02 — generators as coroutines.

A generator function's body runs in its own VM (`call_generator`); `GeneratorIterator::next` =
`continue_running`: execute instructions until `Yield` (state Suspended, value handed out) or
`Return` (state Inactive, iterator exhausted; later calls find an empty call stack and return
`None` again). The model is a small-step machine over a statement language with an explicit
continuation stack; `next` runs the machine to the next `yield`.
-/
namespace KotoVerif.Gen

abbrev Name := Nat
abbrev Env := List (Name × Int64)

def lookup (x : Name) : Env → Int64
  | [] => 0
  | (y, v) :: r => if x == y then v else lookup x r

def update (x : Name) (v : Int64) : Env → Env
  | [] => [(x, v)]
  | (y, w) :: r => if x == y then (y, v) :: r else (y, w) :: update x v r

inductive GE where
  | lit (n : Int64)
  | var (x : Name)
  | add (a b : GE)
  | sub (a b : GE)
  | mul (a b : GE)
  deriving Repr, Inhabited

inductive GC where
  | lt (a b : GE)
  | le (a b : GE)
  | eq (a b : GE)
  | ne (a b : GE)
  deriving Repr, Inhabited

inductive GS where
  | emit (e : GE)
  | assign (x : Name) (e : GE)
  | yield (e : GE)
  | ite (c : GC) (t e : List GS)
  | forRange (i : Name) (lo hi : GE) (body : List GS)   -- `for i in lo..hi`
  | while (c : GC) (body : List GS)
  | ret                                                    -- `return`
  deriving Repr, Inhabited

def evalE (env : Env) : GE → Int64
  | .lit n => n
  | .var x => lookup x env
  | .add a b => evalE env a + evalE env b
  | .sub a b => evalE env a - evalE env b
  | .mul a b => evalE env a * evalE env b

def evalC (env : Env) : GC → Bool
  | .lt a b => evalE env a < evalE env b
  | .le a b => evalE env a ≤ evalE env b
  | .eq a b => evalE env a == evalE env b
  | .ne a b => evalE env a != evalE env b

/-- continuation stack items -/
inductive K where
  | seq (rest : List GS)
  | loopFor (i : Name) (next hi : Int64) (body : List GS)
  | loopWhile (c : GC) (body : List GS)
  deriving Repr, Inhabited

structure Cfg where
  k : List K
  env : Env
  deriving Repr, Inhabited

inductive Event where
  | emit (v : Int64)
  | yield (v : Int64)
  deriving DecidableEq, Repr, Inhabited

/-- one machine step: `none` = the body has returned (nothing left to run) -/
def step (c : Cfg) : Option (Option Event × Cfg) :=
  match c.k with
  | [] => none
  | .seq [] :: k => some (none, { c with k := k })
  | .seq (s :: rest) :: k =>
    match s with
    | .emit e => some (some (.emit (evalE c.env e)), { c with k := .seq rest :: k })
    | .assign x e => some (none, { k := .seq rest :: k, env := update x (evalE c.env e) c.env })
    | .yield e => some (some (.yield (evalE c.env e)), { c with k := .seq rest :: k })
    | .ite cond t e =>
      some (none, { c with k := .seq (if evalC c.env cond then t else e) :: .seq rest :: k })
    | .forRange i lo hi body =>
      some (none, { c with k := .loopFor i (evalE c.env lo) (evalE c.env hi) body :: .seq rest :: k })
    | .while cond body => some (none, { c with k := .loopWhile cond body :: .seq rest :: k })
    | .ret => some (none, { c with k := [] })
  | .loopFor i n hi body :: k =>
    if n < hi then
      some (none, { k := .seq body :: .loopFor i (n + 1) hi body :: k, env := update i n c.env })
    else some (none, { c with k := k })
  | .loopWhile cond body :: k =>
    if evalC c.env cond then some (none, { c with k := .seq body :: .loopWhile cond body :: k })
    else some (none, { c with k := k })

def mkGen (body : List GS) (env : Env) : Cfg := { k := [.seq body], env := env }

/-- run straight through (no pausing): all events of at most `n` steps, and where the machine is -/
def run : Nat → Cfg → List Event × Cfg
  | 0, c => ([], c)
  | n + 1, c =>
    match step c with
    | none => ([], c)
    | some (ev, c') =>
      let (evs, c'') := run n c'
      (ev.toList ++ evs, c'')

inductive NextResult where
  | yielded (emits : List Int64) (v : Int64) (c : Cfg) (fuelLeft : Nat)
  | finished (emits : List Int64) (c : Cfg)
  | outOfFuel (emits : List Int64) (c : Cfg)
  deriving Repr, Inhabited

/-- `GeneratorIterator::next`: run to the next `yield` -/
def next : Nat → Cfg → NextResult
  | 0, c => .outOfFuel [] c
  | n + 1, c =>
    match step c with
    | none => .finished [] c
    | some (some (.yield v), c') => .yielded [] v c' n
    | some (some (.emit v), c') =>
      match next n c' with
      | .yielded es v' c'' m => .yielded (v :: es) v' c'' m
      | .finished es c'' => .finished (v :: es) c''
      | .outOfFuel es c'' => .outOfFuel (v :: es) c''
    | some (none, c') => next n c'

/-- the values obtained by calling `next` until the generator is exhausted -/
def collect : Nat → Cfg → List Int64
  | 0, _ => []
  | n + 1, c =>
    match next (n + 1) c with
    | .yielded _ v c' _ => v :: collect n c'
    | _ => []

def yields : List Event → List Int64
  | [] => []
  | .yield v :: r => v :: yields r
  | .emit _ :: r => yields r

/-! ## Consumers (what the generated scripts do with a generator)

Trace items: `g v` = the generator emitted `v`, `c v` = the consumer received/emitted `v`,
`fin` = the consumer observed the end (`next()` returned null). -/

inductive T where
  | g (v : Int64)
  | c (v : Int64)
  | fin
  | fuel
  deriving DecidableEq, Repr, Inhabited

/-- `for v in gen` + `emit v` in the loop body, leaving the loop (`break`) after `limit` values if given.
`for` pulls before every iteration; after `break` the generator is not resumed. -/
def consumeFor : Nat → Option Nat → Cfg → List T
  | 0, _, _ => [.fuel]
  | _ + 1, some 0, _ => []
  | n + 1, limit, c =>
    match next (n + 1) c with
    | .yielded es v c' _ =>
      es.map T.g ++ [T.c v] ++ consumeFor n (limit.map (· - 1)) c'
    | .finished es _ => es.map T.g
    | .outOfFuel es _ => es.map T.g ++ [.fuel]

/-- `k` explicit `.next()` calls, each followed by an emit of the result (or of the end marker) -/
def consumeNexts : Nat → Nat → Cfg → List T
  | _, 0, _ => []
  | fuel, k + 1, c =>
    match next fuel c with
    | .yielded es v c' m => es.map T.g ++ [T.c v] ++ consumeNexts m k c'
    | .finished es c' => es.map T.g ++ [T.fin] ++ consumeNexts fuel k c'
    | .outOfFuel es _ => es.map T.g ++ [.fuel]

/-- `to_tuple` (pulls until the end) / `take(k).to_tuple()` (pulls at most `k` values and does not
resume the generator after the k-th): trace of generator emits, then the collected values -/
def consumeAll : Nat → Option Nat → Cfg → List T × List Int64
  | 0, _, _ => ([.fuel], [])
  | _ + 1, some 0, _ => ([], [])
  | n + 1, limit, c =>
    match next (n + 1) c with
    | .yielded es v c' _ =>
      let (tr, vs) := consumeAll n (limit.map (· - 1)) c'
      (es.map T.g ++ tr, v :: vs)
    | .finished es _ => (es.map T.g, [])
    | .outOfFuel es _ => (es.map T.g ++ [.fuel], [])

/-- replace every `yield v` of a straight-through event list by the consumer's `c v` -/
def interleave : List Event → List T
  | [] => []
  | .emit v :: r => T.g v :: interleave r
  | .yield v :: r => T.c v :: interleave r

end KotoVerif.Gen
