/-
`InstructionReader::next` (`crates/bytecode/src/instruction_reader.rs`) for the full opcode set.

The reader first needs two bytes (opcode and first operand byte), otherwise it returns `None`
(end of the stream). Every failure after that point — an `Unused<k>` opcode, an operand running past
the end of the chunk, function flags / string format flags / meta key id / representation out of
range — produces `Instruction::Error`, which the VM turns into a runtime error. A var-u32 with more
than 5 bytes would shift a `u32` by ≥ 32 bits (`attempt to shift left with overflow` in a checked
build): it is rejected here as malformed.
-/
import KotoVerif.Model.Encode

namespace KotoVerif.Bytecode
open KotoVerif.Gen

/-- `get_var_u32!` / `get_var_u32_with_first_byte!`: `result |= (byte & 0x7f) << shift` in `u32`
arithmetic (bits shifted beyond bit 31 are lost), at most 5 bytes (`fuel`). -/
def decodeVarFuel : Nat → Nat → Nat → List Nat → Option (Nat × Nat × List Nat)
  | 0, _, _, _ => none
  | _ + 1, _, _, [] => none
  | fuel + 1, shift, acc, b :: rest =>
    let acc' := acc + (b % 128) * 2 ^ shift % 4294967296
    if b < 128 then some (acc', 1, rest)
    else match decodeVarFuel fuel (shift + 7) acc' rest with
      | some (v, n, r) => some (v, n + 1, r)
      | none => none

/-- value, number of bytes consumed, remaining bytes -/
def decodeVarN (bs : List Nat) : Option (Nat × Nat × List Nat) := decodeVarFuel 5 0 0 bs

def decodeVar (bs : List Nat) : Option (Nat × List Nat) :=
  (decodeVarN bs).map (fun (v, _, r) => (v, r))

/-- One operand field: value, bytes consumed, rest. -/
def decodeField : Fld → List Nat → Option (Nat × Nat × List Nat)
  | .reg, b :: r | .imm, b :: r => some (b, 1, r)
  | .immLt bound, b :: r => if b < bound then some (b, 1, r) else none
  | .var, bs | .const _, bs => decodeVarN bs
  | .off, a :: b :: r | .offBack, a :: b :: r | .size16, a :: b :: r => some (decodeU16 a b, 2, r)
  | _, _ => none

def decodeFields : List Fld → List Nat → Option (List Nat × Nat × List Nat)
  | [], bs => some ([], 0, bs)
  | f :: fs, bs =>
    match decodeField f bs with
    | none => none
    | some (v, n, r) =>
      match decodeFields fs r with
      | none => none
      | some (vs, m, r') => some (v :: vs, n + m, r')

/-- Result of reading one instruction. -/
inductive Dec where
  /-- instruction, its size in bytes, remaining bytes -/
  | ok (i : Instr) (size : Nat) (rest : List Nat)
  /-- fewer than two bytes left: the reader returns `None` -/
  | stop
  /-- `Instruction::Error` -/
  | bad
  deriving Repr, DecidableEq

/-- `InstructionReader::next` on the bytes from the instruction pointer on. -/
def decode : List Nat → Dec
  | [] | [_] => .stop
  | opb :: b :: bs =>
    match Op.ofCode opb with
    | none => .bad
    | some op =>
      match decodeFields (layout op) (b :: bs) with
      | none => .bad
      | some (args, n, rest) =>
        match decodeFields (tailLayout op args) rest with
        | none => .bad
        | some (targs, m, rest') => .ok ⟨op, args ++ targs⟩ (1 + n + m) rest'

/-! ### Canonical rendering of decoded instructions (driver ↔ harness, correspondence (K)) -/

/-- Operand values as the harness renders the real `Instruction` (byte order), preceded by the
opcode name. Negative `SetNumberNegU8` etc. are not folded: the harness un-merges the `Instruction`
variants that the reader merges, from the opcode byte. -/
def Instr.render (i : Instr) : String :=
  " ".intercalate (i.op.name :: i.args.map toString)

end KotoVerif.Bytecode
