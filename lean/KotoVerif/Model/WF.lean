/-
A bytecode verifier for Koto chunks: `wfChunk bytes constKinds : Bool`.

A chunk is a tree of *units* (function bodies): the top-level unit is the whole byte string; a
`Function` instruction is followed by `size` bytes that form a nested unit, skipped by the enclosing
instruction stream (`run_make_function`: `jump_ip(size)`) and verified as its own unit; so is the
body of an unused function literal, which follows a `Jump` over it (`skipsUnit`).

For every unit the verifier demands

* **decode**: a linear sweep from the first byte decodes an instruction at every position and tiles
  the unit exactly (nested bodies cut out); the first instruction is `NewFrame`, and `NewFrame`
  occurs nowhere else in the unit;
* **jumps**: every instruction pointer the VM can take after an instruction — fall-through, forward
  offsets (`Jump`, `JumpIf*`, `IterNext*`, `CheckType`, `CheckOptionalType`, `TryAccess`,
  `TryAccessString`, the catch offset of `TryStart`), the backward offset of `JumpBack`, the skip of
  `Function` — is an instruction boundary of the *same* unit;
* **registers**: every register the VM addresses while executing the instruction is
  `< register_count` of the unit's `NewFrame` (register windows included: `Call`/`CallInstance`
  address `frame_base … frame_base + arg_count + packed_arg_count`, `MakeTempTuple` and
  `SequencePushN` address `start … start + count - 1`); a nested function's frame holds `self`, its
  arguments and its captures (`1 + arg_count + capture_count ≤ register_count`);
* **constants**: every constant index is in range and of the kind the VM reads it as;
* **balance**: there is an assignment of a depth triple (open sequence builders, open string
  builders, open try blocks) to every reachable instruction, `(0,0,0)` at entry, that is preserved
  along every edge — so the depths at the source and the target of every jump inside the unit agree
  and are consistent at every join; the catch target of a `TryStart` is entered with the depths at the
  `TryStart` (plus its own catch point) — and never goes negative (`SequencePush*`, `SequenceTo*`
  need an open sequence; `StringPush`, `StringFinish` an open string; `TryEnd` an open try).
  A `Return` may leave try blocks open (the catch stack is part of the VM frame) and may be reached
  with open builders — but only *inside a builder bracket*, see the next item;
* **brackets**: in listing order the builder instructions are bracket-structured — every
  `SequenceStart` is followed by its `SequenceToList`/`SequenceToTuple`, every `StringStart` by its
  `StringFinish`, properly nested, and all brackets are closed at the end of the unit — and at every
  reachable instruction the (dynamic) builder depths of the balance assignment equal the (static)
  nesting depth of the instruction in this bracket structure. So an instruction executes with exactly
  the builders of the brackets that enclose it in the code: a `Return` finds open builders only when it
  sits inside a literal's bracket (`[1, (return 2)]`, `'{return x}'`) — these are the builders that
  `pop_frame` discards by truncating the builder stacks to their lengths at frame entry (fix 97373d1),
  which is exactly the VM's contract for leaving a frame — whereas a `Start` that no `Finish` closes
  (a leak in straight-line code) is rejected even if no join ever sees two different depths.
  A `break` / `continue` inside a literal finishes the open builders of the loop body before its jump
  (fix 2f5d1ea): such an exit sequence (`Finish … Finish; Jump`) closes the brackets on the leaving
  path only — the balance rule makes the jump's target see the loop's own depth — and the code after
  the unconditional jump continues inside the brackets (`linLex`).

The depth assignment is *inferred* by an untrusted linear pass (`annotate`) and then *checked*
(`checkAnns`); only the check matters for the soundness theorems (Props/C05.lean).
-/
import KotoVerif.Model.Decode

namespace KotoVerif.Bytecode
open KotoVerif.Gen

/-- Open sequence builders, open string builders, open try blocks (relative to frame entry). -/
structure Depth where
  seq : Nat
  str : Nat
  try_ : Nat
  deriving DecidableEq, Repr, Inhabited

/-- One instruction of a unit's listing, with the depth inferred for it (`none` = unreachable). -/
structure Ann where
  pc : Nat
  size : Nat
  ins : Instr
  d : Option Depth
  deriving Repr, Inhabited

def Ann.next (a : Ann) : Nat := a.pc + a.size

def argAt (i : Instr) (k : Nat) : Nat := i.args.getD k 0

/-! ### Sweep: instruction listing of one unit -/

/-- A nested unit: first pc, bytes, registers its frame must hold (`self` + args + captures). -/
structure Sub where
  base : Nat
  bytes : List Nat
  need : Nat
  deriving Repr

/-- Does the instruction skip a nested unit that follows it? `(length, registers the frame must hold)`.
* `Function`: the `size` bytes after it are the function's body (`run_make_function`: `jump_ip(size)`);
  its frame holds `self`, the arguments and the captures.
* `Jump` directly followed by a `NewFrame` opcode: the body of a function literal whose value is
  unused (`compile_function` without a result register, since fix 30b24e7): the body is compiled for
  its error checks and jumped over; the jump's offset is the body's length. No call can reach it, so
  nothing is demanded of its frame size beyond its own instructions. -/
def skipsUnit (i : Instr) (rest : List Nat) : Option (Nat × Nat) :=
  if i.op = .Function then some (argAt i 5, 1 + argAt i 1 + argAt i 3)
  else if i.op = .Jump ∧ rest.head? = some Op.NewFrame.code then some (argAt i 0, 0)
  else none

/-- Linear sweep over the bytes of one unit starting at absolute position `pc`. A nested unit
(`skipsUnit`) is cut out of the listing and returned to be verified on its own: nothing of the
enclosing unit can then fall or jump into it, because its positions are not instruction boundaries
of the enclosing listing.
`none`: some position does not decode, or a nested unit runs past the end of the unit. -/
def sweep : Nat → Nat → List Nat → Option (List Ann × List Sub)
  | 0, _, _ => none
  | _ + 1, _, [] => some ([], [])
  | fuel + 1, pc, bs =>
    match decode bs with
    | .ok i size rest =>
      match skipsUnit i rest with
      | some (z, need) =>
        if z ≤ rest.length then
          match sweep fuel (pc + size + z) (rest.drop z) with
          | some (items, subs) =>
            some (⟨pc, size, i, none⟩ :: items, ⟨pc + size, rest.take z, need⟩ :: subs)
          | none => none
        else none
      | none =>
        match sweep fuel (pc + size) rest with
        | some (items, subs) => some (⟨pc, size, i, none⟩ :: items, subs)
        | none => none
    | _ => none

/-! ### Control flow -/

/-- forward offsets of an instruction (values of its `.off` fields) -/
def fwdOffsets : List Fld → List Nat → List Nat
  | .off :: fs, v :: vs => v :: fwdOffsets fs vs
  | _ :: fs, _ :: vs => fwdOffsets fs vs
  | _, _ => []

/-- Instruction pointers the VM can hold after executing the instruction (inside the frame):
`Return`/`Throw` leave the frame; `Jump` only jumps; `JumpBack` subtracts its offset; `Function`
skips the nested body; every other instruction falls through and, if it carries a forward offset,
may also jump (for `TryStart` the catch ip is taken later, when an error unwinds to this handler).
`none`: a backward offset reaching before position 0. -/
def succPcs (a : Ann) : Option (List Nat) :=
  match a.ins.op with
  | .Return | .Throw => some []
  | .Jump => some [a.next + argAt a.ins 0]
  | .JumpBack => if argAt a.ins 0 ≤ a.next then some [a.next - argAt a.ins 0] else none
  | .Function => some [a.next + argAt a.ins 5]
  | _ => some (a.next :: (fwdOffsets a.ins.fields a.ins.args).map (a.next + ·))

/-! ### Registers -/

def regOperands : List Fld → List Nat → List Nat
  | .reg :: fs, v :: vs => v :: regOperands fs vs
  | _ :: fs, _ :: vs => regOperands fs vs
  | _, _ => []

/-- Highest register of the window an instruction addresses beyond its plain register operands
(`frame_base + arg_count + packed_arg_count` for calls: `call_callable` writes the frame base,
arguments follow it, `unpack_packed_arguments` drains the packed-argument index registers after
them; `start + count - 1` for `MakeTempTuple` / `SequencePushN`). -/
def windowTop (i : Instr) : Option Nat :=
  match i.op with
  | .Call => some (argAt i 2 + argAt i 3 + argAt i 4)
  | .CallInstance => some (argAt i 3 + argAt i 4 + argAt i 5)
  | .MakeTempTuple => if argAt i 2 = 0 then none else some (argAt i 1 + argAt i 2 - 1)
  | .SequencePushN => if argAt i 1 = 0 then none else some (argAt i 0 + argAt i 1 - 1)
  | _ => none

/-- All registers (frame relative) the VM addresses while executing the instruction: operand
registers and the top of the window (the window is contiguous above an operand register). -/
def regAccesses (i : Instr) : List Nat :=
  regOperands i.fields i.args ++ (match windowTop i with | some t => [t] | none => [])

def regsOk (rc : Nat) (i : Instr) : Bool := (regAccesses i).all (· < rc)

/-! ### Constants -/

def constOperands : List Fld → List Nat → List (CKind × Nat)
  | .const k :: fs, v :: vs => (k, v) :: constOperands fs vs
  | _ :: fs, _ :: vs => constOperands fs vs
  | _, _ => []

def constsOk (consts : List CKind) (i : Instr) : Bool :=
  (constOperands i.fields i.args).all (fun (k, idx) => consts[idx]? == some k)

/-! ### Balance -/

/-- Effect of an instruction on the depth triple; `none` = the VM would find the builder / catch
stack empty (`MissingSequenceBuilder`, `MissingStringBuilder`; `TryEnd` pops nothing). -/
def applyEff (op : Op) (d : Depth) : Option Depth :=
  match op with
  | .SequenceStart => some { d with seq := d.seq + 1 }
  | .SequencePush | .SequencePushN => if d.seq = 0 then none else some d
  | .SequenceToList | .SequenceToTuple => if d.seq = 0 then none else some { d with seq := d.seq - 1 }
  | .StringStart => some { d with str := d.str + 1 }
  | .StringPush => if d.str = 0 then none else some d
  | .StringFinish => if d.str = 0 then none else some { d with str := d.str - 1 }
  | .TryStart => some { d with try_ := d.try_ + 1 }
  | .TryEnd => if d.try_ = 0 then none else some { d with try_ := d.try_ - 1 }
  | _ => some d

/-! ### Bracket structure of the builder instructions -/

/-- Effect of an instruction on the static nesting depth (sequence brackets, string brackets) in
listing order; `none`: a `Finish` without an open bracket. -/
def linStep (op : Op) (s t : Nat) : Option (Nat × Nat) :=
  match op with
  | .SequenceStart => some (s + 1, t)
  | .SequenceToList | .SequenceToTuple => if s = 0 then none else some (s - 1, t)
  | .StringStart => some (s, t + 1)
  | .StringFinish => if t = 0 then none else some (s, t - 1)
  | _ => some (s, t)

def isCloser (op : Op) : Bool :=
  match op with
  | .SequenceToList | .SequenceToTuple | .StringFinish => true
  | _ => false

def isJump (op : Op) : Bool :=
  match op with
  | .Jump | .JumpBack => true
  | _ => false

/-- the inferred builder depths of `a` (if it is reachable) are `(s, t)` -/
def depthIs (a : Ann) (s t : Nat) : Bool :=
  match a.d with
  | some d => d.seq = s && d.str = t
  | none => true

/-- The static nesting depths `(sequence, string)` of the instructions of a listing, from depth
`(s, t)` on — `none` if the listing is not bracket-structured.

In listing order a `Start` opens a bracket and a `Finish` closes the innermost one (`linStep`); all
brackets are closed at the end; at every reachable instruction the inferred (dynamic) builder depths
equal the static depth. One refinement (compiler fix 2f5d1ea): `break` / `continue` inside a literal
finish the builders that are open in the loop's body *before jumping* — an **exit sequence**, an
uninterrupted run of `Finish` instructions directly followed by an unconditional `Jump` / `JumpBack`.
The exit sequence closes the brackets for the leaving path only; the code that follows the jump in the
listing (the rest of the literal: reached by the branch that did not leave, or dead) is still inside
them. So after an unconditional jump the static depth continues either with the depth at the jump or
with the depth before one of the `Finish` instructions of the run directly in front of the jump
(`run`: those depths, innermost first; any other instruction resets it). Which one is not visible
locally when the following instruction is unreachable (`x = [1]` at the end of a loop body and
`[1, (continue), 3]` both give `Finish; JumpBack; dead code`), so the alternatives are tried in that
order; if the following instruction is reachable its inferred depth decides at once. -/
def linLex : Nat → Nat → List (Nat × Nat) → List Ann → Option (List (Nat × Nat))
  | s, t, _, [] => if s = 0 ∧ t = 0 then some [] else none
  | s, t, run, a :: rest =>
    match depthIs a s t, linStep a.ins.op s t with
    | true, some (s', t') =>
      (if isJump a.ins.op then ((s', t') :: run).findSome? (fun st => linLex st.1 st.2 [] rest)
       else linLex s' t' (if isCloser a.ins.op then (s, t) :: run else []) rest).map ((s, t) :: ·)
    | _, _ => none

/-- The listing is bracket-structured from nesting depth `(s, t)` on, closes every bracket by its
end, and the inferred builder depths of reachable instructions are their nesting depths. -/
def linOk (s t : Nat) (l : List Ann) : Bool := (linLex s t [] l).isSome

/-- Static nesting depth (sequence, string) of the instruction at `p`. -/
def bracketAt (s t : Nat) (l : List Ann) (p : Nat) : Option (Nat × Nat) :=
  match linLex s t [] l with
  | some lex => ((l.zip lex).find? (fun x => x.1.pc == p)).map (·.2)
  | none => none

/-! ### Lookups in a listing -/

def findPc (l : List Ann) (p : Nat) : Option Ann := l.find? (·.pc == p)

/-- Listing with strictly increasing pcs, all `≥ lo`. -/
def pcsFrom : Nat → List Ann → Bool
  | _, [] => true
  | lo, a :: rest => lo ≤ a.pc && pcsFrom (a.pc + 1) rest

/-- Look `p` up: forward targets in the rest of the listing, others in the (reversed) part already
passed, `a` included. The listing is sorted, so this finds the unique entry with that pc if any. -/
def lookupFrom (seen rest : List Ann) (a : Ann) (p : Nat) : Option Ann :=
  if a.pc < p then findPc rest p else findPc (a :: seen) p

/-! ### Per-instruction checks -/

/-- The local conditions for one instruction, named for diagnostics. `look` finds listing entries. -/
def localChecks (rc : Nat) (consts : List CKind) (look : Nat → Option Ann) (a : Ann) : List (String × Bool) :=
  [ ("register-out-of-range", regsOk rc a.ins),
    ("constant-index-or-kind", constsOk consts a.ins),
    ("jump-target-not-a-boundary-of-this-function",
      match succPcs a with
      | none => false
      | some ps => ps.all (fun p => (look p).isSome)),
    ("unbalanced-builders-or-try",
      match a.d with
      | none => true
      | some d =>
        match applyEff a.ins.op d, succPcs a with
        | some d', some ps => ps.all (fun p => (look p).any (fun b => b.d == some d'))
        | _, _ => false) ]

def localOk (rc : Nat) (consts : List CKind) (look : Nat → Option Ann) (a : Ann) : Bool :=
  (localChecks rc consts look a).all (·.2)

def checkFrom (rc : Nat) (consts : List CKind) : List Ann → List Ann → Bool
  | _, [] => true
  | seen, a :: rest =>
    localOk rc consts (lookupFrom seen rest a) a && checkFrom rc consts (a :: seen) rest

/-- `NewFrame` first (with room for `need` registers) and nowhere else, depth `(0,0,0)` at entry,
sorted listing, the local conditions everywhere, and the bracket structure. -/
def checkAnns (consts : List CKind) (base need : Nat) (anns : List Ann) : Bool :=
  match anns with
  | [] => false
  | a :: rest =>
    a.pc = base && a.ins.op = .NewFrame && need ≤ argAt a.ins 0
    && a.d == some ⟨0, 0, 0⟩
    && rest.all (fun b => b.ins.op ≠ .NewFrame)
    && pcsFrom base anns
    && checkFrom (argAt a.ins 0) consts [] anns
    && linOk 0 0 anns

/-! ### Inference of the depth assignment (untrusted) -/

def isTerminal (op : Op) : Bool :=
  match op with
  | .Return | .Throw | .Jump | .JumpBack => true
  | _ => false

/-- One forward pass: the depth of an instruction comes from a recorded forward edge, else from the
fall-through of its predecessor. (Backward edges never reach code that nothing else reaches.) -/
def annotate : Option Depth → List (Nat × Depth) → List Ann → List Ann
  | _, _, [] => []
  | cur, pending, a :: rest =>
    let din : Option Depth :=
      match pending.find? (·.1 == a.pc) with
      | some (_, d) => some d
      | none => cur
    let pending := pending.filter (·.1 != a.pc)
    match din with
    | none => { a with d := none } :: annotate none pending rest
    | some d =>
      match applyEff a.ins.op d with
      | none => { a with d := some d } :: annotate none pending rest
      | some d' =>
        let tgts := ((succPcs a).getD []).filter (fun p => a.next < p || (p == a.next && isTerminal a.ins.op))
        let pending := tgts.map (·, d') ++ pending
        { a with d := some d } :: annotate (if isTerminal a.ins.op then none else some d') pending rest

/-! ### Units and chunks -/

/-- Listing of a unit with inferred depths, and its nested units. -/
def unitListing (base : Nat) (bs : List Nat) : Option (List Ann × List Sub) :=
  match sweep (bs.length + 1) base bs with
  | some (items, subs) => some (annotate (some ⟨0, 0, 0⟩) [] items, subs)
  | none => none

def wfUnit (consts : List CKind) : Nat → Nat → Nat → List Nat → Bool
  | 0, _, _, _ => false
  | fuel + 1, base, need, bs =>
    match unitListing base bs with
    | none => false
    | some (anns, subs) =>
      checkAnns consts base need anns && subs.all (fun s => wfUnit consts fuel s.base s.need s.bytes)

/-- The verifier. The empty chunk (empty program) is well formed. -/
def wfChunk (bytes : List Nat) (consts : List CKind) : Bool :=
  bytes.isEmpty || wfUnit consts (bytes.length + 1) 0 0 bytes

/-- All units of a chunk — the top-level unit and every nested function body — as
(first pc, registers the frame must hold, listing with inferred depths). -/
def unitsOf : Nat → Nat → Nat → List Nat → List (Nat × Nat × List Ann)
  | 0, _, _, _ => []
  | fuel + 1, base, need, bs =>
    match unitListing base bs with
    | none => []
    | some (anns, subs) =>
      (base, need, anns) :: subs.flatMap (fun s => unitsOf fuel s.base s.need s.bytes)

def chunkUnits (bytes : List Nat) : List (Nat × Nat × List Ann) :=
  if bytes.isEmpty then [] else unitsOf (bytes.length + 1) 0 0 bytes

/-! ### Function flags: a frame that reads non-locals is created with them

`run_make_function` gives the new function the creating frame's non-locals only when the
`NON_LOCAL_ACCESS` flag (`Gen.fnNonLocalAccess`, bit 3) of the `Function` instruction is set; a function created without it
runs in a frame whose `non_locals` is `None`. In such a frame `LoadNonLocal` cannot see the module's
exports or wildcard imports, and creating a nested function whose own flag is set raises the
internal `UnexpectedError` (`non_locals.is_none()`). So: the body of a `Function` instruction may
contain `LoadNonLocal`, or a `Function` instruction with the flag, only if its own flag is set.
(The top-level unit and skipped bodies have no creating instruction: nothing is demanded.) -/

def nonLocalFlag (flags : Nat) : Bool := (flags / fnNonLocalAccess) % 2 == 1

/-- the instructions of a unit (nested bodies excluded) need the frame's non-locals -/
def needsNonLocals (items : List Ann) : Bool :=
  items.any fun a => a.ins.op = .LoadNonLocal || (a.ins.op = .Function && nonLocalFlag (argAt a.ins 4))

/-- flags of the `Function` instruction that creates the nested unit `s` (`none`: a skipped body) -/
def ownerFlags (items : List Ann) (s : Sub) : Option Nat :=
  match items.find? (fun a => a.next == s.base) with
  | some a => if a.ins.op = .Function then some (argAt a.ins 4) else none
  | none => none

def flagsUnit : Nat → Nat → Option Nat → List Nat → Bool
  | 0, _, _, _ => false
  | fuel + 1, base, own, bs =>
    match sweep (bs.length + 1) base bs with
    | none => false
    | some (items, subs) =>
      (match own with
        | some f => !needsNonLocals items || nonLocalFlag f
        | none => true)
      && subs.all (fun s => flagsUnit fuel s.base (ownerFlags items s) s.bytes)

def flagsOk (bytes : List Nat) : Bool :=
  bytes.isEmpty || flagsUnit (bytes.length + 1) 0 none bytes

/-- first unit (its first pc) whose creating instruction lacks the flag its code needs -/
def explainFlags : Nat → Nat → Option Nat → List Nat → Option String
  | 0, base, _, _ => some s!"fuel@{base}"
  | fuel + 1, base, own, bs =>
    match sweep (bs.length + 1) base bs with
    | none => some s!"undecodable-or-function-body-out-of-range@unit{base}"
    | some (items, subs) =>
      let here := match own with
        | some f => !needsNonLocals items || nonLocalFlag f
        | none => true
      if !here then some s!"function-reads-non-locals-without-NON_LOCAL_ACCESS-flag@unit{base}"
      else subs.findSome? (fun s => explainFlags fuel s.base (ownerFlags items s) s.bytes)

/-! ### Diagnostics (driver only; the verdict is `wfChunk`) -/

def explainFrom (rc : Nat) (consts : List CKind) : List Ann → List Ann → Option String
  | _, [] => none
  | seen, a :: rest =>
    match (localChecks rc consts (lookupFrom seen rest a) a).find? (fun c => !c.2) with
    | some (name, _) => some s!"{name}@{a.pc}:{a.ins.op.name}"
    | none => explainFrom rc consts (a :: seen) rest

def explainAnns (consts : List CKind) (base need : Nat) (anns : List Ann) : Option String :=
  match anns with
  | [] => some s!"empty-unit@{base}"
  | a :: rest =>
    if !(a.pc = base && a.ins.op = .NewFrame) then some s!"unit-does-not-start-with-NewFrame@{base}"
    else if !(need ≤ argAt a.ins 0) then some s!"frame-too-small-for-args-and-captures@{base}"
    else match rest.find? (fun b => b.ins.op = .NewFrame) with
      | some b => some s!"NewFrame-inside-unit@{b.pc}"
      | none =>
        if !pcsFrom base anns then some s!"listing-not-sorted@{base}"
        else if !(a.d == some ⟨0, 0, 0⟩) then some s!"entry-depth@{base}"
        else match explainFrom (argAt a.ins 0) consts [] anns with
          | some e => some e
          | none => if linOk 0 0 anns then none else some s!"builders-not-bracket-structured@{base}"

def explainUnit (consts : List CKind) : Nat → Nat → Nat → List Nat → Option String
  | 0, base, _, _ => some s!"fuel@{base}"
  | fuel + 1, base, need, bs =>
    match unitListing base bs with
    | none => some s!"undecodable-or-function-body-out-of-range@unit{base}"
    | some (anns, subs) =>
      match explainAnns consts base need anns with
      | some e => some e
      | none => subs.findSome? (fun s => explainUnit consts fuel s.base s.need s.bytes)

def explainChunk (bytes : List Nat) (consts : List CKind) : String :=
  if bytes.isEmpty then "ok"
  else match explainUnit consts (bytes.length + 1) 0 0 bytes with
    | some e => e
    | none => "ok"

end KotoVerif.Bytecode
