/-
Statement layer on top of the compiler core (`Model/Compile.lean`): loops and loop control in
*statement position* (`ResultRegister::None`), mirroring `crates/bytecode/src/compiler.rs`:

  compile_loop (`while` / `until` / `loop`), Node::Break / Node::Continue (compile_node),
  compile_if (if / if-else with statement branches), compile_block, push_jump_back_op,
  push_loop_jump_placeholder / pop_loop_and_update_placeholders, and `frame.rs`
  push_loop / pop_loop / current_loop.

What the code does when the loop's value is unused (`ctx.result_register = None`):

* `assign_result_register(None)` gives no register, so `body_result_register = None`: no `SetNull`
  before the loop, the body is compiled with `None`, `break` emits only `Jump <placeholder>`
  (patched by `pop_loop_and_update_placeholders` to the instruction after the loop's `JumpBack`),
  `continue` emits only `JumpBack` to `loop_start_ip` (= the first instruction of the condition);
  `break <expr>` is the compile error `UnassignedBreakValue` and is not in the fragment;
* the condition is compiled with `Any`, then `JumpIfFalse` (`while`) / `JumpIfTrue` (`until`) with a
  loop-exit placeholder, and the condition's temporary (if any) is popped *after* the jump has been
  emitted — the register is free again while the body is compiled;
* `compile_try_ends_for_loop_exit` emits one `TryEnd` per try block that is open in the loop body:
  there is no `try` in this fragment, so nothing is emitted;
* `break` / `continue` outside of a loop are the compile error `InvalidLoopKeyword`
  (`compileS … false` = `none`); the loop stack is per frame and there are no functions here, so
  "inside a loop" is the boolean `inLoop`.

The structured target `LCode` embeds the core's `Code`; `flattenL` produces the instruction stream
with relative forward jumps and `JumpBack`, offsets counted in instructions (what K2 compares with
the decoded output of the real compiler).
-/
import KotoVerif.Model.Compile

namespace KotoVerif.Compile

/-- statements: expression statements, blocks, `if` with statement branches, loops and loop
control. As in `compile_node`, `while` / `until` / `loop` are one form, `loop cond body`, with
`cond = some (c, negate)` (`Node::While` ↦ `compile_loop(Some((c, false)), …)`, `Node::Until` ↦
`Some((c, true))`, `Node::Loop` ↦ `None`); see `Stmt.whileS` / `untilS` / `loopS`. `ifS c t (some e)`
/ `ifS c t none` are the two constructors `ite` / `ifThen`, as in `Expr`; see `Stmt.ifS`. -/
inductive Stmt where
  | expr (e : Expr)
  | seq (a b : Stmt)
  | ite (c : Expr) (t e : Stmt)
  | ifThen (c : Expr) (t : Stmt)
  | loop (cond : Option (Expr × Bool)) (body : Stmt)
  | brk
  | cont
  deriving Repr, Inhabited

@[match_pattern] abbrev Stmt.whileS (c : Expr) (body : Stmt) : Stmt := .loop (some (c, false)) body
@[match_pattern] abbrev Stmt.untilS (c : Expr) (body : Stmt) : Stmt := .loop (some (c, true)) body
@[match_pattern] abbrev Stmt.loopS (body : Stmt) : Stmt := .loop none body

def Stmt.ifS (c : Expr) (t : Stmt) (e : Option Stmt) : Stmt :=
  match e with
  | some e => .ite c t e
  | none => .ifThen c t

/-! ## reference semantics (fuel-indexed big step with loop-control signals) -/

inductive Sig | normal | brk | cont
  deriving DecidableEq, Repr, Inhabited

inductive Res (α : Type) where
  | ok (a : α)
  | err
  | nofuel
  deriving Repr, Inhabited

/-- sequencing: go on with `k` after normal completion; `brk` / `cont`, errors and fuel exhaustion
are passed on -/
def Res.andThen {α : Type} (r : Res (Sig × α)) (k : α → Res (Sig × α)) : Res (Sig × α) :=
  match r with
  | .ok (.normal, a) => k a
  | r => r

/-- after one run of a loop body: `brk` ends the loop (normally), normal completion and `cont` go
on with the next iteration `k`; errors and fuel exhaustion are passed on -/
def Res.loopNext {α : Type} (r : Res (Sig × α)) (k : α → Res (Sig × α)) : Res (Sig × α) :=
  match r with
  | .ok (.brk, a) => .ok (.normal, a)
  | .ok (_, a) => k a
  | r => r

variable (S : Sem)

/-- the loop header: does the body run (`while`: the condition holds, `until`: it does not,
`loop`: always), and the environment after evaluating the condition; `none` = runtime error -/
def evalCond (cond : Option (Expr × Bool)) (ρ : Env S) : Option (Bool × Env S) :=
  match cond with
  | none => some (true, ρ)
  | some (c, neg) =>
    match eval S c ρ with
    | some (v, ρ1) => some (S.truthy v != neg, ρ1)
    | none => none

/-- `evalS n s ρ`: every recursive call consumes one unit of fuel (so each loop iteration does);
expressions are evaluated by the core's `eval` (`none` ⇒ `err`). `brk` / `cont` travel to the
innermost enclosing loop. -/
def evalS : Nat → Stmt → Env S → Res (Sig × Env S)
  | 0, _, _ => .nofuel
  | n + 1, s, ρ =>
    match s with
    | .expr e =>
      match eval S e ρ with
      | some (_, ρ1) => .ok (.normal, ρ1)
      | none => .err
    | .seq a b => (evalS n a ρ).andThen (evalS n b)
    | .ite c t e =>
      match eval S c ρ with
      | some (v, ρ1) => if S.truthy v then evalS n t ρ1 else evalS n e ρ1
      | none => .err
    | .ifThen c t =>
      match eval S c ρ with
      | some (v, ρ1) => if S.truthy v then evalS n t ρ1 else .ok (.normal, ρ1)
      | none => .err
    | .loop cond b =>
      match evalCond S cond ρ with
      | some (true, ρ1) => (evalS n b ρ1).loopNext (evalS n (.loop cond b))
      | some (false, ρ1) => .ok (.normal, ρ1)
      | none => .err
    | .brk => .ok (.brk, ρ)
    | .cont => .ok (.cont, ρ)

/-! ## target: structured loop code -/

/-- `loop (some (cc, r, neg)) body`: `cc ; JumpIfFalse r → exit` (`neg = false`, `while`) or
`cc ; JumpIfTrue r → exit` (`neg = true`, `until`) `; body ; JumpBack → start`;
`loop none body`: `body ; JumpBack → start`. `brk` = `Jump → exit` of the innermost loop,
`cont` = `JumpBack → start` of the innermost loop. -/
inductive LCode where
  | base (c : Code)
  | seq (a b : LCode)
  | ifElse (r : Reg) (t : LCode) (withJump : Bool) (e : LCode)
  | loop (cond : Option (Code × Reg × Bool)) (body : LCode)
  | brk
  | cont
  deriving Repr, Inhabited

/-- the loop header of the target: run the condition code and test its register -/
def execCond (cond : Option (Code × Reg × Bool)) (σ : Regs S) : Option (Bool × Regs S) :=
  match cond with
  | none => some (true, σ)
  | some (cc, r, neg) =>
    match exec S cc σ with
    | some σ1 => some (S.truthy (σ1 r) != neg, σ1)
    | none => none

def execL : Nat → LCode → Regs S → Res (Sig × Regs S)
  | 0, _, _ => .nofuel
  | n + 1, c, σ =>
    match c with
    | .base c =>
      match exec S c σ with
      | some σ1 => .ok (.normal, σ1)
      | none => .err
    | .seq a b => (execL n a σ).andThen (execL n b)
    | .ifElse r t withJump e =>
      if S.truthy (σ r) then
        (execL n t σ).andThen (fun σ1 => if withJump then .ok (.normal, σ1) else execL n e σ1)
      else execL n e σ
    | .loop cond body =>
      match execCond S cond σ with
      | some (true, σ1) => (execL n body σ1).loopNext (execL n (.loop cond body))
      | some (false, σ1) => .ok (.normal, σ1)
      | none => .err
    | .brk => .ok (.brk, σ)
    | .cont => .ok (.cont, σ)

/-! ## the compiler, statement position (`ResultRegister::None`) -/

/-- condition of `if` / `while` / `until`: `compile_node(condition, Any)`, the conditional jump
reads the result register, then the temporary (if any) is popped -/
def compileCond (c : Expr) (F : Frame) : Option (Code × Reg × Frame) := do
  let (cc, oc, F1) ← compile c .any F
  let rc ← oc.reg
  let F2 ← popIf oc.temp F1
  pure (cc, rc, F2)

/-- the loop header: nothing for `loop`; the condition and its exit jump for `while` / `until` -/
def compileHdr (cond : Option (Expr × Bool)) (F : Frame) : Option (Option (Code × Reg × Bool) × Frame) :=
  match cond with
  | none => some (none, F)
  | some (c, neg) => do
    let (cc, rc, F1) ← compileCond c F
    pure (some (cc, rc, neg), F1)

def compileS : Stmt → Bool → Frame → Option (LCode × Frame)
  | .expr e, _, F => do
    -- compile_block: `compile_node(expression, ctx.compile_for_side_effects())`
    let (c, _, F1) ← compile e .none F
    pure (.base c, F1)
  | .seq a b, inLoop, F => do
    let (ca, F1) ← compileS a inLoop F
    let (cb, F2) ← compileS b inLoop F1
    pure (.seq ca cb, F2)
  | .ite c t e, inLoop, F => do
    -- compile_if, no result register: Jump over the else block because there is one
    let (cc, rc, F1) ← compileCond c F
    let (ct, F2) ← compileS t inLoop F1
    let (ce, F3) ← compileS e inLoop F2
    pure (.seq (.base cc) (.ifElse rc ct true ce), F3)
  | .ifThen c t, inLoop, F => do
    -- compile_if, no result register, no else: neither a Jump nor a SetNull
    let (cc, rc, F1) ← compileCond c F
    let (ct, F2) ← compileS t inLoop F1
    pure (.seq (.base cc) (.ifElse rc ct false (.base .nil)), F2)
  | .loop cond b, _, F => do
    -- compile_loop, no result register: no SetNull, the body is compiled with None
    let (hdr, F1) ← compileHdr cond F
    let (cb, F2) ← compileS b true F1
    pure (.loop hdr cb, F2)
  | .brk, inLoop, F => if inLoop then some (.brk, F) else none     -- InvalidLoopKeyword("break")
  | .cont, inLoop, F => if inLoop then some (.cont, F) else none   -- InvalidLoopKeyword("continue")

/-! ## flattening: forward jumps and `JumpBack`, operands counted in instructions -/

/-- flat instructions. `jump k` / `jumpIf* r k`: skip `k` following instructions
(`pc := pc + 1 + k`); `jumpBack k`: `pc := pc + 1 - k` (the byte offset of the real `JumpBack` is
subtracted from the ip *after* the instruction). -/
inductive LFlat where
  | op (i : Instr)
  | jumpIfFalse (r : Reg) (skip : Nat)
  | jumpIfTrue (r : Reg) (skip : Nat)
  | jump (skip : Nat)
  | jumpBack (back : Nat)
  deriving DecidableEq, Repr, Inhabited

def LFlat.ofFlat : Flat → LFlat
  | .op i => .op i
  | .jumpIfFalse r k => .jumpIfFalse r k
  | .jumpIfTrue r k => .jumpIfTrue r k
  | .jump k => .jump k

/-- number of instructions of a loop header: the condition and its exit jump; nothing for `loop` -/
def hdrLen : Option (Code × Reg × Bool) → Nat
  | none => 0
  | some (cc, _, _) => (flatten cc).length + 1

/-- number of instructions of the flattened code -/
def sizeL : LCode → Nat
  | .base c => (flatten c).length
  | .seq a b => sizeL a + sizeL b
  | .ifElse _ t withJump e => 1 + sizeL t + (if withJump then 1 else 0) + sizeL e
  | .loop cond body => hdrLen cond + sizeL body + 1
  | .brk => 1
  | .cont => 1

/-- the loop header: the condition's code and the exit jump over the body (`bodyLen` instructions)
and the final `JumpBack`: `JumpIfFalse` for `while`, `JumpIfTrue` for `until` -/
def flatHdr (cond : Option (Code × Reg × Bool)) (bodyLen : Nat) : List LFlat :=
  match cond with
  | none => []
  | some (cc, r, neg) =>
    (flatten cc).map LFlat.ofFlat
      ++ [if neg then LFlat.jumpIfTrue r (bodyLen + 1) else LFlat.jumpIfFalse r (bodyLen + 1)]

/-- `flatAux c pre post`: the instructions of `c`, where `pre` is the number of instructions between
the start of the innermost enclosing loop and the start of `c`, and `post` the number of
instructions between the end of `c` and the instruction after that loop's final `JumpBack`
(both irrelevant outside of a loop: `brk` / `cont` do not occur there). -/
def flatAux : LCode → Nat → Nat → List LFlat
  | .base c, _, _ => (flatten c).map LFlat.ofFlat
  | .seq a b, pre, post => flatAux a pre (sizeL b + post) ++ flatAux b (pre + sizeL a) post
  | .ifElse r t true e, pre, post =>
    .jumpIfFalse r (sizeL t + 1) :: flatAux t (pre + 1) (1 + sizeL e + post)
      ++ (.jump (sizeL e) :: flatAux e (pre + 1 + sizeL t + 1) post)
  | .ifElse r t false e, pre, post =>
    .jumpIfFalse r (sizeL t) :: flatAux t (pre + 1) (sizeL e + post)
      ++ flatAux e (pre + 1 + sizeL t) post
  | .loop cond body, _, _ =>
    -- `continue` in the body goes back to the loop start (`hdrLen cond` instructions before the
    -- body), `break` to the instruction after the final JumpBack (1 instruction after the body)
    flatHdr cond (sizeL body) ++ flatAux body (hdrLen cond) 1
      ++ [.jumpBack (hdrLen cond + sizeL body + 1)]
  | .brk, _, post => [.jump post]
  | .cont, pre, _ => [.jumpBack (pre + 1)]

def flattenL (c : LCode) : List LFlat := flatAux c 0 0

/-- pc-based execution of a flat stream. Falling off the end (`pc = length`) is normal
termination; any other out-of-range pc (never produced by `flattenL`) is an error. -/
def execLFlat (prog : List LFlat) : Nat → Nat → Regs S → Res (Regs S)
  | 0, _, _ => .nofuel
  | n + 1, pc, σ =>
    match prog[pc]? with
    | none => if pc = prog.length then .ok σ else .err
    | some (.op i) =>
      match stepInstr S i σ with
      | some σ1 => execLFlat prog n (pc + 1) σ1
      | none => .err
    | some (.jumpIfFalse r k) =>
      if S.truthy (σ r) then execLFlat prog n (pc + 1) σ else execLFlat prog n (pc + 1 + k) σ
    | some (.jumpIfTrue r k) =>
      if S.truthy (σ r) then execLFlat prog n (pc + 1 + k) σ else execLFlat prog n (pc + 1) σ
    | some (.jump k) => execLFlat prog n (pc + 1 + k) σ
    | some (.jumpBack k) => if k ≤ pc + 1 then execLFlat prog n (pc + 1 - k) σ else .err

/-! ## whole programs (what K2 compares): a main block `s ; e` -/

/-- a main block whose statements `s` are followed by a final expression `e`: every statement is
compiled for side effects, the last expression with `Any` (compile_frame with
`allow_implicit_return`), its register is returned -/
def compileProg (s : Stmt) (e : Expr) (lc : Nat) : Option (List LFlat × Out × Frame) := do
  let (cs, F1) ← compileS s false { tb := 1 + lc }
  let (ce, o, F2) ← compile e .any F1
  pure (flattenL cs ++ (flatten ce).map LFlat.ofFlat, o, F2)

end KotoVerif.Compile
