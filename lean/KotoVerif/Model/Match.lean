/-
C03 — pattern matching: the *algorithmic* matcher (mirrors the compiled code) and the *declarative*
definition (formalises the language guide).

Mirrors (file → definition):
* `vm.rs run_size`                                   → `vmSize`     (no size ⇒ `none` = Null)
* `vm.rs signed_index_to_unsigned`                   → `sidx`
* `vm.rs run_temp_index`                             → `tempIndex`  (every value kind)
* `vm.rs run_slice` (SliceFrom / SliceTo)            → `sliceFrom`, `sliceTo`
* `vm.rs run_try_access / run_access_inner`          → `tryAccess`  (plain data; see envelope below)
* `vm.rs run_equal`, literal on the left             → `litEq`
* `vm.rs run_check_type / compare_value_type`        → `tyOk`
* `compiler.rs compile_match_arm_patterns`           → `mPat`, `mPats` (per pattern kind, with the
  three jump targets: `R.fail` = jump to alternative_end / arm_end, `R.done` = jump to match_end,
  `R.ok` = fall through to the next instruction)
* `compiler.rs compile_nested_match_arm_patterns`    → the `.seq` case of `mPat` (Size, `==`/`>=`,
  then the elements with `TempIndex`, indices from the end after a leading ellipsis)
* `compiler.rs try_unpack_map`                       → `mEnts`
* `compiler.rs compile_match_arm`                    → `mAlts` (alternatives), `evalArms` (guard, body)
* `compiler.rs compile_match`                        → `evalMatch` (subject evaluated once, Null
  when no arm matches)

Registers: pattern variables are *locals*; a pattern writes its variable as soon as the value is
available, *before* later sub-patterns are tested, and a failed alternative does not undo the
write (`Env` is threaded through failures).  When the subject is a plain local (`match x`), the
match register *is* that local: `Src.reg x` re-reads it on every access, which is what makes
F-C03-2 (a pattern variable named like the subject) observable.

Envelope (what the model does not represent): metamaps/objects, functions and iterators as
subjects, map-pattern keys that name a core-library function of the subject's type (`TryAccess`
falls back to the core module, F-C03-6), `i8` overflow of pattern indices (≥ 128 patterns),
`i64` overflow in range arithmetic.
-/
import KotoVerif.Model.Value

namespace KotoVerif
namespace Match

abbrev Name := Nat
abbrev Env := Name → Val
abbrev Writes := List (Name × Val)

def Env.set (ρ : Env) (x : Name) (v : Val) : Env := fun y => if y = x then v else ρ y

/-- apply a sequence of register writes, first to last -/
def Env.apply (ρ : Env) : Writes → Env
  | [] => ρ
  | (x, v) :: β => Env.apply (ρ.set x v) β

/-! ### literals and types -/

inductive Lit where
  | null
  | bool (b : Bool)
  | num (n : Num)
  | str (bs : List Nat)
  deriving DecidableEq, Repr, Inhabited

/-- `run_equal pattern subject` for a literal pattern value on the left -/
def litEq (F : FloatOps) : Lit → Val → Bool
  | .null, .null => true
  | .bool a, .bool b => a == b
  | .num a, .num b => Num.eq F a b
  | .str a, .str b => a == b
  | _, _ => false

inductive TyName where
  | any | number | string | bool | null | list | tuple | map | range
  deriving DecidableEq, Repr, Inhabited

structure Ty where
  name : TyName
  opt : Bool
  deriving DecidableEq, Repr, Inhabited

/-- `KValue::type_as_string` on plain data -/
def typeOf : Val → TyName
  | .null => .null
  | .bool _ => .bool
  | .num _ => .number
  | .str _ => .string
  | .range _ _ => .range
  | .tuple _ => .tuple
  | .list _ => .list
  | .map _ => .map

def isNull : Val → Bool
  | .null => true
  | _ => false

/-- `compare_value_type` -/
def tyOk (t : Ty) (v : Val) : Bool :=
  (t.opt && isNull v) || t.name == .any || typeOf v == t.name

/-- an optional type hint *fails* -/
def tyFail (ty : Option Ty) (v : Val) : Bool :=
  match ty with
  | none => false
  | some t => !tyOk t v

/-! ### patterns -/

/-- one entry of a map pattern: `key`, `key as x`, `key as _`, `'str' as x`, each with an optional
type hint; `bind = none` ⇔ the value is ignored -/
structure Ent where
  key : List Nat
  bind : Option Name
  ty : Option Ty
  deriving Repr, Inhabited

/-- `seq pre rest post` is the parenthesised pattern `(pre…, rest?, post…)`; `rest = some none` is
`...`, `rest = some (some r)` is `r...`.  The compiler accepts the ellipsis only in first or last
position (`pre = []` or `post = []`); without an ellipsis the elements are `pre` (`post = []`). -/
inductive Pat where
  | lit (l : Lit)
  | id (x : Name) (ty : Option Ty)
  | wild (ty : Option Ty)
  | map (es : List Ent) (ty : Option Ty)
  | seq (pre : List Pat) (rest : Option (Option Name)) (post : List Pat)
  deriving Repr, Inhabited

inductive Err where
  | geNull     -- "unable to perform operation '>=' with 'Null' and 'Number'"
  | index      -- "expected an indexable value" / "Unable to index a Range with …"
  | slice      -- "expected a sliceable value"
  | access     -- "expected a value that supports '.' access"
  | utf8       -- "indexing with (…) would result in invalid UTF-8 data" (/repo 36e891c)
  | compile    -- OutOfPositionMatchEllipsis / MultipleMatchEllipses
  deriving DecidableEq, Repr, Inhabited

/-- Which repairs of the listed findings the mirrored code contains. All `false` is the tree the
findings were recorded on; the harness sets a field when the corresponding entry of
`known_findings.json` has status `fixed` (the repair is then part of what the model mirrors, and
the witness must behave as documented).
* `sizeNullJumps` (F-C03-1): `JumpIfNull` after `Size` when the pattern has an ellipsis;
* `nestedLast`    (F-C03-3): `has_last_pattern && is_last_pattern` is passed down to nested lists;
* `accessFalls`   (F-C03-4): `TryAccess` on a value without `.` access jumps instead of raising;
* `rangeSlices`   (F-C03-5): `SliceFrom`/`SliceTo` on a bounded range yield the sub-range;
* `subjectCopied` (F-C03-2, /repo 65de4a1): `compile_match` copies a subject that lives in a
  local's register into a fresh temporary, so patterns destructure a private copy;
* `typedFirst`    (F-C03-8, requests/C03-fix-8.diff): a type-hinted binding (`x: T`, `{k: T}`,
  `{k as x: T}`) is checked in a temporary and written only when the check succeeds;
* `mapAtomic`     (/repo 3d805f4, requests/C04-fix-6.diff; narrows F-C03-11): `try_unpack_map`
  unpacks every entry of a map pattern into temporaries and copies them into the pattern's
  variables only after the last entry's check has passed (all-or-nothing). -/
structure Cfg where
  sizeNullJumps : Bool
  nestedLast : Bool
  accessFalls : Bool
  rangeSlices : Bool
  subjectCopied : Bool
  typedFirst : Bool
  mapAtomic : Bool
  deriving DecidableEq, Repr, Inhabited

/-- the tree the findings were recorded on -/
def Cfg.recorded : Cfg := ⟨false, false, false, false, false, false, false⟩
/-- every repair applied -/
def Cfg.repaired : Cfg := ⟨true, true, true, true, true, true, true⟩

/-! ### the VM operations a match uses, on every kind of value -/

/-- `Size` with `throw_if_value_has_no_size = false`: `none` is Null -/
def vmSize : Val → Option Nat
  | .list xs => some xs.length
  | .tuple xs => some xs.length
  | .str bs => some bs.length
  | .map es => some es.length
  | .range (some a) (some (e, incl)) =>
    let e' : Int := if incl then e.toInt + 1 else e.toInt
    some ((max e' a.toInt) - a.toInt).toNat
  | _ => none

def sidx (i : Int) (n : Nat) : Nat :=
  if i < 0 then n - min i.natAbs n else i.toNat

def isCont (b : Nat) : Bool := 128 ≤ b && b < 192

/-- `str::is_char_boundary` -/
def boundary (bs : List Nat) (i : Nat) : Bool :=
  i == bs.length || (match bs[i]? with | some b => !isCont b | none => false)

/-- `KString::with_bounds(i..j)` turned into a value: Null when the bounds are not valid -/
def strBounds (bs : List Nat) (i j : Nat) : Val :=
  if i ≤ j && j ≤ bs.length && boundary bs i && boundary bs j then .str ((bs.drop i).take (j - i))
  else .null

/-- the Str arms of `run_temp_index` / `run_slice` since /repo 36e891c: bounds that are not valid
for the string (out of range, or cutting a character) raise instead of yielding Null -/
def strCut (bs : List Nat) (i j : Nat) : Except Err Val :=
  match strBounds bs i j with
  | .null => .error .utf8
  | v => .ok v

/-- no UTF-8 continuation byte: every byte position is a character boundary (a valid UTF-8
string with this property is an ASCII string) -/
def noCont (bs : List Nat) : Bool := bs.all (fun b => !isCont b)

def pairOf (e : Val × Val) : Val := .tuple [e.1, e.2]

/-- `run_temp_index` -/
def tempIndex (v : Val) (i : Int) : Except Err Val :=
  match v with
  | .list xs => .ok (xs[sidx i xs.length]?.getD .null)
  | .tuple xs => .ok (xs[sidx i xs.length]?.getD .null)
  | .str bs => strCut bs (sidx i bs.length) (sidx i bs.length + 1)
  | .map es => .ok ((es[sidx i es.length]?.map pairOf).getD .null)
  | .range a e =>
    -- `as_bounded_range`: missing bounds are i64::MIN / i64::MAX (kept symbolic here)
    let lo : Option Int := a.map (·.toInt)
    let hi : Option Int := e.map (fun (x, incl) => if incl then x.toInt + 1 else x.toInt)
    let pick : Option Int := if i < 0 then hi.map (· + i) else lo.map (· + i)
    match pick with
    | none => .error .index
    | some r =>
      let geLo := match lo with | some l => decide (l ≤ r) | none => true
      let ltHi := match hi, lo with
        | some h, some l => decide (r < max h l)
        | some h, none => decide (r < h)
        | none, _ => true
      if geLo && ltHi then .ok (.num (.i (Int64.ofInt r))) else .ok .null
  | _ => .error .index

/-- `as_bounded_range` of a bounded range: `start .. max end' start` -/
def rangeBounds (a : Int64) (e : Int64) (incl : Bool) : Int × Int :=
  let e' : Int := if incl then e.toInt + 1 else e.toInt
  (a.toInt, max e' a.toInt)

def mkRange (a b : Int) : Val := .range (some (Int64.ofInt a)) (some (Int64.ofInt b, false))

/-- `run_slice … is_slice_to = false` -/
def sliceFrom (C : Cfg) (v : Val) (i : Int) : Except Err Val :=
  match v with
  | .list xs => let k := sidx i xs.length; .ok (if k ≤ xs.length then .list (xs.drop k) else .null)
  | .tuple xs => let k := sidx i xs.length; .ok (if k ≤ xs.length then .tuple (xs.drop k) else .null)
  | .str bs => strCut bs (sidx i bs.length) bs.length
  | .map es => let k := sidx i es.length; .ok (if k ≤ es.length then .map (es.drop k) else .null)
  | .range (some a) (some (e, incl)) =>
    if C.rangeSlices then
      let b := rangeBounds a e incl
      let size := (b.2 - b.1).toNat
      .ok (mkRange (b.1 + (min (sidx i size) size : Nat)) b.2)
    else .error .slice
  | _ => .error .slice

/-- `run_slice … is_slice_to = true` -/
def sliceTo (C : Cfg) (v : Val) (i : Int) : Except Err Val :=
  match v with
  | .list xs => let k := sidx i xs.length; .ok (if k ≤ xs.length then .list (xs.take k) else .null)
  | .tuple xs => let k := sidx i xs.length; .ok (if k ≤ xs.length then .tuple (xs.take k) else .null)
  | .str bs => strCut bs 0 (sidx i bs.length)
  | .map es => let k := sidx i es.length; .ok (if k ≤ es.length then .map (es.take k) else .null)
  | .range (some a) (some (e, incl)) =>
    if C.rangeSlices then
      let b := rangeBounds a e incl
      let size := (b.2 - b.1).toNat
      .ok (mkRange b.1 (b.1 + (min (sidx i size) size : Nat)))
    else .error .slice
  | _ => .error .slice

def isStrKey (key : List Nat) : Val → Bool
  | .str bs => bs == key
  | _ => false

def lookupKey (key : List Nat) : List (Val × Val) → Option Val
  | [] => none
  | (k, v) :: rest => if isStrKey key k then some v else lookupKey key rest

/-- `run_try_access` for a key that is not a core-library function name: `ok none` = jump -/
def tryAccess (C : Cfg) (v : Val) (key : List Nat) : Except Err (Option Val) :=
  match v with
  | .map es => .ok (lookupKey key es)
  | .null => if C.accessFalls then .ok none else .error .access
  | .bool _ => if C.accessFalls then .ok none else .error .access
  | _ => .ok none

/-! ### the algorithmic matcher -/

/-- where the matched value lives: a local register (re-read on every access) or a temporary -/
inductive Src where
  | reg (x : Name)
  | tmp (v : Val)
  deriving Repr, Inhabited

def Src.rd (ρ : Env) : Src → Val
  | .reg x => ρ x
  | .tmp v => v

/-- how a pattern reaches its value: the match register itself, or element `i` of it -/
inductive Acc where
  | direct (s : Src)
  | elem (s : Src) (i : Int)

def fetch (ρ : Env) : Acc → Except Err Val
  | .direct s => .ok (s.rd ρ)
  | .elem s i => tempIndex (s.rd ρ) i

/-- register that holds a nested container / map: the match register, or a fresh temporary
filled by `TempIndex` -/
def container (ρ : Env) : Acc → Except Err Src
  | .direct s => .ok s
  | .elem s i => (tempIndex (s.rd ρ) i).map Src.tmp

/-- `ok` = fall through to the next instruction, `done` = jump to `match_end` (the arm's guard),
`fail` = jump to `alternative_end` (non-last alternative) / `arm_end` (last alternative) -/
inductive R where
  | ok (ρ : Env)
  | done (ρ : Env)
  | fail (ρ : Env)
  | err (e : Err)

/-- after a sub-pattern has succeeded: in a non-last alternative the *last pattern of its list*
jumps to `match_end` -/
def fin (la isLast : Bool) (ρ : Env) : R := if !la && isLast then .done ρ else .ok ρ

/-- `Size`, `SetNumberU8`, then `Equal` or `GreaterOrEqual` -/
def sizeCheck (C : Cfg) (v : Val) (n : Nat) (hasRest : Bool) : Except Err Bool :=
  match vmSize v with
  | none => if hasRest && !C.sizeNullJumps then .error .geNull else .ok false
  | some k => .ok (if hasRest then decide (n - 1 ≤ k) else k == n)

/-- `try_unpack_map` before /repo 3d805f4: entry by entry, each variable written as soon as its
entry has been accessed (and checked, with `typedFirst`) -/
def mEntsSeq (C : Cfg) : List Ent → Src → Env → R
  | [], _, ρ => .ok ρ
  | e :: es, s, ρ =>
    match tryAccess C (s.rd ρ) e.key with
    | .error er => .err er
    | .ok none => .fail ρ
    | .ok (some v) =>
      let ρ1 := match e.bind with | some x => ρ.set x v | none => ρ
      if tyFail e.ty v then .fail (if C.typedFirst then ρ else ρ1) else mEntsSeq C es s ρ1

/-- `try_unpack_map` since 3d805f4, first phase: every entry is accessed and checked into
temporaries; `ok none` = some access or check failed (jump), `ok (some β)` = the pending
assignments, in entry order -/
def collectEnts (C : Cfg) : List Ent → Val → Except Err (Option Writes)
  | [], _ => .ok (some [])
  | e :: es, m =>
    match tryAccess C m e.key with
    | .error er => .error er
    | .ok none => .ok none
    | .ok (some v) =>
      if tyFail e.ty v then .ok none
      else
        match collectEnts C es m with
        | .error er => .error er
        | .ok none => .ok none
        | .ok (some β) => .ok (some ((match e.bind with | some x => [(x, v)] | none => []) ++ β))

/-- `try_unpack_map` -/
def mEnts (C : Cfg) (es : List Ent) (s : Src) (ρ : Env) : R :=
  if C.mapAtomic then
    match collectEnts C es (s.rd ρ) with
    | .error er => .err er
    | .ok none => .fail ρ
    | .ok (some β) => .ok (ρ.apply β)    -- second phase: commit
  else mEntsSeq C es s ρ

def restCount (rest : Option (Option Name)) : Nat := if rest.isSome then 1 else 0

mutual
/-- one pattern; `la` = `is_last_alternative`, `isLast` = `has_last_pattern && is_last_pattern` (of the pattern's own
list) -/
def mPat (F : FloatOps) (C : Cfg) (la : Bool) : Pat → Bool → Acc → Env → R
  | .lit l, isLast, a, ρ =>
    match fetch ρ a with
    | .error e => .err e
    | .ok v =>
      if litEq F l v then fin la isLast ρ
      else if !la && isLast then .ok ρ      -- `JumpIfTrue match_end` not taken: falls through
      else .fail ρ
  | .id x ty, isLast, a, ρ =>
    match fetch ρ a with
    | .error e => .err e
    | .ok v =>
      if tyFail ty v then .fail (if C.typedFirst then ρ else ρ.set x v) else fin la isLast (ρ.set x v)
  | .wild ty, isLast, a, ρ =>
    match ty with
    | none => fin la isLast ρ
    | some t =>
      match fetch ρ a with
      | .error e => .err e
      | .ok v => if tyOk t v then fin la isLast ρ else .fail ρ
  | .map es ty, isLast, a, ρ =>
    match container ρ a with
    | .error e => .err e
    | .ok s =>
      if tyFail ty (s.rd ρ) then .fail ρ
      else
        match mEnts C es s ρ with
        | .ok ρ1 => fin la isLast ρ1
        | r => r
  | .seq pre rest post, isLast, a, ρ =>
    match container ρ a with
    | .error e => .err e
    | .ok s =>
      if (rest.isSome && !pre.isEmpty && !post.isEmpty) || (rest.isNone && !post.isEmpty) then .err .compile
      else
        let n := pre.length + restCount rest + post.length
        -- may the last pattern of this list take the jump to `match_end`?
        let lf := if C.nestedLast then isLast else true
        match (if n = 0 then Except.ok true else sizeCheck C (s.rd ρ) n rest.isSome) with
        | .error e => .err e
        | .ok false => .fail ρ
        | .ok true =>
          match rest with
          | none => mPats F C la pre s 0 lf ρ
          | some r =>
            if post.isEmpty then
              -- trailing ellipsis (also the lone `(...)` / `(rest...)`)
              match mPats F C la pre s 0 false ρ with
              | .ok ρ1 =>
                (match r with
                 | none => fin la lf ρ1
                 | some x =>
                   match sliceFrom C (s.rd ρ1) pre.length with
                   | .error e => .err e
                   | .ok v => fin la lf (ρ1.set x v))
              | r' => r'
            else
              -- leading ellipsis: `SliceTo -(n-1)`, then indices from the end
              match (match r with
                     | none => Except.ok ρ
                     | some x => (sliceTo C (s.rd ρ) (-(post.length : Int))).map (ρ.set x)) with
              | .error e => .err e
              | .ok ρ1 => mPats F C la post s (-(post.length : Int)) lf ρ1
/-- consecutive patterns at element indices `i, i+1, …`; `lastFlag` = the final pattern of this
list is the last pattern of the enclosing parenthesised pattern -/
def mPats (F : FloatOps) (C : Cfg) (la : Bool) : List Pat → Src → Int → Bool → Env → R
  | [], _, _, _, ρ => .ok ρ
  | p :: ps, s, i, lastFlag, ρ =>
    match mPat F C la p (lastFlag && ps.isEmpty) (.elem s i) ρ with
    | .ok ρ1 => mPats F C la ps s (i + 1) lastFlag ρ1
    | r => r
end

/-- one `or` alternative: a single pattern, or (multi-subject match) one pattern per subject
against the temporary tuple -/
inductive Alt where
  | one (p : Pat)
  | many (ps : List Pat)
  deriving Repr, Inhabited

def mAlt (F : FloatOps) (C : Cfg) (la : Bool) : Alt → Src → Env → R
  | .one p, s, ρ => mPat F C la p true (.direct s) ρ
  | .many ps, s, ρ => mPats F C la ps s 0 true ρ

inductive AR where
  | matched (ρ : Env)
  | unmatched (ρ : Env)
  | err (e : Err)

/-- the alternatives of one arm, in order.  In a non-last alternative success is the jump to
`match_end`; reaching the end of its code (`ok`) *is* the start of the next alternative. -/
def mAlts (F : FloatOps) (C : Cfg) : List Alt → Src → Env → AR
  | [], _, ρ => .unmatched ρ
  | [a], s, ρ =>
    match mAlt F C true a s ρ with
    | .ok ρ' => .matched ρ'
    | .done ρ' => .matched ρ'
    | .fail ρ' => .unmatched ρ'
    | .err e => .err e
  | a :: b :: rest, s, ρ =>
    match mAlt F C false a s ρ with
    | .done ρ' => .matched ρ'
    | .ok ρ' => mAlts F C (b :: rest) s ρ'
    | .fail ρ' => mAlts F C (b :: rest) s ρ'
    | .err e => .err e

/-- an arm: `alts = []` is the `else` arm; the guard is an arbitrary total function of the
registers (the drivers instantiate it from a small expression language) -/
structure Arm where
  alts : List Alt
  guard : Option (Env → Bool)

inductive Ev where
  | subj
  | guard (i : Nat)
  | body (i : Nat)
  deriving DecidableEq, Repr, Inhabited

inductive Out where
  | arm (i : Nat) (ρ : Env)
  | none (ρ : Env)
  | err (e : Err)

structure Res where
  out : Out
  trace : List Ev

def evalArms (F : FloatOps) (C : Cfg) : List Arm → Nat → Src → Env → Res
  | [], _, _, ρ => ⟨.none ρ, []⟩
  | arm :: arms, i, s, ρ =>
    if arm.alts.isEmpty then ⟨.arm i ρ, [.body i]⟩
    else
      match mAlts F C arm.alts s ρ with
      | .err e => ⟨.err e, []⟩
      | .unmatched ρ' => evalArms F C arms (i + 1) s ρ'
      | .matched ρ' =>
        match arm.guard with
        | none => ⟨.arm i ρ', [.body i]⟩
        | some g =>
          if g ρ' then ⟨.arm i ρ', [.guard i, .body i]⟩
          else
            let r := evalArms F C arms (i + 1) s ρ'
            ⟨r.out, .guard i :: r.trace⟩

/-- the subject of a `match`: a bare local (its register is the match register), any other
expression (evaluated once into a temporary; `Ev.subj` marks the evaluation), or several
expressions (`match a, b`: a temporary tuple) -/
inductive Subj where
  | var (x : Name)
  | expr (v : Val)
  | multi (vs : List Val)

def evalMatch (F : FloatOps) (C : Cfg) (sub : Subj) (arms : List Arm) (ρ : Env) : Res :=
  match sub with
  | .var x => evalArms F C arms 0 (if C.subjectCopied then .tmp (ρ x) else .reg x) ρ
  | .expr v => let r := evalArms F C arms 0 (.tmp v) ρ; ⟨r.out, .subj :: r.trace⟩
  | .multi vs => let r := evalArms F C arms 0 (.tmp (.tuple vs)) ρ; ⟨r.out, .subj :: r.trace⟩

/-! ### the declarative definition (the language guide) -/

/-- the sequence view of a value: its elements and how a sub-range `[i, j)` of them is packaged
for `rest...`.  Lists and tuples are what the guide documents; ASCII strings (1-byte slices; a string with a multi-byte character has no view: indexing it by
byte raises, F-C03-10) and maps
(`(key, value)` tuples) are how the implementation extends it, the guide being silent. Numbers,
booleans, null and ranges have no view here (ranges: see `Props/C03`, `range_*`). -/
def view : Val → Option (List Val × (Nat → Nat → Val))
  | .tuple xs => some (xs, fun i j => .tuple ((xs.drop i).take (j - i)))
  | .list xs => some (xs, fun i j => .list ((xs.drop i).take (j - i)))
  | .str bs =>
    if noCont bs then some ((List.range bs.length).map (fun i => strBounds bs i (i + 1)), fun i j => strBounds bs i j)
    else none
  | .map es => some (es.map pairOf, fun i j => .map ((es.drop i).take (j - i)))
  | _ => none

/-- map-pattern entries: every key is present; named entries bind (in order); hints hold -/
def DeclEnts : List Ent → Val → Writes → Prop
  | [], _, β => β = []
  | e :: es, v, β =>
    ∃ m x β', v = .map m ∧ lookupKey e.key m = some x ∧ tyFail e.ty x = false ∧ DeclEnts es v β' ∧
      β = (match e.bind with | some n => [(n, x)] | none => []) ++ β'

def restWrites (rest : Option (Option Name)) (v : Val) : Writes :=
  match rest with
  | some (some r) => [(r, v)]
  | _ => []

mutual
/-- `Decl p v β`: pattern `p` matches value `v` and binds exactly `β` (in writing order) -/
def Decl (F : FloatOps) : Pat → Val → Writes → Prop
  | .lit l, v, β => litEq F l v = true ∧ β = []
  | .id x ty, v, β => tyFail ty v = false ∧ β = [(x, v)]
  | .wild ty, v, β => tyFail ty v = false ∧ β = []
  | .map es ty, v, β => tyFail ty v = false ∧ DeclEnts es v β
  | .seq pre rest post, v, β =>
    ∃ xs sl a mid b β₁ β₂, view v = some (xs, sl) ∧ xs = a ++ mid ++ b ∧ (rest = none → mid = []) ∧
      DeclAll F pre a β₁ ∧ DeclAll F post b β₂ ∧
      β = β₁ ++ restWrites rest (sl a.length (a.length + mid.length)) ++ β₂
/-- element-wise: same length, each pattern matches its element -/
def DeclAll (F : FloatOps) : List Pat → List Val → Writes → Prop
  | [], xs, β => xs = [] ∧ β = []
  | p :: ps, xs, β => ∃ y ys β₁ β₂, xs = y :: ys ∧ Decl F p y β₁ ∧ DeclAll F ps ys β₂ ∧ β = β₁ ++ β₂
end

/-- `DeclSeq pre rest post xs sl β`: the declarative reading of a parenthesised pattern over the
element list `xs` — a split `xs = a ++ mid ++ b` with `|a| = |pre|`, `|b| = |post|`
(forced by `DeclAll`), `mid = []` unless there is an ellipsis, `rest` bound to the middle -/
def DeclSeq (F : FloatOps) (pre : List Pat) (rest : Option (Option Name)) (post : List Pat)
    (xs : List Val) (sl : Nat → Nat → Val) (β : Writes) : Prop :=
  ∃ a mid b β₁ β₂, xs = a ++ mid ++ b ∧ (rest = none → mid = []) ∧
    DeclAll F pre a β₁ ∧ DeclAll F post b β₂ ∧
    β = β₁ ++ restWrites rest (sl a.length (a.length + mid.length)) ++ β₂

/-- declarative reading of one `or` alternative: a single pattern against the subject, or (multi-value
match) one pattern per subject value -/
def DeclAlt (F : FloatOps) : Alt → Val → Writes → Prop
  | .one p, v, β => Decl F p v β
  | .many ps, v, β => ∃ vs, v = .tuple vs ∧ DeclAll F ps vs β

/-! ### variables of a pattern -/

def entVars : List Ent → List Name
  | [] => []
  | e :: es => (match e.bind with | some n => [n] | none => []) ++ entVars es

mutual
def patVars : Pat → List Name
  | .lit _ => []
  | .id x _ => [x]
  | .wild _ => []
  | .map es _ => entVars es
  | .seq pre rest post =>
    patsVars pre ++ (match rest with | some (some r) => [r] | _ => []) ++ patsVars post
def patsVars : List Pat → List Name
  | [] => []
  | p :: ps => patVars p ++ patsVars ps
end

def altVars : Alt → List Name
  | .one p => patVars p
  | .many ps => patsVars ps

/-! ### hereditary side conditions -/

mutual
/-- what the parser/compiler accept: a parenthesised pattern has at least one element (the text
`()` is parsed as the literal null, F-C03-7), and an ellipsis stands first or last -/
def wf : Pat → Bool
  | .seq pre rest post =>
    (post.isEmpty || (pre.isEmpty && rest.isSome)) && decide (0 < pre.length + restCount rest + post.length) &&
      wfL pre && wfL post
  | _ => true
def wfL : List Pat → Bool
  | [] => true
  | p :: ps => wf p && wfL ps
end

mutual
/-- the values the declarative theorems speak about: no range anywhere inside (ranges are sized
and indexable, sliceable only since fix-5; treated separately) and no string with a multi-byte
character (patterns index strings by byte and raise when a character would be cut, F-C03-10) -/
def plain : Val → Bool
  | .range _ _ => false
  | .str bs => noCont bs
  | .tuple xs => plainL xs
  | .list xs => plainL xs
  | .map es => plainM es
  | _ => true
def plainL : List Val → Bool
  | [] => true
  | x :: xs => plain x && plainL xs
def plainM : List (Val × Val) → Bool
  | [] => true
  | (k, v) :: es => plain k && plain v && plainM es
end

mutual
/-- a non-empty parenthesised pattern never stands in a non-last position of another one
(the shape on which `or` alternatives other than the last misbehave, F-C03-3) -/
def earlyFree : Pat → Bool
  | .seq pre rest post =>
    if post.isEmpty then earlyFreeL pre rest.isNone else pre.isEmpty && earlyFreeL post true
  | _ => true
/-- `lastOk`: the final pattern of the list is in last position -/
def earlyFreeL : List Pat → Bool → Bool
  | [], _ => true
  | [p], lastOk => earlyFree p && (lastOk || !isSeqNonEmpty p)
  | p :: q :: ps, lastOk => earlyFree p && !isSeqNonEmpty p && earlyFreeL (q :: ps) lastOk
/-- a parenthesised pattern with at least one element -/
def isSeqNonEmpty : Pat → Bool
  | .seq pre rest post => !(pre.isEmpty && rest.isNone && post.isEmpty)
  | _ => false
end

/-- what the compiler guarantees about an alternative: patterns are well-formed, and a multi-value
alternative has one pattern per subject value (`UnexpectedMatchPatternCount` otherwise) and at least
one -/
def WfAlt : Alt → Val → Prop
  | .one p, _ => wf p = true
  | .many ps, v => wfL ps = true ∧ ps ≠ [] ∧ ∃ vs, v = .tuple vs ∧ vs.length = ps.length

end Match
end KotoVerif
