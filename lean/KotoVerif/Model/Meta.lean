/-
C17 — metamap / host-object dispatch as ordered decision lists.

Mirrors (crates/runtime/src):
  vm.rs        run_add, macros::{run_arithmetic_op, run_compound_assign_op, call_metamap_arithmetic_op,
               call_metamap_binary_op(_rhs), call_object_arithmetic_op, call_object_binary_op},
               run_less … run_not_equal, run_overridden_comparison_op, run_negate, run_not, run_index,
               run_index_assign, run_access_inner, run_access_assign, call_callable (@call), run_size,
               run_make_iterator, run_iterator_next, make_iterator (public; `iterator.to_list`,
               `iterator.reversed` with core_lib/iterator/adaptors.rs Reversed), run_display, run_debug_op,
               run_string_push (result must be a String)
  types/map.rs        KMap::display, KMap::meta_type
  types/value.rs      type_as_string
  types/object.rs     trait KotoObject defaults (less_or_equal, greater, greater_or_equal, not_equal
                      derived; everything else unimplemented)
  types/iterator.rs   MetaIterator::new / next / next_back
  core_lib/map.rs     with_meta (shares the metamap), get_meta

Operands are *descriptions*: the kind of the value, the metakeys present (each with the abstract
behaviour of the function stored there: returns a value / throws koto.unimplemented / throws another
error), named `@meta` entries, the `@base` chain (a list of layers, so any depth), whether the
metamap is the map's own or was attached with `with_meta`. The functions below return the ordered
trace of callee invocations (which function, which `self`, which arguments) and the result class.
Built-in arms (Number+Number, …) are reported as `builtin`: their values belong to C01/C14.
-/
import KotoVerif.Gen.MetaKeys

namespace KotoVerif.Meta
open KotoVerif.Gen

abbrev MKey := MetaKeyId
abbrev Name := Nat
abbrev Key := Nat

inductive PrimK where
  | null | bool | num | str | list | tuple | range | fn | iter
  deriving DecidableEq, Repr, Inhabited

inductive Slot where
  | data | named
  deriving DecidableEq, Repr, Inhabited

inductive CoreMod where
  | map | iterator
  deriving DecidableEq, Repr, Inhabited

/-- what `koto.type` / the display prefix can be -/
inductive TyName where
  | user (id : Nat)     -- the string stored under `@type`
  | badType             -- "Error: expected string as result of @type"
  | object              -- map with a metamap but no `@type` anywhere along `@base`
  | map                 -- plain map
  deriving DecidableEq, Repr, Inhabited

/-- how a nest of auxiliary `@iterator` objects ends: the innermost `@iterator` returns a list, a
number (not iterable), or — closing a cycle — the object the iteration started from -/
inductive NestFin where
  | lst | int | back
  deriving DecidableEq, Repr, Inhabited

/-- abstract runtime values appearing as `self`, arguments and results -/
inductive AV where
  | prim (k : PrimK)                 -- the fixed operand value of that kind
  | null
  | bool (b : Bool)
  | int (n : Int)
  | str                               -- the string a callee returns
  | lst (xs : List Int)
  | tup (xs : List Int)
  | iter                              -- an iterator value (bidirectional)
  | gen                               -- the iterator of a generator (forward only)
  | pmap                              -- a plain map value returned by a callee
  | inner (next : Bool)               -- the auxiliary objects 900 (`@next`) / 901 (`@iterator`)
  | aux (i d : Nat) (fin : NestFin)   -- i-th (1…d) object of a nest: name 909+i, its `@iterator`
                                      -- returns object i+1, the d-th returns `fin`
  | one (v : AV)                      -- a one-element list holding `v`
  | obj (n : Name)                    -- a map operand / layer (by identity)
  | objCopy (n : Name)                -- a copy of that map (own data, same metamap content)
  | host (n : Name) (gen : Nat)       -- host object; gen = number of `copy()` steps from the original
  | found (layer : Name) (s : Slot) (k : Key)   -- value stored under `k` in that layer's data / `@meta`
  | core (m : CoreMod) (k : Key)      -- a core-library function
  | key (k : Key)                     -- key string handed to `@access` / `@access_assign`
  | native                            -- a native function (e.g. a `#[koto_method]` wrapper)
  | builtin                           -- computed by a built-in arm (not modelled here)
  | keys (ks : List Key)              -- a tuple of key strings
  | shown (pre : Option TyName)       -- default map rendering `[Type ]{…}`
  | ty (t : TyName)                   -- a type string
  deriving DecidableEq, Repr, Inhabited

/-- what a callee returns -/
inductive RV where
  | null | bool (b : Bool) | int (n : Int) | str | self | lst | tup | iter
  | rng            -- the range `0..2`
  | pmap           -- a plain map
  | gen            -- the function is a generator (yields 20, 21): calling it gives an iterator; its
                   -- body — hence its trace event — runs when the iterator is first advanced
                   -- (generated only under `@iterator`)
  | innerNext      -- another object (name 900) with `@next` counting 2
  | innerIter      -- another object (name 901) whose own `@iterator` returns the list [20, 21]
  | nest (d : Nat) (fin : NestFin)   -- the head of a nest of `d` auxiliary objects (see `AV.aux`)
  deriving DecidableEq, Repr, Inhabited

def NestFin.toAV (root : AV) : NestFin → AV
  | .lst => .lst [20, 21]
  | .int => .int 5
  | .back => root

def RV.toAV (self : AV) : RV → AV
  | .null => .null
  | .bool b => .bool b
  | .int n => .int n
  | .str => .str
  | .self => self
  | .lst => .lst [20, 21]
  | .tup => .tup [20, 21]
  | .iter => .iter
  | .rng => .prim .range
  | .pmap => .pmap
  | .gen => .gen
  | .innerNext => .inner true
  | .innerIter => .inner false
  | .nest d fin => if d = 0 then fin.toAV self else .aux 1 d fin

/-- abstract behaviour of a function stored under a metakey (or of a host method) -/
inductive Beh where
  | ret (v : RV)
  | unimpl            -- `throw koto.unimplemented` / host: `ErrorKind::Unimplemented`
  | throw             -- throws another error
  | count (n : Nat)   -- stateful: the i-th call returns `10+i` for `i < n`, then `null` (for `@next`)
  deriving DecidableEq, Repr, Inhabited

inductive CallRes where
  | ret (v : AV) | unimpl | throw | notCallable
  deriving DecidableEq, Repr, Inhabited

/-- result of the `i`-th call -/
def Beh.runAt (b : Beh) (i : Nat) (self : AV) : CallRes :=
  match b with
  | .ret v => .ret (v.toAV self)
  | .unimpl => .unimpl
  | .throw => .throw
  | .count n => if i < n then .ret (.int (10 + Int.ofNat i)) else .ret .null

def Beh.run (b : Beh) (self : AV) : CallRes := b.runAt 0 self

/-- value stored under a metakey -/
inductive MV where
  | fn (b : Beh)
  | native (v : RV)                               -- a native (Rust) function returning `v`
  | nonCallable                                   -- e.g. a number
  | chain (mids : List Name) (fin : Option Beh)   -- a callable map whose `@call` is the next one …
  deriving DecidableEq, Repr, Inhabited

inductive TypeD where
  | none | str (id : Nat) | nonStr
  deriving DecidableEq, Repr, Inhabited

structure Meta where
  tag : Name                      -- identifies the function literals of this metamap in traces
  ops : List (MKey × MV)
  named : List Key := []
  type : TypeD := .none
  baseBad : Bool := false         -- `@base` present and not a Map
  deriving DecidableEq, Repr, Inhabited

/-- how a map got its metamap -/
inductive MetaSrc where
  | none
  | own (m : Meta)
  | shared (proto : Name) (m : Option Meta)   -- `data.with_meta proto`: proto's metamap (if any), shared
  deriving DecidableEq, Repr, Inhabited

def MetaSrc.get : MetaSrc → Option Meta
  | .none => Option.none
  | .own m => some m
  | .shared _ m => m

structure Layer where
  name : Name
  data : List Key := []
  src : MetaSrc := .none
  deriving DecidableEq, Repr, Inhabited

def Layer.metaOf (l : Layer) : Option Meta := l.src.get

/-- a map value with its `@base` chain: `bases[i+1]` is the `@base` of `bases[i]`, `bases[0]` of `top` -/
structure MapD where
  top : Layer
  bases : List Layer := []
  deriving DecidableEq, Repr, Inhabited

def MapD.av (m : MapD) : AV := .obj m.top.name

/-- `contains_meta_key` + `get_meta_value` on the map's own metamap (never on `@base`) -/
def MapD.metaGet (m : MapD) (k : MKey) : Option (Name × MV) :=
  match m.top.metaOf with
  | Option.none => Option.none
  | some mt => (mt.ops.lookup k).map (fun mv => (mt.tag, mv))

def MapD.hasKey (m : MapD) (k : MKey) : Bool := (m.metaGet k).isSome

/-- host object methods (trait `KotoObject` + `KotoAccess`) -/
inductive HM where
  | add | subtract | multiply | divide | remainder | power
  | addRhs | subtractRhs | multiplyRhs | divideRhs | remainderRhs | powerRhs
  | addAssign | subtractAssign | multiplyAssign | divideAssign | remainderAssign | powerAssign
  | less | lessOrEqual | greater | greaterOrEqual | equal | notEqual
  | negate | index | indexAssign | size | call | access | accessAssign | display
  | makeIterator | iteratorNext | iteratorNextBack
  deriving DecidableEq, Repr, Inhabited

/-- `KotoObject::is_iterable`; `forward n` / `bidirectional n`: `iterator_next` (`_back`) yields
`10, 11, …` (`n` values) and then ends -/
inductive HostIter where
  | notIterable | iterable | forward (n : Nat) | bidirectional (n : Nat)
  deriving DecidableEq, Repr, Inhabited

structure HostD where
  name : Name
  gen : Nat := 0
  impl : List (HM × Beh) := []    -- overridden methods; absent = the trait's default
  iter : HostIter := .notIterable
  deriving DecidableEq, Repr, Inhabited

def HostD.av (h : HostD) : AV := .host h.name h.gen

inductive Opd where
  | prim (k : PrimK)
  | map (m : MapD)
  | host (h : HostD)
  deriving DecidableEq, Repr, Inhabited

def Opd.av : Opd → AV
  | .prim k => .prim k
  | .map m => m.av
  | .host h => h.av

/-- functions of a `#[koto_impl]` block (crates/derive) -/
inductive DFn where
  | getOverride | getFallback | setOverride | setFallback
  | method (f : Nat) | getter (f : Nat) | setter (f : Nat)     -- `f`: which Rust function
  deriving DecidableEq, Repr, Inhabited

inductive EvKey where
  | dv (f : DFn)
  | mk (k : MKey)
  | host (m : HM)
  | copy                      -- `KotoCopy::copy` of a host object
  | entry (s : Slot) (k : Key) -- a function stored in data / `@meta`, called as a method
  deriving DecidableEq, Repr, Inhabited

/-- one callee invocation: which function (`tag`,`key`), which `self`, which arguments -/
structure Ev where
  tag : Name
  key : EvKey
  self : AV
  args : List AV
  deriving DecidableEq, Repr, Inhabited

inductive Err where
  | binop (k : MKey)   -- `InvalidBinaryOp { op }`
  | type               -- `UnexpectedType`
  | hostUnimpl         -- `ErrorKind::Unimplemented` reaches the script
  | thrownUnimpl       -- a thrown `koto.unimplemented` reaches the script
  | thrown             -- the callee's other error reaches the script
  | hostErr            -- the host method's other error reaches the script
  | notFound
  | unexpectedKey      -- derived `access_assign` without setter / fallback: "unexpected key: …"
  | oob
  | noIndex
  | tooNested          -- "too many nested @iterator calls" (`make_iterator`'s nesting limit)
  | notReversible      -- `iterator.reversed`: "the provided iterator isn't bidirectional"
  | diverge            -- the operation would not terminate (never generated)
  deriving DecidableEq, Repr, Inhabited

inductive Res where
  | ok (v : AV)
  | err (e : Err)
  deriving DecidableEq, Repr, Inhabited

structure Out where
  trace : List Ev
  res : Res
  deriving DecidableEq, Repr, Inhabited

/-- the callee's value is the operation's value; its errors propagate -/
def CallRes.pass : CallRes → Res
  | .ret v => .ok v
  | .unimpl => .err .thrownUnimpl
  | .throw => .err .thrown
  | .notCallable => .err .type

/-- `call_callable` on the value stored under a metakey, with `self` as instance.
A callable map (`@call`) replaces the instance by itself (vm.rs call_callable, Map arm). -/
def invokeAt (i : Nat) (tag : Name) (key : MKey) (mv : MV) (self : AV) (args : List AV) : List Ev × CallRes :=
  match mv with
  | .fn b => ([⟨tag, .mk key, self, args⟩], b.runAt i self)
  -- a native function is called like a Koto function: same instance, same arguments, its value is
  -- the result (no frame is pushed for it — see findings F-C17-5)
  | .native v => ([⟨tag, .mk key, self, args⟩], .ret (v.toAV self))
  | .nonCallable => ([], .notCallable)
  | .chain mids fin =>
    match mids.getLast?, fin with
    | some c, some b => ([⟨c, .mk .Call, .obj c, args⟩], b.runAt i (.obj c))
    | some _, Option.none => ([], .notCallable)
    | Option.none, some b => ([⟨tag, .mk key, self, args⟩], b.runAt i self)
    | Option.none, Option.none => ([], .notCallable)

def invoke (tag : Name) (key : MKey) (mv : MV) (self : AV) (args : List AV) : List Ev × CallRes :=
  invokeAt 0 tag key mv self args

/-! ### host objects -/

inductive HostRes where
  | ok (v : AV) | unimpl | err
  deriving DecidableEq, Repr, Inhabited

def Beh.hostRes (b : Beh) (self : AV) : HostRes :=
  match b.run self with
  | .ret v => .ok v
  | .unimpl => .unimpl
  | .throw => .err
  | .notCallable => .err

/-- call an overridable method: overridden → traced; not overridden → the trait default, which for
every method except the four derived comparisons is `unimplemented_error` (no trace) -/
def HostD.call (h : HostD) (m : HM) (args : List AV) : List Ev × HostRes :=
  match h.impl.lookup m with
  | some b => ([⟨h.name, .host m, h.av, args⟩], b.hostRes h.av)
  | Option.none => ([], .unimpl)

def truthy : AV → Bool
  | .bool b => b
  | _ => false

/-- trait default `less_or_equal`: `less`, and `equal` only when `less` is false -/
def HostD.lessOrEqualDefault (h : HostD) (a : AV) : List Ev × HostRes :=
  match h.call .less [a] with
  | (t1, .ok v) =>
    if truthy v then (t1, .ok (.bool true))
    else match h.call .equal [a] with
      | (t2, .ok w) => (t1 ++ t2, .ok (.bool (truthy w)))
      | (t2, r) => (t1 ++ t2, r)
  | (t1, r) => (t1, r)

/-- trait default `greater` -/
def HostD.greaterDefault (h : HostD) (a : AV) : List Ev × HostRes :=
  match h.call .less [a] with
  | (t1, .ok v) =>
    if truthy v then (t1, .ok (.bool false))
    else match h.call .equal [a] with
      | (t2, .ok w) => (t1 ++ t2, .ok (.bool (!truthy w)))
      | (t2, r) => (t1 ++ t2, r)
  | (t1, r) => (t1, r)

/-- trait default `greater_or_equal` -/
def HostD.greaterOrEqualDefault (h : HostD) (a : AV) : List Ev × HostRes :=
  match h.call .less [a] with
  | (t1, .ok v) => (t1, .ok (.bool (!truthy v)))
  | (t1, r) => (t1, r)

/-- trait default `not_equal` -/
def HostD.notEqualDefault (h : HostD) (a : AV) : List Ev × HostRes :=
  match h.call .equal [a] with
  | (t1, .ok v) => (t1, .ok (.bool (!truthy v)))
  | (t1, r) => (t1, r)

/-- a comparison method as the VM calls it (`o.try_borrow()?.less(rhs)` …): overridden, or default -/
def HostD.cmp (h : HostD) (m : HM) (a : AV) : List Ev × HostRes :=
  match h.impl.lookup m with
  | some b => ([⟨h.name, .host m, h.av, [a]⟩],
      match b.hostRes h.av with
      | .ok v => .ok (.bool (truthy v))
      | r => r)
  | Option.none =>
    match m with
    | .lessOrEqual => h.lessOrEqualDefault a
    | .greater => h.greaterDefault a
    | .greaterOrEqual => h.greaterOrEqualDefault a
    | .notEqual => h.notEqualDefault a
    | _ => ([], .unimpl)

/-- errors of a host method reach the script unchanged (`?`) -/
def HostRes.pass : HostRes → Res
  | .ok v => .ok v
  | .unimpl => .err .hostUnimpl
  | .err => .err .hostErr

/-! ### arithmetic -/

inductive ArithOp where
  | add | sub | mul | div | rem | pow
  deriving DecidableEq, Repr, Inhabited

def ArithOp.key : ArithOp → MKey
  | .add => .Add | .sub => .Subtract | .mul => .Multiply | .div => .Divide | .rem => .Remainder | .pow => .Power
def ArithOp.rkey : ArithOp → MKey
  | .add => .AddRhs | .sub => .SubtractRhs | .mul => .MultiplyRhs | .div => .DivideRhs
  | .rem => .RemainderRhs | .pow => .PowerRhs
def ArithOp.akey : ArithOp → MKey
  | .add => .AddAssign | .sub => .SubtractAssign | .mul => .MultiplyAssign | .div => .DivideAssign
  | .rem => .RemainderAssign | .pow => .PowerAssign
def ArithOp.hm : ArithOp → HM
  | .add => .add | .sub => .subtract | .mul => .multiply | .div => .divide | .rem => .remainder | .pow => .power
def ArithOp.rhm : ArithOp → HM
  | .add => .addRhs | .sub => .subtractRhs | .mul => .multiplyRhs | .div => .divideRhs
  | .rem => .remainderRhs | .pow => .powerRhs
def ArithOp.ahm : ArithOp → HM
  | .add => .addAssign | .sub => .subtractAssign | .mul => .multiplyAssign | .div => .divideAssign
  | .rem => .remainderAssign | .pow => .powerAssign

/-- built-in arms that come before any dispatch -/
def builtinArith (op : ArithOp) : PrimK → PrimK → Bool
  | .num, .num => true
  | .str, .str => op == .add
  | .list, .list => op == .add
  | .tuple, .tuple => op == .add
  | _, _ => false

/-- `call_object_binary_op!(op_rhs, trait_fn_rhs, o, lhs, rhs)` -/
def hostRhs (op : ArithOp) (h : HostD) (lhs : Opd) (pre : List Ev) : Out :=
  match h.call op.rhm [lhs.av] with
  | (t, .ok v) => ⟨pre ++ t, .ok v⟩
  | (t, .unimpl) => ⟨pre ++ t, .err (.binop op.rkey)⟩
  | (t, .err) => ⟨pre ++ t, .err .hostErr⟩

/-- `call_metamap_binary_op_rhs!`: the right operand's `@r…` entry with (self := rhs, arg := lhs) -/
def mapRhs (op : ArithOp) (tag : Name) (mv : MV) (lhs rhs : Opd) (pre : List Ev) : Out :=
  let (t, r) := invoke tag op.rkey mv rhs.av [lhs.av]
  ⟨pre ++ t, r.pass⟩

/-- the inner `match rhs` after the left operand reported "unimplemented" -/
def rhsAfterUnimpl (op : ArithOp) (lhs rhs : Opd) (pre : List Ev) : Out :=
  match rhs with
  | .host h => hostRhs op h lhs pre
  | .map m2 =>
    match m2.metaGet op.rkey with
    | some (tag, mv) => mapRhs op tag mv lhs rhs pre
    | Option.none => ⟨pre, .err (.binop op.key)⟩
  | .prim _ => ⟨pre, .err (.binop op.key)⟩

/-- the arms after `(Map with op, _)` and `(Object, _)`: `(_, Map with rop)`, `(_, Object)`,
for `+` `(Map, Map)` merge, `_ => binary_op_error` -/
def rhsDirect (op : ArithOp) (lhs rhs : Opd) : Out :=
  match rhs with
  | .map m2 =>
    match m2.metaGet op.rkey with
    | some (tag, mv) => mapRhs op tag mv lhs rhs []
    | Option.none =>
      match lhs with
      | .map _ => if op == .add then ⟨[], .ok .builtin⟩ else ⟨[], .err (.binop op.key)⟩
      | _ => ⟨[], .err (.binop op.key)⟩
  | .host h => hostRhs op h lhs []
  | .prim _ => ⟨[], .err (.binop op.key)⟩

/-- `run_add` / `run_arithmetic_op!` -/
def arith (op : ArithOp) (lhs rhs : Opd) : Out :=
  match lhs, rhs with
  | .prim a, .prim b =>
    if builtinArith op a b then ⟨[], .ok .builtin⟩ else ⟨[], .err (.binop op.key)⟩
  | .map m, _ =>
    match m.metaGet op.key with
    | some (tag, mv) =>
      match invoke tag op.key mv lhs.av [rhs.av] with
      | (t, .unimpl) => rhsAfterUnimpl op lhs rhs t
      | (t, r) => ⟨t, r.pass⟩
    | Option.none => rhsDirect op lhs rhs
  | .host h, _ =>
    match h.call op.hm [rhs.av] with
    | (t, .ok v) => ⟨t, .ok v⟩
    | (t, .unimpl) => rhsAfterUnimpl op lhs rhs t
    | (t, .err) => ⟨t, .err .hostErr⟩
  | .prim _, _ => rhsDirect op lhs rhs

/-- `run_compound_assign_op!`. The value of the variable afterwards is still the left operand
(the callee's result is discarded). `same`: both operands are the *same instance* (`x op= x`);
only then — guard `o.is_same_instance(o2)` — a host right operand is copied first, because the left
one is about to be borrowed mutably. -/
def compound (op : ArithOp) (lhs rhs : Opd) (same : Bool) : Out :=
  match lhs, rhs with
  | .prim .num, .prim .num => ⟨[], .ok .builtin⟩
  | .map m, _ =>
    match m.metaGet op.akey with
    | some (tag, mv) =>
      match invoke tag op.akey mv lhs.av [rhs.av] with
      | (t, .ret _) => ⟨t, .ok lhs.av⟩
      | (t, r) => ⟨t, r.pass⟩
    | Option.none => ⟨[], .err (.binop op.akey)⟩
  | .host h, .host h2 =>
    if same then
      let c : HostD := { h2 with gen := h2.gen + 1 }
      let cp : Ev := ⟨h2.name, .copy, h2.av, []⟩
      match h.call op.ahm [c.av] with
      | (t, .ok _) => ⟨cp :: t, .ok lhs.av⟩
      | (t, r) => ⟨cp :: t, r.pass⟩
    else
      match h.call op.ahm [rhs.av] with
      | (t, .ok _) => ⟨t, .ok lhs.av⟩
      | (t, r) => ⟨t, r.pass⟩
  | .host h, _ =>
    match h.call op.ahm [rhs.av] with
    | (t, .ok _) => ⟨t, .ok lhs.av⟩
    | (t, r) => ⟨t, r.pass⟩
  | .prim _, _ => ⟨[], .err (.binop op.akey)⟩

/-- the decision list before fix 6cd88dc (guard `o2.is_same_instance(o2)`, always true): every host
right operand was copied. Kept only to state what the fix changed (finding F-C17-1). -/
def compoundBeforeFix (op : ArithOp) (lhs rhs : Opd) : Out := compound op lhs rhs true

/-! ### comparisons -/

inductive CmpOp where
  | lt | le | gt | ge | eq | ne
  deriving DecidableEq, Repr, Inhabited

def CmpOp.key : CmpOp → MKey
  | .lt => .Less | .le => .LessOrEqual | .gt => .Greater | .ge => .GreaterOrEqual
  | .eq => .Equal | .ne => .NotEqual
def CmpOp.hm : CmpOp → HM
  | .lt => .less | .le => .lessOrEqual | .gt => .greater | .ge => .greaterOrEqual
  | .eq => .equal | .ne => .notEqual

/-- `run_overridden_comparison_op`: the callee must return a Bool -/
def cmpCall (tag : Name) (key : MKey) (mv : MV) (lhs rhs : Opd) : List Ev × Except Err Bool :=
  match invoke tag key mv lhs.av [rhs.av] with
  | (t, .ret (.bool b)) => (t, .ok b)
  | (t, .ret _) => (t, .error .type)
  | (t, .unimpl) => (t, .error .thrownUnimpl)
  | (t, .throw) => (t, .error .thrown)
  | (t, .notCallable) => (t, .error .type)

def builtinOrd : PrimK → PrimK → Bool
  | .num, .num => true
  | .str, .str => true
  | _, _ => false

/-- `less || equal` with `equal` evaluated only when `less` is false; `neg` for `>` -/
def lessThenEqual (m : MapD) (lt eq : Name × MV) (lhs rhs : Opd) (neg : Bool) : Out :=
  let _ := m
  match cmpCall lt.1 .Less lt.2 lhs rhs with
  | (t1, .error e) => ⟨t1, .err e⟩
  | (t1, .ok true) => ⟨t1, .ok (.bool (true != neg))⟩
  | (t1, .ok false) =>
    match cmpCall eq.1 .Equal eq.2 lhs rhs with
    | (t2, .error e) => ⟨t1 ++ t2, .err e⟩
    | (t2, .ok b) => ⟨t1 ++ t2, .ok (.bool (b != neg))⟩

/-- `run_less`, `run_less_or_equal`, `run_greater`, `run_greater_or_equal` -/
def order (op : CmpOp) (lhs rhs : Opd) : Out :=
  match lhs, rhs with
  | .prim a, .prim b => if builtinOrd a b then ⟨[], .ok .builtin⟩ else ⟨[], .err (.binop op.key)⟩
  | .prim _, _ => ⟨[], .err (.binop op.key)⟩
  | .map m, _ =>
    match m.metaGet op.key with
    | some (tag, mv) =>
      -- own key: the callee's value is the result (not required to be a Bool)
      let (t, r) := invoke tag op.key mv lhs.av [rhs.av]
      ⟨t, r.pass⟩
    | Option.none =>
      match op with
      | .le =>
        match m.metaGet .Less, m.metaGet .Equal with
        | some lt, some eq => lessThenEqual m lt eq lhs rhs false
        | _, _ => ⟨[], .err (.binop op.key)⟩
      | .gt =>
        match m.metaGet .Less, m.metaGet .Equal with
        | some lt, some eq => lessThenEqual m lt eq lhs rhs true
        | _, _ => ⟨[], .err (.binop op.key)⟩
      | .ge =>
        match m.metaGet .Less with
        | some lt =>
          match cmpCall lt.1 .Less lt.2 lhs rhs with
          | (t, .error e) => ⟨t, .err e⟩
          | (t, .ok b) => ⟨t, .ok (.bool (!b))⟩
        | Option.none => ⟨[], .err (.binop op.key)⟩
      | _ => ⟨[], .err (.binop op.key)⟩
  | .host h, _ =>
    let (t, r) := h.cmp op.hm rhs.av
    ⟨t, r.pass⟩

/-- kinds whose same-kind equality is a built-in arm -/
def builtinEqKind : PrimK → Bool
  | .num | .bool | .str | .range | .list | .tuple | .fn => true
  | _ => false

/-- `run_equal` (`ne = false`) / `run_not_equal` (`ne = true`) -/
def equality (ne : Bool) (lhs rhs : Opd) : Out :=
  match lhs, rhs with
  | .prim .null, .prim .null => ⟨[], .ok (.bool (true != ne))⟩
  | .prim .null, _ => ⟨[], .ok (.bool (false != ne))⟩
  -- `(Null, _) | (_, Null)` comes before the overloads: `obj == null` never dispatches (deliberate
  -- upstream behaviour pinned by crates/runtime/tests/object_tests.rs equal_null_lhs; against the
  -- letter of the property — finding F-C17-9, mirrored here)
  | _, .prim .null => ⟨[], .ok (.bool (false != ne))⟩
  | .prim a, .prim b =>
    if a == b && builtinEqKind a then ⟨[], .ok .builtin⟩ else ⟨[], .ok (.bool (false != ne))⟩
  | .prim _, _ => ⟨[], .ok (.bool (false != ne))⟩   -- no dispatch on the right operand
  | .map m, _ =>
    let structural : Out :=
      match rhs with
      | .map _ => ⟨[], .ok .builtin⟩
      | _ => ⟨[], .ok (.bool (false != ne))⟩
    if ne then
      match m.metaGet .NotEqual with
      | some (tag, mv) =>
        let (t, r) := invoke tag .NotEqual mv lhs.av [rhs.av]
        ⟨t, r.pass⟩
      | Option.none =>
        match m.metaGet .Equal with
        | some (tag, mv) =>
          match cmpCall tag .Equal mv lhs rhs with
          | (t, .error e) => ⟨t, .err e⟩
          | (t, .ok b) => ⟨t, .ok (.bool (!b))⟩
        | Option.none => structural
    else
      match m.metaGet .Equal with
      | some (tag, mv) =>
        let (t, r) := invoke tag .Equal mv lhs.av [rhs.av]
        ⟨t, r.pass⟩
      | Option.none => structural
  | .host h, _ =>
    let (t, r) := h.cmp (if ne then .notEqual else .equal) rhs.av
    ⟨t, r.pass⟩

def compareOp (op : CmpOp) (lhs rhs : Opd) : Out :=
  match op with
  | .eq => equality false lhs rhs
  | .ne => equality true lhs rhs
  | _ => order op lhs rhs

/-! ### unary -/

/-- `run_negate` -/
def negate : Opd → Out
  | .prim .num => ⟨[], .ok .builtin⟩
  | .prim _ => ⟨[], .err .type⟩
  | .map m =>
    match m.metaGet .Negate with
    | some (tag, mv) =>
      let (t, r) := invoke tag .Negate mv m.av []
      ⟨t, r.pass⟩
    | Option.none => ⟨[], .err .type⟩
  | .host h =>
    let (t, r) := h.call .negate []
    ⟨t, r.pass⟩

/-- `run_not`: there is no `@not`; only `null` and `false` are falsy (the fixed bool operand is `true`) -/
def notOp : Opd → Out
  | .prim .null => ⟨[], .ok (.bool true)⟩
  | _ => ⟨[], .ok (.bool false)⟩

/-- `run_size` (as called by `koto.size`: throws when there is no size) -/
def size : Opd → Out
  | .prim k =>
    match k with
    | .list | .tuple | .str | .range => ⟨[], .ok .builtin⟩
    | _ => ⟨[], .err .type⟩
  | .map m =>
    match m.metaGet .Size with
    | some (tag, mv) =>
      let (t, r) := invoke tag .Size mv m.av []
      ⟨t, r.pass⟩
    | Option.none => ⟨[], .ok (.int m.top.data.length)⟩
  | .host h =>
    -- `size()` returns an Option: absent → "a value with a defined size" type error
    match h.impl.lookup .size with
    | some (.ret (.int n)) => ⟨[⟨h.name, .host .size, h.av, []⟩], .ok (.int n)⟩
    | some _ => ⟨[⟨h.name, .host .size, h.av, []⟩], .err .type⟩
    | Option.none => ⟨[], .err .type⟩

/-! ### index -/

inductive IdxK where
  | num0 | str
  deriving DecidableEq, Repr, Inhabited

def IdxK.av : IdxK → AV
  | .num0 => .int 0
  | .str => .prim .str

/-- `run_index` with index `0` or a string -/
def index (o : Opd) (i : IdxK) : Out :=
  match o with
  | .prim k =>
    match k, i with
    | .list, .num0 | .tuple, .num0 | .str, .num0 | .range, .num0 => ⟨[], .ok .builtin⟩
    | _, _ => ⟨[], .err .noIndex⟩
  | .map m =>
    match m.metaGet .Index with
    | some (tag, mv) =>
      let (t, r) := invoke tag .Index mv m.av [i.av]
      ⟨t, r.pass⟩
    | Option.none =>
      match i with
      | .num0 => if m.top.data.isEmpty then ⟨[], .err .oob⟩ else ⟨[], .ok .builtin⟩
      | .str => ⟨[], .err .noIndex⟩
  | .host h =>
    let (t, r) := h.call .index [i.av]
    ⟨t, r.pass⟩

/-- `run_index_assign` with value `5` (result: `null` on success) -/
def indexAssign (o : Opd) (i : IdxK) : Out :=
  match o with
  | .prim .list => match i with
    | .num0 => ⟨[], .ok .builtin⟩
    | .str => ⟨[], .err .type⟩
  | .prim _ => ⟨[], .err .type⟩
  | .map m =>
    match m.metaGet .IndexAssign with
    | some (tag, mv) =>
      match invoke tag .IndexAssign mv m.av [i.av, .int 5] with
      | (t, .ret _) => ⟨t, .ok .builtin⟩
      | (t, r) => ⟨t, r.pass⟩
    | Option.none =>
      -- plain map entry replacement needs a 2-tuple value: `5` is a type error; index checks first
      match i with
      | .num0 => if m.top.data.isEmpty then ⟨[], .err .oob⟩ else ⟨[], .err .type⟩
      | .str => ⟨[], .err .type⟩
  | .host h =>
    match h.call .indexAssign [i.av, .int 5] with
    | (t, .ok _) => ⟨t, .ok .builtin⟩
    | (t, r) => ⟨t, r.pass⟩

/-! ### call -/

/-- `call_callable` on the operand with one argument `7` -/
def callOp (o : Opd) : Out :=
  match o with
  | .prim .fn => ⟨[], .ok .builtin⟩
  | .prim _ => ⟨[], .err .type⟩
  | .map m =>
    match m.metaGet .Call with
    | some (tag, mv) =>
      let (t, r) := invoke tag .Call mv m.av [.int 7]
      ⟨t, r.pass⟩
    | Option.none => ⟨[], .err .type⟩
  | .host h =>
    let (t, r) := h.call .call [.int 7]
    ⟨t, r.pass⟩

/-! ### access -/

/-- facts about key names supplied by the core library -/
structure Mods where
  inMap : Key → Bool      -- `k` is a function of the `map` module
  inIter : Key → Bool     -- `k` is a function of the `iterator` module
  isFn : Key → Bool       -- entries stored under `k` are functions (harness convention)

inductive Look where
  | hit (v : AV)
  | miss          -- chain exhausted (`None => break`)
  | badBase       -- `@base` is not a map
  | coreMap       -- reached a map without metamap: `return core_op!(map, …)`
  deriving DecidableEq, Repr, Inhabited

/-- the `while access_result.is_none()` loop of `run_access_inner` over the `@base` chain -/
def lookupLayers (k : Key) : List Layer → Look
  | [] => .miss
  | l :: rest =>
    if l.data.contains k then .hit (.found l.name .data k)
    else
      match l.metaOf with
      | Option.none => .coreMap
      | some mt =>
        if mt.named.contains k then .hit (.found mt.tag .named k)
        else if mt.baseBad then .badBase
        else lookupLayers k rest

/-- `get_core_op(key, map module, iterator_fallback = true)` -/
def coreMapOp (M : Mods) (k : Key) : Option AV :=
  if M.inMap k then some (.core .map k)
  else if M.inIter k then some (.core .iterator k)
  else Option.none

def MapD.layers (m : MapD) : List Layer := m.top :: m.bases

/-- `run_access_inner` (error_if_not_found = true) -/
def access (M : Mods) (o : Opd) (k : Key) : Out :=
  match o with
  | .prim p =>
    match p with
    | .list | .range | .str | .tuple => if M.inIter k then ⟨[], .ok (.core .iterator k)⟩ else ⟨[], .err .notFound⟩
    | .iter => if M.inIter k then ⟨[], .ok (.core .iterator k)⟩ else ⟨[], .err .notFound⟩
    | .num => ⟨[], .err .notFound⟩      -- own module only (no user keys there)
    | _ => ⟨[], .err .type⟩
  | .map m =>
    match m.metaGet .Access with
    | some (tag, mv) =>
      let (t, r) := invoke tag .Access mv m.av [.key k]
      ⟨t, r.pass⟩
    | Option.none =>
      match lookupLayers k m.layers with
      | .hit v => ⟨[], .ok v⟩
      | .coreMap =>
        match coreMapOp M k with
        | some v => ⟨[], .ok v⟩
        | Option.none => ⟨[], .err .notFound⟩
      | .badBase => ⟨[], .err .type⟩
      | .miss =>
        if (m.hasKey .Iterator || m.hasKey .Next) && M.inIter k then ⟨[], .ok (.core .iterator k)⟩
        else ⟨[], .err .notFound⟩
  | .host h =>
    -- `access()` returns an Option; the harness type answers every key when overridden
    match h.impl.lookup .access with
    | some (.ret v) => ⟨[⟨h.name, .host .access, h.av, [.key k]⟩], .ok (v.toAV h.av)⟩
    | some .unimpl =>                                                                -- Ok(None)
      if h.iter != .notIterable && M.inIter k then ⟨[⟨h.name, .host .access, h.av, [.key k]⟩], .ok (.core .iterator k)⟩
      else ⟨[⟨h.name, .host .access, h.av, [.key k]⟩], .err .notFound⟩
    | some _ => ⟨[⟨h.name, .host .access, h.av, [.key k]⟩], .err .hostErr⟩
    | Option.none =>
      -- iterator fallback for iterable objects
      if h.iter != .notIterable && M.inIter k then ⟨[], .ok (.core .iterator k)⟩ else ⟨[], .err .notFound⟩

/-- `x.k(7)`: access, then call with `x` as instance -/
def methodCall (M : Mods) (o : Opd) (k : Key) : Out :=
  match access M o k with
  | ⟨t, .ok (.found layer s k')⟩ =>
    if M.isFn k' then ⟨t ++ [⟨layer, .entry s k', o.av, [.int 7]⟩], .ok (.int 77)⟩
    else ⟨t, .err .type⟩
  | ⟨t, .ok (.core _ _)⟩ => ⟨t, .ok .builtin⟩
  | ⟨t, .ok (.obj n)⟩ =>
    -- `@access` returned a map (only `self`, or the last callable map of a chain, can occur):
    -- calling it goes through its `@call`
    match o with
    | .map m =>
      if n == m.top.name then
        let out := callOp o
        ⟨t ++ out.trace, out.res⟩
      else
        match m.metaGet .Access with
        | some (_, .chain mids (some b)) =>
          if mids.getLast? == some n then
            ⟨t ++ [⟨n, .mk .Call, .obj n, [.int 7]⟩], (b.run (.obj n)).pass⟩
          else ⟨t, .err .type⟩
        | _ => ⟨t, .err .type⟩
    | _ => ⟨t, .err .type⟩
  | ⟨t, .ok _⟩ => ⟨t, .err .type⟩
  | out => out

/-- `run_access_assign` with value `5`; the result reported is whether the map's *own data* holds
the key afterwards (`int 5`) or not (`null`) -/
def accessAssign (o : Opd) (k : Key) : Out :=
  match o with
  | .prim _ => ⟨[], .err .type⟩
  | .map m =>
    match m.metaGet .AccessAssign with
    | some (tag, mv) =>
      match invoke tag .AccessAssign mv m.av [.key k, .int 5] with
      | (t, .ret _) => ⟨t, .ok (if m.top.data.contains k then .found m.top.name .data k else .null)⟩
      | (t, r) => ⟨t, r.pass⟩
    | Option.none => ⟨[], .ok (.int 5)⟩
  | .host h =>
    match h.call .accessAssign [.key k, .int 5] with
    | (t, .ok _) => ⟨t, .ok .builtin⟩
    | (t, r) => ⟨t, r.pass⟩

/-! ### iteration -/

/-- repeated `@next` calls until `null`: `(trace, outputs or error)` -/
def nextLoop (tag : Name) (key : MKey) (mv : MV) (self : AV) : List Ev × Except Err (List Int) :=
  match mv with
  | .fn (.count n) =>
    ((List.range (n + 1)).map (fun _ => (⟨tag, .mk key, self, []⟩ : Ev)),
     .ok ((List.range n).map (fun (i : Nat) => (10 + Int.ofNat i))))
  | mv =>
    match invoke tag key mv self [] with
    | (t, .ret .null) => (t, .ok [])
    | (t, .ret _) => (t, .error .diverge)
    | (t, r) => (t, match r.pass with | .err e => .error e | .ok _ => .error .diverge)

/-- values produced by iterating the fixed prim operands -/
def primIter : PrimK → Option (List Int)
  | .list => some [1]
  | .tuple => some [1]
  | .range => some [0, 1]
  | _ => Option.none

/-- events and values of driving a host iterator object to its end -/
def hostDrive (h : HostD) (m : HM) (n : Nat) : Out :=
  ⟨(List.range (n + 1)).map (fun _ => (⟨h.name, .host m, h.av, []⟩ : Ev)),
   .ok (.lst ((List.range n).map (fun (i : Nat) => (10 + Int.ofNat i))))⟩

/-- host object in an iterable context (`run_make_iterator` / `make_iterator`, Object arm) -/
def hostIterate (h : HostD) (notIterable : Out) : Out :=
  match h.iter with
  | .notIterable => notIterable
  | .iterable => ⟨[⟨h.name, .host .makeIterator, h.av, []⟩], .ok (.lst [20, 21])⟩
  | .forward n => hostDrive h .iteratorNext n
  | .bidirectional n => hostDrive h .iteratorNext n

/-- `make_iterator` on a value that is *not* a map with `@iterator` (a leaf of the nesting walk),
driven to its end (`t`: what was traced so far): iterator, generator result, list, tuple, range,
string, plain map, an object with `@next` — anything else is "expected Iterable" (a type error). -/
def iterateResult (t : List Ev) : CallRes → Out
  | .ret .iter => ⟨t, .ok (.lst [20, 21])⟩
  | .ret .gen => ⟨t, .ok (.lst [20, 21])⟩
  | .ret (.tup xs) => ⟨t, .ok (.lst xs)⟩
  | .ret (.lst xs) => ⟨t, .ok (.lst xs)⟩
  | .ret (.prim .range) => ⟨t, .ok (.lst [0, 1])⟩
  | .ret .str => ⟨t, .ok .builtin⟩
  | .ret .pmap => ⟨t, .ok .builtin⟩
  | .ret (.inner true) =>
    ⟨t ++ (List.range 3).map (fun _ => (⟨900, .mk .Next, .inner true, []⟩ : Ev)), .ok (.lst [10, 11])⟩
  -- a map without `@iterator` / `@next` (e.g. a callable map of a `@call` chain): its data entries
  | .ret (.obj _) => ⟨t, .ok .builtin⟩
  | .ret _ => ⟨t, .err .type⟩
  | r => ⟨t, r.pass⟩

/-- one step of the nesting walk: `some (event, value)` when the value is a map with `@iterator`
(and no `@next`) — evaluating it is the event and yields the next value — `none` for a leaf -/
abbrev IterStep := AV → Option (Ev × AV)

/-- `make_iterator_with_nesting_limit(value, limit)` (/repo 47b1155): every `@iterator` evaluation
consumes one level; a map with `@iterator` met at level 0 is "too many nested @iterator calls".
Stated for an arbitrary object graph `nx`. -/
def iterWalk (nx : IterStep) (leaf : List Ev → CallRes → Out) : Nat → AV → List Ev → Out
  | 0, v, t =>
    match nx v with
    | some _ => ⟨t, .err .tooNested⟩
    | Option.none => leaf t (.ret v)
  | l + 1, v, t =>
    match nx v with
    | some (e, nv) => iterWalk nx leaf l nv (t ++ [e])
    | Option.none => leaf t (.ret v)

/-- the object graph of the generated cases: the operand (`rootSelf`, whose `@iterator` call is
`rootEv` and returns `v0`), the nest objects `aux`, and object 901 -/
def nestStep (rootSelf : AV) (rootEv : Ev) (v0 : AV) : IterStep
  | .aux i d fin =>
    some (⟨909 + i, .mk .Iterator, .aux i d fin, []⟩, if i < d then .aux (i + 1) d fin else fin.toAV rootSelf)
  | .inner false => some (⟨901, .mk .Iterator, .inner false, []⟩, .lst [20, 21])
  | v => if v = rootSelf then some (rootEv, v0) else Option.none

/-- the public API starts with 16 levels; the operand's own `@iterator` takes the first -/
def nestingLimit : Nat := 16

/-- `for v in x` : `run_make_iterator` + `run_iterator_next`; result = the collected values -/
def forLoop (o : Opd) : Out :=
  match o with
  | .prim k =>
    match primIter k with
    | some xs => ⟨[], .ok (.lst xs)⟩
    | Option.none => ⟨[], .ok .builtin⟩     -- strings / single values become other iterators
  | .map m =>
    match m.metaGet .Next with
    | some (tag, mv) =>
      -- MetaIterator::new validates `@next` (and `@next_back` if present) to be callable
      if mv == .nonCallable then ⟨[], .err .type⟩
      else if (m.metaGet .NextBack).any (fun x => x.2 == .nonCallable) then ⟨[], .err .type⟩
      else
        match nextLoop tag .Next mv m.av with
        | (t, .ok xs) => ⟨t, .ok (.lst xs)⟩
        -- `run_iterator_next`: `KIteratorOutput::Error(e) => return Err(e)` — the error (thrown value,
        -- kind) reaches the script unchanged (/repo 08c98b7)
        | (t, .error e) => ⟨t, .err e⟩
    | Option.none =>
      match m.metaGet .Iterator with
      | some (tag, mv) =>
        if mv == .nonCallable then ⟨[], .err .type⟩
        else
          -- the callee's value is put into the iterator register; `run_iterator_next` iterates
          -- iterators / ranges / tuples / strings / maps with `@next` in place and converts
          -- everything else with `make_iterator` on first use (/repo bf483d2)
          -- `MakeIterator` evaluates the operand's `@iterator` itself (no limit applies to that call);
          -- `IterNext` converts what is left with `make_iterator` (all 16 levels still available)
          match invoke tag .Iterator mv m.av [] with
          | (t, .ret v0) => iterWalk (nestStep m.av (t.headD default) v0) iterateResult nestingLimit v0 t
          | (t, r) => ⟨t, r.pass⟩
      | Option.none => ⟨[], .ok .builtin⟩       -- plain map iteration
  -- a host object that is not iterable is iterated *once* (like any single value), no error
  | .host h => hostIterate h ⟨[], .ok (.one h.av)⟩

/-- `iterator.to_list(x)` : `KValue::is_iterable`, then the public `make_iterator`; result = the
collected values -/
def toList (o : Opd) : Out :=
  match o with
  | .prim k =>
    match primIter k with
    | some xs => ⟨[], .ok (.lst xs)⟩
    | Option.none => if k == .str || k == .iter then ⟨[], .ok .builtin⟩ else ⟨[], .err .type⟩
  | .map m =>
    match m.metaGet .Next with
    | some (tag, mv) =>
      if mv == .nonCallable then ⟨[], .err .type⟩
      else if (m.metaGet .NextBack).any (fun x => x.2 == .nonCallable) then ⟨[], .err .type⟩
      else
        match nextLoop tag .Next mv m.av with
        | (t, .ok xs) => ⟨t, .ok (.lst xs)⟩
        | (t, .error e) => ⟨t, .err e⟩
    | Option.none =>
      match m.metaGet .Iterator with
      | some (tag, mv) =>
        if mv == .nonCallable then ⟨[], .err .type⟩
        else
          -- `@iterator` is evaluated, then an iterator is made from its (iterable) result
          match invoke tag .Iterator mv m.av [] with
          | (t, .ret v0) =>
            iterWalk (nestStep m.av (t.headD default) v0) iterateResult (nestingLimit - 1) v0 t
          | (t, r) => ⟨t, r.pass⟩
      | Option.none =>
        -- `KValue::is_iterable`: a map with a metamap is iterable only through `@iterator`/`@next`
        if m.top.metaOf.isSome then ⟨[], .err .type⟩ else ⟨[], .ok .builtin⟩
  | .host h => hostIterate h ⟨[], .err .type⟩

/-- leaf of the nesting walk for `iterator.reversed`: the iterator must be bidirectional -/
def reverseResult (t : List Ev) : CallRes → Out
  | .ret .iter => ⟨t, .ok (.lst [21, 20])⟩
  -- generators are forward only; the generator's body (the last call's trace) never starts
  | .ret .gen => ⟨t.dropLast, .err .notReversible⟩
  | .ret (.tup xs) => ⟨t, .ok (.lst xs.reverse)⟩
  | .ret (.lst xs) => ⟨t, .ok (.lst xs.reverse)⟩
  | .ret (.prim .range) => ⟨t, .ok (.lst [1, 0])⟩
  | .ret .str => ⟨t, .ok .builtin⟩
  | .ret .pmap => ⟨t, .ok .builtin⟩
  | .ret (.inner true) => ⟨t, .err .notReversible⟩   -- object 900 has no `@next_back`
  | .ret (.obj _) => ⟨t, .ok .builtin⟩
  | .ret _ => ⟨t, .err .type⟩
  | r => ⟨t, r.pass⟩

/-- `iterator.to_list(iterator.reversed(x))`: the object is reversible only through `@next_back`
(looked at only when `@next` exists); then `@next_back` alone is called until `null` -/
def reversed (o : Opd) : Out :=
  match o with
  | .prim k =>
    match primIter k with
    | some xs => ⟨[], .ok (.lst xs.reverse)⟩
    | Option.none => if k == .str || k == .iter then ⟨[], .ok .builtin⟩ else ⟨[], .err .type⟩
  | .map m =>
    match m.metaGet .Next with
    | some (_, mv) =>
      if mv == .nonCallable then ⟨[], .err .type⟩
      else
        match m.metaGet .NextBack with
        | Option.none => ⟨[], .err .notReversible⟩
        | some (tb, mvb) =>
          if mvb == .nonCallable then ⟨[], .err .type⟩
          else
            -- `Reversed::new` works on a copy of the iterator; the copy of an `@next` object gets its
            -- own copy of the map's data (`MetaIterator::make_copy`, /repo 5ed8254), so `@next_back`
            -- runs with `self` = that copy
            match nextLoop tb .NextBack mvb (.objCopy m.top.name) with
            | (t, .ok xs) => ⟨t, .ok (.lst xs)⟩
            | (t, .error e) => ⟨t, .err e⟩
    | Option.none =>
      match m.metaGet .Iterator with
      | some (tag, mv) =>
        if mv == .nonCallable then ⟨[], .err .type⟩
        else
          match invoke tag .Iterator mv m.av [] with
          | (t, .ret v0) =>
            iterWalk (nestStep m.av (t.headD default) v0) reverseResult (nestingLimit - 1) v0 t
          | (t, r) => ⟨t, r.pass⟩
      | Option.none => if m.top.metaOf.isSome then ⟨[], .err .type⟩ else ⟨[], .ok .builtin⟩
  | .host h =>
    match h.iter with
    | .notIterable => ⟨[], .err .type⟩
    | .iterable => ⟨[⟨h.name, .host .makeIterator, h.av, []⟩], .ok (.lst [21, 20])⟩
    | .forward _ => ⟨[], .err .notReversible⟩
    | .bidirectional n =>
      -- `Reversed::new` copies the iterator: `ObjectIterator::make_copy` copies the object
      let c : HostD := { h with gen := h.gen + 1 }
      let out := hostDrive c .iteratorNextBack n
      ⟨⟨h.name, .copy, h.av, []⟩ :: out.trace, out.res⟩

/-! ### display, type -/

/-- `KMap::meta_type` along the `@base` chain -/
def metaType : List Layer → Option TyName
  | [] => Option.none
  | l :: rest =>
    match l.metaOf with
    | Option.none => Option.none
    | some mt =>
      match mt.type with
      | .str n => some (.user n)
      | .nonStr => some .badType
      | .none => if mt.baseBad then Option.none else metaType rest

/-- `type_as_string` -/
def typeOf : Opd → Out
  | .prim _ => ⟨[], .ok .builtin⟩
  | .map m =>
    match m.top.metaOf with
    | Option.none => ⟨[], .ok (.ty .map)⟩
    | some _ => ⟨[], .ok (.ty ((metaType m.layers).getD .object))⟩
  | .host _ => ⟨[], .ok .builtin⟩

/-- a string is required where the rendering is used (`run_string_push`, `KMap::display`) -/
def needStr (t : List Ev) : CallRes → Out
  | .ret .str => ⟨t, .ok .str⟩
  | .ret _ => ⟨t, .err .type⟩
  | r => ⟨t, r.pass⟩

/-- `'{x}'` -/
def display : Opd → Out
  | .prim _ => ⟨[], .ok .builtin⟩
  | .map m =>
    match m.metaGet .Display with
    | some (tag, mv) =>
      let (t, r) := invoke tag .Display mv m.av []
      needStr t r
    | Option.none => ⟨[], .ok (.shown (metaType m.layers))⟩
  | .host h =>
    match h.impl.lookup .display with
    | some (.ret _) => ⟨[⟨h.name, .host .display, h.av, []⟩], .ok .str⟩
    | some _ => ⟨[⟨h.name, .host .display, h.av, []⟩], .err .hostErr⟩   -- the method's error, unchanged
    | Option.none => ⟨[], .ok .builtin⟩      -- default: the type string

/-- rendering inside a container (`'{[x]}'`) or through the `@debug` fallback: the element is
rendered exactly as when it is displayed directly, and an error of its `@display` (a thrown value, a
non-String result, …) reaches the script unchanged — same class and value (/repo 9cbdb4e; before it
was replaced by "failed to get display value") -/
def displayNested (o : Opd) : Out := display o

/-- `'{x:?}'`: `@debug`, else the display path (with `@display` as fallback) -/
def debug : Opd → Out
  | .map m =>
    match m.metaGet .Debug with
    | some (tag, mv) =>
      let (t, r) := invoke tag .Debug mv m.av []
      needStr t r
    | Option.none => displayNested (.map m)
  | o => displayNested o

/-! ### `#[koto_impl]` access tables (crates/derive/src/koto_impl.rs)

The generated `KotoAccess::access` is an ordered list: `#[koto_get_override]` (if it answers),
the table of `#[koto_method]`s / `#[koto_get]`s (names and aliases), `#[koto_get_fallback]`, else
`Ok(None)` — which `run_access_inner` turns into the "not found" error. `access_assign`:
`#[koto_set_override]`, the `#[koto_set]` table, `#[koto_set_fallback]`, else "unexpected key". -/

structure DerivedD where
  name : Name
  methods : List (Key × Nat) := []        -- access key ↦ Rust function (aliases share the function)
  getters : List (Key × Nat) := []
  setters : List (Key × Nat) := []
  getOverride : Option (List Key) := none -- present; answers `Some` for these keys
  getFallback : Option (List Key) := none
  setOverride : Option (List Key) := none -- present; returns `true` for these keys
  setFallback : Option (List Key) := none -- present; accepts these keys, errors on others
  deriving DecidableEq, Repr, Inhabited

def DerivedD.av (d : DerivedD) : AV := .host d.name 0

def DerivedD.ev (d : DerivedD) (f : DFn) (args : List AV) : Ev := ⟨d.name, .dv f, d.av, args⟩

/-- generated `access`, as used by `run_access_inner` (Object arm; the object is not iterable) -/
def derivedAccess (d : DerivedD) (k : Key) : Out :=
  let ov : List Ev := match d.getOverride with
    | some _ => [d.ev .getOverride [.key k]]
    | Option.none => []
  if (d.getOverride.getD []).contains k then ⟨ov, .ok (.int 55)⟩
  else
    match d.methods.lookup k with
    | some _ => ⟨ov, .ok .native⟩
    | Option.none =>
      match d.getters.lookup k with
      | some f => ⟨ov ++ [d.ev (.getter f) []], .ok (.int 88)⟩
      | Option.none =>
        match d.getFallback with
        | some ks =>
          if ks.contains k then ⟨ov ++ [d.ev .getFallback [.key k]], .ok (.int 66)⟩
          else ⟨ov ++ [d.ev .getFallback [.key k]], .err .notFound⟩
        | Option.none => ⟨ov, .err .notFound⟩

/-- `x.k(7)`: the method wrapper receives `x` as instance and the call arguments -/
def derivedMethod (d : DerivedD) (k : Key) : Out :=
  match derivedAccess d k with
  | ⟨t, .ok .native⟩ =>
    match d.methods.lookup k with
    | some f => ⟨t ++ [d.ev (.method f) [.int 7]], .ok (.int 77)⟩
    | Option.none => ⟨t, .err .type⟩
  | ⟨t, .ok _⟩ => ⟨t, .err .type⟩       -- a field value is not callable
  | out => out

/-- generated `access_assign` with value `5` -/
def derivedAccessAssign (d : DerivedD) (k : Key) : Out :=
  let ov : List Ev := match d.setOverride with
    | some _ => [d.ev .setOverride [.key k, .int 5]]
    | Option.none => []
  if (d.setOverride.getD []).contains k then ⟨ov, .ok .builtin⟩
  else
    match d.setters.lookup k with
    | some f => ⟨ov ++ [d.ev (.setter f) [.int 5]], .ok .builtin⟩
    | Option.none =>
      match d.setFallback with
      | some ks =>
        if ks.contains k then ⟨ov ++ [d.ev .setFallback [.key k, .int 5]], .ok .builtin⟩
        else ⟨ov ++ [d.ev .setFallback [.key k, .int 5]], .err .hostErr⟩
      | Option.none => ⟨ov, .err .unexpectedKey⟩

/-! ### further entry points of the same dispatch -/

/-- `x((7,)...)`: packed call arguments are unpacked once, then the call proceeds as `x(7)` -/
def callPacked (o : Opd) : Out := callOp o

/-- `KotoVm::run_write_op(WriteOp::IndexAssign, x, i, 5)` (host API): the same dispatch as `x[i] = 5` -/
def apiIndexAssign (o : Opd) (i : IdxK) : Out := indexAssign o i

/-- `KotoVm::run_binary_op(BinaryOp::AddAssign …, x, y)` (host API): the same dispatch as `x += y`
with two distinct values; the result is the left operand -/
def apiCompound (op : ArithOp) (lhs rhs : Opd) : Out := compound op lhs rhs false

/-- `'{[x]:?}'`: inside a container rendered in a debug context the element is rendered exactly as
by `'{x:?}'` — `@debug` first, `@display` as fallback -/
def debugNested (o : Opd) : Out := debug o

/-- `match x` with the arm `(others..., last) then last` on a map object with `@size` (returning
`n ≥ 1`) and `@index`: the arm's size check, the slice `others...` (`@size`, `@index 0..n-1`), then
`last` = `@index (n - 1)` — a trailing position counts from the end given by `@size`, as for host
objects. Other operands are not modelled (`diverge`). -/
def matchLast (o : Opd) : Out :=
  match o with
  | .map m =>
    match m.metaGet .Size, m.metaGet .Index with
    | some (ts, .fn (.ret (.int n))), some (ti, mvI) =>
      let sz : Ev := ⟨ts, .mk .Size, m.av, []⟩
      match invoke ti .Index mvI m.av [.prim .range] with
      | (t1, .ret _) =>
        let (t2, r2) := invokeAt 1 ti .Index mvI m.av [.int (n - 1)]
        ⟨[sz, sz] ++ t1 ++ [sz] ++ t2, r2.pass⟩
      | (t1, r) => ⟨[sz, sz] ++ t1, r.pass⟩
    | _, _ => ⟨[], .err .diverge⟩
  | _ => ⟨[], .err .diverge⟩

/-- the data keys of a map literal, whatever metakeys the same literal defines and in whatever
order: entries of a literal are data entries, inserting them calls nothing -/
def literalKeys (l : Layer) : Out := ⟨[], .ok (.keys l.data)⟩

/-! ### `with_meta` -/

/-- replace a shared metamap by an own copy with the same content -/
def Layer.unshare (l : Layer) : Layer :=
  match l.src with
  | .shared _ (some m) => { l with src := .own m }
  | .shared _ Option.none => { l with src := .none }
  | _ => l

def MapD.unshare (m : MapD) : MapD := { top := m.top.unshare, bases := m.bases.map Layer.unshare }

def Opd.unshare : Opd → Opd
  | .map m => .map m.unshare
  | o => o

end KotoVerif.Meta
