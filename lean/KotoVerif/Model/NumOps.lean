/-
Number operations of `crates/runtime/src/types/number.rs` that `Model/Value.lean` does not define
yet: remainder, power, the *total* ordering used by `< <= > >=`, and decimal rendering of integers.

Mirrors:
* `number_op!(Rem, rem, %, wrapping_rem)` + the zero-divisor special case of `vm.rs run_remainder`
  (`(Number(_), Number(I64(0))) => NaN`)                                   → `Num.rem`
* `KNumber::pow` (wrapping square-and-multiply over the full exponent for two ints with `b ≥ 0`, `powf`
  otherwise)                                                               → `Num.pow`
  (`Num.powTrunc` = the code before fix 1b7bdc2, `wrapping_pow(b as u32)`: historical witness of F-C01-5)
* `impl Ord for KNumber` (`partial_cmp` on the promoted operands; an unordered pair — a NaN is
  involved — is ordered "NaN is greatest, two NaNs are equal"); `vm.rs run_less` etc. evaluate
  `a < b` through `PartialOrd::partial_cmp = Some(cmp)`, *not* through IEEE `<`   → `Num.cmp` and
  `Num.lt' le' gt' ge'` (primed: `Model/Value.lean` already has IEEE-style `Num.lt/le`, which differ
  from the runtime on NaN: `1 < NaN` is `true` in Koto).
* `impl Display for KNumber` for `I64`                                      → `Num.intDigits`

`usesFloatRemPow` tells the callers when a result came from `f64 %` or `powf`, which the framework
does not model bit-exactly (DESIGN §4): evaluators turn those into an `unmodelled` outcome.
-/
import KotoVerif.Model.Value

namespace KotoVerif
namespace Num

/-- the quiet NaN `f64::NAN` -/
def nanBits : UInt64 := 0x7ff8000000000000

/-- `i64::wrapping_pow` by square-and-multiply; `fuel` ≥ number of bits of `e` (33 suffices for a
`u32` exponent). Multiplication on `Int64` wraps. -/
def wpow : Nat → Int64 → Nat → Int64
  | 0, _, _ => 1
  | fuel + 1, b, e =>
    if e = 0 then 1
    else
      let h := wpow fuel (b * b) (e / 2)
      if e % 2 = 1 then b * h else h

/-- `b as u32` for an `i64` -/
def asU32 (b : Int64) : Nat := b.toUInt64.toNat % 4294967296

/-- `KNumber::pow` (since /repo 1b7bdc2): two ints with `b ≥ 0` give the mathematical power reduced
modulo 2⁶⁴ — "integer arithmetic wraps" (`Props/C01.int_pow_wraps`); the code runs square-and-multiply
over the whole `u64` exponent, `wpow 64` is the same loop (64 rounds cover every non-negative `i64`
exponent). A negative exponent, or a float operand, goes through `powf`. -/
def pow (F : FloatOps) : Num → Num → Num
  | .i a, .i b =>
    if b < 0 then .f (F.pow (F.ofInt a) (F.ofInt b)) else .i (wpow 64 a b.toInt.toNat)
  | a, b => .f (F.pow (a.toF F) (b.toF F))

/-- `KNumber::pow` as the code had it *before* 1b7bdc2 (kept as the historical witness of finding
F-C01-5): the exponent was truncated to its low 32 bits (`a.wrapping_pow(b as u32)`), so
`2 ^ 4294967296` was `2 ^ 0 = 1` instead of `0` (`Props/C01.pow_trunc_witness`). The two agree for
every exponent below 2³². -/
def powTrunc (F : FloatOps) : Num → Num → Num
  | .i a, .i b =>
    if b < 0 then .f (F.pow (F.ofInt a) (F.ofInt b)) else .i (wpow 33 a (asU32 b))
  | a, b => .f (F.pow (a.toF F) (b.toF F))

/-- `run_remainder`: an integer zero divisor gives NaN (whatever the dividend is); two ints use
`wrapping_rem` (truncated, sign of the dividend, `MIN % -1 = 0` — this is `Int64`'s `%`); otherwise
`f64 %`. -/
def rem (F : FloatOps) (a b : Num) : Num :=
  match b with
  | .i d =>
    if d = 0 then .f nanBits
    else match a with
      | .i n => .i (n % d)
      | .f x => .f (F.rem x (F.ofInt d))
  | .f y => .f (F.rem (a.toF F) y)

/-- did `rem`/`pow` on these operands go through `f64 %` / `powf`? -/
def remUsesFloat (a b : Num) : Bool :=
  match b with
  | .i d => if d = 0 then false else a.isFloat
  | .f _ => true

def powUsesFloat : Num → Num → Bool
  | .i _, .i b => b < 0
  | _, _ => true

def isNaN (F : FloatOps) : Num → Bool
  | .i _ => false
  | .f b => F.isNaN b

/-- `impl Ord for KNumber` -/
def cmp (F : FloatOps) : Num → Num → Ordering
  | .i a, .i b => if a < b then .lt else if b < a then .gt else .eq
  | a, b =>
    let x := a.toF F
    let y := b.toF F
    if F.lt x y then .lt
    else if F.lt y x then .gt
    else if F.eq x y then .eq
    else match isNaN F a, isNaN F b with
      | false, true => .lt
      | true, false => .gt
      | _, _ => .eq

def lt' (F : FloatOps) (a b : Num) : Bool := cmp F a b == .lt
def le' (F : FloatOps) (a b : Num) : Bool := cmp F a b != .gt
def gt' (F : FloatOps) (a b : Num) : Bool := cmp F a b == .gt
def ge' (F : FloatOps) (a b : Num) : Bool := cmp F a b != .lt

/-- `n as i64` for a `KNumber` (`From<KNumber> for i64`: floats truncate and saturate) -/
def toI64 (F : FloatOps) : Num → Int64
  | .i n => n
  | .f b => F.toInt b

/-- `n < 0.0` as `PartialOrd<f64> for KNumber` evaluates it -/
def isNegative (F : FloatOps) : Num → Bool
  | .i n => n < 0
  | .f b => F.lt b (F.ofInt 0)

/-- `n >= 0.0` as `PartialOrd<f64> for KNumber` evaluates it (false for NaN) -/
def nonNegative (F : FloatOps) : Num → Bool
  | .i n => 0 ≤ n
  | .f b => F.le (F.ofInt 0) b

/-! ### decimal text of integers (ASCII bytes) -/

def natDigitsAux : Nat → Nat → List Nat → List Nat
  | 0, _, acc => acc
  | fuel + 1, n, acc =>
    let acc' := (48 + n % 10) :: acc
    if n / 10 = 0 then acc' else natDigitsAux fuel (n / 10) acc'

/-- decimal digits of a natural number below 10^40 -/
def natDigits (n : Nat) : List Nat := natDigitsAux 40 n []

/-- `format!("{n}")` for an `i64`, as bytes -/
def intDigits (n : Int64) : List Nat :=
  let i := n.toInt
  if i < 0 then 45 :: natDigits i.natAbs else natDigits i.natAbs

end Num
end KotoVerif
