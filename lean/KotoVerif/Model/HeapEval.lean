/-
C14 — histories: a small command language over the heap model. A state has variable slots
(`v0 …`), closure slots (`c0 …`: a closure `|f| f x` that captured the value `x` *by copy of the
handle* when it was created) and the heap. Expressions evaluate their arguments left to right and
then perform one operation of `Model/Heap.lean`, dispatched on the type of the first argument the
way koto's method lookup does.
-/
import KotoVerif.Model.Heap

namespace KotoVerif
namespace Heap
open Equal

inductive Ex where
  | var (n : Nat)
  | cap (n : Nat)
  | imm (v : HVal)
  | tup (es : List Ex)
  | lst (es : List Ex)
  | mp (es : List (Ex × Ex))
  | arg (e : Ex)
  | op (name : String) (args : List Ex)
  deriving Inhabited

inductive Stmt where
  | letv (n : Nat) (e : Ex)
  | doe (e : Ex)
  | clo (n : Nat) (e : Ex)
  deriving Inhabited

structure St where
  vars : List HVal
  caps : List HVal
  heap : Heap
  deriving Inhabited

def St.init (nv nc : Nat) : St := { vars := List.replicate nv .null, caps := List.replicate nc .null, heap := [] }

def fuelDefault : Nat := 400

/-- `KValue::deep_copy` = `deep_copy_with_nesting_limit(256)` (fix 55b45e0): a value whose nesting
(counting every node, leaves included) exceeds 256 levels — in particular every cyclic one — is a
runtime error. `Heap.deepCopy`'s fuel is exactly that limit: it drops by one per level, not per
element. -/
def deepCopyLimit : Nat := 256

def sizeOf? (heap : Heap) : HVal → Option Nat
  | .lref h => (getList heap h).map List.length
  | .mref h => (getMap heap h).map List.length
  | .tuple xs => some xs.length
  | .str bs => some bs.length
  | _ => none

def boolV (b : Bool) : HVal := .bool b

def cmpRes (F : FloatOps) (f : FloatOps → Val → Val → Option Bool) (a b : HVal) : Res :=
  match toVal? a, toVal? b with
  | some x, some y => match f F x y with | some r => .ok (.bool r) | none => .err .type
  | _, _ => .err .type

/-- `*index >= 0` in `list.get / tuple.get / map.get_index`: `PartialOrd<i32> for KNumber` truncates a
float toward zero first (`-0.5` counts as `0`), unlike `validate_index`'s float comparison -/
def truncNeg (F : FloatOps) : Num → Bool
  | .i n => decide (n < 0)
  | .f b => decide (F.toInt b < 0)

/-- an assignment expression evaluates to the assigned value -/
def withRes (v : HVal) (r : Heap × Res) : Heap × Res :=
  match r.2 with
  | .ok _ => (r.1, .ok v)
  | _ => r

/-- split a path at `.` (byte 46) -/
def splitPath (bs : List Nat) : List (List Nat) :=
  let r := bs.foldr (fun b (acc : List Nat × List (List Nat)) =>
    if b == 46 then ([], acc.1 :: acc.2) else (b :: acc.1, acc.2)) ([], [])
  r.1 :: r.2

/-- `KMap::remove_path`: walk through nested maps along string keys, `KMap::remove` at the end -/
def removePath (F : FloatOps) (mech : Bool) (heap : Heap) : List (List Nat) → Nat → Heap × Res
  | [], _ => (heap, .ok .null)
  | [seg], h => onMap F mech heap h (.remove (.str seg))
  | seg :: rest, h =>
    match getMap heap h with
    | some es =>
      (match lookupBy (getM F mech es.length) (.str seg) es with
       | some (.mref h') => removePath F mech heap rest h'
       | _ => (heap, .ok .null))
    | none => (heap, .err .type)

/-- one operation on evaluated arguments -/
def applyOp (F : FloatOps) (mech : Bool) (name : String) (args : List HVal) (heap : Heap) : Heap × Res :=
  match name, args with
  -- lists
  | "push", [.lref h, v] => onList F heap h (.push v)
  | "pop", [.lref h] => onList F heap h .pop
  | "insert", [.lref h, .num i, v] => onList F heap h (.insert i v)
  | "remove", [.lref h, .num i] => onList F heap h (.remove i)
  | "extend", [.lref h, .lref h'] =>
    -- the other list's entries are copied first (fix 515abf4), so `l.extend l` doubles the list
    (match getList heap h' with
      | some ys => onList F heap h (.extend ys)
      | none => (heap, .err .type))
  | "extend", [.lref h, .tuple ys] => onList F heap h (.extend ys)
  | "clear", [.lref h] => onList F heap h .clear
  | "resize", [.lref h, .num n] => onList F heap h (.resize n .null)
  | "resize", [.lref h, .num n, v] => onList F heap h (.resize n v)
  | "fill", [.lref h, v] => onList F heap h (.fill v)
  | "reverse", [.lref h] => onList F heap h .reverse
  | "sort", [.lref h] => onList F heap h .sort
  | "sortkey", [.lref h] => onList F heap h .sortKey
  | "swap", [.lref h, .lref h'] => swapLists heap h h'   -- with itself: a no-op (fix 515abf4)
  | "retain", [.lref h, v] =>
    onList F heap h (.retain (fun x => heq F fuelDefault heap x v == some true))
  | "retainfn", [.lref h] =>
    -- `l.retain(|x| x > 1)`: `>` raises for anything but a number
    onList F heap h (.retainFn (fun x => match x with | .num n => some (numGt F n (.i 1)) | _ => none))
  | "extendinc", [.lref h, src] =>
    -- `l.extend(src.each(|x| x + 1))`: the values are collected first (fix 515abf4), so a failing
    -- adaptor leaves the list untouched
    (match (match src with | .tuple ys => some ys | .lref h' => getList heap h' | _ => none) with
     | some ys =>
       (match mapOpt (fun y => match y with | HVal.num n => some (HVal.num (Num.add F n (.i 1))) | _ => none) ys with
        | some zs => onList F heap h (.extend zs)
        | none => (heap, .err .type))
     | none => (heap, .err .type))
  | "sortval", [.mref h] => onMap F mech heap h .sortVal
  | "updateinc", [.mref h, k, d] =>
    (match toKey? k with | some key => onMap F mech heap h (.updateInc key d) | none => (heap, .err .unhashable))
  -- the host (Rust) API, called in-process by the harness on the very same objects
  | "h_insert", [.mref h, k, v] =>        -- KMap::insert
    (match toKey? k with | some key => withRes .null (onMap F mech heap h (.insert key v)) | none => (heap, .err .unhashable))
  | "h_remove", [.mref h, k] =>           -- KMap::remove ("The order of entries in the map is preserved")
    (match toKey? k with | some key => onMap F mech heap h (.remove key) | none => (heap, .err .unhashable))
  | "h_remove_path", [.mref h, .str p] => removePath F mech heap (splitPath p) h
  | "h_get", [.mref h, k] =>              -- KMap::get
    (heap, match toKey? k, getMap heap h with
      | some key, some es => .ok ((lookupBy (getM F mech es.length) key es).getD .null)
      | none, _ => .err .unhashable
      | _, none => .err .type)
  | "h_len", [.mref h] => (heap, match getMap heap h with | some es => .ok (.num (.i (Int64.ofNat es.length))) | none => .err .type)
  | "h_clear", [.mref h] => withRes .null (onMap F mech heap h .clear)   -- KMap::clear
  | "h_slice", [.mref h, .num (.i a), .num (.i b)] =>                    -- ValueMap::make_data_slice(a..b)
    (match getMap heap h with
     | some es =>
       let (x, y) := (a.toInt.toNat, b.toInt.toNat)
       if x ≤ y ∧ y ≤ es.length then let r := allocMap heap ((es.drop x).take (y - x)); (r.1, .ok r.2)
       else (heap, .ok .null)
     | none => (heap, .err .type))
  | "h_keys", [.mref h] =>                                               -- ValueMap keys() in index order
    (heap, match getMap heap h with | some es => .ok (.tuple (es.map (fun e => ofVal e.1))) | none => .err .type)
  | "h_push", [.lref h, v] => withRes .null (onList F heap h (.push v))  -- KList::data_mut().push
  | "h_len", [.lref h] => (heap, match getList heap h with | some xs => .ok (.num (.i (Int64.ofNat xs.length))) | none => .err .type)
  | "h_subtuple", [.tuple xs, .num (.i a), .num (.i b)] =>               -- KTuple::make_sub_tuple(a..b)
    let (x, y) := (a.toInt.toNat, b.toInt.toNat)
    (heap, if x ≤ y ∧ y ≤ xs.length then .ok (.tuple ((xs.drop x).take (y - x))) else .ok .null)
  | "h_pop_front", [.tuple xs] =>                                        -- KTuple::pop_front on a clone
    (heap, match xs with | [] => .ok .null | x :: rest => .ok (.tuple [x, .tuple rest]))
  | "h_pop_back", [.tuple xs] =>
    (heap, match xs.getLast? with | none => .ok .null | some x => .ok (.tuple [x, .tuple xs.dropLast]))
  | "first", [.lref h] => (heap, match getList heap h with | some xs => .ok (xs.head?.getD .null) | none => .err .type)
  | "last", [.lref h] => (heap, match getList heap h with | some xs => .ok (xs.getLast?.getD .null) | none => .err .type)
  | "get", [.lref h, .num i] =>
    (heap, match getList heap h with
      | some xs => .ok (if truncNeg F i then .null else xs[numToNat F i]?.getD .null)
      | none => .err .type)
  | "get", [.lref h, .num i, d] =>
    (heap, match getList heap h with
      | some xs => .ok (if truncNeg F i then d else xs[numToNat F i]?.getD d)
      | none => .err .type)
  | "contains", [.lref h, v] =>
    (heap, match getList heap h with
      | some xs => .ok (.bool (xs.any (fun x => heq F fuelDefault heap v x == some true)))
      | none => .err .type)
  | "to_tuple", [.lref h] => (heap, match getList heap h with | some xs => .ok (.tuple xs) | none => .err .type)
  -- tuples
  | "first", [.tuple xs] => (heap, .ok (xs.head?.getD .null))
  | "last", [.tuple xs] => (heap, .ok (xs.getLast?.getD .null))
  | "get", [.tuple xs, .num i] => (heap, .ok (if truncNeg F i then .null else xs[numToNat F i]?.getD .null))
  | "get", [.tuple xs, .num i, d] => (heap, .ok (if truncNeg F i then d else xs[numToNat F i]?.getD d))
  | "contains", [.tuple xs, v] => (heap, .ok (.bool (xs.any (fun x => heq F fuelDefault heap v x == some true))))
  | "to_list", [.tuple xs] => let r := allocList heap xs; (r.1, .ok r.2)
  | "sort_copy", [.tuple xs] =>
    (heap, if hsortable xs then .ok (.tuple (Sorting.sortBy (hvalLt F) xs)) else .err .type)
  -- maps
  | "insert", [.mref h, k, v] =>
    (match toKey? k with | some key => onMap F mech heap h (.insert key v) | none => (heap, .err .unhashable))
  | "insert", [.mref h, k] =>
    (match toKey? k with | some key => onMap F mech heap h (.insert key .null) | none => (heap, .err .unhashable))
  | "remove", [.mref h, k] =>
    (match toKey? k with | some key => onMap F mech heap h (.remove key) | none => (heap, .err .unhashable))
  | "get", [.mref h, k] =>
    (heap, match toKey? k, getMap heap h with
      | some key, some es => .ok ((lookupBy (getM F mech es.length) key es).getD .null)
      | none, _ => .err .unhashable
      | _, none => .err .type)
  | "get", [.mref h, k, d] =>
    (heap, match toKey? k, getMap heap h with
      | some key, some es => .ok ((lookupBy (getM F mech es.length) key es).getD d)
      | none, _ => .err .unhashable
      | _, none => .err .type)
  | "get_index", [.mref h, .num i] =>
    (heap, match getMap heap h with
      | some es => .ok (if truncNeg F i then .null else
          match es[numToNat F i]? with | some (k, x) => .tuple [ofVal k, x] | none => .null)
      | none => .err .type)
  | "contains_key", [.mref h, k] =>
    (heap, match toKey? k, getMap heap h with
      | some key, some es => .ok (.bool ((lookupBy (getM F mech es.length) key es).isSome))
      | none, _ => .err .unhashable
      | _, none => .err .type)
  | "update", [.mref h, k, d] =>
    (match toKey? k with | some key => onMap F mech heap h (.update key d) | none => (heap, .err .unhashable))
  | "extend", [.mref h, .mref h'] =>
    (match getMap heap h' with
      | some es => onMap F mech heap h (.extend es)
      | none => (heap, .err .type))
  | "clear", [.mref h] => onMap F mech heap h .clear
  | "sort", [.mref h] => onMap F mech heap h .sort
  | "keys", [.mref h] => (heap, match getMap heap h with | some es => .ok (.tuple (es.map (fun e => ofVal e.1))) | none => .err .type)
  | "values", [.mref h] => (heap, match getMap heap h with | some es => .ok (.tuple (es.map Prod.snd)) | none => .err .type)
  -- generic
  | "size", [x] => (heap, match sizeOf? heap x with | some n => .ok (.num (.i (Int64.ofNat n))) | none => .err .type)
  | "is_empty", [x] => (heap, match sizeOf? heap x with | some n => .ok (.bool (n == 0)) | none => .err .type)
  | "index", [x, i] => indexVal F heap x i
  | "iset", [.lref h, .num i, v] => withRes v (onList F heap h (.set i v))
  | "iset", [.lref h, .range a b, v] => withRes v (onList F heap h (.setRange a b v))
  | "iset", [.mref h, .num i, .tuple [k, v]] =>
    -- bounds are checked before the key is converted
    (match getMap heap h with
     | some es =>
       if numNeg F i || es.length ≤ numToNat F i then (heap, .err .index)
       else match toKey? k with
         | some key => withRes (.tuple [k, v]) (onMap F mech heap h (.setIndex i key v))
         | none => (heap, .err .unhashable)
     | none => (heap, .err .type))
  | "add", [a, b] => (match addVals F mech heap a b with | some r => (r.1, .ok r.2) | none => (heap, .err .type))
  | "copy", [x] => let r := copyVal heap x; (r.1, .ok r.2)
  | "deep_copy", [x] =>
    (match deepCopy deepCopyLimit heap x with | some r => (r.1, .ok r.2) | none => (heap, .err .depth))
  | "eq", [a, b] => (heap, match heq F fuelDefault heap a b with | some r => .ok (.bool r) | none => .err .cycle)
  | "ne", [a, b] =>
    (heap, match snapshot fuelDefault heap a, snapshot fuelDefault heap b with
      | some x, some y => .ok (.bool (vne F mech x y))
      | _, _ => .err .cycle)
  | "lt", [a, b] => (heap, cmpRes F vlt a b)
  | "gt", [a, b] => (heap, cmpRes F vgt a b)
  | "le", [a, b] => (heap, cmpRes F vle a b)
  | "ge", [a, b] => (heap, cmpRes F vge a b)
  | _, _ => (heap, .err .args)

mutual
def eval (F : FloatOps) (mech : Bool) (st : St) : Ex → Heap → Heap × Res
  | .var n, heap => (heap, .ok (st.vars[n]?.getD .null))
  | .cap n, heap => (heap, .ok (st.caps[n]?.getD .null))
  | .imm v, heap => (heap, .ok v)
  | .arg e, heap => eval F mech st e heap
  | .tup es, heap =>
    (match evalList F mech st es heap with
     | (heap', .inl vs) => (heap', .ok (.tuple vs))
     | (heap', .inr r) => (heap', r))
  | .lst es, heap =>
    (match evalList F mech st es heap with
     | (heap', .inl vs) => let r := allocList heap' vs; (r.1, .ok r.2)
     | (heap', .inr r) => (heap', r))
  | .mp es, heap =>
    (match evalEntries F mech st es heap with
     | (heap', .inl kvs) =>
       -- a literal inserts its entries one by one
       let r := allocMap heap' (OMap.extend (insM F mech) [] kvs); (r.1, .ok r.2)
     | (heap', .inr r) => (heap', r))
  | .op name args, heap =>
    (match evalList F mech st args heap with
     | (heap', .inl vs) => applyOp F mech name vs heap'
     | (heap', .inr r) => (heap', r))
def evalList (F : FloatOps) (mech : Bool) (st : St) : List Ex → Heap → Heap × (List HVal ⊕ Res)
  | [], heap => (heap, .inl [])
  | e :: es, heap =>
    match eval F mech st e heap with
    | (heap1, .ok v) =>
      (match evalList F mech st es heap1 with
       | (heap2, .inl vs) => (heap2, .inl (v :: vs))
       | (heap2, .inr r) => (heap2, .inr r))
    | (heap1, r) => (heap1, .inr r)
def evalEntries (F : FloatOps) (mech : Bool) (st : St) : List (Ex × Ex) → Heap → Heap × (List (Val × HVal) ⊕ Res)
  | [], heap => (heap, .inl [])
  | (k, e) :: es, heap =>
    match eval F mech st k heap with
    | (heap0, .ok kv) =>
      (match toKey? kv with
       | none => (heap0, .inr (.err .unhashable))
       | some key =>
         match eval F mech st e heap0 with
         | (heap1, .ok v) =>
           (match evalEntries F mech st es heap1 with
            | (heap2, .inl kvs) => (heap2, .inl ((key, v) :: kvs))
            | (heap2, .inr r) => (heap2, .inr r))
         | (heap1, r) => (heap1, .inr r))
    | (heap0, r) => (heap0, .inr r)
end

/-- one statement: the new state and the statement's outcome -/
def step (F : FloatOps) (mech : Bool) (st : St) : Stmt → St × Res
  | .doe e =>
    let r := eval F mech st e st.heap
    ({ st with heap := r.1 }, r.2)
  | .letv n e =>
    let r := eval F mech st e st.heap
    match r.2 with
    | .ok v => ({ st with heap := r.1, vars := st.vars.set n v }, .ok v)
    | o => ({ st with heap := r.1 }, o)
  | .clo n e =>
    let r := eval F mech st e st.heap
    match r.2 with
    | .ok v => ({ st with heap := r.1, caps := st.caps.set n v }, .ok v)
    | o => ({ st with heap := r.1 }, o)

end Heap
end KotoVerif
