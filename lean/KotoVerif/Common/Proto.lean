/-
Line-protocol helpers shared by all model drivers (trusted harness code, not part of any theorem).
-/
namespace KotoVerif.Proto

def hexDigit (n : Nat) : Char :=
  if n < 10 then Char.ofNat (48 + n) else Char.ofNat (87 + n)

def hexOfBytes (bs : List Nat) : String :=
  String.ofList ('x' :: bs.flatMap (fun b => [hexDigit (b / 16 % 16), hexDigit (b % 16)]))

def hexVal (c : Char) : Option Nat :=
  if '0' ≤ c ∧ c ≤ '9' then some (c.toNat - 48)
  else if 'a' ≤ c ∧ c ≤ 'f' then some (c.toNat - 87)
  else if 'A' ≤ c ∧ c ≤ 'F' then some (c.toNat - 55)
  else none

def bytesOfHexChars : List Char → Option (List Nat)
  | [] => some []
  | [_] => none
  | a :: b :: rest => do
    let h ← hexVal a
    let l ← hexVal b
    let r ← bytesOfHexChars rest
    pure ((h * 16 + l) :: r)

/-- `x68c3a9` → bytes -/
def bytesOfHex (s : String) : Option (List Nat) :=
  match s.toList with
  | 'x' :: rest => bytesOfHexChars rest
  | _ => none

/-- S-expressions: atoms are maximal runs of characters other than space and parentheses. -/
inductive Sexp where
  | atom (s : String)
  | list (xs : List Sexp)
  deriving Repr, Inhabited

partial def Sexp.toStr : Sexp → String
  | .atom s => s
  | .list xs => "(" ++ " ".intercalate (xs.map Sexp.toStr) ++ ")"

/-- tokenise into "(" ")" and atoms -/
def sexpTokens (cs : List Char) : List String :=
  let rec go (cs : List Char) (cur : List Char) (acc : List String) : List String :=
    let flush := fun (acc : List String) => if cur.isEmpty then acc else String.ofList cur.reverse :: acc
    match cs with
    | [] => (flush acc).reverse
    | c :: rest =>
      if c == '(' then go rest [] ("(" :: flush acc)
      else if c == ')' then go rest [] (")" :: flush acc)
      else if c == ' ' then go rest [] (flush acc)
      else go rest (c :: cur) acc
  go cs [] []

/-- parse a sequence of tokens; returns the parsed items up to an unmatched ")" and the rest -/
partial def parseSeq (ts : List String) (acc : List Sexp) : List Sexp × List String :=
  match ts with
  | [] => (acc.reverse, [])
  | ")" :: rest => (acc.reverse, rest)
  | "(" :: rest =>
    let (xs, rest') := parseSeq rest []
    parseSeq rest' (Sexp.list xs :: acc)
  | t :: rest => parseSeq rest (Sexp.atom t :: acc)

/-- Parse a whole line into a list of top-level S-expressions. -/
def parseLine (s : String) : List Sexp := (parseSeq (sexpTokens s.toList) []).1

def Sexp.atom? : Sexp → Option String
  | .atom s => some s
  | _ => none

def Sexp.nat? (s : Sexp) : Option Nat := s.atom? >>= String.toNat?
def Sexp.int? (s : Sexp) : Option Int := s.atom? >>= String.toInt?

def chomp (s : String) : String :=
  String.ofList (s.toList.reverse.dropWhile (fun c => c == '\n' || c == '\r')).reverse

/-- Stateless request/response loop over stdin/stdout. -/
partial def serve (handle : String → String) : IO Unit := do
  let stdin ← IO.getStdin
  let stdout ← IO.getStdout
  let rec loop : IO Unit := do
    let line ← stdin.getLine
    if line.isEmpty then
      stdout.flush
      return ()
    let l := chomp line
    stdout.putStrLn (handle l)
    stdout.flush
    loop
  loop

/-- Stateful request/response loop. -/
partial def serveSt {σ : Type} (init : σ) (step : σ → String → σ × String) : IO Unit := do
  let stdin ← IO.getStdin
  let stdout ← IO.getStdout
  let rec loop (s : σ) : IO Unit := do
    let line ← stdin.getLine
    if line.isEmpty then
      stdout.flush
      return ()
    let l := chomp line
    let (s', out) := step s l
    stdout.putStrLn out
    stdout.flush
    loop s'
  loop init

def fnv1a (bs : List Nat) : UInt64 :=
  bs.foldl (fun h b => (h ^^^ (UInt64.ofNat b)) * 0x100000001b3) 0xcbf29ce484222325

end KotoVerif.Proto
