/-
Canonical text for `Val` — the same grammar `kvh::canon::value` prints on the Rust side:
`null | b0 | b1 | i<dec> | f<16 hex> | s<xhex> | (l …) | (t …) | (m (k v) …) | (r a|_ b|_ 0|1)`.
Driver-side glue (not part of any theorem).
-/
import KotoVerif.Common.Proto
import KotoVerif.Model.Value

namespace KotoVerif.ValueIO
open KotoVerif KotoVerif.Proto

def hex16 (n : UInt64) : String :=
  String.ofList ((List.range 16).reverse.map (fun i => hexDigit ((n.toNat >>> (4 * i)) % 16)))

def numStr : Num → String
  | .i n => s!"i{n.toInt}"
  | .f b => s!"f{hex16 b}"

partial def valStr : Val → String
  | .null => "null"
  | .bool b => if b then "b1" else "b0"
  | .num n => numStr n
  | .str bs => "s" ++ hexOfBytes bs
  | .range a b =>
    let sa := match a with | some x => toString x.toInt | none => "_"
    let sb := match b with | some (x, incl) => s!"{x.toInt} {if incl then 1 else 0}" | none => "_ 0"
    s!"(r {sa} {sb})"
  | .tuple xs => "(t" ++ String.join (xs.map (fun x => " " ++ valStr x)) ++ ")"
  | .list xs => "(l" ++ String.join (xs.map (fun x => " " ++ valStr x)) ++ ")"
  | .map es => "(m" ++ String.join (es.map (fun (k, v) => " (" ++ valStr k ++ " " ++ valStr v ++ ")")) ++ ")"

def parseHex64 (cs : List Char) : Option UInt64 :=
  if cs.length ≠ 16 then none
  else cs.foldlM (fun (acc : UInt64) c => (hexVal c).map (fun d => acc * 16 + UInt64.ofNat d)) 0

partial def parseVal : Sexp → Option Val
  | .atom "null" => some .null
  | .atom "b0" => some (.bool false)
  | .atom "b1" => some (.bool true)
  | .atom s =>
    (match s.toList with
    | 'i' :: rest => (String.ofList rest).toInt?.map (fun n => Val.num (.i (Int64.ofInt n)))
    | 'f' :: rest => (parseHex64 rest).map (fun b => Val.num (.f b))
    | 's' :: rest => (bytesOfHex (String.ofList rest)).map Val.str
    | _ => none)
  | .list (.atom "l" :: xs) => (xs.mapM parseVal).map Val.list
  | .list (.atom "t" :: xs) => (xs.mapM parseVal).map Val.tuple
  | .list (.atom "m" :: es) =>
    (es.mapM (fun e => match e with
      | Sexp.list [k, v] => do pure ((← parseVal k), (← parseVal v))
      | _ => none)).map Val.map
  | .list [.atom "r", a, b, incl] =>
    let pa := match a with | .atom "_" => some none | x => x.int?.map (fun n => some (Int64.ofInt n))
    let pb := match b with
      | .atom "_" => some none
      | x => x.int?.map (fun n => some (Int64.ofInt n, incl.atom? == some "1"))
    match pa, pb with
    | some a, some b => some (.range a b)
    | _, _ => none
  | _ => none

/-- `FloatOps` backed by the runtime's IEEE-754 `Float`. -/
def nativeFloatOps : FloatOps where
  add a b := (Float.ofBits a + Float.ofBits b).toBits
  sub a b := (Float.ofBits a - Float.ofBits b).toBits
  mul a b := (Float.ofBits a * Float.ofBits b).toBits
  div a b := (Float.ofBits a / Float.ofBits b).toBits
  rem a b :=
    -- Rust `%` on f64 = C fmod (truncated); computed without libm: a - trunc(a/b)*b is inexact in
    -- general, so models must not rely on it for non-integral operands (see DESIGN §4).
    let x := Float.ofBits a
    let y := Float.ofBits b
    (x - (x / y).toInt64.toFloat * y).toBits
  pow a b := (Float.pow (Float.ofBits a) (Float.ofBits b)).toBits
  neg a := (-(Float.ofBits a)).toBits
  lt a b := Float.ofBits a < Float.ofBits b
  le a b := Float.ofBits a ≤ Float.ofBits b
  eq a b := Float.ofBits a == Float.ofBits b
  ofInt n := n.toFloat.toBits
  toInt b := (Float.ofBits b).toInt64
  isNaN b := (Float.ofBits b).isNaN

/-- all NaNs print as one quiet NaN (as `kvh::canon::float` does) -/
def canonBits (b : UInt64) : UInt64 := if (Float.ofBits b).isNaN then 0x7ff8000000000000 else b

end KotoVerif.ValueIO
