/-
C13 helper lemmas, part 4: composition — a whole pipeline refines its denotation (`den`), by
structural induction over the pipeline, using the per-adaptor lemmas of parts 2 and 3.
-/
import KotoVerif.Lemmas.C13Deq

namespace KotoVerif.Iter

/-- pipelines covered by the refinement theorem: no endless parts (`cycle`, `repeat` without count;
these have the separate statement `cycle_take`) -/
def Pipe.regular : Pipe → Bool
  | .src (.repInf _) => false
  | .src _ => true
  | .cycle _ => false
  | .each _ p | .keep _ p | .take _ p | .takeWhile _ p | .skip _ p | .step _ p | .enumerate p
  | .chunks _ p | .windows _ p | .flatten p | .intersperse _ p | .intersperseWith p | .reversed p
  | .peekable p | .pairFirst p | .pairSecond p => p.regular
  | .chain p q | .zip p q => p.regular && q.regular

/-- the loop bound of every `keep` / `flatten` exceeds the length of its input sequence -/
def Pipe.fits (fuel : Nat) : Pipe → Prop
  | .src _ => True
  | .keep _ p | .flatten p => p.fits fuel ∧ ((den p).getD []).length < fuel
  | .each _ p | .take _ p | .takeWhile _ p | .skip _ p | .step _ p | .enumerate p
  | .chunks _ p | .windows _ p | .intersperse _ p | .intersperseWith p | .reversed p
  | .peekable p | .pairFirst p | .pairSecond p | .cycle p => p.fits fuel
  | .chain p q | .zip p q => p.fits fuel ∧ q.fits fuel

theorem den_take (n : Nat) (p : Pipe) (h : p.regular = true) :
    den (.take n p) = (den p).map (List.take n) := by
  cases p with
  | src s => cases s <;> simp_all [den, Pipe.regular]
  | cycle q => simp [Pipe.regular] at h
  | _ => simp [den]

/-- `is_bidirectional()` of the built iterator is the static `Pipe.bidir` -/
theorem build_bidir (fuel : Nat) (p : Pipe) : (build fuel p).c.bidir = p.bidir := by
  induction p with
  | src s => cases s <;> rfl
  | each f p ih => exact ih
  | skip n p ih => exact ih
  | peekable p ih => exact ih
  | _ => rfl

/-- what the composition theorem establishes for one pipeline -/
def Sem (fuel : Nat) (p : Pipe) (xs : List Val) : Prop :=
  Fwd (build fuel p).c (build fuel p).s xs ∧
  (p.bidir = true → Deq (build fuel p).c (build fuel p).s xs)

theorem src_sem (fuel : Nat) (s : Src) (xs : List Val) (hreg : (Pipe.src s).regular = true)
    (hden : s.elems = some xs) : Sem fuel (.src s) xs := by
  cases s with
  | seq ys =>
    simp [Src.elems] at hden; subst hden
    exact ⟨deq_fwd (seq_deq ys), fun _ => seq_deq ys⟩
  | range a b incl =>
    simp only [Src.elems, Option.some.injEq] at hden; subst hden
    have h : Deq rangeCo ⟨a, b, incl⟩ (upto a (Rng.count ⟨a, b, incl⟩)) := range_deq ⟨a, b, incl⟩
    rw [upto_eq_map] at h
    exact ⟨deq_fwd h, fun _ => h⟩
  | str cl =>
    simp [Src.elems] at hden; subst hden
    exact ⟨deq_fwd (str_deq cl), fun _ => str_deq cl⟩
  | fwd ys =>
    simp [Src.elems] at hden; subst hden
    refine ⟨?_, fun h => by simp [Pipe.bidir] at h⟩
    have h := fwdCo_fwd ys 0
    simp only [List.drop_zero] at h
    exact h
  | gen k ys =>
    simp [Src.elems] at hden; subst hden
    refine ⟨?_, fun h => by simp [Pipe.bidir] at h⟩
    have h := gen_fwd k ys 0 false
    simp only [List.drop_zero] at h
    exact h
  | obj k ys =>
    simp [Src.elems] at hden; subst hden
    refine ⟨?_, fun h => by simp [Pipe.bidir] at h⟩
    have h := meta_fwd k ys 0
    simp only [List.drop_zero] at h
    exact h
  | objb k ys =>
    simp [Src.elems] at hden; subst hden
    exact ⟨deq_fwd (metab_deq k ys), fun _ => metab_deq k ys⟩
  | rep v n =>
    simp [Src.elems] at hden; subst hden
    exact ⟨rep_fwd v n, fun h => by simp [Pipe.bidir] at h⟩
  | repInf v => simp [Pipe.regular] at hreg
  | hostBytes ys =>
    simp [Src.elems] at hden; subst hden
    exact ⟨deq_fwd (hostBytes_deq ys), fun _ => hostBytes_deq ys⟩

theorem pipe_sem (fuel : Nat) (p : Pipe) : ∀ (xs : List Val), p.regular = true → p.err = none →
    den p = some xs → p.fits fuel → Sem fuel p xs := by
  induction p with
  | src s => intro xs hreg _ hden _; exact src_sem fuel s xs hreg (by simpa [den] using hden)
  | each f p ih =>
    intro xs hreg herr hden hfit
    simp only [den, Option.map_eq_some_iff] at hden
    obtain ⟨ys, hd, rfl⟩ := hden
    have ⟨h1, h2⟩ := ih ys hreg herr hd hfit
    exact ⟨each_fwd f _ _ ys h1, fun hb => each_deq f _ _ ys (h2 hb)⟩
  | keep q p ih =>
    intro xs hreg herr hden hfit
    simp only [den, Option.map_eq_some_iff] at hden
    obtain ⟨ys, hd, rfl⟩ := hden
    have ⟨h1, _⟩ := ih ys hreg herr hd hfit.1
    have hl : ys.length < fuel := by have := hfit.2; rw [hd] at this; exact this
    exact ⟨keep_fwd fuel q _ _ ys h1 hl, fun hb => by simp [Pipe.bidir] at hb⟩
  | take n p ih =>
    intro xs hreg herr hden hfit
    rw [den_take n p hreg] at hden
    simp only [Option.map_eq_some_iff] at hden
    obtain ⟨ys, hd, rfl⟩ := hden
    have ⟨h1, _⟩ := ih ys hreg herr hd hfit
    exact ⟨take_fwd _ _ n ys h1, fun hb => by simp [Pipe.bidir] at hb⟩
  | takeWhile q p ih =>
    intro xs hreg herr hden hfit
    simp only [den, Option.map_eq_some_iff] at hden
    obtain ⟨ys, hd, rfl⟩ := hden
    have ⟨h1, _⟩ := ih ys hreg herr hd hfit
    exact ⟨takeWhile_fwd q _ _ ys h1, fun hb => by simp [Pipe.bidir] at hb⟩
  | skip n p ih =>
    intro xs hreg herr hden hfit
    simp only [den, Option.map_eq_some_iff] at hden
    obtain ⟨ys, hd, rfl⟩ := hden
    have ⟨h1, h2⟩ := ih ys hreg herr hd hfit
    exact ⟨skip_fwd _ _ n ys h1, fun hb => skip_deq _ _ n ys (h2 hb)⟩
  | step n p ih =>
    intro xs hreg herr hden hfit
    simp only [den, Option.map_eq_some_iff] at hden
    obtain ⟨ys, hd, rfl⟩ := hden
    have herr' : p.err = none := by
      simp only [Pipe.err] at herr
      cases hp : p.err <;> simp_all
    have ⟨h1, _⟩ := ih ys hreg herr' hd hfit
    exact ⟨step_fwd n _ _ ys h1, fun hb => by simp [Pipe.bidir] at hb⟩
  | chain p q ihp ihq =>
    intro xs hreg herr hden hfit
    simp only [Pipe.regular, Bool.and_eq_true] at hreg
    have herr' : p.err = none ∧ q.err = none := by
      simp only [Pipe.err] at herr
      cases hp : p.err <;> cases hq : q.err <;> simp_all
    cases hdp : den p with
    | none => simp [den, hdp] at hden
    | some as =>
      cases hdq : den q with
      | none => simp [den, hdp, hdq] at hden
      | some bs =>
        simp [den, hdp, hdq] at hden; subst hden
        have ⟨a1, _⟩ := ihp as hreg.1 herr'.1 hdp hfit.1
        have ⟨b1, _⟩ := ihq bs hreg.2 herr'.2 hdq hfit.2
        exact ⟨chain_fwd _ _ _ _ as bs a1 b1, fun hb => by simp [Pipe.bidir] at hb⟩
  | zip p q ihp ihq =>
    intro xs hreg herr hden hfit
    simp only [Pipe.regular, Bool.and_eq_true] at hreg
    have herr' : p.err = none ∧ q.err = none := by
      simp only [Pipe.err] at herr
      cases hp : p.err <;> cases hq : q.err <;> simp_all
    cases hdp : den p with
    | none => simp [den, hdp] at hden
    | some as =>
      cases hdq : den q with
      | none => simp [den, hdp, hdq] at hden
      | some bs =>
        simp [den, hdp, hdq] at hden; subst hden
        have ⟨a1, _⟩ := ihp as hreg.1 herr'.1 hdp hfit.1
        have ⟨b1, _⟩ := ihq bs hreg.2 herr'.2 hdq hfit.2
        exact ⟨zip_fwd _ _ _ _ as bs a1 b1, fun hb => by simp [Pipe.bidir] at hb⟩
  | enumerate p ih =>
    intro xs hreg herr hden hfit
    simp only [den, Option.map_eq_some_iff] at hden
    obtain ⟨ys, hd, rfl⟩ := hden
    have ⟨h1, _⟩ := ih ys hreg herr hd hfit
    exact ⟨enumerate_fwd _ _ 0 ys h1, fun hb => by simp [Pipe.bidir] at hb⟩
  | chunks n p ih =>
    intro xs hreg herr hden hfit
    simp only [den, Option.map_eq_some_iff] at hden
    obtain ⟨ys, hd, rfl⟩ := hden
    have herr' : p.err = none ∧ n ≥ 1 := by
      simp only [Pipe.err] at herr
      cases hp : p.err <;> simp_all
      omega
    have ⟨h1, _⟩ := ih ys hreg herr'.1 hd hfit
    exact ⟨chunks_fwd n herr'.2 _ _ ys h1, fun hb => by simp [Pipe.bidir] at hb⟩
  | windows n p ih =>
    intro xs hreg herr hden hfit
    simp only [den, Option.map_eq_some_iff] at hden
    obtain ⟨ys, hd, rfl⟩ := hden
    have herr' : p.err = none ∧ n ≥ 1 := by
      simp only [Pipe.err] at herr
      cases hp : p.err <;> simp_all
      omega
    have ⟨h1, _⟩ := ih ys hreg herr'.1 hd hfit
    exact ⟨windows_fwd n herr'.2 _ _ ys h1, fun hb => by simp [Pipe.bidir] at hb⟩
  | flatten p ih =>
    intro xs hreg herr hden hfit
    simp only [den, Option.map_eq_some_iff] at hden
    obtain ⟨ys, hd, rfl⟩ := hden
    have ⟨h1, _⟩ := ih ys hreg herr hd hfit.1
    have hl : ys.length < fuel := by have := hfit.2; rw [hd] at this; exact this
    exact ⟨flatten_fwd fuel _ _ ys h1 hl, fun hb => by simp [Pipe.bidir] at hb⟩
  | intersperse v p ih =>
    intro xs hreg herr hden hfit
    simp only [den, Option.map_eq_some_iff] at hden
    obtain ⟨ys, hd, rfl⟩ := hden
    have ⟨h1, _⟩ := ih ys hreg herr hd hfit
    exact ⟨intersperse_fwd v false _ _ ys h1, fun hb => by simp [Pipe.bidir] at hb⟩
  | intersperseWith p ih =>
    intro xs hreg herr hden hfit
    simp only [den, Option.map_eq_some_iff] at hden
    obtain ⟨ys, hd, rfl⟩ := hden
    have ⟨h1, _⟩ := ih ys hreg herr hd hfit
    exact ⟨intersperse_fwd sepVal true _ _ ys h1, fun hb => by simp [Pipe.bidir] at hb⟩
  | cycle p _ => intro xs hreg; simp [Pipe.regular] at hreg
  | reversed p ih =>
    intro xs hreg herr hden hfit
    simp only [den, Option.map_eq_some_iff] at hden
    obtain ⟨ys, hd, rfl⟩ := hden
    have herr' : p.err = none ∧ p.bidir = true := by
      simp only [Pipe.err] at herr
      cases hp : p.err <;> cases hb : p.bidir <;> simp_all
    have ⟨_, h2⟩ := ih ys hreg herr'.1 hd hfit
    have hd := reversed_deq _ _ ys (h2 herr'.2)
    exact ⟨deq_fwd hd, fun _ => hd⟩
  | peekable p ih =>
    intro xs hreg herr hden hfit
    simp only [den] at hden
    have ⟨h1, h2⟩ := ih xs hreg herr hden hfit
    exact ⟨peekable_fwd _ _ xs h1, fun hb => peekable_deq _ _ xs (by rw [build_bidir]; exact hb) (h2 hb)⟩
  | pairFirst p ih =>
    intro xs hreg herr hden hfit
    simp only [den, Option.map_eq_some_iff] at hden
    obtain ⟨ys, hd, rfl⟩ := hden
    have ⟨h1, _⟩ := ih ys hreg herr hd hfit
    exact ⟨pair_fwd true _ _ ys h1, fun hb => by simp [Pipe.bidir] at hb⟩
  | pairSecond p ih =>
    intro xs hreg herr hden hfit
    simp only [den, Option.map_eq_some_iff] at hden
    obtain ⟨ys, hd, rfl⟩ := hden
    have ⟨h1, _⟩ := ih ys hreg herr hd hfit
    exact ⟨pair_fwd false _ _ ys h1, fun hb => by simp [Pipe.bidir] at hb⟩

end KotoVerif.Iter
