/-
C04 helper lemmas: errors pass unchanged through every construct that is not a try block.

`Sub cfg P n outer inner`: evaluating `outer` with fuel `n+1` evaluates `inner` with fuel `n` in a
position where an `err` outcome of `inner` becomes the outcome of `outer` (the frame's locals are
restored when a call / generator boundary is crossed; heap and trace are passed on as they are).
The constructors enumerate the positions: sequence and argument positions, call → function body,
native adaptor (`each/keep/fold/sort`) → callback, loop bodies, generator segments consumed by
`for`, overloaded-operator bodies, operands, and the catch block of a try without finally.
`Path` chains any number of such links.
-/
import KotoVerif.Model.TryEval

namespace KotoVerif.Try

/-- how a native adaptor continues after a successful callback -/
def natNextAcc (k : NatKind) (accL : List Val) (accV it v : Val) : Option (List Val × Val) :=
  match k, v with
  | .each, v => some (accL ++ [v], accV)
  | .keep, .bool b => some (if b then accL ++ [it] else accL, accV)
  | .keep, _ => none
  | .fold, v => some (accL, v)
  | .sort, v => some (accL ++ [v], accV)

def natArgs (k : NatKind) (accV it : Val) : List Val :=
  match k with
  | .fold => [accV, it]
  | _ => [it]

inductive Sub (cfg : Cfg) (P : Prog) (n : Nat) : Task × St → Task × St → Prop where
  -- sequences and argument lists
  | evSeq es σ : Sub cfg P n (.ev (.seq es), σ) (.seq es .null, σ)
  | seqHead e rest last σ : Sub cfg P n (.seq (e :: rest) last, σ) (.ev e, σ)
  | seqTail e rest last σ v' σ1 : run cfg P n (.ev e) σ = (.ok v', σ1) →
      Sub cfg P n (.seq (e :: rest) last, σ) (.seq rest v', σ1)
  | argHead e rest acc σ : Sub cfg P n (.evs (e :: rest) acc, σ) (.ev e, σ)
  | argTail e rest acc σ v' σ1 : run cfg P n (.ev e) σ = (.ok v', σ1) →
      Sub cfg P n (.evs (e :: rest) acc, σ) (.evs rest (acc ++ [v']), σ1)
  -- simple operand positions
  | assignRhs x e σ : Sub cfg P n (.ev (.assign x e), σ) (.ev e, σ)
  | emitArg t e σ : Sub cfg P n (.ev (.emit t (some e)), σ) (.ev e, σ)
  | throwArg e σ : Sub cfg P n (.ev (.throw e), σ) (.ev e, σ)
  | retArg e σ : Sub cfg P n (.ev (.ret e), σ) (.ev e, σ)
  | breakValue e σ : Sub cfg P n (.ev (.brkV e), σ) (.ev e, σ)
  | mkListArgs es σ : Sub cfg P n (.ev (.mkList es), σ) (.evs es [], σ)
  | interpHoles t es σ : Sub cfg P n (.ev (.emitI t es), σ) (.evs es [], σ)
  | indexArgs l i σ : Sub cfg P n (.ev (.index l i), σ) (.evs [l, i] [], σ)
  | pushArgs l e σ : Sub cfg P n (.ev (.push l e), σ) (.evs [l, e] [], σ)
  | setIdxArgs l i e σ : Sub cfg P n (.ev (.setIdx l i e), σ) (.evs [l, i, e] [], σ)
  | binArgs op a b σ : Sub cfg P n (.ev (.bin op a b), σ) (.evs [a, b] [], σ)
  | iteCond c t e σ : Sub cfg P n (.ev (.ite c t e), σ) (.ev c, σ)
  | iteThen c t e σ v' σ1 : run cfg P n (.ev c) σ = (.ok v', σ1) → v'.truthy = true →
      Sub cfg P n (.ev (.ite c t e), σ) (.ev t, σ1)
  | iteElse c t e σ v' σ1 : run cfg P n (.ev c) σ = (.ok v', σ1) → v'.truthy = false →
      Sub cfg P n (.ev (.ite c t e), σ) (.ev e, σ1)
  -- displaying a value (print / interpolation): `@display` functions of the value or of the
  -- elements of a container, at any nesting depth
  | emitDisp t e σ v' σ1 : run cfg P n (.ev e) σ = (.ok v', σ1) →
      Sub cfg P n (.ev (.emit t (some e)), σ) (.disp [v'] [], σ1)
  | interpDisp t es σ vs σ1 : run cfg P n (.evs es []) σ = (.vals vs, σ1) →
      Sub cfg P n (.ev (.emitI t es), σ) (.disp (vs.intersperse (.str .sep)) [], σ1)
  | dispContainer r rest acc σ :
      Sub cfg P n (.disp (.list r :: rest) acc, σ) (.disp (σ.heap.getD r [] ++ .str .rb :: rest) (acc ++ [.str .lb]), σ)
  | dispObject c rest acc σ f : (P.classes.getD c {}).dispFn = some f →
      Sub cfg P n (.disp (.obj c :: rest) acc, σ) (.callF f [.obj c], σ)
  | dispNext c rest acc σ f k σ1 : (P.classes.getD c {}).dispFn = some f →
      run cfg P n (.callF f [.obj c]) σ = (.ok (.str (.lit k)), σ1) →
      Sub cfg P n (.disp (.obj c :: rest) acc, σ) (.disp rest (acc ++ [.str (.shown k)]), σ1)
  -- calls
  | callArgs f args σ : Sub cfg P n (.ev (.call f args), σ) (.evs args [], σ)
  | callFn f args σ vs σ1 : run cfg P n (.evs args []) σ = (.vals vs, σ1) →
      Sub cfg P n (.ev (.call f args), σ) (.callF f vs, σ1)
  | callBody f args d σ : P.defs[f]? = some d → d.isGen = false → args.length = d.nparams →
      Sub cfg P n (.callF f args, σ)
        (.ev d.body, { σ with locals := args ++ List.replicate (d.nlocals - args.length) Val.null })
  -- native adaptors calling back into functions
  | nativeArg k f l σ : Sub cfg P n (.ev (.native k f l), σ) (.ev l, σ)
  | nativeRun k f l σ r σ1 : run cfg P n (.ev l) σ = (.ok (.list r), σ1) →
      Sub cfg P n (.ev (.native k f l), σ) (.nat k f r (σ1.heap.getD r []) [] (.int 0), σ1)
  | natCallback k f r it rest accL accV σ :
      Sub cfg P n (.nat k f r (it :: rest) accL accV, σ) (.callF f (natArgs k accV it), σ)
  | natNext k f r it rest accL accV σ v' σ1 aL aV :
      run cfg P n (.callF f (natArgs k accV it)) σ = (.ok v', σ1) →
      natNextAcc k accL accV it v' = some (aL, aV) →
      Sub cfg P n (.nat k f r (it :: rest) accL accV, σ) (.nat k f r rest aL aV, σ1)
  -- overloaded operators
  | opAdd a b σ c y σ1 f : run cfg P n (.evs [a, b] []) σ = (.vals [.obj c, y], σ1) →
      (P.classes.getD c {}).addFn = some f →
      Sub cfg P n (.ev (.bin .add a b), σ) (.callF f [.obj c, y], σ1)
  | opLt a b σ c y σ1 f : run cfg P n (.evs [a, b] []) σ = (.vals [.obj c, y], σ1) →
      (P.classes.getD c {}).ltFn = some f →
      Sub cfg P n (.ev (.bin .lt a b), σ) (.callF f [.obj c, y], σ1)
  | opGe a b σ c y σ1 f : run cfg P n (.evs [a, b] []) σ = (.vals [.obj c, y], σ1) →
      (P.classes.getD c {}).ltFn = some f →
      Sub cfg P n (.ev (.bin .ge a b), σ) (.callF f [.obj c, y], σ1)
  -- loops
  | forListArg x l body σ : Sub cfg P n (.ev (.forList x l body), σ) (.ev l, σ)
  | forListRun x l body σ r σ1 : run cfg P n (.ev l) σ = (.ok (.list r), σ1) →
      Sub cfg P n (.ev (.forList x l body), σ) (.loopL x (σ1.heap.getD r []) body, σ1)
  | loopBody x it rest body σ : Sub cfg P n (.loopL x (it :: rest) body, σ) (.ev body, setLocal σ x it)
  | loopNext x it rest body σ s σ1 : run cfg P n (.ev body) (setLocal σ x it) = (s, σ1) →
      ((∃ v', s = .ok v') ∨ s = .cont) →
      Sub cfg P n (.loopL x (it :: rest) body, σ) (.loopL x rest body, σ1)
  -- generators consumed by `for`: the error is passed on as it is
  | forGenArgs x g args body σ : Sub cfg P n (.ev (.forGen x g args body), σ) (.evs args [], σ)
  | forGenRun x g args body σ vs σ1 d : run cfg P n (.evs args []) σ = (.vals vs, σ1) →
      P.defs[g]? = some d → d.isGen = true → vs.length = d.nparams →
      Sub cfg P n (.ev (.forGen x g args body), σ)
        (.loopG x (vs ++ List.replicate (d.nlocals - vs.length) Val.null) d.segs d.tail body, σ1)
  | genSegment x gl pre yv rest tail body σ :
      Sub cfg P n (.loopG x gl ((pre, yv) :: rest) tail body, σ) (.seq [pre, yv] .null, { σ with locals := gl })
  | genTail x gl tail body σ :
      Sub cfg P n (.loopG x gl [] tail body, σ) (.ev tail, { σ with locals := gl })
  | genBody x gl pre yv rest tail body σ v' σ1 :
      run cfg P n (.seq [pre, yv] .null) { σ with locals := gl } = (.ok v', σ1) →
      Sub cfg P n (.loopG x gl ((pre, yv) :: rest) tail body, σ)
        (.ev body, setLocal { σ1 with locals := σ.locals } x v')
  | genNext x gl pre yv rest tail body σ v' σ1 s σ2 :
      run cfg P n (.seq [pre, yv] .null) { σ with locals := gl } = (.ok v', σ1) →
      run cfg P n (.ev body) (setLocal { σ1 with locals := σ.locals } x v') = (s, σ2) →
      ((∃ w, s = .ok w) ∨ s = .cont) →
      Sub cfg P n (.loopG x gl ((pre, yv) :: rest) tail body, σ) (.loopG x σ1.locals rest tail body, σ2)
  -- an error escaping a catch block of a try without finally
  | catchChain b cs σ v0 σ1 : run cfg P n (.ev b) σ = (.err v0, σ1) →
      Sub cfg P n (.ev (.try_ b cs none), σ) (.catches cs v0, σ1)
  | catchBody ty x body rest v0 σ : accepts ty v0 = true →
      Sub cfg P n (.catches ((ty, x, body) :: rest) v0, σ) (.ev body, bindCatch σ ty x v0)
  | catchSkip ty x body rest v0 σ : accepts ty v0 = false →
      Sub cfg P n (.catches ((ty, x, body) :: rest) v0, σ) (.catches rest v0, σ)

theorem callResult_err (l : List Val) (v : Val) (σ : St) :
    callResult l (.err v, σ) = (.err v, { σ with locals := l }) := rfl

/-- one link: an error of the inner evaluation is the outcome of the outer one, with the heap and
the trace of the inner outcome -/
theorem sub_err_transparent (cfg : Cfg) (P : Prog) (n : Nat) (t t' : Task) (σ σ' σ1 : St) (v : Val)
    (hs : Sub cfg P n (t, σ) (t', σ')) (h : run cfg P n t' σ' = (.err v, σ1)) :
    ∃ σ2, run cfg P (n + 1) t σ = (.err v, σ2) ∧ σ2.heap = σ1.heap ∧ σ2.out = σ1.out := by
  cases hs with
  | callBody f args d _ hd hg ha =>
    have hlt : ¬ (args.length < d.nparams) := by omega
    have hgt : ¬ (args.length > d.nparams) := by omega
    exact ⟨{ σ1 with locals := σ.locals },
      by simp only [run, hd, hg, hlt, hgt, h, callResult_err, Bool.false_eq_true, ↓reduceIte], rfl, rfl⟩
  | genSegment x gl pre yv rest tail body _ =>
    exact ⟨{ σ1 with locals := σ.locals }, by simp [run, h], rfl, rfl⟩
  | genTail x gl tail body _ =>
    exact ⟨{ σ1 with locals := σ.locals }, by simp [run, h], rfl, rfl⟩
  | forGenRun x g args body _ vs _ d h1 hd hg ha =>
    have hlt : ¬ (vs.length < d.nparams) := by omega
    have hgt : ¬ (vs.length > d.nparams) := by omega
    exact ⟨σ1, by simp only [run, h1, hd, hg, hlt, hgt, h, Bool.not_true, Bool.false_eq_true, ↓reduceIte],
      rfl, rfl⟩
  | natCallback k f r it rest accL accV _ =>
    refine ⟨σ1, ?_, rfl, rfl⟩
    cases k <;> simp [run, natArgs] at h ⊢ <;> simp [h]
  | natNext k f r it rest accL accV _ v' _ aL aV h1 h2 =>
    refine ⟨σ1, ?_, rfl, rfl⟩
    cases k <;> simp [natArgs] at h1 <;> simp [run, h1]
    · simp [natNextAcc] at h2; obtain ⟨rfl, rfl⟩ := h2; exact h
    · cases v' <;> simp [natNextAcc] at h2
      obtain ⟨rfl, rfl⟩ := h2; exact h
    · simp [natNextAcc] at h2; obtain ⟨rfl, rfl⟩ := h2; exact h
    · simp [natNextAcc] at h2; obtain ⟨rfl, rfl⟩ := h2; exact h
  | loopNext x it rest body _ s _ h1 hs =>
    refine ⟨σ1, ?_, rfl, rfl⟩
    rcases hs with ⟨w, rfl⟩ | rfl <;> simp [run, h1, h]
  | genNext x gl pre yv rest tail body _ v' σa s _ h1 h2 hs =>
    refine ⟨σ1, ?_, rfl, rfl⟩
    rcases hs with ⟨w, rfl⟩ | rfl <;> simp [run, h1, h2, h]
  | iteThen c t e _ v' _ h1 ht => exact ⟨σ1, by simp [run, h1, ht, h], rfl, rfl⟩
  | iteElse c t e _ v' _ h1 ht => exact ⟨σ1, by simp [run, h1, ht, h], rfl, rfl⟩
  | emitDisp t e _ v' _ h1 => exact ⟨σ1, by simp only [run, h1, h], rfl, rfl⟩
  | interpDisp t es _ vs _ h1 => exact ⟨σ1, by simp only [run, h1, h], rfl, rfl⟩
  | dispContainer r rest acc _ => exact ⟨σ1, by simp only [run, h], rfl, rfl⟩
  | dispObject c rest acc _ f hf => exact ⟨σ1, by simp only [run, hf, h], rfl, rfl⟩
  | dispNext c rest acc _ f k _ hf h1 => exact ⟨σ1, by simp only [run, hf, h1, h], rfl, rfl⟩
  | opAdd a b _ c y _ f h1 hf => exact ⟨σ1, by simp only [run, h1, hf, h], rfl, rfl⟩
  | opLt a b _ c y _ f h1 hf => exact ⟨σ1, by simp only [run, h1, hf, h], rfl, rfl⟩
  | opGe a b _ c y _ f h1 hf => exact ⟨σ1, by simp only [run, h1, hf, h], rfl, rfl⟩
  | seqTail e rest last _ v' _ h1 => exact ⟨σ1, by simp [run, h1, h], rfl, rfl⟩
  | argTail e rest acc _ v' _ h1 => exact ⟨σ1, by simp [run, h1, h], rfl, rfl⟩
  | callFn f args _ vs _ h1 => exact ⟨σ1, by simp [run, h1, h], rfl, rfl⟩
  | nativeRun k f l _ r _ h1 => exact ⟨σ1, by simp only [run, h1, h], rfl, rfl⟩
  | forListRun x l body _ r _ h1 => exact ⟨σ1, by simp only [run, h1, h], rfl, rfl⟩
  | genBody x gl pre yv rest tail body _ v' _ h1 => exact ⟨σ1, by simp [run, h1, h], rfl, rfl⟩
  | catchChain b cs _ v0 _ h1 => exact ⟨σ1, by simp [run, h1, h, catchWith], rfl, rfl⟩
  | catchBody ty x body rest v0 _ ha => exact ⟨σ1, by simp [run, ha, h], rfl, rfl⟩
  | catchSkip ty x body rest v0 _ ha => exact ⟨σ1, by simp [run, ha, h], rfl, rfl⟩
  | _ => exact ⟨σ1, by simp [run, h], rfl, rfl⟩

/-- `Path cfg P k n outer inner`: `k` links; `outer` runs with fuel `n + k`, `inner` with fuel `n`. -/
inductive Path (cfg : Cfg) (P : Prog) : Nat → Nat → Task × St → Task × St → Prop where
  | refl n x : Path cfg P 0 n x x
  | step k n a b c : Sub cfg P (n + k) a b → Path cfg P k n b c → Path cfg P (k + 1) n a c

theorem path_err_transparent_cfg (cfg : Cfg) (P : Prog) (k n : Nat) (a c : Task × St) (σ1 : St) (v : Val)
    (hp : Path cfg P k n a c) (h : run cfg P n c.1 c.2 = (.err v, σ1)) :
    ∃ σ2, run cfg P (n + k) a.1 a.2 = (.err v, σ2) ∧ σ2.heap = σ1.heap ∧ σ2.out = σ1.out := by
  induction hp with
  | refl n x => exact ⟨σ1, h, rfl, rfl⟩
  | step k n a b c hs _ ih =>
    obtain ⟨σ2, h2, hh, ho⟩ := ih h
    obtain ⟨σ3, h3, hh3, ho3⟩ := sub_err_transparent cfg P (n + k) a.1 b.1 a.2 b.2 σ2 v hs h2
    exact ⟨σ3, h3, hh3.trans hh, ho3.trans ho⟩

theorem path_err_transparent (P : Prog) (k n : Nat) (t t' : Task) (σ σ' σ1 : St) (v : Val)
    (hp : Path guide P k n (t, σ) (t', σ')) (h : run guide P n t' σ' = (.err v, σ1)) :
    ∃ σ2, run guide P (n + k) t σ = (.err v, σ2) ∧ σ2.heap = σ1.heap ∧ σ2.out = σ1.out :=
  path_err_transparent_cfg guide P k n (t, σ) (t', σ') σ1 v hp h

end KotoVerif.Try
