/-
Helper definitions and lemmas for `Props/C10.lean`: the *trivia-similarity* relation on token
lists, characterisation of every trivia-skipping loop of `Model/Cursor.lean` on a list of the shape
`gap ++ t :: rest` (gap = trivia tokens only, `t` significant), and closure of the relation under
the trivia edits.
-/
import KotoVerif.Model.Cursor

namespace KotoVerif.C10
open KotoVerif.Lexer KotoVerif.Cursor

/-! ### vocabulary -/

/-- all tokens of `g` are trivia (`Whitespace`, `NewLine`, `CommentSingle`, `CommentMulti`) -/
def AllTrivia (g : List Lexed) : Prop := ∀ t ∈ g, isTrivia t.tok = true

/-- all tokens of `g` are `is_whitespace()` tokens (trivia other than `NewLine`) -/
def AllWs (g : List Lexed) : Prop := ∀ t ∈ g, isWhitespace t.tok = true

/-- does the gap contain a `NewLine` token? -/
def hasNL : List Lexed → Bool
  | [] => false
  | t :: r => decide (t.tok = .newLine) || hasNL r

/-- A relation between the line numbers of the two token lists that preserves order. For a single
insertion it is the graph of `fun l => if l ≥ L then l + k else l`; deletions use the converse,
sequences of edits the composition. -/
def LineRel (ρ : Nat → Nat → Prop) : Prop :=
  ∀ a a' b b', ρ a a' → ρ b b' → (a < b ↔ a' < b')

/-- what the parser can observe of a token besides its text: kind, indent, and (up to the order
preserving relabelling `ρ`) the lines where it starts and ends -/
structure TokRel (ρ : Nat → Nat → Prop) (t t' : Lexed) : Prop where
  tok : t'.tok = t.tok
  indent : t'.indent = t.indent
  startLine : ρ t.span.start.line t'.span.start.line
  stopLine : ρ t.span.stop.line t'.span.stop.line

/-- the cursor's `current_token` as far as `current_indent()` / `current_line()` go -/
structure CurRel (ρ : Nat → Nat → Prop) (c c' : Lexed) : Prop where
  indent : c'.indent = c.indent
  stopLine : ρ c.span.stop.line c'.span.stop.line

theorem TokRel.cur {ρ t t'} (h : TokRel ρ t t') : CurRel ρ t t' := ⟨h.indent, h.stopLine⟩

/-- two gaps are interchangeable: either both contain a line break, or neither does and then they
consist of the same token kinds (edits are confined to line ends and whole lines) -/
structure GapRel (g g' : List Lexed) : Prop where
  nl : hasNL g' = hasNL g
  same : hasNL g = false → g'.map (·.tok) = g.map (·.tok)

/-- Trivia-similarity of two token lists: the same significant tokens (kind, indent, lines up to
`ρ`) separated by interchangeable gaps. -/
inductive Sim (ρ : Nat → Nat → Prop) : List Lexed → List Lexed → Prop
  | done {l l'} : AllTrivia l → AllTrivia l' → GapRel l l' → Sim ρ l l'
  | tok {l l' g g' t t' r r'} : l = g ++ t :: r → l' = g' ++ t' :: r' →
      AllTrivia g → AllTrivia g' → GapRel g g' → isTrivia t.tok = false → TokRel ρ t t' →
      Sim ρ r r' → Sim ρ l l'

/-! ### basic facts -/

theorem isTrivia_of_ws {t : Token} (h : isWhitespace t = true) : isTrivia t = true := by
  simp [isTrivia, h]

theorem isTrivia_newLine : isTrivia Token.newLine = true := by decide

theorem not_ws_of_sig {t : Token} (h : isTrivia t = false) : isWhitespace t = false := by
  cases hw : isWhitespace t
  · rfl
  · simp [isTrivia, hw] at h

theorem not_nl_of_sig {t : Token} (h : isTrivia t = false) : t ≠ .newLine := by
  intro e
  subst e
  simp [isTrivia_newLine] at h

theorem ws_or_nl_of_trivia {t : Token} (h : isTrivia t = true) : t = .newLine ∨ isWhitespace t = true := by
  cases hw : isWhitespace t
  · left
    simpa [isTrivia, hw] using h
  · right; rfl

theorem ws_ne_nl {t : Token} (h : isWhitespace t = true) : t ≠ .newLine := by
  intro e
  subst e
  revert h
  decide

theorem TokRel.sig {ρ t t'} (h : TokRel ρ t t') (hs : isTrivia t.tok = false) : isTrivia t'.tok = false := by
  rw [h.tok]; exact hs

theorem AllTrivia.nil : AllTrivia [] := by intro t h; cases h

theorem AllTrivia.cons {h : Lexed} {g} (hh : isTrivia h.tok = true) (hg : AllTrivia g) : AllTrivia (h :: g) := by
  intro t ht
  cases ht with
  | head => exact hh
  | tail _ ht => exact hg t ht

theorem AllTrivia.tail {h : Lexed} {g} (hg : AllTrivia (h :: g)) : AllTrivia g :=
  fun t ht => hg t (List.mem_cons_of_mem _ ht)

theorem AllTrivia.head {h : Lexed} {g} (hg : AllTrivia (h :: g)) : isTrivia h.tok = true :=
  hg h (List.mem_cons_self ..)

theorem AllTrivia.append {g g' : List Lexed} (h : AllTrivia g) (h' : AllTrivia g') : AllTrivia (g ++ g') := by
  intro t ht
  rcases List.mem_append.mp ht with ht | ht
  · exact h t ht
  · exact h' t ht

theorem AllWs.trivia {g} (h : AllWs g) : AllTrivia g := fun t ht => isTrivia_of_ws (h t ht)

theorem hasNL_append (a b : List Lexed) : hasNL (a ++ b) = (hasNL a || hasNL b) := by
  induction a with
  | nil => simp [hasNL]
  | cons h t ih => simp [hasNL, ih, Bool.or_assoc]

theorem hasNL_of_allWs {g} (h : AllWs g) : hasNL g = false := by
  induction g with
  | nil => rfl
  | cons x t ih =>
    have hx : x.tok ≠ .newLine := ws_ne_nl (h x (List.mem_cons_self ..))
    simp [hasNL, hx, ih (fun t ht => h t (List.mem_cons_of_mem _ ht))]

theorem GapRel.refl_kinds {g g' : List Lexed} (h : g'.map (·.tok) = g.map (·.tok)) : GapRel g g' := by
  constructor
  · induction g generalizing g' with
    | nil => cases g' <;> simp_all [hasNL]
    | cons x t ih =>
      cases g' with
      | nil => simp at h
      | cons x' t' =>
        simp only [List.map_cons, List.cons.injEq] at h
        simp [hasNL, h.1, ih h.2]
  · intro _; exact h

theorem GapRel.nil : GapRel [] [] := GapRel.refl_kinds rfl

theorem GapRel.of_nl {g g' : List Lexed} (h : hasNL g = true) (h' : hasNL g' = true) : GapRel g g' :=
  ⟨by rw [h, h'], by intro hf; rw [h] at hf; cases hf⟩

theorem GapRel.symm {g g'} (h : GapRel g g') : GapRel g' g :=
  ⟨h.nl.symm, fun hf => (h.same (by rw [← h.nl]; exact hf)).symm⟩

theorem GapRel.trans {a b c} (h : GapRel a b) (h' : GapRel b c) : GapRel a c :=
  ⟨h'.nl.trans h.nl, fun hf => (h'.same (by rw [h.nl]; exact hf)).trans (h.same hf)⟩

/-- a gap related to the empty gap is empty -/
theorem GapRel.eq_nil {g' : List Lexed} (h : GapRel [] g') : g' = [] := by
  have := h.same rfl
  simpa using this

/-- every token list is trailing trivia, or a gap followed by a significant token -/
theorem split_gap (l : List Lexed) :
    AllTrivia l ∨ ∃ g t r, l = g ++ t :: r ∧ AllTrivia g ∧ isTrivia t.tok = false := by
  induction l with
  | nil => exact Or.inl AllTrivia.nil
  | cons h tl ih =>
    cases hh : isTrivia h.tok with
    | false => exact Or.inr ⟨[], h, tl, rfl, AllTrivia.nil, hh⟩
    | true =>
      rcases ih with ih | ⟨g, t, r, e, hg, ht⟩
      · exact Or.inl (AllTrivia.cons hh ih)
      · exact Or.inr ⟨h :: g, t, r, by simp [e], AllTrivia.cons hh hg, ht⟩

/-! ### the loops on `gap ++ t :: rest` -/

theorem peekLoop_gap (ctx : Ctx) (si : Nat) (g : List Lexed) (t : Lexed) (r : List Lexed)
    (hg : AllTrivia g) (ht : isTrivia t.tok = false) (n : Nat) (sl : Bool) :
    peekLoop ctx si (g ++ t :: r) n sl = peekDecide ctx si t (n + g.length) (sl && !hasNL g) := by
  induction g generalizing n sl with
  | nil =>
    simp [peekLoop, hasNL, not_nl_of_sig ht, not_ws_of_sig ht]
  | cons h tl ih =>
    have hn : n + 1 + tl.length = n + (tl.length + 1) := by omega
    rcases ws_or_nl_of_trivia hg.head with e | e
    · simp [peekLoop, hasNL, e, ih hg.tail, hn]
    · have hne : h.tok ≠ .newLine := ws_ne_nl e
      simp [peekLoop, hasNL, hne, e, ih hg.tail, hn]

theorem peekLoop_trivia (ctx : Ctx) (si : Nat) (g : List Lexed) (hg : AllTrivia g) (n : Nat) (sl : Bool) :
    peekLoop ctx si g n sl = none := by
  induction g generalizing n sl with
  | nil => rfl
  | cons h tl ih =>
    rcases ws_or_nl_of_trivia hg.head with e | e
    · simp [peekLoop, e, ih hg.tail]
    · simp [peekLoop, ws_ne_nl e, e, ih hg.tail]

theorem consumeCtxLoop_gap (ctx : Ctx) (sl si : Nat) (g : List Lexed) (t : Lexed) (r : List Lexed)
    (hg : AllTrivia g) (ht : isTrivia t.tok = false) (cur : Lexed) :
    consumeCtxLoop ctx sl si cur (g ++ t :: r) =
      (some (t.tok, newContext ctx (decide (t.span.stop.line > sl)) t.indent si), ⟨t, r⟩) := by
  induction g generalizing cur with
  | nil => simp [consumeCtxLoop, ht]
  | cons h tl ih => simp [consumeCtxLoop, hg.head, ih hg.tail]

theorem consumeCtxLoop_trivia (ctx : Ctx) (sl si : Nat) (g : List Lexed) (hg : AllTrivia g) (cur : Lexed) :
    consumeCtxLoop ctx sl si cur g = (none, ⟨g.getLastD cur, []⟩) := by
  induction g generalizing cur with
  | nil => rfl
  | cons h tl ih =>
    simp only [consumeCtxLoop, hg.head, if_true, ih hg.tail]
    cases tl <;> simp [List.getLastD]

theorem consumeUntilCtxLoop_gap (ctx : Ctx) (sl si : Nat) (g : List Lexed) (t : Lexed) (r : List Lexed)
    (hg : AllTrivia g) (ht : isTrivia t.tok = false) (cur : Lexed) :
    consumeUntilCtxLoop ctx sl si cur (g ++ t :: r) =
      (some (newContext ctx (decide (t.span.start.line > sl)) t.indent si), ⟨g.getLastD cur, t :: r⟩) := by
  induction g generalizing cur with
  | nil => simp [consumeUntilCtxLoop, ht]
  | cons h tl ih =>
    simp only [List.cons_append, consumeUntilCtxLoop, hg.head, if_true, ih hg.tail]
    cases tl <;> simp [List.getLastD]

theorem consumeUntilCtxLoop_trivia (ctx : Ctx) (sl si : Nat) (g : List Lexed) (hg : AllTrivia g) (cur : Lexed) :
    consumeUntilCtxLoop ctx sl si cur g = (none, ⟨g.getLastD cur, []⟩) := by
  induction g generalizing cur with
  | nil => rfl
  | cons h tl ih =>
    simp only [consumeUntilCtxLoop, hg.head, if_true, ih hg.tail]
    cases tl <;> simp [List.getLastD]


/-! ### the `*_on_same_line` loops -/

theorem sameLineLoop_ws (g : List Lexed) (x : Lexed) (rest : List Lexed) (hg : AllWs g)
    (hx : isWhitespace x.tok = false) (n : Nat) :
    sameLineLoop (g ++ x :: rest) n = some (x, n + g.length) := by
  induction g generalizing n with
  | nil => simp [sameLineLoop, hx]
  | cons h tl ih =>
    have hn : n + 1 + tl.length = n + (tl.length + 1) := by omega
    simp [sameLineLoop, hg h (List.mem_cons_self ..), ih (fun t ht => hg t (List.mem_cons_of_mem _ ht)), hn]

theorem sameLineLoop_allWs (g : List Lexed) (hg : AllWs g) (n : Nat) : sameLineLoop g n = none := by
  induction g generalizing n with
  | nil => rfl
  | cons h tl ih =>
    simp [sameLineLoop, hg h (List.mem_cons_self ..), ih (fun t ht => hg t (List.mem_cons_of_mem _ ht))]

/-- a gap without a line break consists of `is_whitespace()` tokens -/
theorem allWs_of_noNL {g : List Lexed} (hg : AllTrivia g) (h : hasNL g = false) : AllWs g := by
  induction g with
  | nil => intro t ht; cases ht
  | cons x tl ih =>
    simp only [hasNL, Bool.or_eq_false_iff, decide_eq_false_iff_not] at h
    intro t ht
    cases ht with
    | head =>
      rcases ws_or_nl_of_trivia hg.head with e | e
      · exact absurd e h.1
      · exact e
    | tail _ ht => exact ih hg.tail h.2 t ht

/-- a gap with a line break: whitespace tokens, then the first `NewLine` -/
theorem split_at_nl {g : List Lexed} (hg : AllTrivia g) (h : hasNL g = true) :
    ∃ a x b, g = a ++ x :: b ∧ AllWs a ∧ x.tok = .newLine := by
  induction g with
  | nil => simp [hasNL] at h
  | cons y tl ih =>
    rcases ws_or_nl_of_trivia hg.head with e | e
    · exact ⟨[], y, tl, rfl, (by intro t ht; cases ht), e⟩
    · have hne : y.tok ≠ .newLine := ws_ne_nl e
      have h2 : hasNL tl = true := by simpa [hasNL, hne] using h
      obtain ⟨a, x, b, e1, ha, hx⟩ := ih hg.tail h2
      refine ⟨y :: a, x, b, by simp [e1], ?_, hx⟩
      intro t ht
      cases ht with
      | head => exact e
      | tail _ ht => exact ha t ht

theorem sameLineLoop_nl {g : List Lexed} (hg : AllTrivia g) (h : hasNL g = true) (rest : List Lexed) (n : Nat) :
    ∃ x k, sameLineLoop (g ++ rest) n = some (x, k) ∧ x.tok = .newLine := by
  obtain ⟨a, x, b, e, ha, hx⟩ := split_at_nl hg h
  refine ⟨x, n + a.length, ?_, hx⟩
  have hxw : isWhitespace x.tok = false := by rw [hx]; decide
  rw [e, List.append_assoc, List.cons_append]
  exact sameLineLoop_ws a x (b ++ rest) ha hxw n

theorem consumeSameLineLoop_ws (g : List Lexed) (x : Lexed) (rest : List Lexed) (hg : AllWs g)
    (hx : isWhitespace x.tok = false) (cur : Lexed) :
    consumeSameLineLoop cur (g ++ x :: rest) = (some x.tok, ⟨x, rest⟩) := by
  induction g generalizing cur with
  | nil => simp [consumeSameLineLoop, hx]
  | cons h tl ih =>
    simp [consumeSameLineLoop, hg h (List.mem_cons_self ..), ih (fun t ht => hg t (List.mem_cons_of_mem _ ht))]

theorem consumeSameLineLoop_allWs (g : List Lexed) (hg : AllWs g) (cur : Lexed) :
    (consumeSameLineLoop cur g).1 = none := by
  induction g generalizing cur with
  | nil => rfl
  | cons h tl ih =>
    simp [consumeSameLineLoop, hg h (List.mem_cons_self ..), ih (fun t ht => hg t (List.mem_cons_of_mem _ ht))]

theorem consumeUntilSameLineLoop_ws (g : List Lexed) (x : Lexed) (rest : List Lexed) (hg : AllWs g)
    (hx : isWhitespace x.tok = false) (cur : Lexed) :
    consumeUntilSameLineLoop cur (g ++ x :: rest) = ⟨g.getLastD cur, x :: rest⟩ := by
  induction g generalizing cur with
  | nil => simp [consumeUntilSameLineLoop, hx]
  | cons h tl ih =>
    simp only [List.cons_append, consumeUntilSameLineLoop, hg h (List.mem_cons_self ..), if_true,
      ih (fun t ht => hg t (List.mem_cons_of_mem _ ht))]
    cases tl <;> simp [List.getLastD]

/-! ### building `Sim` token by token -/

theorem Sim.cons_trivia {ρ} {h h' : Lexed} {l l'} (hh : isTrivia h.tok = true) (he : h'.tok = h.tok)
    (s : Sim ρ l l') : Sim ρ (h :: l) (h' :: l') := by
  have hh' : isTrivia h'.tok = true := by rw [he]; exact hh
  have gap : ∀ g g' : List Lexed, GapRel g g' → GapRel (h :: g) (h' :: g') := by
    intro g g' r
    refine ⟨by simp [hasNL, he, r.nl], ?_⟩
    intro hf
    simp only [hasNL, Bool.or_eq_false_iff] at hf
    simp [he, r.same hf.2]
  cases s with
  | done hl hl' r => exact Sim.done (AllTrivia.cons hh hl) (AllTrivia.cons hh' hl') (gap _ _ r)
  | tok e e' hg hg' r ht tr s =>
    exact Sim.tok (g := h :: _) (g' := h' :: _) (by simp [e]) (by simp [e'])
      (AllTrivia.cons hh hg) (AllTrivia.cons hh' hg') (gap _ _ r) ht tr s

theorem Sim.cons_sig {ρ} {t t' : Lexed} {r r'} (ht : isTrivia t.tok = false) (tr : TokRel ρ t t')
    (s : Sim ρ r r') : Sim ρ (t :: r) (t' :: r') :=
  Sim.tok (g := []) (g' := []) rfl rfl AllTrivia.nil AllTrivia.nil GapRel.nil ht tr s

theorem Sim.nil {ρ} : Sim ρ [] [] := Sim.done AllTrivia.nil AllTrivia.nil GapRel.nil

/-- the two lists have the same token kinds; significant tokens keep their indent and have their
lines related by `ρ`; bytes, columns and the bookkeeping of trivia tokens are free -/
inductive Moved (ρ : Nat → Nat → Prop) : List Lexed → List Lexed → Prop
  | nil : Moved ρ [] []
  | cons {t t' l l'} : t'.tok = t.tok → (isTrivia t.tok = false → TokRel ρ t t') → Moved ρ l l' →
      Moved ρ (t :: l) (t' :: l')

theorem Moved.sim {ρ l l'} (m : Moved ρ l l') : Sim ρ l l' := by
  induction m with
  | nil => exact Sim.nil
  | @cons t t' l l' he tr _ ih =>
    cases ht : isTrivia t.tok with
    | true => exact Sim.cons_trivia ht he ih
    | false => exact Sim.cons_sig ht (tr ht) ih

/-- the lines of the significant tokens of `pre` are fixed points of `ρ` -/
def Fixed (ρ : Nat → Nat → Prop) (pre : List Lexed) : Prop :=
  ∀ t ∈ pre, isTrivia t.tok = false → ρ t.span.start.line t.span.start.line ∧ ρ t.span.stop.line t.span.stop.line

theorem Sim.prefix {ρ pre l l'} (h : Fixed ρ pre) (s : Sim ρ l l') : Sim ρ (pre ++ l) (pre ++ l') := by
  induction pre with
  | nil => exact s
  | cons t p ih =>
    have hp : Fixed ρ p := fun x hx => h x (List.mem_cons_of_mem _ hx)
    cases hs : isTrivia t.tok with
    | true => exact Sim.cons_trivia hs rfl (ih hp)
    | false =>
      have ht := h t (List.mem_cons_self ..) hs
      exact Sim.cons_sig hs ⟨rfl, rfl, ht.1, ht.2⟩ (ih hp)

/-- replace the leading gap (which contains a line break on both sides) -/
theorem Sim.regap {ρ} {n n' : Lexed} {l l'} (ins ins' : List Lexed) (hn : n.tok = .newLine) (hn' : n'.tok = .newLine)
    (hi : AllTrivia ins) (hi' : AllTrivia ins') (s : Sim ρ l l') :
    Sim ρ (ins ++ n :: l) (ins' ++ n' :: l') := by
  have tn : isTrivia n.tok = true := by rw [hn]; exact isTrivia_newLine
  have tn' : isTrivia n'.tok = true := by rw [hn']; exact isTrivia_newLine
  have nl : ∀ (i : List Lexed) (m : Lexed) (g : List Lexed), m.tok = .newLine → hasNL (i ++ m :: g) = true := by
    intro i m g hm
    simp [hasNL_append, hasNL, hm]
  cases s with
  | done hl hl' r =>
    exact Sim.done (hi.append (AllTrivia.cons tn hl)) (hi'.append (AllTrivia.cons tn' hl'))
      (GapRel.of_nl (nl _ _ _ hn) (nl _ _ _ hn'))
  | @tok _ _ g g' t t' r r' e e' hg hg' _ ht tr s =>
    exact Sim.tok (g := ins ++ n :: g) (g' := ins' ++ n' :: g') (by simp [e]) (by simp [e'])
      (hi.append (AllTrivia.cons tn hg)) (hi'.append (AllTrivia.cons tn' hg'))
      (GapRel.of_nl (nl _ _ _ hn) (nl _ _ _ hn')) ht tr s

/-! ### `Sim` is symmetric and transitive (deletions, sequences of edits) -/

def conv (ρ : Nat → Nat → Prop) : Nat → Nat → Prop := fun a b => ρ b a
def comp (ρ σ : Nat → Nat → Prop) : Nat → Nat → Prop := fun a c => ∃ b, ρ a b ∧ σ b c

theorem LineRel.conv {ρ} (h : LineRel ρ) : LineRel (conv ρ) :=
  fun a a' b b' ha hb => (h a' a b' b ha hb).symm

theorem LineRel.comp {ρ σ} (h : LineRel ρ) (h' : LineRel σ) : LineRel (comp ρ σ) := by
  intro a a' b b' ⟨x, hax, hxa⟩ ⟨y, hby, hyb⟩
  exact (h a x b y hax hby).trans (h' x a' y b' hxa hyb)

theorem LineRel.eq_iff {ρ} (h : LineRel ρ) {a a' b b'} (ha : ρ a a') (hb : ρ b b') : a = b ↔ a' = b' := by
  have h1 := h a a' b b' ha hb
  have h2 := h b b' a a' hb ha
  omega

theorem TokRel.symm {ρ t t'} (h : TokRel ρ t t') : TokRel (conv ρ) t' t :=
  ⟨h.tok.symm, h.indent.symm, h.startLine, h.stopLine⟩

theorem Sim.symm {ρ l l'} (s : Sim ρ l l') : Sim (conv ρ) l' l := by
  induction s with
  | done hl hl' r => exact Sim.done hl' hl r.symm
  | tok e e' hg hg' r ht tr _ ih => exact Sim.tok e' e hg' hg r.symm (tr.sig ht) tr.symm ih


/-- insert trivia directly after a `NewLine` token -/
theorem Sim.after_nl {ρ} {n : Lexed} {l l'} (ins : List Lexed) (hn : n.tok = .newLine)
    (hi : AllTrivia ins) (s : Sim ρ l l') : Sim ρ (n :: l) (n :: ins ++ l') := by
  have tn : isTrivia n.tok = true := by rw [hn]; exact isTrivia_newLine
  have nl1 : ∀ g : List Lexed, hasNL (n :: g) = true := by intro g; simp [hasNL, hn]
  cases s with
  | done hl hl' r =>
    exact Sim.done (AllTrivia.cons tn hl) (AllTrivia.cons tn (hi.append hl')) (GapRel.of_nl (nl1 _) (nl1 _))
  | @tok _ _ g g' t t' r r' e e' hg hg' _ ht tr s =>
    exact Sim.tok (g := n :: g) (g' := n :: ins ++ g') (by simp [e]) (by simp [e'])
      (AllTrivia.cons tn hg) (AllTrivia.cons tn (hi.append hg')) (GapRel.of_nl (nl1 _) (nl1 _)) ht tr s

/-- decomposition into leading gap and first significant token is unique -/
theorem split_unique {g g' : List Lexed} {t t' : Lexed} {r r' : List Lexed}
    (e : g ++ t :: r = g' ++ t' :: r') (hg : AllTrivia g) (hg' : AllTrivia g')
    (ht : isTrivia t.tok = false) (ht' : isTrivia t'.tok = false) : g = g' ∧ t = t' ∧ r = r' := by
  induction g generalizing g' with
  | nil =>
    cases g' with
    | nil => simp at e; exact ⟨rfl, e.1, e.2⟩
    | cons h tl =>
      simp at e
      have := hg'.head
      rw [← e.1, ht] at this
      cases this
  | cons h tl ih =>
    cases g' with
    | nil =>
      simp at e
      have := hg.head
      rw [e.1, ht'] at this
      cases this
    | cons h' tl' =>
      simp at e
      obtain ⟨e1, e2, e3⟩ := ih e.2 hg.tail hg'.tail
      exact ⟨by rw [e.1, e1], e2, e3⟩

theorem not_allTrivia_split {g : List Lexed} {t : Lexed} {r : List Lexed}
    (h : AllTrivia (g ++ t :: r)) (ht : isTrivia t.tok = false) : False := by
  have := h t (by simp)
  rw [ht] at this
  cases this

theorem TokRel.trans {ρ σ a b c} (h : TokRel ρ a b) (h' : TokRel σ b c) : TokRel (comp ρ σ) a c :=
  ⟨h'.tok.trans h.tok, h'.indent.trans h.indent, ⟨_, h.startLine, h'.startLine⟩, ⟨_, h.stopLine, h'.stopLine⟩⟩

theorem Sim.trans {ρ σ a b c} (s : Sim ρ a b) (s' : Sim σ b c) : Sim (comp ρ σ) a c := by
  induction s generalizing c with
  | done hl hl' r =>
    cases s' with
    | done _ hc r' => exact Sim.done hl hc (r.trans r')
    | tok e _ _ _ _ ht _ _ => subst e; exact (not_allTrivia_split hl' ht).elim
  | tok e e' hg hg' r ht tr _ ih =>
    cases s' with
    | done hb _ _ => subst e'; exact (not_allTrivia_split hb (tr.sig ht)).elim
    | tok e2 e2' hg2 hg2' r2 ht2 tr2 s2 =>
      subst e'
      obtain ⟨e1, e3, e4⟩ := split_unique e2 hg' hg2 (tr.sig ht) ht2
      subst e1; subst e3; subst e4
      exact Sim.tok e e2' hg hg2' (r.trans r2) ht (tr.trans tr2) (ih s2)


/-! ### same-line family on whole gaps -/

theorem nl_not_ws {x : Lexed} (hx : x.tok = .newLine) : isWhitespace x.tok = false := by
  rw [hx]; decide

theorem sameLine_peek_nl {g : List Lexed} (hg : AllTrivia g) (h : hasNL g = true) (rest : List Lexed) :
    (sameLineLoop (g ++ rest) 0).map (·.1.tok) = some .newLine := by
  obtain ⟨x, k, e, hx⟩ := sameLineLoop_nl hg h rest 0
  simp [e, hx]

theorem sameLine_peek_ws {g : List Lexed} (hg : AllTrivia g) (h : hasNL g = false) (t : Lexed) (r : List Lexed)
    (ht : isTrivia t.tok = false) :
    sameLineLoop (g ++ t :: r) 0 = some (t, g.length) := by
  simpa using sameLineLoop_ws g t r (allWs_of_noNL hg h) (not_ws_of_sig ht) 0

theorem consumeSameLine_nl {g : List Lexed} (hg : AllTrivia g) (h : hasNL g = true) (rest : List Lexed) (cur : Lexed) :
    (consumeSameLineLoop cur (g ++ rest)).1 = some .newLine := by
  obtain ⟨a, x, b, e, ha, hx⟩ := split_at_nl hg h
  rw [e, List.append_assoc, List.cons_append, consumeSameLineLoop_ws a x (b ++ rest) ha (nl_not_ws hx) cur, hx]

theorem consumeUntilSameLine_nl {g : List Lexed} (hg : AllTrivia g) (h : hasNL g = true) (rest : List Lexed) (cur : Lexed) :
    (consumeUntilSameLineLoop cur (g ++ rest)).rest[0]?.map (·.tok) = some .newLine := by
  obtain ⟨a, x, b, e, ha, hx⟩ := split_at_nl hg h
  rw [e, List.append_assoc, List.cons_append, consumeUntilSameLineLoop_ws a x (b ++ rest) ha (nl_not_ws hx) cur]
  simp [hx]

theorem consumeUntilSameLineLoop_allWs (g : List Lexed) (hg : AllWs g) (cur : Lexed) :
    (consumeUntilSameLineLoop cur g).rest = [] := by
  induction g generalizing cur with
  | nil => rfl
  | cons h tl ih =>
    simp [consumeUntilSameLineLoop, hg h (List.mem_cons_self ..), ih (fun t ht => hg t (List.mem_cons_of_mem _ ht))]

/-- kinds of a no-line-break gap carry over to the related gap -/
theorem GapRel.allWs {g g' : List Lexed} (r : GapRel g g') (hg' : AllTrivia g') (h : hasNL g = false) : AllWs g' :=
  allWs_of_noNL hg' (by rw [r.nl]; exact h)

end KotoVerif.C10
