/-
C01 layer 5, loop layer: semantic correctness of `compileS` (`compileS_sem`). Expression parts are
discharged by the core's `compile_sem` (used as a black box); the statement-level proof is by
induction on the fuel of the reference evaluation. A loop iteration after the first runs in a
register file related to the environment by the frame at the *end* of the body, not by the frame the
loop was compiled in: `compileS_again` (the same code is emitted there) bridges the two.
-/
import KotoVerif.Lemmas.C01LoopStmt
import KotoVerif.Lemmas.C01Chain

namespace KotoVerif.Compile

/-! ## the result combinators -/

theorem Res.andThen_ok {α : Type} {r : Res (Sig × α)} {k : α → Res (Sig × α)} {sg : Sig} {a' : α}
    (h : r.andThen k = .ok (sg, a')) :
    (∃ a, r = .ok (.normal, a) ∧ k a = .ok (sg, a')) ∨ (sg ≠ .normal ∧ r = .ok (sg, a')) := by
  unfold Res.andThen at h
  split at h
  · rename_i a; exact Or.inl ⟨a, rfl, h⟩
  · rename_i hne
    subst h
    refine Or.inr ⟨?_, rfl⟩
    intro hs; subst hs; exact hne a' rfl

theorem Res.andThen_normal {α : Type} {r : Res (Sig × α)} {k : α → Res (Sig × α)} {a : α}
    (h : r = .ok (.normal, a)) : r.andThen k = k a := by
  subst h; rfl

theorem Res.andThen_abrupt {α : Type} {r : Res (Sig × α)} {k : α → Res (Sig × α)} {sg : Sig} {a : α}
    (h : r = .ok (sg, a)) (hs : sg ≠ .normal) : r.andThen k = .ok (sg, a) := by
  subst h
  cases sg with
  | normal => exact absurd rfl hs
  | brk => rfl
  | cont => rfl

theorem Res.andThen_err {α : Type} {r : Res (Sig × α)} {k : α → Res (Sig × α)} (h : r = .err) :
    r.andThen k = .err := by
  subst h; rfl

/-- a continuation that only completes normally changes nothing -/
theorem Res.andThen_id {α : Type} {r : Res (Sig × α)} {k : α → Res (Sig × α)}
    (hk : ∀ a, k a = .ok (.normal, a)) : r.andThen k = r := by
  unfold Res.andThen
  split
  · rw [hk]
  · rfl

theorem Res.loopNext_ok {α : Type} {r : Res (Sig × α)} {k : α → Res (Sig × α)} {sg : Sig} {a' : α}
    (h : r.loopNext k = .ok (sg, a')) :
    (sg = .normal ∧ r = .ok (.brk, a')) ∨ (∃ s a, s ≠ .brk ∧ r = .ok (s, a) ∧ k a = .ok (sg, a')) := by
  unfold Res.loopNext at h
  split at h
  · rename_i a
    simp only [Res.ok.injEq, Prod.mk.injEq] at h
    obtain ⟨rfl, rfl⟩ := h
    exact Or.inl ⟨rfl, rfl⟩
  · rename_i s a hne
    refine Or.inr ⟨s, a, ?_, rfl, h⟩
    intro hs; subst hs; exact hne rfl
  · rename_i h1 h2
    subst h
    cases sg with
    | brk => exact absurd rfl (h1 a')
    | normal => exact absurd rfl (h2 _ a')
    | cont => exact absurd rfl (h2 _ a')

theorem Res.loopNext_brk {α : Type} {r : Res (Sig × α)} {k : α → Res (Sig × α)} {a : α}
    (h : r = .ok (.brk, a)) : r.loopNext k = .ok (.normal, a) := by
  subst h; rfl

theorem Res.loopNext_go {α : Type} {r : Res (Sig × α)} {k : α → Res (Sig × α)} {s : Sig} {a : α}
    (h : r = .ok (s, a)) (hs : s ≠ .brk) : r.loopNext k = k a := by
  subst h
  cases s with
  | brk => exact absurd rfl hs
  | normal => rfl
  | cont => rfl

theorem Res.loopNext_err {α : Type} {r : Res (Sig × α)} {k : α → Res (Sig × α)} (h : r = .err) :
    r.loopNext k = .err := by
  subst h; rfl

variable {S : Sem}

/-! ## `execL`, one step at a time -/

theorem execL_base (n : Nat) (c : Code) (σ : Regs S) :
    execL S (n + 1) (.base c) σ =
      match exec S c σ with
      | some σ1 => .ok (.normal, σ1)
      | none => .err := rfl

theorem execL_seq (n : Nat) (a b : LCode) (σ : Regs S) :
    execL S (n + 1) (.seq a b) σ = (execL S n a σ).andThen (execL S n b) := rfl

theorem execL_ifElse (n : Nat) (r : Reg) (t e : LCode) (wj : Bool) (σ : Regs S) :
    execL S (n + 1) (.ifElse r t wj e) σ =
      if S.truthy (σ r) then
        (execL S n t σ).andThen (fun σ1 => if wj then .ok (.normal, σ1) else execL S n e σ1)
      else execL S n e σ := rfl

theorem execL_loop (n : Nat) (cond : Option (Code × Reg × Bool)) (body : LCode) (σ : Regs S) :
    execL S (n + 1) (.loop cond body) σ =
      match execCond S cond σ with
      | some (true, σ1) => (execL S n body σ1).loopNext (execL S n (.loop cond body))
      | some (false, σ1) => .ok (.normal, σ1)
      | none => .err := rfl

theorem execL_brk (n : Nat) (σ : Regs S) : execL S (n + 1) .brk σ = .ok (.brk, σ) := rfl
theorem execL_cont (n : Nat) (σ : Regs S) : execL S (n + 1) .cont σ = .ok (.cont, σ) := rfl

/-- more fuel does not change a result -/
theorem execL_mono : ∀ (n : Nat) (c : LCode) (σ : Regs S) (r : Sig × Regs S),
    execL S n c σ = .ok r → ∀ m, n ≤ m → execL S m c σ = .ok r := by
  intro n
  induction n with
  | zero => intro c σ r h; simp [execL] at h
  | succ n ih =>
    intro c σ r h m hm
    obtain ⟨m, rfl⟩ : ∃ m', m = m' + 1 := ⟨m - 1, by omega⟩
    have hm' : n ≤ m := by omega
    obtain ⟨sg, σ'⟩ := r
    cases c with
    | base c => rw [execL_base] at h ⊢; exact h
    | brk => rw [execL_brk] at h ⊢; exact h
    | cont => rw [execL_cont] at h ⊢; exact h
    | seq a b =>
      rw [execL_seq] at h ⊢
      rcases Res.andThen_ok h with ⟨σ1, h1, h2⟩ | ⟨hne, h1⟩
      · rw [Res.andThen_normal (ih a σ _ h1 m hm')]; exact ih b σ1 _ h2 m hm'
      · rw [Res.andThen_abrupt (ih a σ _ h1 m hm') hne]
    | ifElse r t wj e =>
      rw [execL_ifElse] at h ⊢
      by_cases htr : S.truthy (σ r) = true
      · simp only [htr, if_true] at h ⊢
        rcases Res.andThen_ok h with ⟨σ1, h1, h2⟩ | ⟨hne, h1⟩
        · rw [Res.andThen_normal (ih t σ _ h1 m hm')]
          cases wj with
          | true => simpa using h2
          | false => simp only [Bool.false_eq_true, if_false] at h2 ⊢; exact ih e σ1 _ h2 m hm'
        · rw [Res.andThen_abrupt (ih t σ _ h1 m hm') hne]
      · simp only [htr, Bool.false_eq_true, if_false] at h ⊢
        exact ih e σ _ h m hm'
    | loop cond body =>
      rw [execL_loop] at h ⊢
      cases hcnd : execCond S cond σ with
      | none => simp [hcnd] at h
      | some p =>
        obtain ⟨go, σ1⟩ := p
        cases go with
        | false => simp only [hcnd] at h ⊢; exact h
        | true =>
          simp only [hcnd] at h ⊢
          rcases Res.loopNext_ok h with ⟨rfl, h1⟩ | ⟨s, σ2, hs, h1, h2⟩
          · rw [Res.loopNext_brk (ih body σ1 _ h1 m hm')]
          · rw [Res.loopNext_go (ih body σ1 _ h1 m hm') hs]
            exact ih _ σ2 _ h2 m hm'

theorem execL_base_ok {c : Code} {σ σ1 : Regs S} (h : exec S c σ = some σ1) (n : Nat) :
    execL S (n + 1) (.base c) σ = .ok (.normal, σ1) := by
  rw [execL_base, h]

/-- `cc ; X` where the condition code `cc` runs to `σ1` -/
theorem execL_seq_base {cc : Code} {σ σ1 : Regs S} (h : exec S cc σ = some σ1) (n : Nat) (X : LCode) :
    execL S (n + 2) (.seq (.base cc) X) σ = execL S (n + 1) X σ1 := by
  rw [execL_seq, Res.andThen_normal (execL_base_ok h n)]

/-! ## conditions and loop headers (the core's `compile_sem` as a black box) -/

/-- live temporaries of `F` are not disturbed -/
def KeepTemps (F : Frame) (σ σ' : Regs S) : Prop := ∀ t, F.tb ≤ t → t < F.tb + F.tc → σ' t = σ t

theorem KeepTemps.refl (F : Frame) (σ : Regs S) : KeepTemps F σ σ := fun _ _ _ => rfl

theorem KeepTemps.trans {F F1 : Frame} {σ σ1 σ2 : Regs S} (h1 : KeepTemps F σ σ1) (h2 : KeepTemps F1 σ1 σ2)
    (sf : SF F F1) : KeepTemps F σ σ2 := by
  intro t a b
  rw [h2 t (by rw [sf.le.tb]; exact a) (by rw [sf.le.tb, sf.tc]; exact b), h1 t a b]

theorem sem_cond {c : Expr} {F F1 : Frame} {cc : Code} {rc : Reg}
    (h : compileCond c F = some (cc, rc, F1)) (hw : WF F) (hs : safe [] none c = true)
    {σ : Regs S} {ρ ρ1 : Env S} {v : S.V} (hrel : RelEx [] F σ ρ) (hev : eval S c ρ = some (v, ρ1)) :
    ∃ σ1, exec S cc σ = some σ1 ∧ RelEx [] F1 σ1 ρ1 ∧ σ1 rc = v ∧ KeepTemps F σ σ1 := by
  simp only [compileCond, bind, Option.bind_eq_some_iff, Prod.exists, pure, Option.some.injEq, Prod.mk.injEq] at h
  obtain ⟨cc', oc, F0, hc, rc', hrc, F2, hp, rfl, rfl, rfl⟩ := h
  obtain ⟨σ1, h1, h2, h3, h4⟩ := compile_sem c .any F cc' oc F0 [] none hc hw trivial hs σ ρ ρ1 v hrel hev
  obtain ⟨p1, p2, _⟩ := popIf_spec hp
  exact ⟨σ1, h1, RelEx.frame h2 (FrameLe.of_locals_eq p1 p2), h3 _ hrc, fun t a b => h4 t a b (by simp)⟩

theorem safeS_loop_body {cond : Option (Expr × Bool)} {b : Stmt} (h : safeS (.loop cond b) = true) :
    safeS b = true := by
  cases cond with
  | none => simpa [safeS] using h
  | some p => obtain ⟨c, neg⟩ := p; simp only [safeS, Bool.and_eq_true] at h; exact h.2

theorem sem_hdr {cond : Option (Expr × Bool)} {F F1 : Frame} {hdr : Option (Code × Reg × Bool)}
    (h : compileHdr cond F = some (hdr, F1)) (hw : WF F) {b : Stmt} (hs : safeS (.loop cond b) = true)
    {σ : Regs S} {ρ ρ1 : Env S} {go : Bool} (hrel : RelEx [] F σ ρ) (hev : evalCond S cond ρ = some (go, ρ1)) :
    ∃ σ1, execCond S hdr σ = some (go, σ1) ∧ RelEx [] F1 σ1 ρ1 ∧ KeepTemps F σ σ1 := by
  cases cond with
  | none =>
    simp [compileHdr] at h; obtain ⟨rfl, rfl⟩ := h
    simp [evalCond] at hev; obtain ⟨rfl, rfl⟩ := hev
    exact ⟨σ, rfl, hrel, KeepTemps.refl _ _⟩
  | some p =>
    obtain ⟨c, neg⟩ := p
    simp only [compileHdr, bind, Option.bind_eq_some_iff, Prod.exists, pure, Option.some.injEq, Prod.mk.injEq] at h
    obtain ⟨cc, rc, F2, hc, rfl, rfl⟩ := h
    simp only [safeS, Bool.and_eq_true] at hs
    simp only [evalCond] at hev
    cases hv : eval S c ρ with
    | none => simp [hv] at hev
    | some q =>
      obtain ⟨v, ρ2⟩ := q
      simp only [hv, Option.some.injEq, Prod.mk.injEq] at hev
      obtain ⟨rfl, rfl⟩ := hev
      obtain ⟨σ1, x1, x2, x3, x4⟩ := sem_cond hc hw hs.1 hrel hv
      exact ⟨σ1, by simp [execCond, x1, x3], x2, x4⟩

/-! ## the statement compiler is correct -/

theorem compileS_sem : ∀ (n : Nat) (s : Stmt) (il : Bool) (F : Frame) (code : LCode) (F' : Frame),
    compileS s il F = some (code, F') → WF F → NoRes F → safeS s = true →
    ∀ (σ : Regs S) (ρ ρ' : Env S) (sig : Sig), RelEx [] F σ ρ → evalS S n s ρ = .ok (sig, ρ') →
    ∃ n' σ', execL S n' code σ = .ok (sig, σ') ∧ RelEx [] F' σ' ρ' ∧ KeepTemps F σ σ' := by
  intro n
  induction n with
  | zero => intro s il F code F' _ _ _ _ σ ρ ρ' sig _ hev; simp [evalS] at hev
  | succ n ih =>
    intro s il F code F' hc hw hn hs σ ρ ρ' sig hrel hev
    have sf := compileS_frame s il F code F' hc hw
    cases s with
    | expr e =>
      simp only [compileS, bind, Option.bind_eq_some_iff, Prod.exists, pure, Option.some.injEq, Prod.mk.injEq] at hc
      obtain ⟨c, o, F1, hce, rfl, rfl⟩ := hc
      simp only [safeS] at hs
      simp only [evalS] at hev
      cases he : eval S e ρ with
      | none => simp [he] at hev
      | some p =>
        obtain ⟨v, ρ1⟩ := p
        simp only [he, Res.ok.injEq, Prod.mk.injEq] at hev
        obtain ⟨rfl, rfl⟩ := hev
        obtain ⟨σ1, h1, h2, _, h4⟩ := compile_sem e .none F c o F1 [] none hce hw trivial hs σ ρ ρ1 v hrel he
        exact ⟨1, σ1, execL_base_ok h1 0, h2, fun t a b => h4 t a b (by simp)⟩
    | brk =>
      simp only [compileS] at hc
      split at hc
      · simp at hc; obtain ⟨rfl, rfl⟩ := hc
        simp only [evalS, Res.ok.injEq, Prod.mk.injEq] at hev
        obtain ⟨rfl, rfl⟩ := hev
        exact ⟨1, σ, rfl, hrel, KeepTemps.refl _ _⟩
      · cases hc
    | cont =>
      simp only [compileS] at hc
      split at hc
      · simp at hc; obtain ⟨rfl, rfl⟩ := hc
        simp only [evalS, Res.ok.injEq, Prod.mk.injEq] at hev
        obtain ⟨rfl, rfl⟩ := hev
        exact ⟨1, σ, rfl, hrel, KeepTemps.refl _ _⟩
      · cases hc
    | seq a b =>
      simp only [compileS, bind, Option.bind_eq_some_iff, Prod.exists, pure, Option.some.injEq, Prod.mk.injEq] at hc
      obtain ⟨ca, F1, ha, cb, F2, hb, rfl, rfl⟩ := hc
      simp only [safeS, Bool.and_eq_true] at hs
      simp only [evalS] at hev
      have fa := compileS_frame a il F ca F1 ha hw
      have fb := compileS_frame b il F1 cb F2 hb fa.wf
      rcases Res.andThen_ok hev with ⟨ρ1, h1, h2⟩ | ⟨hne, h1⟩
      · obtain ⟨n1, σ1, e1, r1, k1⟩ := ih a il F ca F1 ha hw hn hs.1 σ ρ ρ1 .normal hrel h1
        obtain ⟨n2, σ2, e2, r2, k2⟩ := ih b il F1 cb F2 hb fa.wf (fa.noRes hn) hs.2 σ1 ρ1 ρ' sig r1 h2
        refine ⟨max n1 n2 + 1, σ2, ?_, r2, k1.trans k2 fa⟩
        rw [execL_seq, Res.andThen_normal (execL_mono _ _ _ _ e1 _ (Nat.le_max_left _ _))]
        exact execL_mono _ _ _ _ e2 _ (Nat.le_max_right _ _)
      · obtain ⟨n1, σ1, e1, r1, k1⟩ := ih a il F ca F1 ha hw hn hs.1 σ ρ ρ' sig hrel h1
        exact ⟨n1 + 1, σ1, by rw [execL_seq, Res.andThen_abrupt e1 hne], r1.frame fb.le, k1⟩
    | ite c t e =>
      simp only [compileS, bind, Option.bind_eq_some_iff, Prod.exists, pure, Option.some.injEq, Prod.mk.injEq] at hc
      obtain ⟨cc, rc, F1, hcc, ct, F2, ht, ce, F3, he, rfl, rfl⟩ := hc
      simp only [safeS, Bool.and_eq_true] at hs
      simp only [evalS] at hev
      have fc := compileCond_frame hcc hw
      have ft := compileS_frame t il F1 ct F2 ht fc.wf
      have fe := compileS_frame e il F2 ce F3 he ft.wf
      cases hv : eval S c ρ with
      | none => simp [hv] at hev
      | some p =>
        obtain ⟨v, ρ1⟩ := p
        simp only [hv] at hev
        obtain ⟨σ1, x1, x2, x3, x4⟩ := sem_cond hcc hw hs.1.1 hrel hv
        by_cases htr : S.truthy v = true
        · simp only [htr, if_true] at hev
          obtain ⟨n1, σ2, e1, r1, k1⟩ := ih t il F1 ct F2 ht fc.wf (fc.noRes hn) hs.1.2 σ1 ρ1 ρ' sig x2 hev
          refine ⟨n1 + 2, σ2, ?_, r1.frame fe.le, x4.trans k1 fc⟩
          rw [execL_seq_base x1, execL_ifElse, x3]
          simp only [htr, if_true]
          rw [e1]
          exact Res.andThen_id (fun _ => rfl)
        · simp only [htr, Bool.false_eq_true, if_false] at hev
          have r1' : RelEx [] F2 σ1 ρ1 := x2.frame ft.le
          obtain ⟨n1, σ2, e1, r1, k1⟩ := ih e il F2 ce F3 he ft.wf (ft.noRes (fc.noRes hn)) hs.2 σ1 ρ1 ρ' sig r1' hev
          refine ⟨n1 + 2, σ2, ?_, r1, x4.trans k1 (fc.trans ft)⟩
          rw [execL_seq_base x1, execL_ifElse, x3]
          simp only [htr, Bool.false_eq_true, if_false]
          exact e1
    | ifThen c t =>
      simp only [compileS, bind, Option.bind_eq_some_iff, Prod.exists, pure, Option.some.injEq, Prod.mk.injEq] at hc
      obtain ⟨cc, rc, F1, hcc, ct, F2, ht, rfl, rfl⟩ := hc
      simp only [safeS, Bool.and_eq_true] at hs
      simp only [evalS] at hev
      have fc := compileCond_frame hcc hw
      have ft := compileS_frame t il F1 ct F2 ht fc.wf
      cases hv : eval S c ρ with
      | none => simp [hv] at hev
      | some p =>
        obtain ⟨v, ρ1⟩ := p
        simp only [hv] at hev
        obtain ⟨σ1, x1, x2, x3, x4⟩ := sem_cond hcc hw hs.1 hrel hv
        by_cases htr : S.truthy v = true
        · simp only [htr, if_true] at hev
          obtain ⟨n1, σ2, e1, r1, k1⟩ := ih t il F1 ct F2 ht fc.wf (fc.noRes hn) hs.2 σ1 ρ1 ρ' sig x2 hev
          refine ⟨n1 + 1 + 2, σ2, ?_, r1, x4.trans k1 fc⟩
          rw [execL_seq_base x1, execL_ifElse, x3]
          simp only [htr, if_true, Bool.false_eq_true, if_false]
          rw [execL_mono _ _ _ _ e1 (n1 + 1) (Nat.le_succ _)]
          exact Res.andThen_id (fun _ => rfl)
        · simp only [htr, Bool.false_eq_true, if_false, Res.ok.injEq, Prod.mk.injEq] at hev
          obtain ⟨rfl, rfl⟩ := hev
          refine ⟨3, σ1, ?_, x2.frame ft.le, x4⟩
          rw [execL_seq_base x1, execL_ifElse, x3]
          simp only [htr, Bool.false_eq_true, if_false]
          rfl
    | loop cond b =>
      have hc' := hc
      simp only [compileS, bind, Option.bind_eq_some_iff, Prod.exists, pure, Option.some.injEq, Prod.mk.injEq] at hc
      obtain ⟨hdr, F1, hh, cb, F2, hb, rfl, rfl⟩ := hc
      simp only [evalS] at hev
      have fh := compileHdr_frame hh hw
      have fb := compileS_frame b true F1 cb F2 hb fh.wf
      cases hcnd : evalCond S cond ρ with
      | none => simp [hcnd] at hev
      | some p =>
        obtain ⟨go, ρ1⟩ := p
        obtain ⟨σ1, x1, x2, x4⟩ := sem_hdr hh hw hs hrel hcnd
        cases go with
        | false =>
          simp only [hcnd, Res.ok.injEq, Prod.mk.injEq] at hev
          obtain ⟨rfl, rfl⟩ := hev
          exact ⟨1, σ1, by rw [execL_loop, x1], x2.frame fb.le, x4⟩
        | true =>
          simp only [hcnd] at hev
          rcases Res.loopNext_ok hev with ⟨rfl, h1⟩ | ⟨sg, ρ2, hsg, h1, h2⟩
          · obtain ⟨n1, σ2, e1, r1, k1⟩ :=
              ih b true F1 cb F2 hb fh.wf (fh.noRes hn) (safeS_loop_body hs) σ1 ρ1 ρ' .brk x2 h1
            exact ⟨n1 + 1, σ2, by rw [execL_loop, x1]; exact Res.loopNext_brk e1, r1, x4.trans k1 fh⟩
          · obtain ⟨n1, σ2, e1, r1, k1⟩ :=
              ih b true F1 cb F2 hb fh.wf (fh.noRes hn) (safeS_loop_body hs) σ1 ρ1 ρ2 sg x2 h1
            -- the next iteration: the loop, recompiled in the frame at the end of the body
            obtain ⟨G', hcG, gs, gt⟩ := compileS_again hc' hw hn
            obtain ⟨n2, σ3, e2, r2, k2⟩ :=
              ih (.loop cond b) il F2 (.loop hdr cb) G' hcG sf.wf (sf.noRes hn) hs σ2 ρ2 ρ' sig r1 h2
            refine ⟨max n1 n2 + 1, σ3, ?_, r2.frame (FrameLe.of_locals_eq gs.1.symm gs.2.symm),
              (x4.trans k1 fh).trans k2 sf⟩
            rw [execL_loop, x1]
            simp only
            rw [Res.loopNext_go (execL_mono _ _ _ _ e1 _ (Nat.le_max_left _ _)) hsg]
            exact execL_mono _ _ _ _ e2 _ (Nat.le_max_right _ _)

/-- outside of a loop a statement that compiles cannot end with a pending `break` / `continue` -/
theorem evalS_top_normal : ∀ (n : Nat) (s : Stmt) (F : Frame) (code : LCode) (F' : Frame),
    compileS s false F = some (code, F') →
    ∀ (ρ ρ' : Env S) (sig : Sig), evalS S n s ρ = .ok (sig, ρ') → sig = .normal := by
  intro n
  induction n with
  | zero => intro s F code F' _ ρ ρ' sig hev; simp [evalS] at hev
  | succ n ih =>
    intro s F code F' hc ρ ρ' sig hev
    cases s with
    | expr e =>
      simp only [evalS] at hev
      cases he : eval S e ρ with
      | none => simp [he] at hev
      | some p => simp only [he, Res.ok.injEq, Prod.mk.injEq] at hev; exact hev.1.symm
    | brk => simp [compileS] at hc
    | cont => simp [compileS] at hc
    | seq a b =>
      simp only [compileS, bind, Option.bind_eq_some_iff, Prod.exists, pure, Option.some.injEq, Prod.mk.injEq] at hc
      obtain ⟨ca, F1, ha, cb, F2, hb, _, _⟩ := hc
      simp only [evalS] at hev
      rcases Res.andThen_ok hev with ⟨ρ1, _, h2⟩ | ⟨hne, h1⟩
      · exact ih b F1 cb F2 hb ρ1 ρ' sig h2
      · exact absurd (ih a F ca F1 ha ρ ρ' sig h1) hne
    | ite c t e =>
      simp only [compileS, bind, Option.bind_eq_some_iff, Prod.exists, pure, Option.some.injEq, Prod.mk.injEq] at hc
      obtain ⟨cc, rc, F1, _, ct, F2, ht, ce, F3, he, _, _⟩ := hc
      simp only [evalS] at hev
      cases hv : eval S c ρ with
      | none => simp [hv] at hev
      | some p =>
        obtain ⟨v, ρ1⟩ := p
        simp only [hv] at hev
        split at hev
        · exact ih t F1 ct F2 ht ρ1 ρ' sig hev
        · exact ih e F2 ce F3 he ρ1 ρ' sig hev
    | ifThen c t =>
      simp only [compileS, bind, Option.bind_eq_some_iff, Prod.exists, pure, Option.some.injEq, Prod.mk.injEq] at hc
      obtain ⟨cc, rc, F1, _, ct, F2, ht, _, _⟩ := hc
      simp only [evalS] at hev
      cases hv : eval S c ρ with
      | none => simp [hv] at hev
      | some p =>
        obtain ⟨v, ρ1⟩ := p
        simp only [hv] at hev
        split at hev
        · exact ih t F1 ct F2 ht ρ1 ρ' sig hev
        · simp only [Res.ok.injEq, Prod.mk.injEq] at hev; exact hev.1.symm
    | loop cond b =>
      simp only [evalS] at hev
      cases hcnd : evalCond S cond ρ with
      | none => simp [hcnd] at hev
      | some p =>
        obtain ⟨go, ρ1⟩ := p
        cases go with
        | false => simp only [hcnd, Res.ok.injEq, Prod.mk.injEq] at hev; exact hev.1.symm
        | true =>
          simp only [hcnd] at hev
          rcases Res.loopNext_ok hev with ⟨rfl, _⟩ | ⟨sg, ρ2, _, _, h2⟩
          · rfl
          · exact ih _ F code F' hc ρ2 ρ' sig h2

/-! ## `evalS`, one step at a time; fuel monotonicity -/

theorem evalS_expr (n : Nat) (e : Expr) (ρ : Env S) :
    evalS S (n + 1) (.expr e) ρ =
      match eval S e ρ with
      | some (_, ρ1) => .ok (.normal, ρ1)
      | none => .err := rfl

theorem evalS_seq (n : Nat) (a b : Stmt) (ρ : Env S) :
    evalS S (n + 1) (.seq a b) ρ = (evalS S n a ρ).andThen (evalS S n b) := rfl

theorem evalS_ite (n : Nat) (c : Expr) (t e : Stmt) (ρ : Env S) :
    evalS S (n + 1) (.ite c t e) ρ =
      match eval S c ρ with
      | some (v, ρ1) => if S.truthy v then evalS S n t ρ1 else evalS S n e ρ1
      | none => .err := rfl

theorem evalS_ifThen (n : Nat) (c : Expr) (t : Stmt) (ρ : Env S) :
    evalS S (n + 1) (.ifThen c t) ρ =
      match eval S c ρ with
      | some (v, ρ1) => if S.truthy v then evalS S n t ρ1 else .ok (.normal, ρ1)
      | none => .err := rfl

theorem evalS_loop (n : Nat) (cond : Option (Expr × Bool)) (b : Stmt) (ρ : Env S) :
    evalS S (n + 1) (.loop cond b) ρ =
      match evalCond S cond ρ with
      | some (true, ρ1) => (evalS S n b ρ1).loopNext (evalS S n (.loop cond b))
      | some (false, ρ1) => .ok (.normal, ρ1)
      | none => .err := rfl

theorem evalS_brk (n : Nat) (ρ : Env S) : evalS S (n + 1) .brk ρ = .ok (.brk, ρ) := rfl
theorem evalS_cont (n : Nat) (ρ : Env S) : evalS S (n + 1) .cont ρ = .ok (.cont, ρ) := rfl

/-- more fuel does not change a result of the reference evaluation -/
theorem evalS_mono : ∀ (n : Nat) (s : Stmt) (ρ : Env S) (r : Sig × Env S),
    evalS S n s ρ = .ok r → ∀ m, n ≤ m → evalS S m s ρ = .ok r := by
  intro n
  induction n with
  | zero => intro s ρ r h; simp [evalS] at h
  | succ n ih =>
    intro s ρ r h m hm
    obtain ⟨m, rfl⟩ : ∃ m', m = m' + 1 := ⟨m - 1, by omega⟩
    have hm' : n ≤ m := by omega
    obtain ⟨sg, ρ'⟩ := r
    cases s with
    | expr e => rw [evalS_expr] at h ⊢; exact h
    | brk => rw [evalS_brk] at h ⊢; exact h
    | cont => rw [evalS_cont] at h ⊢; exact h
    | seq a b =>
      rw [evalS_seq] at h ⊢
      rcases Res.andThen_ok h with ⟨ρ1, h1, h2⟩ | ⟨hne, h1⟩
      · rw [Res.andThen_normal (ih a ρ _ h1 m hm')]; exact ih b ρ1 _ h2 m hm'
      · rw [Res.andThen_abrupt (ih a ρ _ h1 m hm') hne]
    | ite c t e =>
      rw [evalS_ite] at h ⊢
      cases hv : eval S c ρ with
      | none => simp [hv] at h
      | some p =>
        obtain ⟨v, ρ1⟩ := p
        simp only [hv] at h ⊢
        by_cases htr : S.truthy v = true
        · simp only [htr, if_true] at h ⊢; exact ih t ρ1 _ h m hm'
        · simp only [htr, Bool.false_eq_true, if_false] at h ⊢; exact ih e ρ1 _ h m hm'
    | ifThen c t =>
      rw [evalS_ifThen] at h ⊢
      cases hv : eval S c ρ with
      | none => simp [hv] at h
      | some p =>
        obtain ⟨v, ρ1⟩ := p
        simp only [hv] at h ⊢
        by_cases htr : S.truthy v = true
        · simp only [htr, if_true] at h ⊢; exact ih t ρ1 _ h m hm'
        · simp only [htr, Bool.false_eq_true, if_false] at h ⊢; exact h
    | loop cond b =>
      rw [evalS_loop] at h ⊢
      cases hcnd : evalCond S cond ρ with
      | none => simp [hcnd] at h
      | some p =>
        obtain ⟨go, ρ1⟩ := p
        cases go with
        | false => simp only [hcnd] at h ⊢; exact h
        | true =>
          simp only [hcnd] at h ⊢
          rcases Res.loopNext_ok h with ⟨rfl, h1⟩ | ⟨s, ρ2, hs, h1, h2⟩
          · rw [Res.loopNext_brk (ih b ρ1 _ h1 m hm')]
          · rw [Res.loopNext_go (ih b ρ1 _ h1 m hm') hs]
            exact ih _ ρ2 _ h2 m hm'

end KotoVerif.Compile
