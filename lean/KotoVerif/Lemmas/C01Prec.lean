/-
Helper lemmas about `Model/Prec.lean` used by `Props/C01.lean`: more fuel never changes a parse,
and the generalised round-trip statement `roundtrip_gen` (proved by structural induction on the
operator tree; the table enters only through `lp_pos`/`rp_pos`, so it holds for every table with
positive priorities — in particular for whatever `translators/prec_table.py` generates next).
-/
import KotoVerif.Model.Prec

namespace KotoVerif.C01
open KotoVerif.Prec KotoVerif.Gen

/-- every operator has positive priorities (a fact about the generated table) -/
theorem lp_pos (o : OpTok) : 1 ≤ lp o := by cases o <;> decide
theorem rp_pos (o : OpTok) : 1 ≤ rp o := by cases o <;> decide

/-! ### more fuel never changes a successful parse -/

def Le1 (f g : List Tok → PResult) : Prop := ∀ ts r, f ts = some r → g ts = some r
def Le2 (f g : Nat → List Tok → PResult) : Prop := ∀ m ts r, f m ts = some r → g m ts = some r
def Le3 (f g : Nat → OpTree → List Tok → PResult) : Prop :=
  ∀ m l ts r, f m l ts = some r → g m l ts = some r

theorem termStep_mono {pT pT' pS pS'} (hT : Le1 pT pT') (hS : Le2 pS pS') :
    Le1 (termStep pT pS) (termStep pT' pS') := by
  intro ts r h
  unfold termStep at h ⊢
  split at h
  · simpa using h
  · simpa using h
  · simpa using h
  · split at h
    · rename_i hh; simp [hT _ _ hh]; simpa using h
    · simp at h
  · split at h
    · rename_i hh; simp [hS _ _ _ hh]; simpa using h
    · simp at h
  · split at h
    · rename_i hh; simp [hS _ _ _ hh]; simpa using h
    · simp at h
  · simp at h

theorem startStep_mono {pT pT' pC pC'} (hT : Le1 pT pT') (hC : Le3 pC pC') (m : Nat) :
    Le1 (startStep pT pC m) (startStep pT' pC' m) := by
  intro ts r h
  unfold startStep at h ⊢
  split at h
  · rename_i hh; simp [hT _ _ hh]; exact hC _ _ _ _ h
  · simp at h

theorem contStep_mono {pS pS' pC pC'} (hS : Le2 pS pS') (hC : Le3 pC pC') (m : Nat) (l : OpTree) :
    Le1 (contStep pS pC m l) (contStep pS' pC' m l) := by
  intro ts r h
  unfold contStep at h ⊢
  split at h
  · split at h
    · split at h
      · rename_i hh; simp [hS _ _ _ hh]; simpa using h
      · simp at h
    · simp at h
  · split at h
    · split at h
      · rename_i hh; simp [*, hS _ _ _ hh]; exact hC _ _ _ _ h
      · simp at h
    · simp_all; intro hle; omega
  · simp_all

theorem parse_mono_succ : ∀ n,
    Le1 (parseTerm n) (parseTerm (n + 1)) ∧ Le2 (parseStart n) (parseStart (n + 1))
    ∧ Le3 (parseCont n) (parseCont (n + 1)) := by
  intro n
  induction n with
  | zero =>
    refine ⟨?_, ?_, ?_⟩
    · intro ts r h; simp [parseTerm] at h
    · intro m ts r h; simp [parseStart] at h
    · intro m l ts r h; simp [parseCont] at h
  | succ n ih =>
    obtain ⟨ihT, ihS, ihC⟩ := ih
    refine ⟨?_, ?_, ?_⟩
    · intro ts r h
      rw [parseTerm] at h ⊢
      exact termStep_mono ihT ihS ts r h
    · intro m ts r h
      rw [parseStart] at h ⊢
      exact startStep_mono ihT ihC m ts r h
    · intro m l ts r h
      rw [parseCont] at h ⊢
      exact contStep_mono ihS ihC m l ts r h

theorem parseTerm_mono {n N : Nat} (h : n ≤ N) {ts r} (hp : parseTerm n ts = some r) :
    parseTerm N ts = some r := by
  induction h with
  | refl => exact hp
  | step _ ih => exact (parse_mono_succ _).1 _ _ ih

theorem parseStart_mono {n N : Nat} (h : n ≤ N) {m ts r} (hp : parseStart n m ts = some r) :
    parseStart N m ts = some r := by
  induction h with
  | refl => exact hp
  | step _ ih => exact (parse_mono_succ _).2.1 _ _ _ ih

theorem parseCont_mono {n N : Nat} (h : n ≤ N) {m l ts r} (hp : parseCont n m l ts = some r) :
    parseCont N m l ts = some r := by
  induction h with
  | refl => exact hp
  | step _ ih => exact (parse_mono_succ _).2.2 _ _ _ _ ih

/-! ### where the continuation loop stops -/

/-- the next token is the end, a `)`, or an operator of left priority at most `f` -/
def Follow (f : Nat) : List Tok → Prop
  | [] => True
  | .rparen :: _ => True
  | .op o :: _ => lp o ≤ f
  | _ => False

theorem parseCont_pos {n m l ts r} (h : parseCont n m l ts = some r) : 1 ≤ n := by
  cases n with
  | zero => simp [parseCont] at h
  | succ n => omega

/-- the loop at minimum precedence `k` stops in front of a follower of priority below `k` -/
theorem parseCont_stop {f k : Nat} {rest : List Tok} (hf : Follow f rest) (hk : f < k)
    (n : Nat) (e : OpTree) : parseCont (n + 1) k e rest = some (e, rest) := by
  rw [parseCont]
  unfold contStep
  match rest, hf with
  | [], _ => rfl
  | .rparen :: _, _ => rfl
  | .op o :: _, h =>
    have : ¬ k ≤ lp o := by simp [Follow] at h; omega
    simp [this]

/-- nothing that may follow at priority 0 lets any loop continue -/
theorem parseCont_stop0 {rest : List Tok} (hf : Follow 0 rest) (n k : Nat) (e : OpTree) :
    parseCont (n + 1) k e rest = some (e, rest) := by
  rw [parseCont]
  unfold contStep
  match rest, hf with
  | [], _ => rfl
  | .rparen :: _, _ => rfl
  | .op o :: _, h =>
    have := lp_pos o
    simp [Follow] at h
    omega

theorem parseCont_stop0_eq {rest : List Tok} (hf : Follow 0 rest) {n k : Nat} {e : OpTree} {res}
    (h : parseCont n k e rest = some res) : res = (e, rest) := by
  cases n with
  | zero => simp [parseCont] at h
  | succ n => rw [parseCont_stop0 hf] at h; exact (Option.some.inj h).symm

/-- a parenthesised body: `( body )` parses as the body's tree, then the loop goes on -/
theorem paren_wrap {K n N m : Nat} {body rest : List Tok} {e : OpTree} {res}
    (hbody : parseStart K 0 (body ++ .rparen :: rest) = some (e, .rparen :: rest))
    (hcont : parseCont n m e rest = some res) (hK : K + 2 ≤ N) (hn : n + 1 ≤ N) :
    parseStart N m (.lparen :: (body ++ .rparen :: rest)) = some res := by
  obtain ⟨N', rfl⟩ : ∃ N', N = N' + 2 := ⟨N - 2, by omega⟩
  rw [parseStart]
  unfold startStep
  have h1 : parseTerm (N' + 1) (.lparen :: (body ++ .rparen :: rest)) = some (e, rest) := by
    rw [parseTerm]
    unfold termStep
    simp [parseStart_mono (by omega : K ≤ N') hbody]
  rw [h1]
  exact parseCont_mono (by omega) hcont

/-! ### fuel needed for a rendered tree (a generous bound) -/

def cost : OpTree → Nat
  | .atom _ => 2
  | .neg e => cost e + 6
  | .not e => cost e + 6
  | .bin _ l r => cost l + cost r + 6
  | .assign _ e => cost e + 6

/-- the two renderings of unary minus -/
theorem render_neg (m f : Nat) (e : OpTree) :
    (∃ x, e = .atom (.id x) ∧ render m f (.neg e) = [.op .Subtract, .id x])
    ∨ render m f (.neg e) = [.op .Subtract, .lparen] ++ render 0 0 e ++ [.rparen] := by
  cases e with
  | atom a =>
    cases a with
    | id x => exact Or.inl ⟨x, rfl, rfl⟩
    | num k => exact Or.inr rfl
    | negNum k => exact Or.inr rfl
  | neg e => exact Or.inr rfl
  | not e => exact Or.inr rfl
  | bin o l r => exact Or.inr rfl
  | assign x e => exact Or.inr rfl

theorem render_not (m f : Nat) (e : OpTree) :
    render m f (.not e)
      = if f = 0 then .not :: render 0 0 e else [.lparen, .not] ++ render 0 0 e ++ [.rparen] := rfl

theorem render_assign (m f x : Nat) (e : OpTree) :
    render m f (.assign x e)
      = if f = 0 then [.id x, .assign] ++ render 0 0 e
        else [.lparen, .id x, .assign] ++ render 0 0 e ++ [.rparen] := rfl

theorem render_bin (m f : Nat) (o : OpTok) (l r : OpTree) :
    render m f (.bin o l r)
      = if m ≤ lp o ∧ f < rp o then render m (lp o) l ++ [.op o] ++ render (rp o) f r
        else [.lparen] ++ (render 0 (lp o) l ++ [.op o] ++ render (rp o) 0 r) ++ [.rparen] := rfl

theorem cost_le (e : OpTree) : ∀ m f, cost e ≤ 6 * (render m f e).length := by
  induction e with
  | atom a => intro m f; cases a <;> simp [render, cost]
  | neg e ih =>
    intro m f
    have := ih 0 0
    rcases render_neg m f e with ⟨x, rfl, h⟩ | h
    · rw [h]; simp [cost]
    · rw [h]; simp [cost]; omega
  | not e ih =>
    intro m f
    have := ih 0 0
    rw [render_not]; simp only [cost]; split <;> simp <;> omega
  | bin o l r ihl ihr =>
    intro m f
    rw [render_bin]; simp only [cost]
    split
    · have := ihl m (lp o); have := ihr (rp o) f; simp; omega
    · have := ihl 0 (lp o); have := ihr (rp o) 0; simp; omega
  | assign x e ih =>
    intro m f
    have := ih 0 0
    rw [render_assign]; simp only [cost]; split <;> simp <;> omega

/-! ### the generalised round trip -/

theorem follow_rparen (f : Nat) (rest : List Tok) : Follow f (.rparen :: rest) := by simp [Follow]

/-- Parsing the rendering of `e` (made for minimum precedence `m` and a follower of priority ≤ `f`)
in front of `rest` brings the parser to exactly the state "`e` is the expression so far, `rest` is
left, the loop runs at minimum `m`" — whatever that state then does (`res`). -/
theorem roundtrip_gen (e : OpTree) :
    ∀ (m f : Nat) (rest : List Tok) (n : Nat) (res : OpTree × List Tok) (N : Nat),
      Follow f rest → parseCont n m e rest = some res → n + cost e ≤ N →
      parseStart N m (render m f e ++ rest) = some res := by
  induction e with
  | atom a =>
    intro m f rest n res N _ hc hN
    have hn := parseCont_pos hc
    simp only [cost] at hN
    obtain ⟨N', rfl⟩ : ∃ N', N = N' + 2 := ⟨N - 2, by omega⟩
    rw [parseStart]; unfold startStep
    have h1 : parseTerm (N' + 1) (render m f (.atom a) ++ rest) = some (.atom a, rest) := by
      rw [parseTerm]; cases a <;> rfl
    rw [h1]; exact parseCont_mono (by omega) hc
  | neg e ih =>
    intro m f rest n res N _ hc hN
    have hn := parseCont_pos hc
    simp only [cost] at hN
    obtain ⟨N', rfl⟩ : ∃ N', N = N' + 3 := ⟨N - 3, by omega⟩
    rw [parseStart]; unfold startStep
    rcases render_neg m f e with ⟨x, rfl, h⟩ | h
    · rw [h]
      have h1 : parseTerm (N' + 2) ([.op .Subtract, .id x] ++ rest)
          = some (.neg (.atom (.id x)), rest) := by
        simp [parseTerm, termStep]
      rw [h1]; exact parseCont_mono (by omega) hc
    · rw [h]
      have hbody : parseStart N' 0 (render 0 0 e ++ (.rparen :: rest)) = some (e, .rparen :: rest) :=
        ih 0 0 (.rparen :: rest) 1 _ N' (follow_rparen 0 rest)
          (parseCont_stop0 (follow_rparen 0 rest) 0 0 e) (by omega)
      have h1 : parseTerm (N' + 2) ([.op .Subtract, .lparen] ++ render 0 0 e ++ [.rparen] ++ rest)
          = some (.neg e, rest) := by
        have hl : [Tok.op .Subtract, .lparen] ++ render 0 0 e ++ [.rparen] ++ rest
            = .op .Subtract :: .lparen :: (render 0 0 e ++ .rparen :: rest) := by simp
        rw [hl]
        simp [parseTerm, termStep, hbody]
      rw [h1]; exact parseCont_mono (by omega) hc
  | not e ih =>
    intro m f rest n res N hf hc hN
    have hn := parseCont_pos hc
    simp only [cost] at hN
    -- the unparenthesised form, for any follower that stops everything
    have A : ∀ (m' : Nat) (rest' : List Tok) (n' : Nat) (res' : OpTree × List Tok) (K : Nat),
        Follow 0 rest' → parseCont n' m' (.not e) rest' = some res' → n' + cost e + 3 ≤ K →
        parseStart K m' (.not :: render 0 0 e ++ rest') = some res' := by
      intro m' rest' n' res' K hf' hc' hK
      have hn' := parseCont_pos hc'
      obtain ⟨K', rfl⟩ : ∃ K', K = K' + 2 := ⟨K - 2, by omega⟩
      have hbody : parseStart K' 0 (render 0 0 e ++ rest') = some (e, rest') :=
        ih 0 0 rest' 1 _ K' hf' (parseCont_stop0 hf' 0 0 e) (by omega)
      rw [parseStart]; unfold startStep
      have h1 : parseTerm (K' + 1) (.not :: render 0 0 e ++ rest') = some (.not e, rest') := by
        simp [parseTerm, termStep, hbody]
      rw [h1]; exact parseCont_mono (by omega) hc'
    rw [render_not]
    split
    · rename_i h0; subst h0
      exact A m rest n res N hf hc (by omega)
    · have hb := A 0 (.rparen :: rest) 1 _ (N - 2) (follow_rparen 0 rest)
        (parseCont_stop0 (follow_rparen 0 rest) 0 0 (.not e)) (by omega)
      have hl : [Tok.lparen, .not] ++ render 0 0 e ++ [.rparen] ++ rest
          = .lparen :: ((.not :: render 0 0 e) ++ .rparen :: rest) := by simp
      rw [hl]
      exact paren_wrap (by simpa using hb) hc (by omega) (by omega)
  | assign x e ih =>
    intro m f rest n res N hf hc hN
    have hn := parseCont_pos hc
    simp only [cost] at hN
    have A : ∀ (m' : Nat) (rest' : List Tok) (n' : Nat) (res' : OpTree × List Tok) (K : Nat),
        Follow 0 rest' → parseCont n' m' (.assign x e) rest' = some res' → n' + cost e + 4 ≤ K →
        parseStart K m' ([.id x, .assign] ++ render 0 0 e ++ rest') = some res' := by
      intro m' rest' n' res' K hf' hc' hK
      have hres := parseCont_stop0_eq hf' hc'
      subst hres
      obtain ⟨K', rfl⟩ : ∃ K', K = K' + 3 := ⟨K - 3, by omega⟩
      have hbody : parseStart K' 0 (render 0 0 e ++ rest') = some (e, rest') :=
        ih 0 0 rest' 1 _ K' hf' (parseCont_stop0 hf' 0 0 e) (by omega)
      rw [parseStart]; unfold startStep
      have h1 : parseTerm (K' + 2) ([.id x, .assign] ++ render 0 0 e ++ rest')
          = some (.atom (.id x), .assign :: (render 0 0 e ++ rest')) := by
        simp [parseTerm, termStep]
      rw [h1]
      simp [parseCont, contStep, parseStart_mono (by omega : K' ≤ K' + 1) hbody]
    rw [render_assign]
    split
    · rename_i h0; subst h0
      exact A m rest n res N hf hc (by omega)
    · have hb := A 0 (.rparen :: rest) 1 _ (N - 2) (follow_rparen 0 rest)
        (parseCont_stop0 (follow_rparen 0 rest) 0 0 (.assign x e)) (by omega)
      have hl : [Tok.lparen, .id x, .assign] ++ render 0 0 e ++ [.rparen] ++ rest
          = .lparen :: (([.id x, .assign] ++ render 0 0 e) ++ .rparen :: rest) := by simp
      rw [hl]
      exact paren_wrap (by simpa using hb) hc (by omega) (by omega)
  | bin o l r ihl ihr =>
    intro m f rest n res N hf hc hN
    have hn := parseCont_pos hc
    simp only [cost] at hN
    have A : ∀ (m' f' : Nat) (rest' : List Tok) (n' : Nat) (res' : OpTree × List Tok) (K : Nat),
        m' ≤ lp o → f' < rp o → Follow f' rest' → parseCont n' m' (.bin o l r) rest' = some res' →
        n' + cost l + cost r + 3 ≤ K →
        parseStart K m' (render m' (lp o) l ++ [.op o] ++ render (rp o) f' r ++ rest') = some res' := by
      intro m' f' rest' n' res' K hm hf1 hf' hc' hK
      have hn' := parseCont_pos hc'
      -- the right operand, parsed at minimum `rp o`, stops in front of `rest'`
      have hr : parseStart (n' + cost r + 1) (rp o) (render (rp o) f' r ++ rest') = some (r, rest') :=
        ihr (rp o) f' rest' 1 _ _ hf' (parseCont_stop hf' hf1 0 r) (by omega)
      -- so the loop that has `l` and sees `o` builds `bin o l r` and goes on
      have hl : parseCont (n' + cost r + 2) m' l (.op o :: (render (rp o) f' r ++ rest')) = some res' := by
        rw [parseCont]; unfold contStep
        simp [hm, hr]
        exact parseCont_mono (by omega) hc'
      have hlist : render m' (lp o) l ++ [.op o] ++ render (rp o) f' r ++ rest'
          = render m' (lp o) l ++ (.op o :: (render (rp o) f' r ++ rest')) := by simp
      rw [hlist]
      exact ihl m' (lp o) _ _ res' K (by simp [Follow]) hl (by omega)
    rw [render_bin]
    split
    · rename_i hcond
      exact A m f rest n res N hcond.1 hcond.2 hf hc (by omega)
    · have hb := A 0 0 (.rparen :: rest) 1 _ (N - 2) (Nat.zero_le _) (rp_pos o) (follow_rparen 0 rest)
        (parseCont_stop0 (follow_rparen 0 rest) 0 0 (.bin o l r)) (by omega)
      have hl : [Tok.lparen] ++ (render 0 (lp o) l ++ [.op o] ++ render (rp o) 0 r) ++ [.rparen] ++ rest
          = .lparen :: ((render 0 (lp o) l ++ [.op o] ++ render (rp o) 0 r) ++ .rparen :: rest) := by simp
      rw [hl]
      exact paren_wrap (by simpa using hb) hc (by omega) (by omega)

end KotoVerif.C01
