/-
Helper lemmas about `Model/Prec.lean` used by `Props/C01.lean` (fuel monotonicity of the parser,
the generalised round-trip statement).
-/
import KotoVerif.Model.Prec

namespace KotoVerif.C01
open KotoVerif.Prec KotoVerif.Gen

/-- every operator has positive priorities (a fact about the generated table) -/
theorem lp_pos : ∀ o : OpTok, 1 ≤ lp o := by decide
theorem rp_pos : ∀ o : OpTok, 1 ≤ rp o := by decide

end KotoVerif.C01
