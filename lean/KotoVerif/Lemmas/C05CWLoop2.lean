/-
C05 `compile_wf`, statement layer, part 2: landing with backward successors, and the structure of the
flat stream of the fragment without `break` / `continue` / endless `loop`.
-/
import KotoVerif.Lemmas.C05CWLoop1

set_option linter.unusedSimpArgs false

namespace KotoVerif.Bytecode
open KotoVerif.Gen

/-- like `Lands`, with backward successors among the instructions of the block already passed -/
def LandsB : List Ann → List Ann → Nat → Prop
  | _, [], _ => True
  | seen, a :: rest, e =>
    (∃ ps, succPcs a = some ps ∧ ∀ p ∈ ps,
      (a.pc < p ∧ ((∃ b ∈ rest, b.pc = p) ∨ p = e)) ∨ (p ≤ a.pc ∧ ∃ b ∈ a :: seen, b.pc = p))
    ∧ LandsB (a :: seen) rest e

theorem LandsB_mono (l : List Ann) (e : Nat) : ∀ seen seen', (∀ x ∈ seen, x ∈ seen') →
    LandsB seen l e → LandsB seen' l e := by
  induction l with
  | nil => intros; trivial
  | cons a rest ih =>
    intro seen seen' hsub h
    obtain ⟨⟨ps, hs, hps⟩, hr⟩ := h
    refine ⟨⟨ps, hs, fun p hp => ?_⟩, ih _ _ ?_ hr⟩
    · rcases hps p hp with hf | ⟨hle, b, hb, hbp⟩
      · exact .inl hf
      · refine .inr ⟨hle, b, ?_, hbp⟩
        simp at hb ⊢
        rcases hb with rfl | hb
        · exact .inl rfl
        · exact .inr (hsub b hb)
    · intro x hx
      simp at hx ⊢
      rcases hx with rfl | hx
      · exact .inl rfl
      · exact .inr (hsub x hx)

theorem LandsB_of_Lands (l : List Ann) (e : Nat) : ∀ seen, Lands l e → LandsB seen l e := by
  induction l with
  | nil => intros; trivial
  | cons a rest ih =>
    intro seen h
    obtain ⟨⟨ps, hs, hps⟩, hr⟩ := h
    exact ⟨⟨ps, hs, fun p hp => .inl (hps p hp)⟩, ih _ hr⟩

theorem LandsB_append (A B : List Ann) (s e : Nat) : ∀ seen, LandsB seen A s → LandsB (A.reverse ++ seen) B e →
    (B = [] ∧ s = e ∨ ∃ b rest, B = b :: rest ∧ b.pc = s) → LandsB seen (A ++ B) e := by
  induction A with
  | nil => intro seen _ hB _; simpa using hB
  | cons a rest ih =>
    intro seen hA hB hstart
    obtain ⟨⟨ps, hs, hps⟩, hr⟩ := hA
    refine ⟨⟨ps, hs, fun p hp => ?_⟩, ih (a :: seen) hr (by simpa using hB) hstart⟩
    rcases hps p hp with ⟨hlt, hor⟩ | hb
    · left
      refine ⟨hlt, ?_⟩
      rcases hor with ⟨b, hb, hbp⟩ | hpe
      · exact .inl ⟨b, by simp [hb], hbp⟩
      · rcases hstart with ⟨_, hse⟩ | ⟨b, rb, hB', hbs⟩
        · exact .inr (by omega)
        · exact .inl ⟨b, by simp [hB'], by omega⟩
    · exact .inr hb

theorem TgtOkS_append (A K : List Ann) (e : Nat) : ∀ seen, LandsB seen A e → TgtOkS (A.reverse ++ seen) K →
    (∃ k rest, K = k :: rest ∧ k.pc = e) → TgtOkS seen (A ++ K) := by
  induction A with
  | nil => intro seen _ hK _; simpa using hK
  | cons a rest ih =>
    intro seen hA hK hstart
    obtain ⟨⟨ps, hs, hps⟩, hr⟩ := hA
    refine ⟨⟨ps, hs, fun p hp => ?_⟩, ih (a :: seen) hr (by simpa using hK) hstart⟩
    obtain ⟨k, rk, hK', hke⟩ := hstart
    rcases hps p hp with ⟨hlt, hor⟩ | hb
    · left
      refine ⟨hlt, ?_⟩
      rcases hor with ⟨b, hb, hbp⟩ | hpe
      · exact ⟨b, by simp [hb], hbp⟩
      · exact ⟨k, by simp [hK'], by omega⟩
    · exact .inr hb

end KotoVerif.Bytecode

namespace KotoVerif.Compile
open KotoVerif.Gen KotoVerif.Bytecode

/-! ### the structured fragment without `break` / `continue` / endless `loop` -/

/-- loop code in which every loop has a condition and there is no `break` / `continue`: every
instruction is reachable, and the flat stream does not depend on the loop context -/
def Simple : LCode → Prop
  | .base _ => True
  | .seq a b => Simple a ∧ Simple b
  | .ifElse _ t _ e => Simple t ∧ Simple e
  | .loop (some _) body => Simple body
  | .loop none _ => False
  | .brk => False
  | .cont => False

theorem flatAux_length : ∀ (c : LCode) (pre post : Nat), (flatAux c pre post).length = sizeL c := by
  intro c
  induction c with
  | base c => intros; simp [flatAux, sizeL]
  | seq a b iha ihb => intros; simp [flatAux, sizeL, iha, ihb]
  | ifElse r t w e iht ihe =>
    intro pre post
    cases w <;> simp [flatAux, sizeL, iht, ihe] <;> omega
  | loop cond body ih =>
    intro pre post
    cases cond with
    | none => simp [flatAux, sizeL, flatHdr, hdrLen, ih]
    | some h =>
      obtain ⟨cc, r, neg⟩ := h
      simp [flatAux, sizeL, flatHdr, hdrLen, ih]; omega
  | brk => intros; simp [flatAux, sizeL]
  | cont => intros; simp [flatAux, sizeL]

theorem flatAux_irrel : ∀ (c : LCode), Simple c → ∀ pre post pre' post', flatAux c pre post = flatAux c pre' post' := by
  intro c
  induction c with
  | base c => intros; rfl
  | seq a b iha ihb =>
    intro h pre post pre' post'
    simp only [flatAux]
    rw [iha h.1 pre _ pre' (sizeL b + post'), ihb h.2 _ post (pre' + sizeL a) post']
  | ifElse r t w e iht ihe =>
    intro h pre post pre' post'
    cases w with
    | true =>
      simp only [flatAux]
      rw [iht h.1 _ _ (pre' + 1) (1 + sizeL e + post'), ihe h.2 _ _ (pre' + 1 + sizeL t + 1) post']
    | false =>
      simp only [flatAux]
      rw [iht h.1 _ _ (pre' + 1) (sizeL e + post'), ihe h.2 _ _ (pre' + 1 + sizeL t) post']
  | loop cond body ih =>
    intro h pre post pre' post'
    cases cond with
    | none => exact absurd h (by simp [Simple])
    | some hd => simp only [flatAux]
  | brk => intro h; exact absurd h (by simp [Simple])
  | cont => intro h; exact absurd h (by simp [Simple])

def flatS (c : LCode) : List LFlat := flatAux c 0 0

theorem flatS_length (c : LCode) : (flatS c).length = sizeL c := flatAux_length c 0 0

theorem flatS_seq (a b : LCode) (h : Simple (.seq a b)) : flatS (.seq a b) = flatS a ++ flatS b := by
  simp only [flatS, flatAux]
  rw [flatAux_irrel a h.1 0 _ 0 0, flatAux_irrel b h.2 _ 0 0 0]

theorem flatS_ite_true (r : Reg) (t e : LCode) (h : Simple (.ifElse r t true e)) :
    flatS (.ifElse r t true e) = .jumpIfFalse r (sizeL t + 1) :: (flatS t ++ .jump (sizeL e) :: flatS e) := by
  simp only [flatS, flatAux]
  rw [flatAux_irrel t h.1 _ _ 0 0, flatAux_irrel e h.2 _ _ 0 0]
  simp

theorem flatS_ite_false (r : Reg) (t e : LCode) (h : Simple (.ifElse r t false e)) :
    flatS (.ifElse r t false e) = .jumpIfFalse r (sizeL t) :: (flatS t ++ flatS e) := by
  simp only [flatS, flatAux]
  rw [flatAux_irrel t h.1 _ _ 0 0, flatAux_irrel e h.2 _ _ 0 0]
  simp

def condJump (r : Reg) (neg : Bool) (k : Nat) : LFlat := if neg then .jumpIfTrue r k else .jumpIfFalse r k

theorem flatS_loop (cc : Code) (r : Reg) (neg : Bool) (body : LCode) (h : Simple (.loop (some (cc, r, neg)) body)) :
    flatS (.loop (some (cc, r, neg)) body)
      = (flatten cc).map LFlat.ofFlat ++
          (condJump r neg (sizeL body + 1) ::
            (flatS body ++ [.jumpBack ((flatten cc).length + 1 + sizeL body + 1)])) := by
  simp only [flatS, flatAux, flatHdr, hdrLen, condJump]
  rw [flatAux_irrel body h _ _ 0 0]
  simp [List.append_assoc]

/-- blocks of the fragment are closed: forward and backward jumps stay inside -/
theorem simple_closed : ∀ (c : LCode), Simple c → jumpsOkL (flatS c) = true ∧ backOkL 0 (flatS c) = true := by
  intro c
  induction c with
  | base c =>
    intro _
    obtain ⟨h1, h2⟩ := ofFlat_ok (flatten c) (flatten_jumpsOk c)
    exact ⟨by simpa [flatS, flatAux] using h1, by simpa [flatS, flatAux] using h2 0⟩
  | seq a b iha ihb =>
    intro h
    obtain ⟨a1, a2⟩ := iha h.1
    obtain ⟨b1, b2⟩ := ihb h.2
    rw [flatS_seq a b h]
    exact ⟨jumpsOkL_append _ _ a1 b1, backOkL_append _ _ 0 a2 (backOkL_mono _ 0 _ (by omega) b2)⟩
  | ifElse r t w e iht ihe =>
    intro h
    obtain ⟨t1, t2⟩ := iht h.1
    obtain ⟨e1, e2⟩ := ihe h.2
    cases w with
    | true =>
      rw [flatS_ite_true r t e h]
      have hj : jumpsOkL (LFlat.jump (sizeL e) :: flatS e) = true := by
        simp [jumpsOkL, LFlat.skip, flatS_length, e1]
      have hb : backOkL 0 (LFlat.jump (sizeL e) :: flatS e) = true := by
        simp only [backOkL]; exact backOkL_mono _ 0 _ (by omega) e2
      refine ⟨?_, ?_⟩
      · simp only [jumpsOkL, Bool.and_eq_true, decide_eq_true_eq, LFlat.skip]
        refine ⟨by simp [flatS_length], jumpsOkL_append _ _ t1 hj⟩
      · simp only [backOkL]
        exact backOkL_append _ _ 1 (backOkL_mono _ 0 _ (by omega) t2) (backOkL_mono _ 0 _ (by omega) hb)
    | false =>
      rw [flatS_ite_false r t e h]
      refine ⟨?_, ?_⟩
      · simp only [jumpsOkL, Bool.and_eq_true, decide_eq_true_eq, LFlat.skip]
        refine ⟨by simp [flatS_length], jumpsOkL_append _ _ t1 e1⟩
      · simp only [backOkL]
        exact backOkL_append _ _ 1 (backOkL_mono _ 0 _ (by omega) t2) (backOkL_mono _ 0 _ (by omega) e2)
  | loop cond body ih =>
    intro h
    cases cond with
    | none => exact absurd h (by simp [Simple])
    | some hd =>
      obtain ⟨cc, r, neg⟩ := hd
      obtain ⟨b1, b2⟩ := ih h
      obtain ⟨c1, c2⟩ := ofFlat_ok (flatten cc) (flatten_jumpsOk cc)
      rw [flatS_loop cc r neg body h]
      have hjb : jumpsOkL (flatS body ++ [LFlat.jumpBack ((flatten cc).length + 1 + sizeL body + 1)]) = true :=
        jumpsOkL_append _ _ b1 (by simp [jumpsOkL, LFlat.skip])
      have hcj : jumpsOkL (condJump r neg (sizeL body + 1) ::
          (flatS body ++ [LFlat.jumpBack ((flatten cc).length + 1 + sizeL body + 1)])) = true := by
        simp only [jumpsOkL, Bool.and_eq_true, decide_eq_true_eq]
        refine ⟨?_, hjb⟩
        cases neg <;> simp [condJump, LFlat.skip, flatS_length]
      refine ⟨jumpsOkL_append _ _ c1 hcj, ?_⟩
      apply backOkL_append _ _ 0 (c2 0)
      have hbk : backOkL (0 + (List.map LFlat.ofFlat (flatten cc)).length + 1)
          (flatS body ++ [LFlat.jumpBack ((flatten cc).length + 1 + sizeL body + 1)]) = true := by
        apply backOkL_append _ _ _ (backOkL_mono _ 0 _ (by omega) b2)
        simp [backOkL, flatS_length]
      cases neg <;> simpa [condJump, backOkL] using hbk
  | brk => intro h; exact absurd h (by simp [Simple])
  | cont => intro h; exact absurd h (by simp [Simple])

end KotoVerif.Compile
