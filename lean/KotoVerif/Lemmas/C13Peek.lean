/-
C13 helper lemmas, part 7: the script-visible operations of `Peekable` (`next`, `next_back`, `peek`,
`peek_back`) over a double-ended input. The state `⟨inner, front, rear⟩` denotes the sequence
`front ++ (what inner denotes) ++ rear`; `peek`/`peek_back` move one element from `inner` into the
cache and leave the denoted sequence unchanged.
-/
import KotoVerif.Lemmas.C13Cycle

namespace KotoVerif.Iter

/-- output of one operation on the ideal sequence -/
def peekOut : PeekOp → List Val → Option Val
  | .next, xs | .peek, xs => xs.head?
  | .back, xs | .peekBack, xs => xs.getLast?

/-- the ideal sequence after one operation -/
def peekRest : PeekOp → List Val → List Val
  | .next, xs => xs.tail
  | .back, xs => xs.dropLast
  | .peek, xs | .peekBack, xs => xs

/-- the sequence a `Peekable` state denotes, given what its wrapped iterator denotes -/
def peekDen {σ : Type} (s : Peek σ) (ys : List Val) : List Val :=
  s.front.toList ++ ys ++ s.rear.toList

theorem peekable_next_spec (c : Co) (s : Peek c.σ) (ys : List Val) (h : Deq c s.inner ys) :
    ((peekableCo c).next s).out = (peekDen s ys).head? ∧
    ∃ ys', Deq c ((peekableCo c).next s).st.inner ys' ∧
      peekDen ((peekableCo c).next s).st ys' = (peekDen s ys).tail := by
  have ⟨⟨a1, a2⟩, _⟩ := deq_iff.mp h
  obtain ⟨inner, front, rear⟩ := s
  cases front with
  | some v =>
    refine ⟨by simp [peekableCo, peekDen], ys, ?_, ?_⟩
    · simpa [peekableCo] using h
    · simp [peekableCo, peekDen]
  | none =>
    cases ys with
    | nil =>
      simp at a1 a2
      have e : (peekableCo c).next ⟨inner, none, rear⟩ = ⟨rear, ⟨(c.next inner).st, none, none⟩, (c.next inner).ev⟩ := by
        simp [peekableCo, a1]
      rw [e]
      refine ⟨by cases rear <;> simp [peekDen], [], a2, ?_⟩
      cases rear <;> simp [peekDen]
    | cons y ys =>
      simp at a1 a2
      have e : (peekableCo c).next ⟨inner, none, rear⟩ = ⟨some y, ⟨(c.next inner).st, none, rear⟩, (c.next inner).ev⟩ := by
        simp [peekableCo, a1]
      rw [e]
      exact ⟨by simp [peekDen], ys, a2, by simp [peekDen]⟩

theorem peekable_back_spec (c : Co) (s : Peek c.σ) (ys : List Val) (hb : c.bidir = true) (h : Deq c s.inner ys) :
    ((peekableCo c).back s).out = (peekDen s ys).getLast? ∧
    ∃ ys', Deq c ((peekableCo c).back s).st.inner ys' ∧
      peekDen ((peekableCo c).back s).st ys' = (peekDen s ys).dropLast := by
  have ⟨_, ⟨b1, b2⟩⟩ := deq_iff.mp h
  obtain ⟨inner, front, rear⟩ := s
  cases rear with
  | some v =>
    refine ⟨by simp [peekableCo, hb, peekDen], ys, ?_, ?_⟩
    · simpa [peekableCo, hb] using h
    · simp [peekableCo, hb, peekDen, ← List.append_assoc]
  | none =>
    rcases nil_or_snoc ys with rfl | ⟨ini, l, rfl⟩
    · simp at b1 b2
      have e : (peekableCo c).back ⟨inner, front, none⟩ = ⟨front, ⟨(c.back inner).st, none, none⟩, (c.back inner).ev⟩ := by
        simp [peekableCo, hb, b1]
      rw [e]
      refine ⟨by cases front <;> simp [peekDen], [], b2, ?_⟩
      cases front <;> simp [peekDen]
    · simp at b1 b2
      have e : (peekableCo c).back ⟨inner, front, none⟩ = ⟨some l, ⟨(c.back inner).st, front, none⟩, (c.back inner).ev⟩ := by
        simp [peekableCo, hb, b1]
      rw [e]
      refine ⟨by simp [peekDen], ini, b2, ?_⟩
      simp [peekDen, ← List.append_assoc]

theorem head_cons_tail (xs : List Val) (v : Val) (h : xs.head? = some v) : v :: xs.tail = xs := by
  cases xs with
  | nil => simp at h
  | cons x xs => simp at h; simp [h]

theorem dropLast_snoc_last (xs : List Val) (v : Val) (h : xs.getLast? = some v) : xs.dropLast ++ [v] = xs := by
  rcases nil_or_snoc xs with rfl | ⟨ini, l, rfl⟩
  · simp at h
  · simp at h; simp [h]

/-- one operation of a `Peekable` over a double-ended input answers like the ideal sequence -/
theorem peekStep_spec (c : Co) (op : PeekOp) (s : Peek c.σ) (ys : List Val) (hb : c.bidir = true) (h : Deq c s.inner ys) :
    (peekStep c op s).out = peekOut op (peekDen s ys) ∧
    ∃ ys', Deq c (peekStep c op s).st.inner ys' ∧
      peekDen (peekStep c op s).st ys' = peekRest op (peekDen s ys) := by
  cases op with
  | next => exact peekable_next_spec c s ys h
  | back => exact peekable_back_spec c s ys hb h
  | peek =>
    have ⟨n1, ys', n2, n3⟩ := peekable_next_spec c s ys h
    cases hf : s.front with
    | some v =>
      have e : peekStep c .peek s = ⟨some v, s, []⟩ := by simp [peekStep, peekFront, hf]
      rw [e]
      exact ⟨by simp [peekOut, peekDen, hf], ys, h, rfl⟩
    | none =>
      cases ho : ((peekableCo c).next s).out with
      | none =>
        have e : peekStep c .peek s = ⟨none, ((peekableCo c).next s).st, ((peekableCo c).next s).ev⟩ := by
          simp [peekStep, peekFront, hf, ho]
        rw [e]
        rw [ho] at n1
        have hD : peekDen s ys = [] := by
          cases hd : peekDen s ys with
          | nil => rfl
          | cons x xs => rw [hd] at n1; simp at n1
        refine ⟨by simp [peekOut, hD], ys', n2, ?_⟩
        rw [n3, hD]; rfl
      | some v =>
        have hfront : ((peekableCo c).next s).st.front = none := by
          obtain ⟨inner, front, rear⟩ := s
          simp at hf; subst hf
          simp only [peekableCo]
          cases (c.next inner).out <;> rfl
        have e : peekStep c .peek s =
            ⟨some v, { ((peekableCo c).next s).st with front := some v }, ((peekableCo c).next s).ev⟩ := by
          simp [peekStep, peekFront, hf, ho]
        rw [e]
        rw [ho] at n1
        refine ⟨by simp [peekOut, ← n1], ys', n2, ?_⟩
        have : peekDen { ((peekableCo c).next s).st with front := some v } ys' =
            v :: peekDen ((peekableCo c).next s).st ys' := by
          simp [peekDen, hfront]
        rw [this, n3]
        exact head_cons_tail _ v n1.symm
  | peekBack =>
    have ⟨n1, ys', n2, n3⟩ := peekable_back_spec c s ys hb h
    cases hf : s.rear with
    | some v =>
      have e : peekStep c .peekBack s = ⟨some v, s, []⟩ := by simp [peekStep, peekRear, hf]
      rw [e]
      exact ⟨by simp [peekOut, peekDen, hf], ys, h, rfl⟩
    | none =>
      cases ho : ((peekableCo c).back s).out with
      | none =>
        have e : peekStep c .peekBack s = ⟨none, ((peekableCo c).back s).st, ((peekableCo c).back s).ev⟩ := by
          simp [peekStep, peekRear, hf, ho]
        rw [e]
        rw [ho] at n1
        have hD : peekDen s ys = [] := by
          rcases nil_or_snoc (peekDen s ys) with hd | ⟨ini, l, hd⟩
          · exact hd
          · rw [hd] at n1; simp at n1
        refine ⟨by simp [peekOut, hD], ys', n2, ?_⟩
        rw [n3, hD]; rfl
      | some v =>
        have hrear : ((peekableCo c).back s).st.rear = none := by
          obtain ⟨inner, front, rear⟩ := s
          simp at hf; subst hf
          simp only [peekableCo, hb, if_true]
          cases (c.back inner).out <;> rfl
        have e : peekStep c .peekBack s =
            ⟨some v, { ((peekableCo c).back s).st with rear := some v }, ((peekableCo c).back s).ev⟩ := by
          simp [peekStep, peekRear, hf, ho]
        rw [e]
        rw [ho] at n1
        refine ⟨by simp [peekOut, ← n1], ys', n2, ?_⟩
        have : peekDen { ((peekableCo c).back s).st with rear := some v } ys' =
            peekDen ((peekableCo c).back s).st ys' ++ [v] := by
          simp [peekDen, hrear]
        rw [this, n3]
        exact dropLast_snoc_last _ v n1.symm

/-- the ideal answers to a sequence of operations -/
def idealPeek : List PeekOp → List Val → List (Option Val)
  | [], _ => []
  | op :: ops, xs => peekOut op xs :: idealPeek ops (peekRest op xs)

theorem runPeekOps_spec (c : Co) (endM : Val) (hb : c.bidir = true) :
    ∀ (ops : List PeekOp) (s : Peek c.σ) (ys : List Val), Deq c s.inner ys →
    (runPeekOps c endM ops s).1 = (idealPeek ops (peekDen s ys)).map (fun o => o.getD endM) := by
  intro ops
  induction ops with
  | nil => intro s ys _; rfl
  | cons op ops ih =>
    intro s ys h
    have ⟨p1, ys', p2, p3⟩ := peekStep_spec c op s ys hb h
    have := ih (peekStep c op s).st ys' p2
    simp only [runPeekOps, idealPeek, List.map_cons]
    rw [this, p1, p3]

theorem specPeekOps_eq (ops : List PeekOp) (xs : List Val) :
    specPeekOps ops xs = (idealPeek ops xs).map (fun o => o.getD endMarker) := by
  induction ops generalizing xs with
  | nil => rfl
  | cons op ops ih => cases op <;> simp [specPeekOps, idealPeek, peekOut, peekRest, ih]

/-! ### `Peekable` over a forward-only input (code as of /repo 582d021) -/

/-- output of one operation on the ideal forward-only sequence: there is no back end -/
def peekOutF : PeekOp → List Val → Option Val
  | .next, xs | .peek, xs => xs.head?
  | .back, _ | .peekBack, _ => none

def peekRestF : PeekOp → List Val → List Val
  | .next, xs => xs.tail
  | .back, xs | .peek, xs | .peekBack, xs => xs

/-- one operation over a forward-only input: the state keeps denoting `front ++ (inner's sequence)`,
the back cache stays empty, `next_back` / `peek_back` answer `None` and change nothing -/
theorem peekStep_fwd_only (c : Co) (op : PeekOp) (s : Peek c.σ) (ys : List Val)
    (hb : c.bidir = false) (hr : s.rear = none) (h : Fwd c s.inner ys) :
    (peekStep c op s).out = peekOutF op (s.front.toList ++ ys) ∧ (peekStep c op s).st.rear = none ∧
    ∃ ys', Fwd c (peekStep c op s).st.inner ys' ∧
      (peekStep c op s).st.front.toList ++ ys' = peekRestF op (s.front.toList ++ ys) := by
  obtain ⟨inner, front, rear⟩ := s
  simp at hr; subst hr
  have hnext : front = none →
      ((peekableCo c).next ⟨inner, front, none⟩).out = ys.head? ∧
      ((peekableCo c).next ⟨inner, front, none⟩).st.rear = none ∧
      ((peekableCo c).next ⟨inner, front, none⟩).st.front = none ∧
      Fwd c ((peekableCo c).next ⟨inner, front, none⟩).st.inner ys.tail := by
    intro hf; subst hf
    cases ys with
    | nil =>
      have ⟨f1, f2⟩ := fwd_nil.mp h
      have e : (peekableCo c).next ⟨inner, none, none⟩ = ⟨none, ⟨(c.next inner).st, none, none⟩, (c.next inner).ev⟩ := by
        simp [peekableCo, f1]
      rw [e]; exact ⟨rfl, rfl, rfl, f2⟩
    | cons y ys =>
      have ⟨f1, f2⟩ := fwd_cons.mp h
      have e : (peekableCo c).next ⟨inner, none, none⟩ = ⟨some y, ⟨(c.next inner).st, none, none⟩, (c.next inner).ev⟩ := by
        simp [peekableCo, f1]
      rw [e]; exact ⟨rfl, rfl, rfl, f2⟩
  have hback : (peekableCo c).back ⟨inner, front, none⟩ = ⟨none, ⟨inner, front, none⟩, []⟩ := by
    simp [peekableCo, hb]
  cases op with
  | next =>
    cases front with
    | some v =>
      have e : peekStep c .next ⟨inner, some v, none⟩ = ⟨some v, ⟨inner, none, none⟩, []⟩ := by
        simp [peekStep, peekableCo]
      rw [e]; exact ⟨by simp [peekOutF], rfl, ys, h, by simp [peekRestF]⟩
    | none =>
      have ⟨n1, n2, n3, n4⟩ := hnext rfl
      show ((peekableCo c).next _).out = _ ∧ _
      refine ⟨by simpa [peekOutF] using n1, n2, ys.tail, n4, ?_⟩
      show ((peekableCo c).next _).st.front.toList ++ ys.tail = _
      rw [n3]; simp [peekRestF]
  | back =>
    have e : peekStep c .back ⟨inner, front, none⟩ = ⟨none, ⟨inner, front, none⟩, []⟩ := hback
    rw [e]; exact ⟨rfl, rfl, ys, h, rfl⟩
  | peek =>
    cases front with
    | some v =>
      have e : peekStep c .peek ⟨inner, some v, none⟩ = ⟨some v, ⟨inner, some v, none⟩, []⟩ := by
        simp [peekStep, peekFront]
      rw [e]; exact ⟨by simp [peekOutF], rfl, ys, h, rfl⟩
    | none =>
      have ⟨n1, n2, n3, n4⟩ := hnext rfl
      cases ho : ((peekableCo c).next ⟨inner, none, none⟩).out with
      | none =>
        have e : peekStep c .peek ⟨inner, none, none⟩ =
            ⟨none, ((peekableCo c).next ⟨inner, none, none⟩).st, ((peekableCo c).next ⟨inner, none, none⟩).ev⟩ := by
          simp [peekStep, peekFront, ho]
        rw [e]
        rw [ho] at n1
        have hy : ys = [] := by
          cases ys with
          | nil => rfl
          | cons y ys => simp at n1
        subst hy
        refine ⟨by simp [peekOutF], n2, [], n4, ?_⟩
        show ((peekableCo c).next _).st.front.toList ++ [] = _
        rw [n3]; rfl
      | some v =>
        have e : peekStep c .peek ⟨inner, none, none⟩ =
            ⟨some v, { ((peekableCo c).next ⟨inner, none, none⟩).st with front := some v },
             ((peekableCo c).next ⟨inner, none, none⟩).ev⟩ := by
          simp [peekStep, peekFront, ho]
        rw [e]
        rw [ho] at n1
        refine ⟨by simp [peekOutF, ← n1], n2, ys.tail, n4, ?_⟩
        show v :: ys.tail = _
        simp only [peekRestF, Option.toList, List.nil_append]
        exact head_cons_tail ys v n1.symm
  | peekBack =>
    have e : peekStep c .peekBack ⟨inner, front, none⟩ = ⟨none, ⟨inner, front, none⟩, []⟩ := by
      simp [peekStep, peekRear, hback]
    rw [e]; exact ⟨rfl, rfl, ys, h, rfl⟩

def idealPeekF : List PeekOp → List Val → List (Option Val)
  | [], _ => []
  | op :: ops, xs => peekOutF op xs :: idealPeekF ops (peekRestF op xs)

theorem runPeekOps_fwd_only (c : Co) (endM : Val) (hb : c.bidir = false) :
    ∀ (ops : List PeekOp) (s : Peek c.σ) (ys : List Val), s.rear = none → Fwd c s.inner ys →
    (runPeekOps c endM ops s).1 = (idealPeekF ops (s.front.toList ++ ys)).map (fun o => o.getD endM) := by
  intro ops
  induction ops with
  | nil => intro s ys _ _; rfl
  | cons op ops ih =>
    intro s ys hr h
    have ⟨p1, p2, ys', p3, p4⟩ := peekStep_fwd_only c op s ys hb hr h
    have := ih (peekStep c op s).st ys' p2 p3
    simp only [runPeekOps, idealPeekF, List.map_cons]
    rw [this, p1, p4]

theorem specPeekOpsF_eq (ops : List PeekOp) (xs : List Val) :
    specPeekOpsF ops xs = (idealPeekF ops xs).map (fun o => o.getD endMarker) := by
  induction ops generalizing xs with
  | nil => rfl
  | cons op ops ih => cases op <;> simp [specPeekOpsF, idealPeekF, peekOutF, peekRestF, ih]

/-- operations other than `next` leave the ideal forward-only sequence as it is -/
theorem specPeekOpsF_append (ops rest : List PeekOp) (xs : List Val)
    (hn : ∀ o ∈ ops, o ≠ PeekOp.next) :
    specPeekOpsF (ops ++ rest) xs = specPeekOpsF ops xs ++ specPeekOpsF rest xs := by
  induction ops with
  | nil => rfl
  | cons op ops ih =>
    have h1 : op ≠ PeekOp.next := hn op (by simp)
    have h2 := ih (fun o ho => hn o (by simp [ho]))
    cases op with
    | next => exact absurd rfl h1
    | back => simp [specPeekOpsF, h2]
    | peek => simp [specPeekOpsF, h2]
    | peekBack => simp [specPeekOpsF, h2]

end KotoVerif.Iter
