/-
Helper lemmas for C15: `char::encode_utf8` produces well-formed UTF-8 for every scalar value.
Core Lean only.
-/
import KotoVerif.Lemmas.C15Utf8

namespace KotoVerif.Utf8

theorem step_ascii {b : Nat} (h : b < 0x80) : u8step .start b = some .start := by
  simp [u8step, h]

theorem step_lead2 {b : Nat} (h1 : 0xC2 ≤ b) (h2 : b ≤ 0xDF) : u8step .start b = some (.need 0 0x80 0xBF) := by
  have : ¬ b < 0x80 := by omega
  simp [u8step, this, h1, h2]

theorem step_E0 : u8step .start 0xE0 = some (.need 1 0xA0 0xBF) := by decide

theorem step_lead3 {b : Nat} (h : (0xE1 ≤ b ∧ b ≤ 0xEC) ∨ b = 0xEE ∨ b = 0xEF) :
    u8step .start b = some (.need 1 0x80 0xBF) := by
  have h1 : ¬ b < 0x80 := by omega
  have h2 : ¬ (0xC2 ≤ b ∧ b ≤ 0xDF) := by omega
  have h3 : ¬ b = 0xE0 := by omega
  simp [u8step, h1, h2, h3, h]

theorem step_ED : u8step .start 0xED = some (.need 1 0x80 0x9F) := by decide
theorem step_F0 : u8step .start 0xF0 = some (.need 2 0x90 0xBF) := by decide
theorem step_F4 : u8step .start 0xF4 = some (.need 2 0x80 0x8F) := by decide

theorem step_lead4 {b : Nat} (h1 : 0xF1 ≤ b) (h2 : b ≤ 0xF3) : u8step .start b = some (.need 2 0x80 0xBF) := by
  have a1 : ¬ b < 0x80 := by omega
  have a2 : ¬ (0xC2 ≤ b ∧ b ≤ 0xDF) := by omega
  have a3 : ¬ b = 0xE0 := by omega
  have a4 : ¬ ((0xE1 ≤ b ∧ b ≤ 0xEC) ∨ b = 0xEE ∨ b = 0xEF) := by omega
  have a5 : ¬ b = 0xED := by omega
  have a6 : ¬ b = 0xF0 := by omega
  simp [u8step, a1, a2, a3, a4, a5, a6, h1, h2]

theorem step_need0 {lo hi b : Nat} (h1 : 0x80 ≤ b) (h2 : b < 0xC0) (h3 : lo ≤ b) (h4 : b ≤ hi) :
    u8step (.need 0 lo hi) b = some .start := by
  simp [u8step, isCont, h1, h2, h3, h4]

theorem step_needS {k lo hi b : Nat} (h1 : 0x80 ≤ b) (h2 : b < 0xC0) (h3 : lo ≤ b) (h4 : b ≤ hi) :
    u8step (.need (k + 1) lo hi) b = some (.need k 0x80 0xBF) := by
  simp [u8step, isCont, h1, h2, h3, h4]

theorem run2 {a b : Nat} {s1 : U8} (h1 : u8step .start a = some s1) (h2 : u8step s1 b = some .start) :
    u8run .start [a, b] = some .start := by simp [u8run, h1, h2]

theorem run3 {a b c : Nat} {s1 s2 : U8} (h1 : u8step .start a = some s1) (h2 : u8step s1 b = some s2)
    (h3 : u8step s2 c = some .start) : u8run .start [a, b, c] = some .start := by simp [u8run, h1, h2, h3]

theorem run4 {a b c d : Nat} {s1 s2 s3 : U8} (h1 : u8step .start a = some s1) (h2 : u8step s1 b = some s2)
    (h3 : u8step s2 c = some s3) (h4 : u8step s3 d = some .start) : u8run .start [a, b, c, d] = some .start := by
  simp [u8run, h1, h2, h3, h4]

/-- **the encoding of every scalar value is well-formed UTF-8** -/
theorem utf8Enc_valid {cp : Nat} (h : isScalar cp = true) : validUtf8 (utf8Enc cp) = true := by
  simp only [isScalar, Bool.or_eq_true, Bool.and_eq_true, decide_eq_true_eq] at h
  rw [validUtf8_iff]
  simp only [utf8Enc]
  split
  · rename_i h1
    simp [u8run, step_ascii h1]
  · split
    · rename_i h1 h2
      exact run2 (step_lead2 (by omega) (by omega)) (step_need0 (by omega) (by omega) (by omega) (by omega))
    · split
      · rename_i h1 h2 h3
        -- three bytes: lead E0 (second byte ≥ A0), ED (second byte ≤ 9F, no surrogates), others
        by_cases hE0 : cp / 4096 = 0
        · rw [hE0]
          exact run3 step_E0 (step_needS (by omega) (by omega) (by omega) (by omega))
            (step_need0 (by omega) (by omega) (by omega) (by omega))
        · by_cases hED : cp / 4096 = 13
          · rw [hED]
            exact run3 step_ED (step_needS (by omega) (by omega) (by omega) (by omega))
              (step_need0 (by omega) (by omega) (by omega) (by omega))
          · exact run3 (step_lead3 (by omega)) (step_needS (by omega) (by omega) (by omega) (by omega))
              (step_need0 (by omega) (by omega) (by omega) (by omega))
      · rename_i h1 h2 h3
        by_cases hF0 : cp / 262144 = 0
        · rw [hF0]
          exact run4 step_F0 (step_needS (by omega) (by omega) (by omega) (by omega))
            (step_needS (by omega) (by omega) (by omega) (by omega))
            (step_need0 (by omega) (by omega) (by omega) (by omega))
        · by_cases hF4 : cp / 262144 = 4
          · rw [hF4]
            exact run4 step_F4 (step_needS (by omega) (by omega) (by omega) (by omega))
              (step_needS (by omega) (by omega) (by omega) (by omega))
              (step_need0 (by omega) (by omega) (by omega) (by omega))
          · exact run4 (step_lead4 (by omega) (by omega)) (step_needS (by omega) (by omega) (by omega) (by omega))
              (step_needS (by omega) (by omega) (by omega) (by omega))
              (step_need0 (by omega) (by omega) (by omega) (by omega))

end KotoVerif.Utf8
