/-
C05 `compile_wf`, byte level, part 5: per-instruction facts of the encoded stream and the theorem
`wfChunk_encodeMain`: a structured code block of the compiler core, encoded as a main block, is
accepted by `wfChunk`.
-/
import KotoVerif.Lemmas.C05CWBytes4

set_option linter.unusedSimpArgs false

namespace KotoVerif.Compile
open KotoVerif.Gen KotoVerif.Bytecode

/-- facts about one encoded non-jump instruction of the core -/
structure EncFacts (consts : List CKind) (rc : Nat) (i : Bytecode.Instr) : Prop where
  valid : i.valid = true
  notFn : i.op ≠ .Function
  notNf : i.op ≠ .NewFrame
  neutral : ∀ d, applyEff i.op d = some d
  lin : ∀ s t, linStep i.op s t = some (s, t)
  regs : regsOk rc i = true
  consts : constsOk consts i = true
  succ : ∀ pc sz d, succPcs ⟨pc, sz, i, d⟩ = some [pc + sz]
  nonterm : isTerminal i.op = false

theorem encInstr_facts (cidx : Int → Nat) (consts : List CKind) (rc : Nat) (x : Instr)
    (hrc : rc ≤ 255) (hr : ∀ r ∈ instrRegs x, r < rc)
    (hc : ∀ n, cidx n < 4294967296 ∧ consts[cidx n]? = some .int) :
    EncFacts consts rc (encInstr cidx x) := by
  cases x with
  | setNull r =>
    have := hr r (by simp [instrRegs])
    constructor <;> simp [encInstr, Instr.valid, Instr.fields, Instr.staticArgs, layout, tailLayout, fieldsOk, fieldOk,
      applyEff, linStep, regsOk, regAccesses, regOperands, windowTop, constsOk, constOperands, succPcs, fwdOffsets,
      Ann.next, isTerminal] <;> omega
  | setBool r b =>
    have := hr r (by simp [instrRegs])
    cases b <;> constructor <;> simp [encInstr, Instr.valid, Instr.fields, Instr.staticArgs, layout, tailLayout, fieldsOk, fieldOk,
      applyEff, linStep, regsOk, regAccesses, regOperands, windowTop, constsOk, constOperands, succPcs, fwdOffsets,
      Ann.next, isTerminal] <;> omega
  | setInt r n =>
    have := hr r (by simp [instrRegs])
    have hcn := hc n
    simp only [encInstr, setIntInstr]
    split
    · constructor <;> simp [Instr.valid, Instr.fields, Instr.staticArgs, layout, tailLayout, fieldsOk, fieldOk,
        applyEff, linStep, regsOk, regAccesses, regOperands, windowTop, constsOk, constOperands, succPcs, fwdOffsets,
        Ann.next, isTerminal] <;> omega
    · split
      · constructor <;> simp [Instr.valid, Instr.fields, Instr.staticArgs, layout, tailLayout, fieldsOk, fieldOk,
          applyEff, linStep, regsOk, regAccesses, regOperands, windowTop, constsOk, constOperands, succPcs, fwdOffsets,
          Ann.next, isTerminal] <;> omega
      · split
        · constructor <;> simp [Instr.valid, Instr.fields, Instr.staticArgs, layout, tailLayout, fieldsOk, fieldOk,
            applyEff, linStep, regsOk, regAccesses, regOperands, windowTop, constsOk, constOperands, succPcs, fwdOffsets,
            Ann.next, isTerminal] <;> omega
        · split
          · constructor <;> simp [Instr.valid, Instr.fields, Instr.staticArgs, layout, tailLayout, fieldsOk, fieldOk,
              applyEff, linStep, regsOk, regAccesses, regOperands, windowTop, constsOk, constOperands, succPcs, fwdOffsets,
              Ann.next, isTerminal] <;> omega
          · constructor <;> simp [Instr.valid, Instr.fields, Instr.staticArgs, layout, tailLayout, fieldsOk, fieldOk,
              applyEff, linStep, regsOk, regAccesses, regOperands, windowTop, constsOk, constOperands, succPcs, fwdOffsets,
              Ann.next, isTerminal, hcn.1, hcn.2] <;> omega
  | copy d s =>
    have := hr d (by simp [instrRegs]); have := hr s (by simp [instrRegs])
    constructor <;> simp [encInstr, Instr.valid, Instr.fields, Instr.staticArgs, layout, tailLayout, fieldsOk, fieldOk,
      applyEff, linStep, regsOk, regAccesses, regOperands, windowTop, constsOk, constOperands, succPcs, fwdOffsets,
      Ann.next, isTerminal] <;> omega
  | unop op d s =>
    have := hr d (by simp [instrRegs]); have := hr s (by simp [instrRegs])
    cases op <;> constructor <;> simp [encInstr, unOpcode, Instr.valid, Instr.fields, Instr.staticArgs, layout, tailLayout, fieldsOk, fieldOk,
      applyEff, linStep, regsOk, regAccesses, regOperands, windowTop, constsOk, constOperands, succPcs, fwdOffsets,
      Ann.next, isTerminal] <;> omega
  | binop op d a b =>
    have := hr d (by simp [instrRegs]); have := hr a (by simp [instrRegs]); have := hr b (by simp [instrRegs])
    cases op <;> constructor <;> simp [encInstr, binOpcode, Instr.valid, Instr.fields, Instr.staticArgs, layout, tailLayout, fieldsOk, fieldOk,
      applyEff, linStep, regsOk, regAccesses, regOperands, windowTop, constsOk, constOperands, succPcs, fwdOffsets,
      Ann.next, isTerminal] <;> omega
  | compound op l r =>
    have := hr l (by simp [instrRegs]); have := hr r (by simp [instrRegs])
    cases op <;> constructor <;> simp [encInstr, compoundOpcode, Instr.valid, Instr.fields, Instr.staticArgs, layout, tailLayout, fieldsOk, fieldOk,
      applyEff, linStep, regsOk, regAccesses, regOperands, windowTop, constsOk, constOperands, succPcs, fwdOffsets,
      Ann.next, isTerminal] <;> omega


/-- what `wfChunk_of_program` needs to know about one instruction of the body -/
structure InstrOk (consts : List CKind) (rc : Nat) (i : Bytecode.Instr) : Prop where
  valid : i.valid = true
  notFn : i.op ≠ .Function
  notNf : i.op ≠ .NewFrame
  neutral : ∀ d, applyEff i.op d = some d
  lin : ∀ s t, linStep i.op s t = some (s, t)
  regs : regsOk rc i = true
  consts : constsOk consts i = true

theorem instrOk_jif (consts : List CKind) (rc r off : Nat) (hrc : rc ≤ 255) (hr : r < rc) (ho : off < 65536) :
    InstrOk consts rc ⟨.JumpIfFalse, [r, off]⟩ := by
  constructor <;> simp [Instr.valid, Instr.fields, Instr.staticArgs, layout, tailLayout, fieldsOk, fieldOk,
    applyEff, linStep, regsOk, regAccesses, regOperands, windowTop, constsOk, constOperands] <;> omega

theorem instrOk_jit (consts : List CKind) (rc r off : Nat) (hrc : rc ≤ 255) (hr : r < rc) (ho : off < 65536) :
    InstrOk consts rc ⟨.JumpIfTrue, [r, off]⟩ := by
  constructor <;> simp [Instr.valid, Instr.fields, Instr.staticArgs, layout, tailLayout, fieldsOk, fieldOk,
    applyEff, linStep, regsOk, regAccesses, regOperands, windowTop, constsOk, constOperands] <;> omega

theorem instrOk_jump (consts : List CKind) (rc off : Nat) (ho : off < 65536) :
    InstrOk consts rc ⟨.Jump, [off]⟩ := by
  constructor <;> simp [Instr.valid, Instr.fields, Instr.staticArgs, layout, tailLayout, fieldsOk, fieldOk,
    applyEff, linStep, regsOk, regAccesses, regOperands, windowTop, constsOk, constOperands] <;> omega

theorem instrOk_return (consts : List CKind) (rc r : Nat) (hrc : rc ≤ 255) (hr : r < rc) :
    InstrOk consts rc ⟨.Return, [r]⟩ := by
  constructor <;> simp [Instr.valid, Instr.fields, Instr.staticArgs, layout, tailLayout, fieldsOk, fieldOk,
    applyEff, linStep, regsOk, regAccesses, regOperands, windowTop, constsOk, constOperands] <;> omega

theorem sizeOf_take_le (cidx : Int → Nat) (l : List Flat) (k : Nat) : sizeOf cidx (l.take k) ≤ sizeOf cidx l := by
  have := sizeOf_append cidx (l.take k) (l.drop k)
  rw [List.take_append_drop] at this
  omega

theorem encFlat_ok (cidx : Int → Nat) (consts : List CKind) (rc : Nat) (hrc : rc ≤ 255)
    (hc : ∀ n, cidx n < 4294967296 ∧ consts[cidx n]? = some .int) (fs : List Flat)
    (hr : ∀ f ∈ fs, ∀ r ∈ flatRegs f, r < rc) (hsz : sizeOf cidx fs ≤ 65535) :
    ∀ i ∈ encFlat cidx fs, InstrOk consts rc i := by
  induction fs with
  | nil => intro i hi; simp [encFlat] at hi
  | cons f rest ih =>
    have hsz' : sizeOf cidx rest ≤ 65535 := by
      have : sizeOf cidx (f :: rest) = flatSize cidx f + sizeOf cidx rest := by simp [sizeOf]
      omega
    have ih' := ih (fun g hg => hr g (by simp [hg])) hsz'
    have hoff : ∀ k, sizeOf cidx (rest.take k) < 65536 := by
      intro k; have := sizeOf_take_le cidx rest k; omega
    intro i hi
    cases f with
    | op x =>
      simp only [encFlat, List.mem_cons] at hi
      rcases hi with rfl | hi
      · have hf := encInstr_facts cidx consts rc x hrc (fun r hr' => hr (.op x) (by simp) r (by simpa [flatRegs] using hr')) hc
        exact ⟨hf.valid, hf.notFn, hf.notNf, hf.neutral, hf.lin, hf.regs, hf.consts⟩
      · exact ih' i hi
    | jumpIfFalse r k =>
      simp only [encFlat, List.mem_cons] at hi
      rcases hi with rfl | hi
      · exact instrOk_jif consts rc r _ hrc (hr (.jumpIfFalse r k) (by simp) r (by simp [flatRegs])) (hoff k)
      · exact ih' i hi
    | jumpIfTrue r k =>
      simp only [encFlat, List.mem_cons] at hi
      rcases hi with rfl | hi
      · exact instrOk_jit consts rc r _ hrc (hr (.jumpIfTrue r k) (by simp) r (by simp [flatRegs])) (hoff k)
      · exact ih' i hi
    | jump k =>
      simp only [encFlat, List.mem_cons] at hi
      rcases hi with rfl | hi
      · exact instrOk_jump consts rc _ (hoff k)
      · exact ih' i hi

/-- **compile_wf, byte level, for a structured code block**: `NewFrame rc; code; Return r` encoded with
`Model/Encode.lean` is accepted by the verifier whenever the block's registers and `r` are below
`rc ≤ 255`, its byte size fits the u16 jump offsets, and the integer constants are in the pool. -/
theorem wfChunk_encodeMain (cidx : Int → Nat) (consts : List CKind) (rc r : Nat) (code : Code)
    (hrc : rc ≤ 255) (hr : r < rc) (hregs : ∀ f ∈ flatten code, ∀ q ∈ flatRegs f, q < rc)
    (hsz : sizeOf cidx (flatten code) ≤ 65535)
    (hc : ∀ n, cidx n < 4294967296 ∧ consts[cidx n]? = some .int) :
    wfChunk (encodeMain cidx rc (flatten code) r) consts = true := by
  have hbody : ∀ i ∈ encFlat cidx (flatten code) ++ [⟨.Return, [r]⟩], InstrOk consts rc i := by
    intro i hi
    simp only [List.mem_append, List.mem_singleton] at hi
    rcases hi with hi | rfl
    · exact encFlat_ok cidx consts rc hrc hc _ hregs hsz i hi
    · exact instrOk_return consts rc r hrc hr
  have hnfsize : esize ⟨.NewFrame, [rc]⟩ = 2 := by
    simp [esize, encode, Instr.fields, Instr.staticArgs, layout, tailLayout, encodeFields, encodeField, Op.code]
  have hretsize : esize ⟨.Return, [r]⟩ = 2 := by
    simp [esize, encode, Instr.fields, Instr.staticArgs, layout, tailLayout, encodeFields, encodeField, Op.code]
  -- the listing
  have hlay : lay (some Z) 0 (⟨.NewFrame, [rc]⟩ :: (encFlat cidx (flatten code) ++ [⟨.Return, [r]⟩]))
      = ⟨0, 2, ⟨.NewFrame, [rc]⟩, some Z⟩ ::
          (S cidx code 2 ++ [⟨2 + sz cidx code, 2, ⟨.Return, [r]⟩, some Z⟩]) := by
    simp only [lay, hnfsize, lay_append, esizes_encFlat, hretsize, S, sz, Nat.zero_add]
  obtain ⟨hcov, hexit, hlands⟩ := block_ok cidx code 2 true
    (fwdTgts ⟨0, 2, ⟨.NewFrame, [rc]⟩, some Z⟩ ++ []) (.inl rfl)
  have hsuccNF : succPcs ⟨0, 2, ⟨.NewFrame, [rc]⟩, some Z⟩ = some [2] := by
    simp [succPcs, fwdOffsets, Instr.fields, Instr.staticArgs, layout, tailLayout, Ann.next]
  have hsuccRet : succPcs ⟨2 + sz cidx code, 2, ⟨.Return, [r]⟩, some Z⟩ = some [] := by
    simp [succPcs]
  unfold encodeMain
  apply wfChunk_of_program rc _ consts
  · intro i hi
    simp only [List.mem_cons] at hi
    rcases hi with rfl | hi
    · simp [Instr.valid, Instr.fields, Instr.staticArgs, layout, tailLayout, fieldsOk, fieldOk]; omega
    · exact (hbody i hi).valid
  · exact fun i hi => (hbody i hi).notFn
  · exact fun i hi => (hbody i hi).notNf
  · exact fun i hi => (hbody i hi).neutral
  · exact fun i hi => (hbody i hi).lin
  · exact fun i hi => (hbody i hi).regs
  · exact fun i hi => (hbody i hi).consts
  · rw [hlay]
    refine ⟨.inl rfl, ?_⟩
    have hterm : isTerminal (⟨0, 2, ⟨.NewFrame, [rc]⟩, some Z⟩ : Ann).ins.op = false := by simp [isTerminal]
    simp only [hterm, Bool.not_false]
    refine CovU_append _ _ _ _ hcov ⟨?_, trivial⟩
    exact hexit
  · rw [hlay]
    refine ⟨⟨_, hsuccNF, ?_⟩, ?_⟩
    · intro p hp
      simp at hp
      subst hp
      left
      refine ⟨by simp, ?_⟩
      rcases S_start cidx code 2 with ⟨h1, h2⟩ | ⟨b, rest, h1, h2⟩
      · exact ⟨⟨2 + sz cidx code, 2, ⟨.Return, [r]⟩, some Z⟩, by simp, by simp [h2]⟩
      · exact ⟨b, by simp [h1], h2⟩
    · exact TgtOkS_of_TgtOk _ _ (TgtOk_append _ _ _ hlands ⟨⟨_, hsuccRet, by simp⟩, trivial⟩ ⟨_, _, rfl, rfl⟩)

end KotoVerif.Compile
