/-
C05 `compile_wf`, statement layer, part 1: the byte encoding of the flat stream with `JumpBack`
(`encL`), and its compositionality for blocks whose jumps stay inside them.
-/
import KotoVerif.Lemmas.C05CWBytes5
import KotoVerif.Model.CompileLoop

set_option linter.unusedSimpArgs false

namespace KotoVerif.Compile
open KotoVerif.Gen KotoVerif.Bytecode

/-! ### bytes of the statement layer's flat stream (`LFlat`: forward jumps and `JumpBack`) -/

def lflatSize (cidx : Int → Nat) : LFlat → Nat
  | .op i => esize (encInstr cidx i)
  | .jumpIfFalse _ _ => 4
  | .jumpIfTrue _ _ => 4
  | .jump _ => 3
  | .jumpBack _ => 3

def sizeOfL (cidx : Int → Nat) (fs : List LFlat) : Nat := (fs.map (lflatSize cidx)).sum

/-- `encL done rest`: the instructions of `rest`, where `done` are the instructions before it, most
recent first. A forward skip of `k` instructions becomes the byte size of the next `k` instructions;
`jumpBack k` (`pc := pc + 1 - k`, the offset is subtracted from the ip *after* the instruction)
becomes the byte size of the `k - 1` instructions before it plus its own 3 bytes
(`push_jump_back_op`: `bytes.len() + 3 - target_ip`). -/
def encL (cidx : Int → Nat) : List LFlat → List LFlat → List Bytecode.Instr
  | _, [] => []
  | done, .op i :: rest => encInstr cidx i :: encL cidx (.op i :: done) rest
  | done, .jumpIfFalse r k :: rest =>
    ⟨.JumpIfFalse, [r, sizeOfL cidx (rest.take k)]⟩ :: encL cidx (.jumpIfFalse r k :: done) rest
  | done, .jumpIfTrue r k :: rest =>
    ⟨.JumpIfTrue, [r, sizeOfL cidx (rest.take k)]⟩ :: encL cidx (.jumpIfTrue r k :: done) rest
  | done, .jump k :: rest => ⟨.Jump, [sizeOfL cidx (rest.take k)]⟩ :: encL cidx (.jump k :: done) rest
  | done, .jumpBack k :: rest =>
    ⟨.JumpBack, [sizeOfL cidx (done.take (k - 1)) + 3]⟩ :: encL cidx (.jumpBack k :: done) rest

/-- a main block: `NewFrame`, the statements and the final expression, `Return` -/
def encodeProg (cidx : Int → Nat) (registersUsed : Nat) (fs : List LFlat) (result : Reg) : List Nat :=
  (⟨.NewFrame, [registersUsed]⟩ :: (encL cidx [] fs ++ [⟨.Return, [result]⟩])).flatMap encode

def LFlat.skip : LFlat → Nat
  | .jumpIfFalse _ s => s
  | .jumpIfTrue _ s => s
  | .jump s => s
  | _ => 0

/-- forward skips stay inside the list -/
def jumpsOkL : List LFlat → Bool
  | [] => true
  | f :: rest => decide (f.skip ≤ rest.length) && jumpsOkL rest

/-- backward jumps stay inside the list: `jumpBack k` at (local) index `i` has `1 ≤ k ≤ i + 1` -/
def backOkL : Nat → List LFlat → Bool
  | _, [] => true
  | i, .jumpBack k :: rest => decide (1 ≤ k ∧ k ≤ i + 1) && backOkL (i + 1) rest
  | i, _ :: rest => backOkL (i + 1) rest

theorem sizeOfL_append (cidx : Int → Nat) (a b : List LFlat) :
    sizeOfL cidx (a ++ b) = sizeOfL cidx a + sizeOfL cidx b := by simp [sizeOfL]

theorem jumpsOkL_append (a b : List LFlat) (ha : jumpsOkL a = true) (hb : jumpsOkL b = true) :
    jumpsOkL (a ++ b) = true := by
  induction a with
  | nil => simpa using hb
  | cons f rest ih =>
    simp only [jumpsOkL, Bool.and_eq_true, decide_eq_true_eq] at ha
    simp only [List.cons_append, jumpsOkL, Bool.and_eq_true, decide_eq_true_eq, List.length_append]
    exact ⟨by omega, ih ha.2⟩

theorem backOkL_mono (X : List LFlat) : ∀ i j, i ≤ j → backOkL i X = true → backOkL j X = true := by
  induction X with
  | nil => intros; rfl
  | cons f rest ih =>
    intro i j hij h
    cases f with
    | jumpBack k =>
      simp only [backOkL, Bool.and_eq_true, decide_eq_true_eq] at h ⊢
      exact ⟨⟨h.1.1, by omega⟩, ih _ _ (by omega) h.2⟩
    | op _ => simp only [backOkL] at h ⊢; exact ih _ _ (by omega) h
    | jumpIfFalse _ _ => simp only [backOkL] at h ⊢; exact ih _ _ (by omega) h
    | jumpIfTrue _ _ => simp only [backOkL] at h ⊢; exact ih _ _ (by omega) h
    | jump _ => simp only [backOkL] at h ⊢; exact ih _ _ (by omega) h

theorem backOkL_append (A B : List LFlat) : ∀ i, backOkL i A = true → backOkL (i + A.length) B = true →
    backOkL i (A ++ B) = true := by
  induction A with
  | nil => intro i _ h; simpa using h
  | cons f rest ih =>
    intro i hA hB
    have hB' : backOkL (i + 1 + rest.length) B = true := by
      have : i + (f :: rest).length = i + 1 + rest.length := by simp; omega
      rw [← this]; exact hB
    cases f with
    | jumpBack k =>
      simp only [backOkL, Bool.and_eq_true, decide_eq_true_eq, List.cons_append] at hA ⊢
      exact ⟨hA.1, ih _ hA.2 hB'⟩
    | op _ => simp only [backOkL, List.cons_append] at hA ⊢; exact ih _ hA hB'
    | jumpIfFalse _ _ => simp only [backOkL, List.cons_append] at hA ⊢; exact ih _ hA hB'
    | jumpIfTrue _ _ => simp only [backOkL, List.cons_append] at hA ⊢; exact ih _ hA hB'
    | jump _ => simp only [backOkL, List.cons_append] at hA ⊢; exact ih _ hA hB'

theorem encL_append (cidx : Int → Nat) (A B : List LFlat) (hA : jumpsOkL A = true) :
    ∀ done, encL cidx done (A ++ B) = encL cidx done A ++ encL cidx (A.reverse ++ done) B := by
  induction A with
  | nil => intro done; simp [encL]
  | cons f rest ih =>
    intro done
    simp only [jumpsOkL, Bool.and_eq_true, decide_eq_true_eq] at hA
    have ih' := ih hA.2
    have htake : ∀ k, k ≤ rest.length → (rest ++ B).take k = rest.take k :=
      fun k hk => List.take_append_of_le_length hk
    cases f with
    | op i => simp [encL, ih']
    | jumpIfFalse r k => simp [encL, ih', htake k (by simpa [LFlat.skip] using hA.1)]
    | jumpIfTrue r k => simp [encL, ih', htake k (by simpa [LFlat.skip] using hA.1)]
    | jump k => simp [encL, ih', htake k (by simpa [LFlat.skip] using hA.1)]
    | jumpBack k => simp [encL, ih']

/-- the encoding of a block whose backward jumps stay inside it does not depend on what precedes it -/
theorem encL_closed (cidx : Int → Nat) (X : List LFlat) :
    ∀ (P done done' : List LFlat), backOkL P.length X = true →
      encL cidx (P ++ done) X = encL cidx (P ++ done') X := by
  induction X with
  | nil => intros; rfl
  | cons f rest ih =>
    intro P done done' h
    cases f with
    | op i =>
      simp only [backOkL] at h
      simp only [encL]
      rw [← List.cons_append, ← List.cons_append, ih (.op i :: P) done done' (by simpa using h)]
    | jumpIfFalse r k =>
      simp only [backOkL] at h
      simp only [encL]
      rw [← List.cons_append, ← List.cons_append, ih (.jumpIfFalse r k :: P) done done' (by simpa using h)]
    | jumpIfTrue r k =>
      simp only [backOkL] at h
      simp only [encL]
      rw [← List.cons_append, ← List.cons_append, ih (.jumpIfTrue r k :: P) done done' (by simpa using h)]
    | jump k =>
      simp only [backOkL] at h
      simp only [encL]
      rw [← List.cons_append, ← List.cons_append, ih (.jump k :: P) done done' (by simpa using h)]
    | jumpBack k =>
      simp only [backOkL, Bool.and_eq_true, decide_eq_true_eq] at h
      simp only [encL]
      have ht : ∀ d, (P ++ d).take (k - 1) = P.take (k - 1) := fun d => List.take_append_of_le_length (by omega)
      rw [ht done, ht done']
      rw [← List.cons_append, ← List.cons_append, ih (.jumpBack k :: P) done done' (by simpa using h.2)]

theorem encL_closed' (cidx : Int → Nat) (X done : List LFlat) (h : backOkL 0 X = true) :
    encL cidx done X = encL cidx [] X := by
  have := encL_closed cidx X [] done [] (by simpa using h)
  simpa using this

theorem esizes_encL (cidx : Int → Nat) (fs : List LFlat) : ∀ done, esizes (encL cidx done fs) = sizeOfL cidx fs := by
  induction fs with
  | nil => intro; rfl
  | cons f rest ih =>
    intro done
    have esize_jb : ∀ off, esize ⟨.JumpBack, [off]⟩ = 3 := by
      intro off
      simp [esize, encode, Instr.fields, Instr.staticArgs, layout, tailLayout, encodeFields, encodeField, encodeU16, Op.code]
    cases f <;>
      simp only [encL, esizes, sizeOfL, List.map_cons, List.sum_cons, lflatSize, esize_jif, esize_jit, esize_jump, esize_jb] at * <;>
      rw [ih]

/-! ### the core's streams inside the statement layer -/

theorem encL_ofFlat (cidx : Int → Nat) (fs : List Flat) :
    ∀ done, encL cidx done (fs.map LFlat.ofFlat) = encFlat cidx fs
      ∧ sizeOfL cidx (fs.map LFlat.ofFlat) = sizeOf cidx fs := by
  induction fs with
  | nil => intro; exact ⟨rfl, rfl⟩
  | cons f rest ih =>
    intro done
    have hsz : ∀ k, sizeOfL cidx ((rest.map LFlat.ofFlat).take k) = sizeOf cidx (rest.take k) := by
      intro k
      rw [← List.map_take]
      induction (rest.take k) with
      | nil => rfl
      | cons g r ihg =>
        cases g <;> simp only [List.map_cons, LFlat.ofFlat, sizeOfL, sizeOf, List.sum_cons, lflatSize, flatSize] at * <;>
          (rw [ihg]; try rfl)
    cases f with
    | op i =>
      obtain ⟨h1, h2⟩ := ih (.op i :: done)
      refine ⟨by simp [LFlat.ofFlat, encL, encFlat, h1], ?_⟩
      simp only [List.map_cons, LFlat.ofFlat, sizeOfL, sizeOf, List.sum_cons, lflatSize, flatSize] at *
      rw [h2]; rfl
    | jumpIfFalse r k =>
      obtain ⟨h1, h2⟩ := ih (.jumpIfFalse r k :: done)
      refine ⟨by simp [LFlat.ofFlat, encL, encFlat, h1, hsz], ?_⟩
      simp only [List.map_cons, LFlat.ofFlat, sizeOfL, sizeOf, List.sum_cons, lflatSize, flatSize] at *
      rw [h2]
    | jumpIfTrue r k =>
      obtain ⟨h1, h2⟩ := ih (.jumpIfTrue r k :: done)
      refine ⟨by simp [LFlat.ofFlat, encL, encFlat, h1, hsz], ?_⟩
      simp only [List.map_cons, LFlat.ofFlat, sizeOfL, sizeOf, List.sum_cons, lflatSize, flatSize] at *
      rw [h2]
    | jump k =>
      obtain ⟨h1, h2⟩ := ih (.jump k :: done)
      refine ⟨by simp [LFlat.ofFlat, encL, encFlat, h1, hsz], ?_⟩
      simp only [List.map_cons, LFlat.ofFlat, sizeOfL, sizeOf, List.sum_cons, lflatSize, flatSize] at *
      rw [h2]

theorem ofFlat_ok (fs : List Flat) (h : jumpsOk fs = true) :
    jumpsOkL (fs.map LFlat.ofFlat) = true ∧ ∀ i, backOkL i (fs.map LFlat.ofFlat) = true := by
  induction fs with
  | nil => exact ⟨rfl, fun _ => rfl⟩
  | cons f rest ih =>
    simp only [jumpsOk, Bool.and_eq_true, decide_eq_true_eq] at h
    obtain ⟨i1, i2⟩ := ih h.2
    refine ⟨?_, ?_⟩
    · simp only [List.map_cons, jumpsOkL, Bool.and_eq_true, decide_eq_true_eq, List.length_map]
      refine ⟨?_, i1⟩
      cases f <;> simp [LFlat.ofFlat, LFlat.skip, Flat.skip] at * <;> omega
    · intro i
      cases f <;> simp [LFlat.ofFlat, backOkL, i2]

end KotoVerif.Compile
