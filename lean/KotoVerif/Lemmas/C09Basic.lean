/-
Helper lemmas for C09: byte/newline accounting over character lists and the generic scanning loop.
-/
import KotoVerif.Model.Lexer

namespace KotoVerif.Lexer

/-- number of line breaks (`'\n'`) in a character list -/
def nlCount (cs : List Ch) : Nat := (cs.filter (fun c => c.cp = cpNL)).length

@[simp] theorem byteLen_nil : byteLen [] = 0 := rfl
@[simp] theorem byteLen_cons (c : Ch) (cs : List Ch) : byteLen (c :: cs) = c.len + byteLen cs := by
  simp [byteLen]
@[simp] theorem byteLen_append (a b : List Ch) : byteLen (a ++ b) = byteLen a + byteLen b := by
  simp [byteLen]

@[simp] theorem nlCount_nil : nlCount [] = 0 := rfl
theorem nlCount_cons (c : Ch) (cs : List Ch) :
    nlCount (c :: cs) = (if c.cp = cpNL then 1 else 0) + nlCount cs := by
  unfold nlCount
  by_cases h : c.cp = cpNL <;> simp [List.filter_cons, h] <;> omega
@[simp] theorem nlCount_append (a b : List Ch) : nlCount (a ++ b) = nlCount a + nlCount b := by
  simp [nlCount]

theorem utf8Len_pos (cp : Nat) : 0 < utf8Len cp := by
  unfold utf8Len; split <;> (try split) <;> (try split) <;> omega

theorem Ch.len_pos (c : Ch) : 0 < c.len := utf8Len_pos _

theorem utf8Len_ascii {cp : Nat} (h : cp < 128) : utf8Len cp = 1 := by
  unfold utf8Len; simp [h]

/-! ### dropBytes -/

theorem dropBytes_spec : ∀ (n : Nat) (src post : List Ch), dropBytes n src = some post →
    ∃ pre, src = pre ++ post ∧ byteLen pre = n := by
  intro n src
  induction src generalizing n with
  | nil =>
    intro post h
    simp only [dropBytes] at h
    split at h
    · cases h; exact ⟨[], by simp, by simp; omega⟩
    · cases h
  | cons c cs ih =>
    intro post h
    simp only [dropBytes] at h
    split at h
    · cases h; exact ⟨[], by simp, by simp; omega⟩
    · split at h
      · obtain ⟨pre, h1, h2⟩ := ih _ _ h
        refine ⟨c :: pre, by simp [h1], ?_⟩
        simp [h2]; omega
      · cases h

theorem dropBytes_append (pre post : List Ch) : dropBytes (byteLen pre) (pre ++ post) = some post := by
  induction pre with
  | nil =>
    cases post <;> simp [dropBytes]
  | cons c cs ih =>
    have hp := c.len_pos
    simp only [List.cons_append, dropBytes, byteLen_cons]
    have h1 : ¬ (c.len + byteLen cs = 0) := by omega
    have h2 : c.len ≤ c.len + byteLen cs := by omega
    simp only [h1, h2, if_true, if_false]
    have : c.len + byteLen cs - c.len = byteLen cs := by omega
    rw [this]; exact ih

/-! ### the generic scanning loop -/

/-- Local soundness of a scanner iteration: when it continues, it accounts exactly for the current
character and the `extra` following ones (bytes and line breaks). -/
def ActNextOk {ρ : Type} (act : Ch → List Ch → Nat → Pos → Act ρ) : Prop :=
  ∀ c cs b p extra b' p', act c cs b p = .next extra b' p' →
    extra ≤ cs.length ∧ b' = b + byteLen (c :: cs.take extra) ∧
      p'.line = p.line + nlCount (c :: cs.take extra)

/-- Generic loop lemma: if every continuing iteration is locally sound, then whatever the loop
returns is justified either by a `stop` decision taken at a point where the counters are exact for
the consumed prefix, or by reaching the end of input with exact counters. -/
theorem scan_spec {ρ : Type} (act : Ch → List Ch → Nat → Pos → Act ρ) (eof : Nat → Pos → ρ)
    (P : ρ → Prop) (cs0 : List Ch) (b0 : Nat) (p0 : Pos)
    (hact : ActNextOk act)
    (hstop : ∀ done c cs b p r, cs0 = done ++ c :: cs → b = b0 + byteLen done →
      p.line = p0.line + nlCount done → act c cs b p = .stop r → P r)
    (heof : ∀ b p, b = b0 + byteLen cs0 → p.line = p0.line + nlCount cs0 → P (eof b p)) :
    P (scan act eof 0 cs0 b0 p0) := by
  -- generalised invariant: at `scan skip cs b p` with `cs0 = done ++ cs`, the counters already
  -- include the next `skip` characters
  suffices H : ∀ (cs done : List Ch) (skip b : Nat) (p : Pos), cs0 = done ++ cs → skip ≤ cs.length →
      b = b0 + byteLen (done ++ cs.take skip) → p.line = p0.line + nlCount (done ++ cs.take skip) →
      P (scan act eof skip cs b p) by
    exact H cs0 [] 0 b0 p0 (by simp) (by omega) (by simp) (by simp)
  intro cs
  induction cs with
  | nil =>
    intro done skip b p h0 _ hb hp
    have : scan act eof skip [] b p = eof b p := by cases skip <;> rfl
    rw [this]
    apply heof
    · simpa [h0] using hb
    · simpa [h0] using hp
  | cons c cs ih =>
    intro done skip b p h0 hs hb hp
    cases skip with
    | succ k =>
      show P (scan act eof k cs b p)
      apply ih (done ++ [c]) k b p
      · simp [h0]
      · simp at hs; omega
      · simpa [List.take_succ_cons, List.append_assoc] using hb
      · simpa [List.take_succ_cons, List.append_assoc] using hp
    | zero =>
      simp only [scan]
      cases hA : act c cs b p with
      | stop r =>
        simp only
        exact hstop done c cs b p r h0 (by simpa using hb) (by simpa using hp) hA
      | next extra b' p' =>
        simp only
        obtain ⟨h1, h2, h3⟩ := hact c cs b p extra b' p' hA
        apply ih (done ++ [c]) extra b' p'
        · simp [h0]
        · exact h1
        · simp only [List.take_zero, List.append_nil] at hb
          rw [h2, hb]; simp [List.append_assoc]; omega
        · simp only [List.take_zero, List.append_nil] at hp
          rw [h3, hp]; simp [List.append_assoc, nlCount_cons]; omega

end KotoVerif.Lexer
