/-
C05 `compile_wf`, byte level, generic part 2: a covered, target-closed listing of unit-free,
builder-free instructions passes `checkAnns`; the acceptance theorem `wfChunk_of_program`.
-/
import KotoVerif.Lemmas.C05CWBytes1

namespace KotoVerif.Bytecode
open KotoVerif.Gen

/-- every successor of every instruction is the pc of a later instruction of the listing -/
def TgtOk : List Ann → Prop
  | [] => True
  | a :: rest => (∃ ps, succPcs a = some ps ∧ ∀ p ∈ ps, a.pc < p ∧ ∃ b ∈ rest, b.pc = p) ∧ TgtOk rest

/-- every successor of every instruction is the pc of an instruction of the listing: a later one for
a forward successor, the instruction itself or one already passed (`seen`) for a backward one -/
def TgtOkS : List Ann → List Ann → Prop
  | _, [] => True
  | seen, a :: rest =>
    (∃ ps, succPcs a = some ps ∧ ∀ p ∈ ps,
      (a.pc < p ∧ ∃ b ∈ rest, b.pc = p) ∨ (p ≤ a.pc ∧ ∃ b ∈ a :: seen, b.pc = p))
    ∧ TgtOkS (a :: seen) rest

theorem TgtOkS_of_TgtOk (l : List Ann) : ∀ seen, TgtOk l → TgtOkS seen l := by
  induction l with
  | nil => intros; trivial
  | cons a rest ih =>
    intro seen h
    obtain ⟨⟨ps, hs, hps⟩, hr⟩ := h
    exact ⟨⟨ps, hs, fun p hp => .inl (hps p hp)⟩, ih _ hr⟩

theorem findPc_of_exists (l : List Ann) (p : Nat) (h : ∃ b ∈ l, b.pc = p) :
    ∃ b', findPc l p = some b' ∧ b' ∈ l := by
  obtain ⟨b, hb, hp⟩ := h
  have : (l.find? (fun x => x.pc == p)).isSome = true := by
    rw [List.find?_isSome]
    exact ⟨b, hb, by simp [hp]⟩
  obtain ⟨b', hb'⟩ := Option.isSome_iff_exists.mp this
  exact ⟨b', hb', List.mem_of_find?_eq_some hb'⟩

theorem checkFrom_of (rc : Nat) (consts : List CKind) (l : List Ann) :
    ∀ seen, (∀ a ∈ seen, a.d = some Z) → (∀ a ∈ l, a.d = some Z) → (∀ a ∈ l, applyEff a.ins.op Z = some Z) →
      (∀ a ∈ l, regsOk rc a.ins = true ∧ constsOk consts a.ins = true) → TgtOkS seen l →
      checkFrom rc consts seen l = true := by
  induction l with
  | nil => intros; rfl
  | cons a rest ih =>
    intro seen hseen hd hn hr ht
    obtain ⟨⟨ps, hs, hps⟩, htr⟩ := ht
    simp only [checkFrom, Bool.and_eq_true]
    have hseen' : ∀ b ∈ a :: seen, b.d = some Z := by
      intro b hb
      simp at hb
      rcases hb with rfl | hb
      · exact hd _ (by simp)
      · exact hseen b hb
    refine ⟨?_, ih (a :: seen) hseen' (fun b hb => hd b (by simp [hb])) (fun b hb => hn b (by simp [hb]))
      (fun b hb => hr b (by simp [hb])) htr⟩
    have hlook : ∀ p ∈ ps, ∃ b', lookupFrom seen rest a p = some b' ∧ b'.d = some Z := by
      intro p hp
      rcases hps p hp with ⟨hlt, hex⟩ | ⟨hle, hex⟩
      · obtain ⟨b', hb', hmem⟩ := findPc_of_exists rest p hex
        exact ⟨b', by simp [lookupFrom, hlt, hb'], hd b' (by simp [hmem])⟩
      · obtain ⟨b', hb', hmem⟩ := findPc_of_exists (a :: seen) p hex
        have hnlt : ¬ a.pc < p := by omega
        exact ⟨b', by simp only [lookupFrom, hnlt, if_false]; exact hb', hseen' b' hmem⟩
    simp only [localOk, localChecks, List.all_cons, List.all_nil, Bool.and_true, Bool.and_eq_true]
    refine ⟨(hr a (by simp)).1, (hr a (by simp)).2, ?_, ?_⟩
    · simp only [hs, List.all_eq_true]
      intro p hp
      obtain ⟨b', hb', _⟩ := hlook p hp
      simp [hb']
    · simp only [hd a (by simp), hn a (by simp), hs, List.all_eq_true]
      intro p hp
      obtain ⟨b', hb', hbd⟩ := hlook p hp
      simp [hb', hbd]

theorem linLex_of (l : List Ann) (hd : ∀ a ∈ l, a.d = some Z)
    (hl : ∀ a ∈ l, ∀ s t, linStep a.ins.op s t = some (s, t)) :
    ∀ run, (linLex 0 0 run l).isSome = true := by
  induction l with
  | nil => intro run; simp [linLex]
  | cons a rest ih =>
    intro run
    have ih' := ih (fun b hb => hd b (by simp [hb])) (fun b hb => hl b (by simp [hb]))
    have hc : depthIs a 0 0 = true := by simp [depthIs, hd a (by simp), Z]
    simp only [linLex, hc, hl a (by simp) 0 0, Option.isSome_map]
    split
    · obtain ⟨lex, hlex⟩ := Option.isSome_iff_exists.mp (ih' [])
      simp [List.findSome?_cons, hlex]
    · exact ih' _

theorem linOk_of (l : List Ann) (hd : ∀ a ∈ l, a.d = some Z)
    (hl : ∀ a ∈ l, ∀ s t, linStep a.ins.op s t = some (s, t)) : linOk 0 0 l = true :=
  linLex_of l hd hl []

theorem pcsFrom_lay (d : Option Depth) (is : List Instr) (hv : ∀ i ∈ is, i.valid = true) :
    ∀ lo pc, lo ≤ pc → pcsFrom lo (lay d pc is) = true := by
  induction is with
  | nil => intros; rfl
  | cons i rest ih =>
    intro lo pc h
    have := esize_ge_two i (hv i (by simp))
    simp only [lay, pcsFrom, Bool.and_eq_true, decide_eq_true_eq]
    exact ⟨h, ih (fun j hj => hv j (by simp [hj])) _ _ (by omega)⟩

theorem lay_mem (d : Option Depth) (is : List Instr) : ∀ pc a, a ∈ lay d pc is → a.ins ∈ is ∧ a.d = d := by
  induction is with
  | nil => intro pc a h; simp [lay] at h
  | cons i rest ih =>
    intro pc a h
    simp only [lay, List.mem_cons] at h
    rcases h with rfl | h
    · simp
    · obtain ⟨h1, h2⟩ := ih _ _ h
      exact ⟨by simp [h1], h2⟩

theorem lay_map_d (d : Option Depth) (is : List Instr) :
    ∀ pc, (lay none pc is).map (fun a => { a with d := d }) = lay d pc is := by
  induction is with
  | nil => intro; rfl
  | cons i rest ih => intro pc; simp [lay, ih]

theorem CovU_lay (d1 d2 : Option Depth) (is : List Instr) :
    ∀ c L pc, CovU c L (lay d1 pc is) → CovU c L (lay d2 pc is) := by
  induction is with
  | nil => intros; trivial
  | cons i rest ih =>
    intro c L pc h
    exact ⟨h.1, ih _ _ _ h.2⟩

/-- A program `NewFrame rc; body…` of unit-free, builder-free, try-free instructions whose registers
and constants are in range, in which control reaches every instruction (`CovU`) and every successor
is an instruction of the listing (`TgtOkS`), is accepted by the verifier. -/
theorem wfChunk_of_program (rc : Nat) (body : List Instr) (consts : List CKind)
    (hv : ∀ i ∈ (⟨.NewFrame, [rc]⟩ :: body : List Instr), i.valid = true)
    (hf : ∀ i ∈ body, i.op ≠ .Function) (hnf : ∀ i ∈ body, i.op ≠ .NewFrame)
    (hneutral : ∀ i ∈ body, ∀ d, applyEff i.op d = some d)
    (hlin : ∀ i ∈ body, ∀ s t, linStep i.op s t = some (s, t))
    (hregs : ∀ i ∈ body, regsOk rc i = true) (hconsts : ∀ i ∈ body, constsOk consts i = true)
    (hcov : CovU true [] (lay (some Z) 0 (⟨.NewFrame, [rc]⟩ :: body)))
    (htgt : TgtOkS [] (lay (some Z) 0 (⟨.NewFrame, [rc]⟩ :: body))) :
    wfChunk ((⟨.NewFrame, [rc]⟩ :: body : List Instr).flatMap encode) consts = true := by
  generalize hnf0 : (⟨.NewFrame, [rc]⟩ : Instr) = nf at *
  have hprog : ∀ i ∈ (nf :: body), i.op ≠ .Function := by
    intro i hi; simp at hi; rcases hi with rfl | hi
    · simp [← hnf0]
    · exact hf i hi
  have hneut : ∀ i ∈ (nf :: body), ∀ d, applyEff i.op d = some d := by
    intro i hi d; simp at hi; rcases hi with rfl | hi
    · simp [← hnf0, applyEff]
    · exact hneutral i hi d
  have hlin' : ∀ i ∈ (nf :: body), ∀ s t, linStep i.op s t = some (s, t) := by
    intro i hi s t; simp at hi; rcases hi with rfl | hi
    · simp [← hnf0, linStep]
    · exact hlin i hi s t
  have hlen : (nf :: body).length < ((nf :: body).flatMap encode).length + 1 := by
    have : ∀ (l : List Instr), (∀ i ∈ l, i.valid = true) → l.length ≤ (l.flatMap encode).length := by
      intro l
      induction l with
      | nil => intro; simp
      | cons i r ih =>
        intro h
        have := esize_ge_two i (h i (by simp))
        have := ih (fun j hj => h j (by simp [hj]))
        simp [esize] at *
        omega
    have := this _ hv
    omega
  have hsw := sweep_lay (nf :: body) hv hprog (by simpa using hnf) 0 _ hlen
  have hann : annotate (some ⟨0, 0, 0⟩) [] (lay none 0 (nf :: body)) = lay (some Z) 0 (nf :: body) := by
    rw [← lay_map_d (some Z)]
    apply annotate_cov _ 0 _ _ true [] (pcsFrom_lay none _ hv 0 0 (Nat.le_refl _))
    · intro a ha d
      exact hneut _ (lay_mem _ _ _ _ ha).1 d
    · intro e he; simp at he
    · rfl
    · intro p _ hp; simp at hp
    · exact CovU_lay _ _ _ _ _ _ hcov
  have hne : ((nf :: body).flatMap encode).isEmpty = false := by
    simp [encode_cons]
  simp only [wfChunk, hne, Bool.false_or, wfUnit, unitListing, hsw, hann, List.all_nil, Bool.and_true]
  -- checkAnns
  have hd : ∀ a ∈ lay (some Z) 0 (nf :: body), a.d = some Z := fun a ha => (lay_mem _ _ _ _ ha).2
  simp only [lay, checkAnns, Bool.and_eq_true, decide_eq_true_eq]
  refine ⟨⟨⟨⟨⟨⟨⟨by trivial, by simp [← hnf0]⟩, Nat.zero_le _⟩, by simp [Z]⟩, ?_⟩, ?_⟩, ?_⟩, ?_⟩
  · rw [List.all_eq_true]
    intro b hb
    have := hnf _ (lay_mem _ _ _ _ hb).1
    simpa using this
  · exact pcsFrom_lay (some Z) (nf :: body) hv 0 0 (Nat.le_refl _)
  · have : argAt nf 0 = rc := by simp [← hnf0, argAt]
    rw [this]
    apply checkFrom_of rc consts _ [] (by intro a ha; simp at ha) hd
    · intro a ha; exact hneut _ (lay_mem _ _ _ _ ha).1 Z
    · intro a ha
      have hm := (lay_mem _ _ _ _ ha).1
      simp at hm
      rcases hm with hm | hm
      · rw [hm]; simp [← hnf0, regsOk, regAccesses, regOperands, Instr.fields, Instr.staticArgs, layout, tailLayout, windowTop, constsOk, constOperands]
      · exact ⟨hregs _ hm, hconsts _ hm⟩
    · exact htgt
  · exact linOk_of _ hd (fun a ha => hlin' _ (lay_mem _ _ _ _ ha).1)

end KotoVerif.Bytecode
