/-
C09 (columns): vocabulary and helper lemmas for exact columns — display-width sums, the column
after a character list, printable-ASCII runs (width 1 under `WidthOk`), and the generic scanning
loop with exact positions.
-/
import KotoVerif.Lemmas.C09Newline

namespace KotoVerif.Lexer

/-! ### display widths and columns -/

/-- printable ASCII (space .. `~`): the characters the real width table gives width 1 -/
def printable (cp : Nat) : Bool := 32 ≤ cp && cp < 127

/-- Assumption on the supplied width table: printable ASCII characters have display width 1
(true of `unicode_width`; checked per character like `TableOk`). -/
def WidthOk (cs : List Ch) : Prop := ∀ c ∈ cs, printable c.cp = true → c.width = 1

theorem WidthOk.tail {c : Ch} {cs : List Ch} (h : WidthOk (c :: cs)) : WidthOk cs :=
  fun d hd => h d (by simp [hd])

theorem WidthOk.of_append {a b : List Ch} (h : WidthOk (a ++ b)) : WidthOk b :=
  fun d hd => h d (by simp [hd])

theorem WidthOk.of_append_left {a b : List Ch} (h : WidthOk (a ++ b)) : WidthOk a :=
  fun d hd => h d (by simp [hd])

theorem WidthOk.head {c : Ch} {cs : List Ch} (h : WidthOk (c :: cs)) (hc : printable c.cp = true) :
    c.width = 1 := h c (by simp) hc

/-- summed display width -/
def widthSum : List Ch → Nat
  | [] => 0
  | c :: cs => c.width + widthSum cs

@[simp] theorem widthSum_nil : widthSum [] = 0 := rfl
@[simp] theorem widthSum_cons (c : Ch) (cs : List Ch) : widthSum (c :: cs) = c.width + widthSum cs := rfl
@[simp] theorem widthSum_append (a b : List Ch) : widthSum (a ++ b) = widthSum a + widthSum b := by
  induction a with
  | nil => simp
  | cons c cs ih => simp [ih]; omega

/-- the column reached from column `col` after the given characters (line feed → 0, any other
character adds its display width) -/
def colFrom (col : Nat) : List Ch → Nat
  | [] => col
  | c :: cs => colFrom (if c.cp = cpNL then 0 else col + c.width) cs

@[simp] theorem colFrom_nil (x : Nat) : colFrom x [] = x := rfl

theorem colFrom_append (x : Nat) (a b : List Ch) : colFrom x (a ++ b) = colFrom (colFrom x a) b := by
  induction a generalizing x with
  | nil => simp
  | cons c cs ih => simp only [List.cons_append, colFrom]; exact ih _

theorem colFrom_noNL : ∀ (cs : List Ch) (x : Nat), nlCount cs = 0 → colFrom x cs = x + widthSum cs := by
  intro cs
  induction cs with
  | nil => intro x _; simp
  | cons c cs ih =>
    intro x h
    rw [nlCount_cons] at h
    by_cases hc : c.cp = cpNL
    · simp [hc] at h
    · simp only [hc, if_false] at h
      simp only [colFrom, hc, if_false, widthSum_cons]
      rw [ih _ (by omega)]; omega

theorem colFrom_nl : ∀ (cs : List Ch) (x y : Nat), nlCount cs ≠ 0 → colFrom x cs = colFrom y cs := by
  intro cs
  induction cs with
  | nil => intro x y h; simp at h
  | cons c cs ih =>
    intro x y h
    simp only [colFrom]
    by_cases hc : c.cp = cpNL
    · simp [hc]
    · simp only [hc, if_false]
      apply ih
      rw [nlCount_cons] at h
      simpa [hc] using h

theorem posAfter_eq : ∀ (cs : List Ch) (p : Pos), posAfter p cs = ⟨p.line + nlCount cs, colFrom p.col cs⟩ := by
  intro cs
  induction cs with
  | nil => intro p; simp [posAfter]
  | cons c cs ih =>
    intro p
    simp only [posAfter, colFrom]
    rw [ih]
    by_cases h : c.cp = cpNL
    · simp [h, nlCount_cons]; omega
    · simp [h, nlCount_cons]

theorem posAfter_nil (p : Pos) : posAfter p [] = p := rfl

theorem posAfter_append (p : Pos) (a b : List Ch) : posAfter p (a ++ b) = posAfter (posAfter p a) b := by
  induction a generalizing p with
  | nil => simp [posAfter]
  | cons c cs ih => simp only [List.cons_append, posAfter]; exact ih _

theorem posAfter_noNL (p : Pos) (cs : List Ch) (h : nlCount cs = 0) :
    posAfter p cs = ⟨p.line, p.col + widthSum cs⟩ := by
  rw [posAfter_eq, h, colFrom_noNL cs _ h]; rfl

theorem posAfter_cons_ne (p : Pos) (c : Ch) (cs : List Ch) (h : ¬ c.cp = cpNL) :
    posAfter p (c :: cs) = posAfter ⟨p.line, p.col + c.width⟩ cs := by
  simp [posAfter, h]

theorem posAfter_cons_nl (p : Pos) (c : Ch) (cs : List Ch) (h : c.cp = cpNL) :
    posAfter p (c :: cs) = posAfter ⟨p.line + 1, 0⟩ cs := by
  simp [posAfter, h]

/-! ### the last line of a prefix (specification vocabulary) -/

/-- the characters after the last line feed of `pre` (all of `pre` when it has none) -/
def lastLine (pre : List Ch) : List Ch := (pre.reverse.takeWhile (fun c => c.cp != cpNL)).reverse

/-- display column of the point after `pre`: summed display width of the text since the last line
feed -/
def colAt (pre : List Ch) : Nat := widthSum (lastLine pre)

/-- byte offset at which the last line of `pre` starts (just after its last line feed; 0 if none) -/
def lineStartByte (pre : List Ch) : Nat := byteLen pre - byteLen (lastLine pre)

theorem lastLine_snoc (a : List Ch) (c : Ch) :
    lastLine (a ++ [c]) = if c.cp = cpNL then [] else lastLine a ++ [c] := by
  unfold lastLine
  simp only [List.reverse_append, List.reverse_cons, List.reverse_nil, List.nil_append,
    List.cons_append, List.takeWhile_cons]
  by_cases h : c.cp = cpNL <;> simp [h]

theorem lastLine_nil : lastLine [] = [] := rfl

theorem lastLine_append_noNL (a : List Ch) : ∀ t : List Ch, nlCount t = 0 →
    lastLine (a ++ t) = lastLine a ++ t := by
  intro t
  induction t generalizing a with
  | nil => intro _; simp
  | cons c cs ih =>
    intro h
    rw [nlCount_cons] at h
    by_cases hc : c.cp = cpNL
    · simp [hc] at h
    · simp only [hc, if_false] at h
      have : a ++ c :: cs = (a ++ [c]) ++ cs := by simp
      rw [this, ih (a ++ [c]) (by omega), lastLine_snoc]
      simp [hc]

theorem lastLine_append_nl (a : List Ch) : ∀ t : List Ch, nlCount t ≠ 0 →
    lastLine (a ++ t) = lastLine t := by
  intro t
  induction t generalizing a with
  | nil => intro h; simp at h
  | cons c cs ih =>
    intro h
    by_cases hcs : nlCount cs = 0
    · -- the line feed is `c`
      have hc : c.cp = cpNL := by
        rw [nlCount_cons] at h
        by_cases hc : c.cp = cpNL
        · exact hc
        · simp [hc, hcs] at h
      have e1 : a ++ c :: cs = (a ++ [c]) ++ cs := by simp
      have e2 : c :: cs = ([] ++ [c]) ++ cs := by simp
      rw [e1, lastLine_append_noNL _ _ hcs, lastLine_snoc]
      rw [e2, lastLine_append_noNL _ _ hcs, lastLine_snoc]
      simp [hc]
    · have e1 : a ++ c :: cs = (a ++ [c]) ++ cs := by simp
      have e2 : c :: cs = [c] ++ cs := by simp
      rw [e1, ih _ hcs, e2, ih _ hcs]

theorem colAt_eq_colFrom (pre : List Ch) : colAt pre = colFrom 0 pre := by
  by_cases h : nlCount pre = 0
  · have := lastLine_append_noNL [] pre h
    simp only [List.nil_append, lastLine_nil] at this
    rw [colAt, this, colFrom_noNL _ _ h]; omega
  · -- induct from the right
    suffices H : ∀ l : List Ch, colAt l.reverse = colFrom 0 l.reverse by
      have := H pre.reverse; simpa using this
    intro l
    induction l with
    | nil => rfl
    | cons c l ih =>
      simp only [List.reverse_cons]
      rw [colFrom_append, ← ih, colAt, lastLine_snoc]
      by_cases hc : c.cp = cpNL
      · simp [hc, colFrom]
      · simp [hc, colFrom, colAt]

theorem colAt_nil : colAt [] = 0 := rfl

theorem colAt_append (pre t : List Ch) : colAt (pre ++ t) = colFrom (colAt pre) t := by
  rw [colAt_eq_colFrom, colFrom_append, ← colAt_eq_colFrom]

theorem byteLen_lastLine_le (pre : List Ch) : byteLen (lastLine pre) ≤ byteLen pre := by
  suffices H : ∀ l : List Ch, byteLen (lastLine l.reverse) ≤ byteLen l.reverse by
    have := H pre.reverse; simpa using this
  intro l
  induction l with
  | nil => simp [lastLine_nil]
  | cons c l ih =>
    simp only [List.reverse_cons]
    rw [lastLine_snoc]
    by_cases hc : c.cp = cpNL
    · simp [hc]
    · simp [hc]; omega

theorem lineStartByte_le (pre : List Ch) : lineStartByte pre ≤ byteLen pre := by
  unfold lineStartByte; omega

theorem lineStartByte_append_noNL (pre t : List Ch) (h : nlCount t = 0) :
    lineStartByte (pre ++ t) = lineStartByte pre := by
  unfold lineStartByte
  rw [lastLine_append_noNL _ _ h]
  have := byteLen_lastLine_le pre
  simp only [byteLen_append]; omega

/-- a list that contains a line feed has a last line strictly shorter (in bytes) than itself -/
theorem byteLen_lastLine_lt (t : List Ch) (h : nlCount t ≠ 0) : byteLen (lastLine t) < byteLen t := by
  suffices H : ∀ l : List Ch, nlCount l.reverse ≠ 0 → byteLen (lastLine l.reverse) < byteLen l.reverse by
    have := H t.reverse (by simpa using h); simpa using this
  intro l
  induction l with
  | nil => intro h; simp at h
  | cons c l ih =>
    intro h
    simp only [List.reverse_cons] at h ⊢
    rw [lastLine_snoc]
    have hp := c.len_pos
    by_cases hc : c.cp = cpNL
    · simp [hc]; omega
    · simp only [hc, if_false, byteLen_append, byteLen_cons, byteLen_nil]
      have : nlCount l.reverse ≠ 0 := by
        simpa [nlCount_cons, hc] using h
      have := ih this
      omega

theorem lineStartByte_append_nl (pre t : List Ch) (h : nlCount t ≠ 0) :
    byteLen pre < lineStartByte (pre ++ t) := by
  unfold lineStartByte
  rw [lastLine_append_nl _ _ h]
  have := byteLen_lastLine_lt t h
  simp only [byteLen_append]; omega

/-- the line start never moves backwards when the prefix is extended -/
theorem lineStartByte_mono (pre t : List Ch) : lineStartByte pre ≤ lineStartByte (pre ++ t) := by
  by_cases h : nlCount t = 0
  · rw [lineStartByte_append_noNL _ _ h]; exact Nat.le_refl _
  · have := lineStartByte_append_nl pre t h
    have := lineStartByte_le pre
    omega

/-- a prefix that ends with a line feed: its last line is empty -/
theorem lastLine_of_ends_nl (a : List Ch) (c : Ch) (h : c.cp = cpNL) : lastLine (a ++ [c]) = [] := by
  rw [lastLine_snoc]; simp [h]

/-! ### printable runs -/

/-- length of the longest prefix of printable ASCII characters -/
def printRun : List Ch → Nat
  | [] => 0
  | c :: cs => if printable c.cp then 1 + printRun cs else 0

theorem printable_plain {cp : Nat} (h : printable cp = true) : plain cp = true := by
  simp [printable] at h
  simp [plain, cpNL]; omega

theorem printRun_le_asciiRun (cs : List Ch) : printRun cs ≤ asciiRun cs := by
  induction cs with
  | nil => simp [printRun, asciiRun]
  | cons c cs ih =>
    simp only [printRun, asciiRun]
    split
    · rename_i h; simp [printable_plain h]; omega
    · omega

theorem printRun_le_length (cs : List Ch) : printRun cs ≤ cs.length :=
  Nat.le_trans (printRun_le_asciiRun cs) (asciiRun_le_length cs)

theorem printRun_cons_printable {c : Ch} {cs : List Ch} (h : printable c.cp = true) :
    printRun (c :: cs) = 1 + printRun cs := by simp [printRun, h]

/-- within a printable run every character has width 1 -/
theorem widthSum_take_printRun : ∀ (cs : List Ch) (k : Nat), WidthOk cs → k ≤ printRun cs →
    widthSum (cs.take k) = k := by
  intro cs
  induction cs with
  | nil => intro k _ h; simp [printRun] at h; subst h; simp
  | cons c cs ih =>
    intro k hw h
    cases k with
    | zero => simp
    | succ k =>
      simp only [printRun] at h
      split at h
      · rename_i hp
        have := ih k hw.tail (by omega)
        simp [List.take_succ_cons, hw.head hp, this]; omega
      · omega

/-- `advance_line(k)` over `k` printable characters is the exact position update -/
theorem posAfter_take_printRun (p : Pos) (cs : List Ch) (k : Nat) (hw : WidthOk cs) (h : k ≤ printRun cs) :
    posAfter p (cs.take k) = ⟨p.line, p.col + k⟩ := by
  have h1 := take_asciiRun cs k (Nat.le_trans h (printRun_le_asciiRun cs))
  rw [posAfter_noNL _ _ h1.2, widthSum_take_printRun cs k hw h]

theorem printRun_drop_add : ∀ (cs : List Ch) (k j : Nat), k ≤ printRun cs → j ≤ printRun (cs.drop k) →
    k + j ≤ printRun cs := by
  intro cs
  induction cs with
  | nil => intro k j hk hj; simp [printRun] at hk; subst hk; simpa using hj
  | cons c cs ih =>
    intro k j hk hj
    cases k with
    | zero => simpa using hj
    | succ k =>
      simp only [printRun] at hk ⊢
      split at hk
      · rename_i hp
        simp only [hp, if_true]
        have := ih k j (by omega) (by simpa using hj)
        omega
      · omega

theorem countWhile_le_printRun (p : Nat → Bool) (hp : ∀ cp, p cp = true → printable cp = true) :
    ∀ cs : List Ch, countWhile p cs ≤ printRun cs := by
  intro cs
  induction cs with
  | nil => simp [countWhile]
  | cons c cs ih =>
    simp only [countWhile, printRun]
    split
    · rename_i h; simp [hp _ h]; omega
    · omega

theorem peekIs_printRun {cs : List Ch} {cp : Nat} (h : peekIs cs cp = true) (hp : printable cp = true) :
    1 ≤ printRun cs := by
  cases cs with
  | nil => simp [peekIs] at h
  | cons c cs =>
    simp [peekIs] at h
    simp [printRun, h, hp]

theorem peekSat_printRun {cs : List Ch} {p : Nat → Bool} (h : peekSat cs p = true)
    (hp : ∀ cp, p cp = true → printable cp = true) : 1 ≤ printRun cs := by
  cases cs with
  | nil => simp [peekSat] at h
  | cons c cs =>
    simp [peekSat] at h
    simp [printRun, hp _ h]

theorem startsWith_printRun : ∀ (pat : List Nat) (cs : List Ch), startsWith pat cs = true →
    (∀ cp ∈ pat, printable cp = true) → pat.length ≤ printRun cs := by
  intro pat
  induction pat with
  | nil => intro cs _ _; simp
  | cons q qs ih =>
    intro cs h hp
    cases cs with
    | nil => simp [startsWith] at h
    | cons c cs =>
      simp only [startsWith, Bool.and_eq_true, beq_iff_eq] at h
      have hq : printable c.cp = true := by rw [h.1]; exact hp q (by simp)
      have := ih cs h.2 (fun cp hcp => hp cp (by simp [hcp]))
      simp [printRun, hq]; omega

theorem map_cp_printRun : ∀ (cs : List Ch) (n : Nat), n ≤ cs.length →
    (∀ cp ∈ (cs.take n).map (·.cp), printable cp = true) → n ≤ printRun cs := by
  intro cs
  induction cs with
  | nil => intro n h _; simp at h; subst h; simp
  | cons c cs ih =>
    intro n h hp
    cases n with
    | zero => omega
    | succ n =>
      have hc : printable c.cp = true := hp c.cp (by simp [List.take_succ_cons])
      have := ih n (by simpa using h) (fun cp hcp => hp cp (by
        simp only [List.take_succ_cons, List.map_cons, List.mem_cons]; exact Or.inr hcp))
      simp [printRun, hc]; omega

/-- one printable character followed by `extra` printable characters -/
theorem cons_take_printable {c : Ch} {cs : List Ch} {extra : Nat} (p : Pos) (hw : WidthOk (c :: cs))
    (h : 1 + extra ≤ printRun (c :: cs)) :
    posAfter p (c :: cs.take extra) = ⟨p.line, p.col + (1 + extra)⟩ := by
  have := posAfter_take_printRun p (c :: cs) (extra + 1) hw (by omega)
  simp only [List.take_succ_cons] at this
  rw [this, Nat.add_comm extra 1]

/-! ### countWhileUtf8: summed widths -/

theorem countWhileUtf8_width (q : Ch → Bool) : ∀ cs : List Ch,
    (countWhileUtf8 q cs).2 = widthSum (cs.takeWhile q) := by
  intro cs
  induction cs with
  | nil => simp [countWhileUtf8]
  | cons c cs ih =>
    simp only [countWhileUtf8, List.takeWhile_cons]
    split
    · simp [ih]
    · simp

/-! ### the generic scanning loop, with exact positions -/

/-- position part of the local soundness of a scanner iteration -/
def ActNextPos {ρ : Type} (act : Ch → List Ch → Nat → Pos → Act ρ) : Prop :=
  ∀ c cs b p extra b' p', WidthOk (c :: cs) → act c cs b p = .next extra b' p' →
    p' = posAfter p (c :: cs.take extra)

/-- Generic loop lemma with positions: whatever the loop returns is justified by a `stop` decision
taken at a point where byte counter and position are exact for the consumed prefix, or by reaching
the end of input with exact counters. -/
theorem scan_specP {ρ : Type} (act : Ch → List Ch → Nat → Pos → Act ρ) (eof : Nat → Pos → ρ)
    (P : ρ → Prop) (cs0 : List Ch) (b0 : Nat) (p0 : Pos) (hw : WidthOk cs0)
    (hact : ActNextOk act) (hpos : ActNextPos act)
    (hstop : ∀ done c cs b p r, cs0 = done ++ c :: cs → b = b0 + byteLen done →
      p = posAfter p0 done → act c cs b p = .stop r → P r)
    (heof : ∀ b p, b = b0 + byteLen cs0 → p = posAfter p0 cs0 → P (eof b p)) :
    P (scan act eof 0 cs0 b0 p0) := by
  suffices H : ∀ (cs done : List Ch) (skip b : Nat) (p : Pos), cs0 = done ++ cs → skip ≤ cs.length →
      b = b0 + byteLen (done ++ cs.take skip) → p = posAfter p0 (done ++ cs.take skip) →
      P (scan act eof skip cs b p) by
    exact H cs0 [] 0 b0 p0 (by simp) (by omega) (by simp) (by simp [posAfter])
  intro cs
  induction cs with
  | nil =>
    intro done skip b p h0 _ hb hp
    have : scan act eof skip [] b p = eof b p := by cases skip <;> rfl
    rw [this]
    apply heof
    · simpa [h0] using hb
    · simpa [h0] using hp
  | cons c cs ih =>
    intro done skip b p h0 hs hb hp
    cases skip with
    | succ k =>
      show P (scan act eof k cs b p)
      apply ih (done ++ [c]) k b p
      · simp [h0]
      · simp at hs; omega
      · simpa [List.take_succ_cons, List.append_assoc] using hb
      · simpa [List.take_succ_cons, List.append_assoc] using hp
    | zero =>
      simp only [scan]
      cases hA : act c cs b p with
      | stop r =>
        simp only
        exact hstop done c cs b p r h0 (by simpa using hb) (by simpa using hp) hA
      | next extra b' p' =>
        simp only
        obtain ⟨h1, h2, _⟩ := hact c cs b p extra b' p' hA
        have hwc : WidthOk (c :: cs) := by rw [h0] at hw; exact hw.of_append
        have h3 := hpos c cs b p extra b' p' hwc hA
        apply ih (done ++ [c]) extra b' p'
        · simp [h0]
        · exact h1
        · simp only [List.take_zero, List.append_nil] at hb
          rw [h2, hb]; simp [List.append_assoc]; omega
        · simp only [List.take_zero, List.append_nil] at hp
          rw [h3, hp, List.append_assoc, posAfter_append]; rfl

end KotoVerif.Lexer
