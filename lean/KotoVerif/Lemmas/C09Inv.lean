/-
C09: the global invariant of the lexer run and its preservation by `stepD`.
-/
import KotoVerif.Lemmas.C09Step

namespace KotoVerif.Lexer

theorem prefixAt_append (pre post : List Ch) : prefixAt (byteLen pre) (pre ++ post) = some pre := by
  induction pre with
  | nil => cases post <;> simp [prefixAt]
  | cons c cs ih =>
    have hp := c.len_pos
    have h1 : ¬ (c.len + byteLen cs = 0) := by omega
    have h2 : c.len ≤ c.len + byteLen cs := by omega
    have h3 : c.len + byteLen cs - c.len = byteLen cs := by omega
    simp only [List.cons_append, prefixAt, byteLen_cons, h1, h2, if_true, if_false, h3, ih]
    rfl

/-- Invariant of the run: the cursor is at a character boundary; (when `lines`) the line counter is
the number of line breaks before it; the mode stack is consistent with the remaining input. -/
def Inv (lines : Bool) (src : List Ch) (s : St) : Prop :=
  ∃ pre post, src = pre ++ post ∧ byteLen pre = s.cur ∧
    (lines = true → s.span.stop.line = nlCount pre) ∧
    ModeOk s.modes post ∧ NoRawEndBelow s.modes

theorem inv_init (lines : Bool) (src : List Ch) : Inv lines src {} :=
  ⟨[], src, by simp, by simp, fun _ => by simp, by simp [ModeOk], by intro m hm; simp at hm⟩

/-- one step of the lexer, for a non-error token -/
theorem stepD_inv (lines : Bool) (src : List Ch) (s s' : St) (d : Decision) (ht : TableOk src)
    (hinv : Inv lines src s) (hstep : stepD src s = some (d, s')) (hne : d.tok ≠ .error) :
    Inv lines src s' ∧ s'.prev = s.cur ∧ s.cur ≤ s'.cur ∧ s'.span.start = s.span.stop := by
  obtain ⟨pre, post, hsrc, hcur, hline, hmo, hnb⟩ := hinv
  unfold stepD at hstep
  have hdrop : dropBytes s.cur src = some post := by rw [hsrc, ← hcur]; exact dropBytes_append pre post
  rw [hdrop] at hstep
  cases post with
  | nil => simp at hstep
  | cons c rest =>
    simp only [Option.some.injEq, Prod.mk.injEq] at hstep
    obtain ⟨hd, hs'⟩ := hstep
    have hr : (resetIndent s).span = s.span ∧ (resetIndent s).modes = s.modes ∧
        (resetIndent s).cur = s.cur ∧ (resetIndent s).prev = s.prev := by
      unfold resetIndent; split <;> simp
    obtain ⟨hr1, hr2, hr3, hr4⟩ := hr
    have htab : TableOk (c :: rest) := by rw [hsrc] at ht; exact ht.of_append
    have hok := decideTok_ok (resetIndent s).span.stop (resetIndent s).prevTok (resetIndent s).modes c rest
      htab (by rw [hr2]; exact hmo) (by rw [hr2]; exact hnb) (by rw [hd]; exact hne)
    rw [hd] at hok
    obtain ⟨n, q, k, hm, hk1, hk2, hl1, hmo', hnb'⟩ := hok
    rw [hd] at hs'
    have hs'cur : s'.cur = s.cur + n ∧ s'.prev = s.cur ∧ s'.span = ⟨s.span.stop, q⟩ ∧ s'.modes = d.modes := by
      rw [← hs']
      simp [applyDecision, applyMove, hm, hr1, hr3]
    obtain ⟨e1, e2, e3, e4⟩ := hs'cur
    have hsplit : src = (pre ++ (c :: rest).take k) ++ (c :: rest).drop k := by
      rw [List.append_assoc, List.take_append_drop]; exact hsrc
    have hbytes : byteLen (pre ++ (c :: rest).take k) = s'.cur := by
      rw [e1, byteLen_append, hcur, hk2]
    refine ⟨⟨pre ++ (c :: rest).take k, (c :: rest).drop k, hsplit, hbytes, ?_, ?_, ?_⟩, e2, by omega, by rw [e3]⟩
    · intro hl
      rw [e3]
      simp only [nlCount_append]
      rw [hr1] at hl1
      rw [hl1, hline hl]
    · rw [e4]; exact hmo'
    · rw [e4]; exact hnb'

end KotoVerif.Lexer
