/-
C14 — the number arm of the key order: `NumCmpLaws` follows from the float hypotheses
(`FloatLaws`, `NumOrderLaws`) on numbers without NaN whose integers convert exactly; and the final
packaging: the key comparator is a total preorder for sorting, on keys of every kind.
-/
import KotoVerif.Lemmas.C14KeyOrder
import KotoVerif.Lemmas.C14NumOrder
import KotoVerif.Lemmas.C14Map

namespace KotoVerif
namespace Equal
open Sorting

/-- numbers a key may contain: no NaN, integers exactly convertible -/
def goodNum (F : FloatOps) (S : Int64 → Prop) (n : Num) : Prop :=
  numIsNaN F n = false ∧ ∀ x, n = .i x → S x

theorem numCmp_of_tri {F : FloatOps} (hF : FloatLaws F) (a b : Num)
    (ha : numIsNaN F a = false) (hb : numIsNaN F b = false) :
    numCmp F a b = if Num.lt F a b then .lt else if Num.lt F b a then .gt else .eq := by
  unfold numCmp
  rcases num_tri_raw hF a b ha hb with ⟨h1, h2, h3⟩ | ⟨h1, h2, h3⟩ | ⟨h1, h2, h3⟩ <;> simp [h1, h2, h3]

theorem numCmp_laws {F : FloatOps} {S : Int64 → Prop} (hF : FloatLaws F) (hL : NumOrderLaws F S) :
    NumCmpLaws F (goodNum F S) where
  swap a b ha hb := by
    rw [numCmp_of_tri hF a b ha.1 hb.1, numCmp_of_tri hF b a hb.1 ha.1]
    rcases num_tri_raw hF a b ha.1 hb.1 with ⟨h1, _, h3⟩ | ⟨h1, _, h3⟩ | ⟨h1, _, h3⟩ <;> simp [h1, h3]
  eq_iff a b ha hb := by
    rw [numCmp_of_tri hF a b ha.1 hb.1]
    rcases num_tri_raw hF a b ha.1 hb.1 with ⟨h1, h2, h3⟩ | ⟨h1, h2, h3⟩ | ⟨h1, h2, h3⟩ <;> simp [h1, h2, h3]
  le_trans a b c ha hb hc h1 h2 := by
    have key : ∀ x y : Num, numIsNaN F x = false → numIsNaN F y = false →
        (numCmp F x y ≠ .gt ↔ Num.lt F y x = false) := by
      intro x y hx hy
      rw [numCmp_of_tri hF x y hx hy]
      rcases num_tri_raw hF x y hx hy with ⟨h1, _, h3⟩ | ⟨h1, _, h3⟩ | ⟨h1, _, h3⟩ <;> simp [h1, h3]
    rw [key a b ha.1 hb.1] at h1
    rw [key b c hb.1 hc.1] at h2
    rw [key a c ha.1 hc.1]
    exact (num_total_preorder hL).le_trans ⟨a, ha⟩ ⟨b, hb⟩ ⟨c, hc⟩ h1 h2

/-- keys of every kind whose numbers are good -/
def GoodKey (F : FloatOps) (S : Int64 → Prop) : Type := { k : Val // goodKey (goodNum F S) k }

/-- the comparator of `map.sort()` is a total preorder on all keys -/
theorem keyCmp_total_preorder {F : FloatOps} {S : Int64 → Prop} (hF : FloatLaws F) (hL : NumOrderLaws F S) :
    TotalPreorder (fun (a b : GoodKey F S) => keyCmp F a.1 b.1 == .lt) where
  asymm a b h := by
    have hN := numCmp_laws hF hL
    have sw := keyCmp_swap hN a.1 b.1 a.2 b.2
    simp only [beq_iff_eq] at h
    rw [sw, h]
    rfl
  le_trans a b c h1 h2 := by
    have hN := numCmp_laws hF hL
    -- ¬ b < a, ¬ c < b ⊢ ¬ c < a ; in terms of `≠ gt` on the swapped comparisons
    have conv : ∀ x y : GoodKey F S, ((keyCmp F y.1 x.1 == .lt) = false) ↔ keyCmp F x.1 y.1 ≠ .gt := by
      intro x y
      rw [keyCmp_swap hN x.1 y.1 x.2 y.2]
      cases keyCmp F x.1 y.1 <;> simp
    rw [conv] at h1 h2 ⊢
    exact keyCmp_le_trans hN a.1 b.1 c.1 a.2 b.2 c.2 h1 h2

end Equal
end KotoVerif
