/-
C01 layer 5: `compile_sem`, remaining cases and the induction.
-/
import KotoVerif.Lemmas.C01Sem3

namespace KotoVerif.Compile

variable {S : Sem}

theorem sem_bin (op : BinOp) (a b : Expr) (iha : SemOk S a) (ihb : SemOk S b) : SemOk S (.bin op a b) := by
  intro m F code out F' E fx h hw hm hsafe σ ρ ρ' v hrel hev
  have hall := h
  simp only [compile, bind, Option.bind_eq_some_iff, Prod.exists] at h
  obtain ⟨res, F1, ha, h⟩ := h
  cases hr : res.reg with
  | some r =>
    simp only [hr, Option.bind_eq_some_iff, Prod.exists, pure, Option.some.injEq, Prod.mk.injEq] at h
    obtain ⟨ca, oa, F2, hca, ra, hra, cb, ob, F3, hcb, rb, hrb, F4, hp1, F5, hp2, rfl, rfl, rfl⟩ := h
    obtain ⟨p1, p2, _⟩ := popIf_spec hp1
    obtain ⟨q1, q2, _⟩ := popIf_spec hp2
    exact sem_binlike (Expr.bin op) op a b iha ihb (fun E fx => rfl) (fun ρ => rfl) m F _ _ _ E fx hall hw hm hsafe
      res F1 F1 ha rfl rfl (Nat.le_refl _) ca cb oa ob F2 F3 ra rb hca hra hcb hrb
      ⟨by rw [q1, p1], by rw [q2, p2]⟩ (by simp [hr, instrIf]) rfl σ ρ ρ' v hrel hev
  | none =>
    simp only [hr, Option.bind_eq_some_iff, Prod.exists, pure, Option.some.injEq, Prod.mk.injEq] at h
    obtain ⟨ca, oa, F2, hca, cb, ob, F3, hcb, rfl, rfl, rfl⟩ := h
    simp only [safe, Bool.and_eq_true] at hsafe
    obtain ⟨⟨hsa, hsb⟩, _⟩ := hsafe
    simp only [eval] at hev
    cases hea : eval S a ρ with
    | none => simp [hea] at hev
    | some p =>
      obtain ⟨va, ρ1⟩ := p
      simp only [hea] at hev
      cases heb : eval S b ρ1 with
      | none => simp [heb] at hev
      | some q =>
        obtain ⟨vb, ρ2⟩ := q
        simp only [heb, Option.map_eq_some_iff, Prod.mk.injEq] at hev
        obtain ⟨w, _, rfl, rfl⟩ := hev
        obtain ⟨h1, h2, h3, h4⟩ := assignResult_spec ha
        have hw1 := hw.of_locals_eq h1 h2
        have hmnone : m = .none := by cases m <;> simp_all
        subst hmnone
        have hfx := modeFx_fx_none hm (by intro r; simp)
        subst hfx
        obtain ⟨σ1, x1, x2, _, x4⟩ := iha .none F1 ca oa F2 E Option.none hca hw1 trivial hsa σ ρ ρ1 va
          (relEx_of_assignResult ha hrel) hea
        have ffa := compile_frame _ _ _ _ _ _ hca hw1
        obtain ⟨σ2, y1, y2, _, y4⟩ := ihb .none F2 cb ob F3 E Option.none hcb ffa.wf trivial hsb σ1 ρ1 ρ2 vb x2 heb
        refine ⟨σ2, by rw [exec_seq x1]; exact y1, y2, fun r h => by simp [hr] at h, ?_⟩
        have := ffa.tc
        have sa : oa = ⟨Option.none, false⟩ := ffa.shape
        subst sa
        simp [tempCount] at this h3
        have k1 : TempsKept .none F σ σ1 :=
          (TempsKept.refl .none F σ).sub x4 h2 (by omega) (by intro t ht; simp at ht)
        exact k1.sub y4 (by rw [ffa.le.tb, h2]) (by omega) (by intro t ht; simp at ht)

theorem sem_cmp (op : BinOp) (a b : Expr) (iha : SemOk S a) (ihb : SemOk S b) : SemOk S (.cmp op a b) := by
  intro m F code out F' E fx h hw hm hsafe σ ρ ρ' v hrel hev
  have hall := h
  simp only [compile, bind, Option.bind_eq_some_iff, Prod.exists, pure, Option.some.injEq, Prod.mk.injEq] at h
  obtain ⟨res, F1, ha, r0, F1', hrt, ca, oa, F2, hca, ra, hra, cb, ob, F3, hcb, rb, hrb, rfl, rfl, rfl⟩ := h
  obtain ⟨t1, t2, t3⟩ := resultOrTemp_spec hrt
  exact sem_binlike (Expr.cmp op) op a b iha ihb (fun E fx => rfl) (fun ρ => rfl) m F _ _ _ E fx hall hw hm hsafe
    res F1 F1' ha t1 t2 (by rcases t3 with ⟨_, h⟩ | ⟨_, _, h⟩ <;> omega) ca cb oa ob F2 F3 ra rb hca hra hcb hrb
    ⟨rfl, rfl⟩ rfl rfl σ ρ ρ' v hrel hev

/-- `and` / `or`: the left operand is written into the result register, then the right operand is
evaluated into the same register unless the jump is taken -/
theorem sem_logic (isAnd : Bool) (a b : Expr) (iha : SemOk S a) (ihb : SemOk S b) :
    SemOk S (if isAnd then .and a b else .or a b) := by
  intro m F code out F' E fx h hw hm hsafe σ ρ ρ' v hrel hev
  have ff := compile_frame _ _ _ _ _ _ h hw
  have hcomp : ∃ res F1 reg F2 ca oa F3 cb ob F4 F5,
      assignResult m F = some (res, F1) ∧ resultOrTemp res F1 = some (reg, F2) ∧
      compile a (.fixed reg) F2 = some (ca, oa, F3) ∧ compile b (.fixed reg) F3 = some (cb, ob, F4) ∧
      popIf res.reg.isNone F4 = some F5 ∧
      .seq ca (if isAnd then .jumpIfFalse reg cb else .jumpIfTrue reg cb) = code ∧ res = out ∧ F5 = F' := by
    cases isAnd <;>
    · simp only [Bool.false_eq_true, if_false, if_true, compile, bind, Option.bind_eq_some_iff, Prod.exists, pure,
        Option.some.injEq, Prod.mk.injEq] at h ⊢
      obtain ⟨res, F1, ha, reg, F2, hrt, ca, oa, F3, hca, cb, ob, F4, hcb, F5, hp, rfl, rfl, rfl⟩ := h
      exact ⟨res, F1, reg, F2, ca, oa, F3, cb, ob, F4, F5, ha, hrt, hca, hcb, hp, rfl, rfl, rfl⟩
  obtain ⟨res, F1, reg, F2, ca, oa, F3, cb, ob, F4, F5, ha, hrt, hca, hcb, hp, hcode, hout, hF⟩ := hcomp
  subst hcode hout hF
  have hsafe' : safe E fx a = true ∧ safe (addOpt fx E) fx b = true := by
    cases isAnd <;> simpa [safe, Bool.and_eq_true] using hsafe
  have hev' : ∃ va ρ1, eval S a ρ = some (va, ρ1) ∧
      (if (if isAnd then S.truthy va else !S.truthy va) then eval S b ρ1 = some (v, ρ') else (va, ρ1) = (v, ρ')) := by
    cases isAnd <;>
    · simp only [Bool.false_eq_true, if_false, if_true, eval] at hev
      cases hea : eval S a ρ with
      | none => simp [hea] at hev
      | some p =>
        obtain ⟨va, ρ1⟩ := p
        simp only [hea] at hev
        refine ⟨va, ρ1, rfl, ?_⟩
        cases ht : S.truthy va <;> simp_all
  obtain ⟨va, ρ1, hea, hrest⟩ := hev'
  obtain ⟨h1, h2, h3, _⟩ := assignResult_spec ha
  have hw1 := hw.of_locals_eq h1 h2
  obtain ⟨t1, t2, t3⟩ := resultOrTemp_spec hrt
  have hw2 := hw1.of_locals_eq t1 t2
  have le02 : FrameLe F F2 := (FrameLe.of_locals_eq h1 h2).trans (FrameLe.of_locals_eq t1 t2)
  -- the inner mode and the owner of its register
  have hm2 : ModeFx (.fixed reg) fx F2 := by
    rcases t3 with ⟨t3, t4⟩ | ⟨t3, t4, t5⟩
    · exact modeFx_fixed_of_res ha hm t3 le02 t4
    · obtain ⟨hfx, hm'⟩ := modeFx_fresh_temp (G := F2) ha hm t3 t2 t5
      subst hfx; subst t4; exact hm'
  have hrel2 : RelEx E F2 σ ρ := hrel.frame le02
  obtain ⟨σ1, x1, x2, x3, x4⟩ := iha (.fixed reg) F2 ca oa F3 E fx hca hw2 hm2 hsafe'.1 σ ρ ρ1 va hrel2 hea
  have ffa := compile_frame _ _ _ _ _ _ hca hw2
  have ffb := compile_frame _ _ _ _ _ _ hcb ffa.wf
  have sa : oa = ⟨some reg, false⟩ := ffa.shape
  have sb : ob = ⟨some reg, false⟩ := ffb.shape
  subst sa sb
  have tca : F3.tc = F2.tc := by have := ffa.tc; simpa [tempCount] using this
  have tcb : F4.tc = F3.tc := by have := ffb.tc; simpa [tempCount] using this
  obtain ⟨p1, p2, _⟩ := popIf_spec hp
  have le45 : FrameLe F4 F5 := FrameLe.of_locals_eq p1 p2
  have hva : σ1 reg = va := x3 reg rfl
  -- temporaries of the outer frame survive a sub-compilation with `fixed reg`
  have hfix : ∀ t, Mode.fixed reg = Mode.fixed t → F.tb ≤ t → t < F.tb + F.tc → m = Mode.fixed t := by
    intro t ht h5 h6
    simp only [Mode.fixed.injEq] at ht
    subst ht
    rcases t3 with ⟨t3, _⟩ | ⟨t3, t4, _⟩
    · rcases resReg_of_assignResult ha t3 with hr | ⟨_, hr⟩
      · exact hr
      · omega
    · omega
  have htc02 : F.tc ≤ F2.tc := by rcases t3 with ⟨_, h⟩ | ⟨_, _, h⟩ <;> omega
  have k1 : TempsKept m F σ σ1 := (TempsKept.refl m F σ).sub x4 le02.tb htc02 hfix
  have hres : ∀ r, res.reg = some r → r = reg := by
    intro r hr
    rcases t3 with ⟨t3, _⟩ | ⟨t3, _, _⟩
    · rw [t3] at hr; exact (Option.some.inj hr).symm
    · rw [t3] at hr; cases hr
  by_cases hgo : (if isAnd then S.truthy va else !S.truthy va) = true
  · -- the right operand is evaluated
    simp only [hgo, if_true] at hrest
    have hm3 : ModeFx (.fixed reg) fx F3 := hm2.transfer ffa.le tca
    obtain ⟨σ2, y1, y2, y3, y4⟩ := ihb (.fixed reg) F3 cb _ F4 (addOpt fx E) fx hcb ffa.wf hm3 hsafe'.2 σ1 ρ1 ρ' v x2 hrest
    refine ⟨σ2, ?_, (y2.weaken addOpt_idem).frame le45, ?_, ?_⟩
    · rw [exec_seq x1]
      cases isAnd
      · simp only [Bool.false_eq_true, if_false, Bool.not_eq_true'] at hgo ⊢
        simp [exec, hva, hgo, y1]
      · simp only [if_true] at hgo ⊢
        simp [exec, hva, hgo, y1]
    · intro r hr; rw [hres r hr]; exact y3 reg rfl
    · exact k1.sub y4 (by rw [ffa.le.tb, le02.tb]) (by omega) hfix
  · -- the jump is taken: the left operand is the result
    simp only [hgo] at hrest
    simp only [Bool.false_eq_true, if_false, Prod.mk.injEq] at hrest
    obtain ⟨rfl, rfl⟩ := hrest
    refine ⟨σ1, ?_, (x2.frame ffb.le).frame le45, ?_, k1⟩
    · rw [exec_seq x1]
      cases isAnd
      · simp only [Bool.false_eq_true, if_false, Bool.not_eq_true', Bool.not_eq_false] at hgo ⊢
        simp [exec, hva, hgo]
      · simp only [if_true, Bool.not_eq_true] at hgo ⊢
        simp [exec, hva, hgo]
    · intro r hr; rw [hres r hr]; exact hva

theorem sem_and (a b : Expr) (iha : SemOk S a) (ihb : SemOk S b) : SemOk S (.and a b) :=
  sem_logic true a b iha ihb

theorem sem_or (a b : Expr) (iha : SemOk S a) (ihb : SemOk S b) : SemOk S (.or a b) :=
  sem_logic false a b iha ihb

end KotoVerif.Compile
