/-
C09 scanner lemmas, part 3: numbers, identifiers / keywords / raw-string starts, `_`, symbols.
All of these advance by `advance_line(n)` / `advance_line_utf8`, so the obligation is that the
`n` characters are plain ASCII (bytes = characters, no line break) or, for identifiers, that the
counted bytes are exactly those of the identifier's characters.
-/
import KotoVerif.Lemmas.C09Scanners2

namespace KotoVerif.Lexer
open KotoVerif.Gen

/-- Assumption on the supplied Unicode tables: a line feed is not an identifier character. -/
def TableOk (cs : List Ch) : Prop :=
  ∀ c ∈ cs, (c.idStart = true ∨ c.idCont = true) → ¬ c.cp = cpNL

theorem TableOk.tail {c : Ch} {cs : List Ch} (h : TableOk (c :: cs)) : TableOk cs :=
  fun d hd => h d (by simp [hd])

theorem TableOk.of_append {a b : List Ch} (h : TableOk (a ++ b)) : TableOk b :=
  fun d hd => h d (by simp [hd])

/-! ### digits are plain -/

theorem isAsciiDigit_plain {cp : Nat} (h : isAsciiDigit cp = true) : plain cp = true := by
  simp [isAsciiDigit] at h
  simp [plain, cpNL]; omega

theorem isDecimalDigit_plain {cp : Nat} (h : isDecimalDigit cp = true) : plain cp = true := by
  simp [isDecimalDigit, isAsciiDigit, cpUnderscore] at h
  simp [plain, cpNL]; omega

theorem isBinaryDigit_plain {cp : Nat} (h : isBinaryDigit cp = true) : plain cp = true := by
  simp [isBinaryDigit, cpUnderscore] at h
  simp [plain, cpNL]; omega

theorem isOctalDigit_plain {cp : Nat} (h : isOctalDigit cp = true) : plain cp = true := by
  simp [isOctalDigit, cpUnderscore] at h
  simp [plain, cpNL]; omega

theorem isHexDigit_plain {cp : Nat} (h : isHexDigit cp = true) : plain cp = true := by
  simp [isHexDigit, isAsciiDigit, cpUnderscore] at h
  simp [plain, cpNL]; omega

theorem isWhitespace_plain {cp : Nat} (h : isWhitespace cp = true) : plain cp = true := by
  simp [isWhitespace, cpSpace, cpTab] at h
  simp [plain, cpNL]; omega

/-! ### consume_number -/

/-- one more plain character at offset `k` -/
theorem asciiRun_step {cs : List Ch} {k : Nat} {cp : Nat} (hk : k ≤ asciiRun cs)
    (h : peekIs (cs.drop k) cp = true) (hp : plain cp = true) : k + 1 ≤ asciiRun cs :=
  asciiRun_drop_add cs k 1 hk (peekIs_asciiRun h hp)

theorem asciiRun_count {cs : List Ch} {k : Nat} {p : Nat → Bool} (hk : k ≤ asciiRun cs)
    (hp : ∀ cp, p cp = true → plain cp = true) : k + countWhile p (cs.drop k) ≤ asciiRun cs :=
  asciiRun_drop_add cs k _ hk (countWhile_le_asciiRun p hp _)

theorem numberExponent_le {cs : List Ch} {k : Nat} (hk : k ≤ asciiRun cs) :
    numberExponent k (cs.drop k) ≤ asciiRun cs := by
  unfold numberExponent
  split
  · rename_i he
    have h1 := asciiRun_step hk he (by decide)
    simp only [List.drop_drop]
    split
    · rename_i hs
      have h2 : k + 1 + 1 ≤ asciiRun cs := by
        simp only [Bool.or_eq_true] at hs
        rcases hs with hs | hs
        · exact asciiRun_step h1 hs (by decide)
        · exact asciiRun_step h1 hs (by decide)
      have := asciiRun_count (p := isDecimalDigit) h2 (fun _ h => isDecimalDigit_plain h)
      have e : k + 1 + 1 = k + 1 + 1 := rfl
      simp only [Nat.add_assoc] at this ⊢
      omega
    · have := asciiRun_count (p := isDecimalDigit) h1 (fun _ h => isDecimalDigit_plain h)
      omega
  · exact hk

theorem numberBytes_le (cs : List Ch) : numberBytes cs ≤ asciiRun cs := by
  unfold numberBytes
  simp only
  -- n0
  have hn0 : (if peekSat cs isAsciiDigit = true then 1 + countWhile isDecimalDigit (cs.drop 1) else 0)
      ≤ asciiRun cs := by
    split
    · rename_i h
      have h1 : 1 ≤ asciiRun cs := peekSat_asciiRun h (fun _ h => isAsciiDigit_plain h)
      have := asciiRun_count (p := isDecimalDigit) h1 (fun _ h => isDecimalDigit_plain h)
      omega
    · omega
  generalize (if peekSat cs isAsciiDigit = true then 1 + countWhile isDecimalDigit (cs.drop 1) else 0) = n0 at hn0 ⊢
  split
  · rename_i h
    simp only [Bool.and_eq_true] at h
    have h1 := asciiRun_step hn0 h.1.1 (by decide)
    have := asciiRun_count (p := isBinaryDigit) h1 (fun _ h => isBinaryDigit_plain h)
    simp only [List.drop_drop]; omega
  · split
    · rename_i h
      simp only [Bool.and_eq_true] at h
      have h1 := asciiRun_step hn0 h.1.1 (by decide)
      have := asciiRun_count (p := isOctalDigit) h1 (fun _ h => isOctalDigit_plain h)
      simp only [List.drop_drop]; omega
    · split
      · rename_i h
        simp only [Bool.and_eq_true] at h
        have h1 := asciiRun_step hn0 h.1.1 (by decide)
        have := asciiRun_count (p := isHexDigit) h1 (fun _ h => isHexDigit_plain h)
        simp only [List.drop_drop]; omega
      · split
        · rename_i h
          have h1 := asciiRun_step hn0 h (by decide)
          have h2 := asciiRun_count (p := isDecimalDigit) h1 (fun _ h => isDecimalDigit_plain h)
          have key := numberExponent_le h2
          simp only [List.drop_drop] at key ⊢
          repeat' split
          all_goals first
            | exact hn0
            | exact key
            | (simpa [Nat.add_comm, Nat.add_left_comm, Nat.add_assoc] using key)
        · exact numberExponent_le hn0

/-! ### identifiers -/

theorem takeIdChars_eq_take (cs : List Ch) : takeIdChars cs = cs.take (takeIdChars cs).length := by
  cases cs with
  | nil => simp [takeIdChars]
  | cons c rest =>
    simp only [takeIdChars, List.length_cons, List.take_succ_cons]
    rw [← takeWhile_eq_take]

/-- if the identifier's code points equal a list of plain code points, that many characters of the
input are plain -/
theorem idCps_asciiRun {cs : List Ch} {k : List Nat} (h : (takeIdChars cs).map (·.cp) = k)
    (hk : ∀ cp ∈ k, plain cp = true) : k.length ≤ asciiRun cs := by
  have hl : (takeIdChars cs).length = k.length := by rw [← h]; simp
  have ht := takeIdChars_eq_take cs
  have hle : k.length ≤ cs.length := by
    rw [← hl, ht]; simp only [List.length_take]; omega
  apply map_cp_asciiRun cs k.length hle
  rw [← hl, ← ht, h]
  exact hk

theorem lookupKeyword_spec : ∀ (tbl : List (List Nat × Sym)) (idCps : List Nat) (n : Nat) (t : Sym),
    lookupKeyword idCps tbl = some (n, t) → ∃ k, (k, t) ∈ tbl ∧ idCps = k ∧ n = k.length := by
  intro tbl
  induction tbl with
  | nil => intro idCps n t h; simp [lookupKeyword] at h
  | cons e tbl ih =>
    intro idCps n t h
    obtain ⟨k, t'⟩ := e
    simp only [lookupKeyword] at h
    split at h
    · rename_i hk
      simp at hk
      cases h
      exact ⟨k, by simp, hk, rfl⟩
    · obtain ⟨k', h1, h2, h3⟩ := ih idCps n t h
      exact ⟨k', by simp [h1], h2, h3⟩

theorem lookupSymbol_spec : ∀ (tbl : List (List Nat × Sym)) (cs : List Ch) (n : Nat) (t : Sym),
    lookupSymbol cs tbl = some (n, t) → ∃ k, (k, t) ∈ tbl ∧ startsWith k cs = true ∧ n = k.length := by
  intro tbl
  induction tbl with
  | nil => intro cs n t h; simp [lookupSymbol] at h
  | cons e tbl ih =>
    intro cs n t h
    obtain ⟨k, t'⟩ := e
    simp only [lookupSymbol] at h
    split at h
    · rename_i hk
      cases h
      exact ⟨k, by simp, hk, rfl⟩
    · obtain ⟨k', h1, h2, h3⟩ := ih cs n t h
      exact ⟨k', by simp [h1], h2, h3⟩

/-- every code point in the generated keyword table is plain ASCII -/
theorem keywordTable_plain : ∀ e ∈ keywordTable, ∀ cp ∈ e.1, plain cp = true := by decide

/-- every code point in the generated symbol table is plain ASCII -/
theorem symbolTable_plain : ∀ e ∈ symbolTable, ∀ cp ∈ e.1, plain cp = true := by decide

theorem symbol_consumes {cs : List Ch} {n : Nat} {sy : Sym} (p : Pos)
    (h : lookupSymbol cs symbolTable = some (n, sy)) : Consumes true cs p (advLine p n) := by
  obtain ⟨k, h1, h2, h3⟩ := lookupSymbol_spec _ _ _ _ h
  subst h3
  exact consumes_ascii true (startsWith_asciiRun k cs h2 (symbolTable_plain _ h1))

theorem nlCount_takeWhile_mem (q : Ch → Bool) : ∀ cs : List Ch,
    (∀ c ∈ cs, q c = true → ¬ c.cp = cpNL) → nlCount (cs.takeWhile q) = 0 := by
  intro cs
  induction cs with
  | nil => intro _; simp
  | cons c cs ih =>
    intro hq
    simp only [List.takeWhile_cons]
    split
    · rename_i h
      simp [nlCount_cons, hq c (by simp) h, ih (fun d hd => hq d (by simp [hd]))]
    · simp

/-- the identifier scanner: bytes and widths are those of the first character plus the
XID_Continue run -/
theorem id_consumes {c : Ch} {rest : List Ch} (p : Pos) (ht : TableOk (c :: rest))
    (hs : c.idStart = true ∨ c.cp = cpUnderscore) (w : Nat) :
    Consumes true (c :: rest) p
      (advLineUtf8 p (c.len + (countWhileUtf8 (·.idCont) rest).1) w) := by
  have hb := countWhileUtf8_spec (·.idCont) rest
  have hn := nlCount_takeWhile_mem (·.idCont) rest (fun d hd hc => ht d (by simp [hd]) (Or.inr hc))
  have htk := takeWhile_eq_take (·.idCont) rest
  have hc : ¬ c.cp = cpNL := by
    rcases hs with hs | hs
    · exact ht c (by simp) (Or.inl hs)
    · rw [hs]; decide
  refine ⟨(rest.takeWhile (·.idCont)).length + 1, ?_, ?_, fun _ => ?_⟩
  · have := (List.takeWhile_sublist (l := rest) (·.idCont)).length_le
    simp; omega
  · simp only [List.take_succ_cons, byteLen_cons, ← htk, hb]
  · simp only [advLineUtf8, List.take_succ_cons, nlCount_cons, hc, ← htk, hn]; simp

end KotoVerif.Lexer
