/-
C01 layer 5: the structured code the compiler model emits and the flat instruction stream with
relative forward jumps (what the real compiler produces after patching its offset placeholders)
execute identically.
-/
import KotoVerif.Model.Compile

namespace KotoVerif.Compile

variable (S : Sem)

/-- execution of a flat instruction stream: a jump skips the given number of following
instructions (all jumps of the modelled core are forward jumps) -/
def execFlat : List Flat → Regs S → Option (Regs S)
  | [], σ => some σ
  | .op i :: rest, σ =>
    match stepInstr S i σ with
    | some σ1 => execFlat rest σ1
    | none => none
  | .jumpIfFalse r k :: rest, σ => if S.truthy (σ r) then execFlat rest σ else execFlat (rest.drop k) σ
  | .jumpIfTrue r k :: rest, σ => if S.truthy (σ r) then execFlat (rest.drop k) σ else execFlat rest σ
  | .jump k :: rest, σ => execFlat (rest.drop k) σ
termination_by l => l.length
decreasing_by all_goals simp_wf; all_goals omega

theorem drop_length_append {α : Type} (a b : List α) : (a ++ b).drop a.length = b := by simp

/-- **flatten_correct**: running `flatten c` followed by any continuation `rest` is running `c`
structurally and then `rest`. -/
theorem flatten_correct : ∀ (c : Code) (rest : List Flat) (σ : Regs S),
    execFlat S (flatten c ++ rest) σ =
      match exec S c σ with
      | some σ1 => execFlat S rest σ1
      | none => none := by
  intro c
  induction c with
  | nil => intro rest σ; simp [flatten, exec]
  | instr i =>
    intro rest σ
    simp only [flatten, exec, List.cons_append, List.nil_append]
    rw [execFlat]
  | seq a b iha ihb =>
    intro rest σ
    simp only [flatten, exec, List.append_assoc]
    rw [iha]
    cases exec S a σ with
    | none => rfl
    | some σ1 => simp only; rw [ihb]
  | jumpIfFalse r body ih =>
    intro rest σ
    simp only [flatten, exec, List.cons_append]
    rw [execFlat]
    by_cases h : S.truthy (σ r) = true
    · simp only [h, if_true]; rw [ih]
    · simp only [h]; simp only [Bool.false_eq_true, if_false]; rw [drop_length_append]
  | jumpIfTrue r body ih =>
    intro rest σ
    simp only [flatten, exec, List.cons_append]
    rw [execFlat]
    by_cases h : S.truthy (σ r) = true
    · simp only [h, if_true]; rw [drop_length_append]
    · simp only [h]; simp only [Bool.false_eq_true, if_false]; rw [ih]
  | ifElse r t withJump e iht ihe =>
    intro rest σ
    simp only [flatten, exec]
    cases withJump with
    | true =>
      simp only [if_true, List.cons_append, List.append_assoc]
      rw [execFlat]
      by_cases h : S.truthy (σ r) = true
      · simp only [h, if_true]
        rw [iht]
        cases exec S t σ with
        | none => rfl
        | some σ1 =>
          simp only
          rw [execFlat, drop_length_append]
      · simp only [h]; simp only [Bool.false_eq_true, if_false]
        have : (flatten t ++ (Flat.jump (flatten e).length :: (flatten e ++ rest))).drop ((flatten t).length + 1)
            = flatten e ++ rest := by
          rw [List.drop_append]; simp
        rw [this, ihe]
    | false =>
      simp only [Bool.false_eq_true, if_false, List.cons_append, List.append_assoc]
      rw [execFlat]
      by_cases h : S.truthy (σ r) = true
      · simp only [h, if_true]
        rw [iht]
        cases exec S t σ with
        | none => rfl
        | some σ1 => simp only; rw [ihe]
      · simp only [h]; simp only [Bool.false_eq_true, if_false]
        rw [drop_length_append, ihe]

/-- whole programs: the flat stream alone -/
theorem flatten_correct' (c : Code) (σ : Regs S) : execFlat S (flatten c) σ = exec S c σ := by
  have := flatten_correct S c [] σ
  simp only [List.append_nil] at this
  rw [this]
  cases exec S c σ with
  | none => rfl
  | some σ1 => simp [execFlat]

end KotoVerif.Compile
