/-
C13 helper lemmas, part 1: forward semantics of iterators.

`Fwd c s xs` — "from state `s`, the iterator `c` yields exactly `xs` and then `None` forever": for
every `n`, the outputs of `n` consecutive `next` calls are the first `n` entries of
`some x₀, some x₁, …, none, none, …`. This covers exhausted-iterator reuse (fusedness) as well.
A coinduction principle (`fwd_coind`) reduces every adaptor lemma to two one-step conditions.
-/
import KotoVerif.Model.Iter

namespace KotoVerif.Iter

/-- outputs of `n` consecutive `next` calls -/
def outs (c : Co) : Nat → c.σ → List (Option Val)
  | 0, _ => []
  | n + 1, s => (c.next s).out :: outs c n (c.next s).st

/-- what `n` consecutive `next` calls on an ideal sequence return -/
def ideal : Nat → List Val → List (Option Val)
  | 0, _ => []
  | n + 1, [] => none :: ideal n []
  | n + 1, x :: xs => some x :: ideal n xs

def Fwd (c : Co) (s : c.σ) (xs : List Val) : Prop := ∀ n, outs c n s = ideal n xs

theorem fwd_nil {c : Co} {s : c.σ} :
    Fwd c s [] ↔ (c.next s).out = none ∧ Fwd c (c.next s).st [] := by
  constructor
  · intro h
    refine ⟨?_, ?_⟩
    · have := h 1
      simp [outs, ideal] at this
      exact this
    · intro n
      have := h (n + 1)
      simp [outs, ideal] at this
      exact this.2
  · intro ⟨h1, h2⟩ n
    cases n with
    | zero => rfl
    | succ n => simp [outs, ideal, h1, h2 n]

theorem fwd_cons {c : Co} {s : c.σ} {x : Val} {xs : List Val} :
    Fwd c s (x :: xs) ↔ (c.next s).out = some x ∧ Fwd c (c.next s).st xs := by
  constructor
  · intro h
    refine ⟨?_, ?_⟩
    · have := h 1
      simp [outs, ideal] at this
      exact this
    · intro n
      have := h (n + 1)
      simp [outs, ideal] at this
      exact this.2
  · intro ⟨h1, h2⟩ n
    cases n with
    | zero => rfl
    | succ n => simp [outs, ideal, h1, h2 n]

/-- coinduction: a relation that is preserved by one step (and predicts its output) implies `Fwd` -/
theorem fwd_coind (c : Co) (R : c.σ → List Val → Prop)
    (hnil : ∀ s, R s [] → (c.next s).out = none ∧ R (c.next s).st [])
    (hcons : ∀ s x xs, R s (x :: xs) → (c.next s).out = some x ∧ R (c.next s).st xs) :
    ∀ s xs, R s xs → Fwd c s xs := by
  intro s xs h n
  induction n generalizing s xs with
  | zero => rfl
  | succ n ih =>
    cases xs with
    | nil =>
      have ⟨h1, h2⟩ := hnil s h
      simp [outs, ideal, h1, ih _ _ h2]
    | cons x xs =>
      have ⟨h1, h2⟩ := hcons s x xs h
      simp [outs, ideal, h1, ih _ _ h2]

/-- the head of the denotation is what `next` returns -/
theorem fwd_head {c : Co} {s : c.σ} {xs : List Val} (h : Fwd c s xs) : (c.next s).out = xs.head? := by
  cases xs with
  | nil => exact (fwd_nil.mp h).1
  | cons x xs => exact (fwd_cons.mp h).1

/-- the state after `next` denotes the tail -/
theorem fwd_tail {c : Co} {s : c.σ} {xs : List Val} (h : Fwd c s xs) : Fwd c (c.next s).st xs.tail := by
  cases xs with
  | nil => exact (fwd_nil.mp h).2
  | cons x xs => exact (fwd_cons.mp h).2

theorem fwd_unique {c : Co} {s : c.σ} {xs ys : List Val} (h1 : Fwd c s xs) (h2 : Fwd c s ys) : xs = ys := by
  induction xs generalizing s ys with
  | nil =>
    cases ys with
    | nil => rfl
    | cons y ys =>
      have a := (fwd_nil.mp h1).1
      have b := (fwd_cons.mp h2).1
      rw [a] at b
      cases b
  | cons x xs ih =>
    cases ys with
    | nil =>
      have a := (fwd_cons.mp h1).1
      have b := (fwd_nil.mp h2).1
      rw [a] at b
      cases b
    | cons y ys =>
      have a := fwd_cons.mp h1
      have b := fwd_cons.mp h2
      have : x = y := by
        have := a.1.symm.trans b.1
        cases this
        rfl
      subst this
      rw [ih a.2 b.2]

/-! ### sources -/

theorem drop_eq_nil_len {xs : List Val} {i : Nat} (h : [] = xs.drop i) : xs.length ≤ i := by
  have := congrArg List.length h
  simp at this
  omega

theorem drop_eq_cons {xs ys : List Val} {x : Val} {i : Nat} (h : x :: ys = xs.drop i) :
    xs[i]? = some x ∧ ys = xs.drop (i + 1) ∧ i < xs.length := by
  have hlt : i < xs.length := by
    have := congrArg List.length h
    simp at this
    omega
  refine ⟨?_, ?_, hlt⟩
  · have : (xs.drop i)[0]? = some x := by rw [← h]; rfl
    simpa using this
  · have : (xs.drop i).tail = ys := by rw [← h]; rfl
    rw [← this]
    simp [List.tail_drop]

theorem seq_fwd (xs : List Val) (i : Nat) :
    Fwd (seqCo xs) ⟨i, xs.length⟩ (xs.drop i) := by
  apply fwd_coind (seqCo xs) (fun (s : Idx) ys => s.stop = xs.length ∧ ys = xs.drop s.idx)
  · intro (s : Idx) ⟨h1, h3⟩
    have hlen := drop_eq_nil_len h3
    have hc : ¬ s.idx < s.stop := by omega
    simp [seqCo, hc]
    exact ⟨h1, hlen⟩
  · intro (s : Idx) x ys ⟨h1, h3⟩
    have ⟨hx, hys, hlt⟩ := drop_eq_cons h3
    have hc : s.idx < s.stop := by omega
    simp [seqCo, hc]
    exact ⟨hx, h1, hys⟩
  · exact ⟨rfl, rfl⟩

theorem fwdCo_fwd (xs : List Val) (i : Nat) : Fwd (fwdCo xs) i (xs.drop i) := by
  apply fwd_coind (fwdCo xs) (fun (s : Nat) ys => ys = xs.drop s)
  · intro (s : Nat) h
    have hlen := drop_eq_nil_len h
    have : xs[s]? = none := by simp [hlen]
    simp [fwdCo, this]
    exact hlen
  · intro (s : Nat) x ys h
    have ⟨hx, hys, _⟩ := drop_eq_cons h
    simp [fwdCo, hx]
    exact hys
  · rfl

theorem gen_fwd (k : Nat) (xs : List Val) (i : Nat) (b : Bool) : Fwd (genCo k xs) (i, b) (xs.drop i) := by
  apply fwd_coind (genCo k xs) (fun (s : Nat × Bool) ys => ys = xs.drop s.1)
  · intro (s : Nat × Bool) h
    have hlen := drop_eq_nil_len h
    have : xs[s.1]? = none := by simp [hlen]
    cases hb : s.2 <;> simp [genCo, this, hb] <;> exact hlen
  · intro (s : Nat × Bool) x ys h
    have ⟨hx, hys, _⟩ := drop_eq_cons h
    simp [genCo, hx]
    exact hys
  · rfl

theorem meta_fwd (k : Nat) (xs : List Val) (i : Nat) : Fwd (metaCo k xs) i (xs.drop i) := by
  apply fwd_coind (metaCo k xs) (fun (s : Nat) ys => ys = xs.drop s)
  · intro (s : Nat) h
    have hlen := drop_eq_nil_len h
    have : xs[s]? = none := by simp [hlen]
    simp [metaCo, this]
    exact hlen
  · intro (s : Nat) x ys h
    have ⟨hx, hys, _⟩ := drop_eq_cons h
    simp [metaCo, hx]
    exact hys
  · rfl

theorem rep_fwd (v : Val) (n : Nat) : Fwd (repCo v) n (List.replicate n v) := by
  apply fwd_coind (repCo v) (fun (s : Nat) ys => ys = List.replicate s v)
  · intro (s : Nat) h
    have : s = 0 := by
      cases s with
      | zero => rfl
      | succ m => simp [List.replicate_succ] at h
    subst this
    simp [repCo]
  · intro (s : Nat) x ys h
    cases s with
    | zero => simp at h
    | succ m =>
      simp [List.replicate_succ] at h
      simp [repCo, h.1, h.2]
  · rfl

theorem str_fwd (cl : List Val) : Fwd strCo cl cl := by
  apply fwd_coind strCo (fun (s : List Val) ys => ys = s)
  · intro (s : List Val) h
    subst h
    simp [strCo]
  · intro (s : List Val) x ys h
    subst h
    simp [strCo]
  · rfl

end KotoVerif.Iter
