/-
C05 `compile_wf`, byte level, part 3: layout of blocks, coverage state, landing of successors, and
the facts about the encoded flat stream of the compiler core.
-/
import KotoVerif.Lemmas.C05CWBytes2
import KotoVerif.Lemmas.C05CompileWF

set_option linter.unusedSimpArgs false

namespace KotoVerif.Bytecode
open KotoVerif.Gen

/-! ### generic layout facts -/

theorem esize_pos (i : Instr) : 0 < esize i := by simp [esize, encode_cons]

theorem lay_append (d : Option Depth) (A B : List Instr) :
    ∀ pc, lay d pc (A ++ B) = lay d pc A ++ lay d (pc + esizes A) B := by
  induction A with
  | nil => intro pc; simp [lay, esizes]
  | cons i rest ih =>
    intro pc
    simp only [List.cons_append, lay, ih, esizes, List.map_cons, List.sum_cons]
    simp [esizes, Nat.add_assoc]

theorem lay_start (d : Option Depth) (pc : Nat) (is : List Instr) :
    is = [] ∨ ∃ b rest, lay d pc is = b :: rest ∧ b.pc = pc := by
  cases is with
  | nil => exact .inl rfl
  | cons i rest => exact .inr ⟨_, _, rfl, rfl⟩

/-! ### coverage state after a block -/

/-- the `(fall-through, labels)` state of `CovU` after a block -/
def covAfter : Bool → List Nat → List Ann → Bool × List Nat
  | c, L, [] => (c, L)
  | _, L, a :: rest => covAfter (!isTerminal a.ins.op) (fwdTgts a ++ L) rest

theorem covAfter_append (A B : List Ann) :
    ∀ c L, covAfter c L (A ++ B) = covAfter (covAfter c L A).1 (covAfter c L A).2 B := by
  induction A with
  | nil => intros; rfl
  | cons a rest ih => intro c L; simp only [List.cons_append, covAfter, ih]

theorem covAfter_mono (A : List Ann) : ∀ c L p, p ∈ L → p ∈ (covAfter c L A).2 := by
  induction A with
  | nil => intro c L p h; exact h
  | cons a rest ih => intro c L p h; exact ih _ _ p (by simp [h])

theorem CovU_append (A B : List Ann) :
    ∀ c L, CovU c L A → CovU (covAfter c L A).1 (covAfter c L A).2 B → CovU c L (A ++ B) := by
  induction A with
  | nil => intro c L _ h; exact h
  | cons a rest ih =>
    intro c L hA hB
    exact ⟨hA.1, ih _ _ hA.2 hB⟩

/-! ### every successor lands on a later instruction of the block, or on its end -/

def Lands : List Ann → Nat → Prop
  | [], _ => True
  | a :: rest, e =>
    (∃ ps, succPcs a = some ps ∧ ∀ p ∈ ps, a.pc < p ∧ ((∃ b ∈ rest, b.pc = p) ∨ p = e)) ∧ Lands rest e

theorem Lands_append (A B : List Ann) (s e : Nat) (hA : Lands A s) (hB : Lands B e)
    (hstart : B = [] ∧ s = e ∨ ∃ b rest, B = b :: rest ∧ b.pc = s) : Lands (A ++ B) e := by
  induction A with
  | nil => exact hB
  | cons a rest ih =>
    obtain ⟨⟨ps, hs, hps⟩, hr⟩ := hA
    refine ⟨⟨ps, hs, fun p hp => ?_⟩, ih hr⟩
    obtain ⟨hlt, hor⟩ := hps p hp
    refine ⟨hlt, ?_⟩
    rcases hor with ⟨b, hb, hbp⟩ | hpe
    · exact .inl ⟨b, by simp [hb], hbp⟩
    · rcases hstart with ⟨_, hse⟩ | ⟨b, rb, hB', hbs⟩
      · exact .inr (by omega)
      · exact .inl ⟨b, by simp [hB'], by omega⟩

theorem TgtOk_append (A K : List Ann) (e : Nat) (hA : Lands A e) (hK : TgtOk K)
    (hstart : ∃ k rest, K = k :: rest ∧ k.pc = e) : TgtOk (A ++ K) := by
  induction A with
  | nil => exact hK
  | cons a rest ih =>
    obtain ⟨⟨ps, hs, hps⟩, hr⟩ := hA
    refine ⟨⟨ps, hs, fun p hp => ?_⟩, ih hr⟩
    obtain ⟨hlt, hor⟩ := hps p hp
    refine ⟨hlt, ?_⟩
    obtain ⟨k, rk, hK', hke⟩ := hstart
    rcases hor with ⟨b, hb, hbp⟩ | hpe
    · exact ⟨b, by simp [hb], hbp⟩
    · exact ⟨k, by simp [hK'], by omega⟩

end KotoVerif.Bytecode

namespace KotoVerif.Compile
open KotoVerif.Gen KotoVerif.Bytecode

/-! ### the encoded flat stream -/

theorem sizeOf_append (cidx : Int → Nat) (a b : List Flat) :
    sizeOf cidx (a ++ b) = sizeOf cidx a + sizeOf cidx b := by
  simp [sizeOf]

theorem esize_jif (r off : Nat) : esize ⟨.JumpIfFalse, [r, off]⟩ = 4 := by
  simp [esize, encode, Instr.fields, Instr.staticArgs, layout, tailLayout, encodeFields, encodeField, encodeU16, Op.code]
theorem esize_jit (r off : Nat) : esize ⟨.JumpIfTrue, [r, off]⟩ = 4 := by
  simp [esize, encode, Instr.fields, Instr.staticArgs, layout, tailLayout, encodeFields, encodeField, encodeU16, Op.code]
theorem esize_jump (off : Nat) : esize ⟨.Jump, [off]⟩ = 3 := by
  simp [esize, encode, Instr.fields, Instr.staticArgs, layout, tailLayout, encodeFields, encodeField, encodeU16, Op.code]

theorem esizes_encFlat (cidx : Int → Nat) (fs : List Flat) : esizes (encFlat cidx fs) = sizeOf cidx fs := by
  induction fs with
  | nil => rfl
  | cons f rest ih =>
    cases f with
    | op i => simp only [encFlat, esizes, sizeOf, List.map_cons, List.sum_cons, flatSize] at *; rw [ih]; rfl
    | jumpIfFalse r k => simp only [encFlat, esizes, sizeOf, List.map_cons, List.sum_cons, flatSize, esize_jif] at *; rw [ih]
    | jumpIfTrue r k => simp only [encFlat, esizes, sizeOf, List.map_cons, List.sum_cons, flatSize, esize_jit] at *; rw [ih]
    | jump k => simp only [encFlat, esizes, sizeOf, List.map_cons, List.sum_cons, flatSize, esize_jump] at *; rw [ih]

theorem encFlat_append (cidx : Int → Nat) (a b : List Flat) (ha : jumpsOk a = true) :
    encFlat cidx (a ++ b) = encFlat cidx a ++ encFlat cidx b := by
  induction a with
  | nil => rfl
  | cons f rest ih =>
    simp only [jumpsOk, Bool.and_eq_true, decide_eq_true_eq] at ha
    have ih' := ih ha.2
    cases f with
    | op i => simp [encFlat, ih']
    | jumpIfFalse r k =>
      have : (rest ++ b).take k = rest.take k := List.take_append_of_le_length (by simpa [Flat.skip] using ha.1)
      simp [encFlat, ih', this]
    | jumpIfTrue r k =>
      have : (rest ++ b).take k = rest.take k := List.take_append_of_le_length (by simpa [Flat.skip] using ha.1)
      simp [encFlat, ih', this]
    | jump k =>
      have : (rest ++ b).take k = rest.take k := List.take_append_of_le_length (by simpa [Flat.skip] using ha.1)
      simp [encFlat, ih', this]

theorem encFlat_eq_nil (cidx : Int → Nat) (fs : List Flat) (h : encFlat cidx fs = []) : fs = [] := by
  cases fs with
  | nil => rfl
  | cons f rest => cases f <;> simp [encFlat] at h

/-! ### successors of the encoded instructions -/

theorem encInstr_succ (cidx : Int → Nat) (x : Instr) (pc sz : Nat) (d : Option Depth) :
    succPcs ⟨pc, sz, encInstr cidx x, d⟩ = some [pc + sz] ∧ isTerminal (encInstr cidx x).op = false := by
  cases x with
  | setNull r => simp [encInstr, succPcs, fwdOffsets, Instr.fields, Instr.staticArgs, layout, tailLayout, Ann.next, isTerminal]
  | setBool r b => cases b <;> simp [encInstr, succPcs, fwdOffsets, Instr.fields, Instr.staticArgs, layout, tailLayout, Ann.next, isTerminal]
  | setInt r n =>
    simp only [encInstr, setIntInstr]
    split
    · simp [succPcs, fwdOffsets, Instr.fields, Instr.staticArgs, layout, tailLayout, Ann.next, isTerminal]
    · split
      · simp [succPcs, fwdOffsets, Instr.fields, Instr.staticArgs, layout, tailLayout, Ann.next, isTerminal]
      · split
        · simp [succPcs, fwdOffsets, Instr.fields, Instr.staticArgs, layout, tailLayout, Ann.next, isTerminal]
        · split
          · simp [succPcs, fwdOffsets, Instr.fields, Instr.staticArgs, layout, tailLayout, Ann.next, isTerminal]
          · simp [succPcs, fwdOffsets, Instr.fields, Instr.staticArgs, layout, tailLayout, Ann.next, isTerminal]
  | copy d s => simp [encInstr, succPcs, fwdOffsets, Instr.fields, Instr.staticArgs, layout, tailLayout, Ann.next, isTerminal]
  | unop op d s => cases op <;> simp [encInstr, unOpcode, succPcs, fwdOffsets, Instr.fields, Instr.staticArgs, layout, tailLayout, Ann.next, isTerminal]
  | binop op d a b => cases op <;> simp [encInstr, binOpcode, succPcs, fwdOffsets, Instr.fields, Instr.staticArgs, layout, tailLayout, Ann.next, isTerminal]
  | compound op l r => cases op <;> simp [encInstr, compoundOpcode, succPcs, fwdOffsets, Instr.fields, Instr.staticArgs, layout, tailLayout, Ann.next, isTerminal]

theorem succ_jif (pc sz r off : Nat) (d : Option Depth) :
    succPcs ⟨pc, sz, ⟨.JumpIfFalse, [r, off]⟩, d⟩ = some [pc + sz, pc + sz + off] := by
  simp [succPcs, fwdOffsets, Instr.fields, Instr.staticArgs, layout, tailLayout, Ann.next]
theorem succ_jit (pc sz r off : Nat) (d : Option Depth) :
    succPcs ⟨pc, sz, ⟨.JumpIfTrue, [r, off]⟩, d⟩ = some [pc + sz, pc + sz + off] := by
  simp [succPcs, fwdOffsets, Instr.fields, Instr.staticArgs, layout, tailLayout, Ann.next]
theorem succ_jump (pc sz off : Nat) (d : Option Depth) :
    succPcs ⟨pc, sz, ⟨.Jump, [off]⟩, d⟩ = some [pc + sz + off] := by
  simp [succPcs, argAt, Ann.next]

end KotoVerif.Compile
